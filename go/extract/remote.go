package main

import (
	"fmt"
	"go/ast"
	"strings"
)

// remoteFacts: facts about registry/remote that the C13 model is checked against.
func remoteFacts(lf *leanFile) {
	// default manifest media types (manifest.go)
	var types []string
	if f := parseFile("registry/remote/manifest.go"); f != nil {
		ast.Inspect(f, func(n ast.Node) bool {
			vs, ok := n.(*ast.ValueSpec)
			if !ok || len(vs.Names) != 1 || vs.Names[0].Name != "defaultManifestMediaTypes" || len(vs.Values) != 1 {
				return true
			}
			if cl, ok := vs.Values[0].(*ast.CompositeLit); ok {
				for _, e := range cl.Elts {
					if v, ok := resolveConst(e, "remote"); ok {
						types = append(types, v)
					} else {
						miss("registry/remote/manifest.go:defaultManifestMediaTypes element " + exprString(e))
					}
				}
			}
			return false
		})
	}
	if len(types) == 0 {
		miss("registry/remote/manifest.go:defaultManifestMediaTypes")
	}
	lf.def("remoteDefaultManifestTypes", "List String", leanStrList(types))
	// media types whose push / delete index referrers client side
	factCaseList(lf, "remotePushIndexedTypes", "registry/remote/repository.go", "manifestStore", "pushWithIndexing", "expected.MediaType", "remote", 0)
	factCaseList(lf, "remoteDeleteIndexedTypes", "registry/remote/repository.go", "manifestStore", "deleteWithIndexing", "target.MediaType", "remote", 0)
	// every `if` condition and every selector call of the functions that judge a response, in source order
	var rows []string
	for _, fn := range [][2]string{
		{"blobStore", "Fetch"}, {"manifestStore", "Fetch"}, {"", "generateBlobDescriptor"},
		{"manifestStore", "generateDescriptor"}, {"", "verifyContentDigest"}, {"Repository", "delete"},
		{"blobStore", "Mount"}, {"manifestStore", "push"}, {"blobStore", "completePushAfterInitialPost"},
		{"blobStore", "FetchReference"}, {"manifestStore", "FetchReference"},
	} {
		fd := funcDecl("registry/remote/repository.go", fn[0], fn[1])
		var conds []string
		if fd == nil {
			miss("registry/remote/repository.go:" + fn[1])
		} else {
			ast.Inspect(fd.Body, func(n ast.Node) bool {
				switch x := n.(type) {
				case *ast.IfStmt:
					conds = append(conds, "if "+exprString(x.Cond))
				case *ast.CaseClause:
					var vs []string
					for _, e := range x.List {
						vs = append(vs, exprString(e))
					}
					if len(vs) > 0 {
						conds = append(conds, "case "+strings.Join(vs, ","))
					}
				case *ast.CallExpr:
					s := exprString(x.Fun)
					if s == "verifyContentDigest" || s == "generateBlobDescriptor" || strings.HasSuffix(s, ".generateDescriptor") ||
						strings.HasSuffix(s, ".Resolve") || s == "httputil.NewReadSeekCloser" || s == "calculateDigestFromResponse" ||
						strings.HasSuffix(s, ".completePushAfterInitialPost") || strings.HasSuffix(s, ".Fetch") {
						conds = append(conds, "call "+s)
					}
				}
				return true
			})
		}
		name := fn[1]
		if fn[0] != "" {
			name = fn[0] + "." + fn[1]
		}
		rows = append(rows, fmt.Sprintf("(%s, %s)", leanStr(name), leanStrList(conds)))
	}
	lf.def("remoteChecks", "List (String × List String)", "["+strings.Join(rows, ",\n   ")+"]")
	// seek.go: the conditions of Seek, in source order
	var sconds []string
	if fd := funcDecl("internal/httputil/seek.go", "readSeekCloser", "Seek"); fd != nil {
		ast.Inspect(fd.Body, func(n ast.Node) bool {
			switch x := n.(type) {
			case *ast.IfStmt:
				sconds = append(sconds, "if "+exprString(x.Cond))
			case *ast.CaseClause:
				for _, e := range x.List {
					sconds = append(sconds, "case "+exprString(e))
				}
			case *ast.AssignStmt:
				if len(x.Lhs) == 1 {
					l := exprString(x.Lhs[0])
					if l == "offset" || strings.HasPrefix(l, "rsc.") {
						sconds = append(sconds, l+" "+x.Tok.String()+" "+exprString(x.Rhs[0]))
					}
				}
			}
			return true
		})
	} else {
		miss("internal/httputil/seek.go:Seek")
	}
	lf.def("seekSteps", "List String", leanStrList(sconds))
}

// referrersFlowFacts: the order in which Push / Delete / updateReferrersIndex touch the
// manifest, the new index and the old index, and what happens when the old index cannot be
// deleted (the C14 flow model's parameters).
func referrersFlowFacts(lf *leanFile) {
	const file = "registry/remote/repository.go"
	// calls of interest in source order, and the calls nested in the `if` that tests the
	// result of `probe`
	scan := func(fd *ast.FuncDecl, interesting func(string) string, probe string) (order []string, nested []string) {
		if fd == nil {
			return nil, nil
		}
		ast.Inspect(fd.Body, func(n ast.Node) bool {
			switch x := n.(type) {
			case *ast.CallExpr:
				if nm := interesting(exprString(x.Fun)); nm != "" {
					order = append(order, nm)
				}
			case *ast.IfStmt:
				if as, ok := x.Init.(*ast.AssignStmt); ok && len(as.Rhs) == 1 {
					if c, ok := as.Rhs[0].(*ast.CallExpr); ok && interesting(exprString(c.Fun)) == probe {
						ast.Inspect(x.Body, func(m ast.Node) bool {
							if c2, ok := m.(*ast.CallExpr); ok {
								if nm := interesting(exprString(c2.Fun)); nm != "" {
									nested = append(nested, nm)
								}
							}
							return true
						})
					}
				}
			}
			return true
		})
		return
	}
	names := func(m map[string]string) func(string) string { return func(s string) string { return m[s] } }
	// deleteWithIndexing
	fd := funcDecl(file, "manifestStore", "deleteWithIndexing")
	if fd == nil {
		miss(file + ":deleteWithIndexing")
	}
	order, nested := scan(fd, names(map[string]string{"s.indexReferrersForDelete": "index", "s.repo.delete": "delete"}), "index")
	lf.def("refDeleteCalls", "List String", leanStrList(order))
	lf.def("refDeleteOnIndexError", "List String", leanStrList(nested))
	usesCleanup := "false"
	if fd != nil {
		ast.Inspect(fd.Body, func(n ast.Node) bool {
			if c, ok := n.(*ast.CallExpr); ok && strings.HasSuffix(exprString(c.Fun), ".IsReferrersIndexDelete") {
				usesCleanup = "true"
			}
			return true
		})
	}
	lf.def("refDeleteTestsCleanupError", "Bool", usesCleanup)
	// pushWithIndexing
	fd = funcDecl(file, "manifestStore", "pushWithIndexing")
	if fd == nil {
		miss(file + ":pushWithIndexing")
	}
	order, _ = scan(fd, names(map[string]string{"s.push": "push", "s.indexReferrersForPush": "index"}), "")
	lf.def("refPushCalls", "List String", leanStrList(order))
	// updateReferrersIndex: the update closure
	fd = funcDecl(file, "manifestStore", "updateReferrersIndex")
	if fd == nil {
		miss(file + ":updateReferrersIndex")
	}
	order, nested = scan(fd, names(map[string]string{"s.push": "pushIndex", "pushIndex": "pushIndex", "s.repo.delete": "deleteOld",
		"applyReferrerChanges": "apply", "s.repo.referrersFromIndex": "read"}), "deleteOld")
	lf.def("refUpdateCalls", "List String", leanStrList(order))
	lf.def("refUpdateOnDeleteError", "List String", leanStrList(nested))
}

// capabilityFacts: every place of registry/remote that takes the address of, or assigns to,
// the referrersState field, with the operation applied there.
func capabilityFacts(lf *leanFile) {
	var rows []string
	for _, rel := range []string{"registry/remote/repository.go", "registry/remote/referrers.go", "registry/remote/registry.go", "registry/remote/manifest.go"} {
		f := parseFile(rel)
		if f == nil {
			continue
		}
		for _, d := range f.Decls {
			fd, ok := d.(*ast.FuncDecl)
			if !ok || fd.Body == nil {
				continue
			}
			ast.Inspect(fd.Body, func(n ast.Node) bool {
				switch x := n.(type) {
				case *ast.CallExpr:
					for _, a := range x.Args {
						if u, ok := a.(*ast.UnaryExpr); ok && strings.HasSuffix(exprString(u.X), ".referrersState") {
							row := fd.Name.Name + ":" + exprString(x.Fun)
							if len(x.Args) >= 2 && strings.Contains(exprString(x.Fun), "CompareAndSwap") {
								row += ":" + exprString(x.Args[1])
							}
							rows = append(rows, row)
						}
					}
				case *ast.AssignStmt:
					for _, l := range x.Lhs {
						if strings.HasSuffix(exprString(l), ".referrersState") {
							rows = append(rows, fd.Name.Name+":assign")
						}
					}
				case *ast.KeyValueExpr:
					if id, ok := x.Key.(*ast.Ident); ok && id.Name == "referrersState" {
						rows = append(rows, fd.Name.Name+":literal")
					}
				}
				return true
			})
		}
	}
	if len(rows) == 0 {
		miss("registry/remote: uses of referrersState")
	}
	lf.def("referrersStateUses", "List String", leanStrList(rows))
}

// tarfsFacts: how indexEntries derives the position it records.
func tarfsFacts(lf *leanFile) {
	var seek, posExpr string
	if fd := funcDecl("internal/fs/tarfs/tarfs.go", "TarFS", "indexEntries"); fd != nil {
		ast.Inspect(fd.Body, func(n ast.Node) bool {
			switch x := n.(type) {
			case *ast.AssignStmt:
				if len(x.Lhs) >= 1 && exprString(x.Lhs[0]) == "pos" && len(x.Rhs) == 1 {
					seek = exprString(x.Rhs[0])
				}
			case *ast.KeyValueExpr:
				if id, ok := x.Key.(*ast.Ident); ok && id.Name == "pos" {
					posExpr = exprString(x.Value)
				}
			}
			return true
		})
	}
	if seek == "" || posExpr == "" {
		miss("internal/fs/tarfs/tarfs.go:indexEntries pos")
	}
	lf.def("tarfsIndexPos", "List String", leanStrList([]string{seek, posExpr}))
	bs := "0"
	if f := parseFile("internal/fs/tarfs/tarfs.go"); f != nil {
		ast.Inspect(f, func(n ast.Node) bool {
			if vs, ok := n.(*ast.ValueSpec); ok && len(vs.Names) == 1 && vs.Names[0].Name == "blockSize" && len(vs.Values) == 1 {
				bs = exprString(vs.Values[0])
			}
			return true
		})
	}
	lf.def("tarfsBlockSize", "Nat", bs)
}

// compactFacts: the assignments and the result of the two in-place compaction loops.
func compactFacts(lf *leanFile) {
	var rows []string
	for _, fn := range [][3]string{{"copy.go", "", "removeForeignLayers"}, {"registry/remote/referrers.go", "", "filterReferrers"}} {
		fd := funcDecl(fn[0], fn[1], fn[2])
		var steps []string
		if fd == nil {
			miss(fn[0] + ":" + fn[2])
		} else {
			ast.Inspect(fd.Body, func(n ast.Node) bool {
				switch x := n.(type) {
				case *ast.RangeStmt:
					ast.Inspect(x.Body, func(m ast.Node) bool {
						switch y := m.(type) {
						case *ast.AssignStmt:
							if len(y.Lhs) == 1 && len(y.Rhs) == 1 {
								steps = append(steps, exprString(y.Lhs[0])+" "+y.Tok.String()+" "+exprString(y.Rhs[0]))
							}
						case *ast.IncDecStmt:
							steps = append(steps, exprString(y.X)+y.Tok.String())
						}
						return true
					})
					return false
				case *ast.ReturnStmt:
					if len(x.Results) == 1 {
						if se, ok := x.Results[0].(*ast.SliceExpr); ok && se.High != nil && se.Low == nil {
							steps = append(steps, exprString(se.X)+"[:"+exprString(se.High)+"]")
						}
					}
				}
				return true
			})
		}
		rows = append(rows, fmt.Sprintf("(%s, %s)", leanStr(fn[2]), leanStrList(steps)))
	}
	lf.def("compactLoops", "List (String × List String)", "["+strings.Join(rows, ",\n   ")+"]")
}

// lockFacts: for every method of oci.Store that takes one of the store's locks, the position
// of the lock statement among the body's statements, the lock taken, whether the next
// statement defers the matching unlock, and the kinds of the statements before it.
func lockFacts(lf *leanFile) {
	var rows []string
	f := parseFile("content/oci/oci.go")
	if f == nil {
		miss("content/oci/oci.go")
	} else {
		for _, d := range f.Decls {
			fd, ok := d.(*ast.FuncDecl)
			if !ok || fd.Body == nil || fd.Recv == nil || len(fd.Recv.List) != 1 || !strings.HasSuffix(exprString(fd.Recv.List[0].Type), "Store") {
				continue
			}
			for i, st := range fd.Body.List {
				es, ok := st.(*ast.ExprStmt)
				if !ok {
					continue
				}
				call, ok := es.X.(*ast.CallExpr)
				if !ok {
					continue
				}
				fn := exprString(call.Fun)
				if fn != "s.sync.Lock" && fn != "s.sync.RLock" && fn != "s.indexLock.Lock" {
					continue
				}
				deferred := "no-defer"
				if i+1 < len(fd.Body.List) {
					if ds, ok := fd.Body.List[i+1].(*ast.DeferStmt); ok {
						deferred = "defer " + exprString(ds.Call.Fun)
					}
				}
				var before []string
				for _, b := range fd.Body.List[:i] {
					switch x := b.(type) {
					case *ast.IfStmt:
						before = append(before, "if "+exprString(x.Cond))
					default:
						before = append(before, fmt.Sprintf("%T", b))
					}
				}
				rows = append(rows, fmt.Sprintf("%s:%d:%s:%s:[%s]", fd.Name.Name, i, fn, deferred, strings.Join(before, ";")))
				break
			}
		}
	}
	lf.def("ociLockDiscipline", "List String", leanStrList(rows))
}

// errutilFacts: what ParseErrorResponse does with the response body, and the bound it uses.
func errutilFacts(lf *leanFile) {
	const file = "registry/remote/internal/errutil/errutil.go"
	var readers []string
	if fd := funcDecl(file, "", "ParseErrorResponse"); fd != nil {
		ast.Inspect(fd.Body, func(n ast.Node) bool {
			if c, ok := n.(*ast.CallExpr); ok {
				for _, a := range c.Args {
					if exprString(a) == "resp.Body" {
						readers = append(readers, exprString(c))
					}
				}
			}
			return true
		})
	} else {
		miss(file + ":ParseErrorResponse")
	}
	lf.def("errBodyReaders", "List String", leanStrList(readers))
	limit := ""
	if f := parseFile(file); f != nil {
		ast.Inspect(f, func(n ast.Node) bool {
			if vs, ok := n.(*ast.ValueSpec); ok && len(vs.Names) == 1 && vs.Names[0].Name == "maxErrorBytes" && len(vs.Values) == 1 {
				limit = exprString(vs.Values[0])
			}
			return true
		})
	}
	lf.def("errBodyLimit", "String", leanStr(limit))
}

// extractDirFacts: the calls extractTarDirectory makes, per entry type and before the switch,
// the condition under which it applies a mode, and the link test in resolveRelToBase's walk.
func extractDirFacts(lf *leanFile) {
	callsIn := func(n ast.Node) []string {
		var out []string
		ast.Inspect(n, func(m ast.Node) bool {
			if ce, ok := m.(*ast.CallExpr); ok {
				name := exprString(ce.Fun)
				switch name {
				case "os.Lstat", "os.Remove", "writeFile", "os.MkdirAll", "ensureLinkPath", "os.Link", "os.Symlink", "resolveRelToBase", "os.Chmod", "os.Chtimes":
					out = append(out, name)
				}
			}
			return true
		})
		return out
	}
	var rows []string
	var prelude []string
	chmodGuard := ""
	if fd := funcDecl("content/file/utils.go", "", "extractTarDirectory"); fd == nil {
		miss("content/file/utils.go:extractTarDirectory")
	} else {
		ast.Inspect(fd.Body, func(n ast.Node) bool {
			switch x := n.(type) {
			case *ast.SwitchStmt:
				if exprString(x.Tag) != "header.Typeflag" {
					return true
				}
				for _, c := range x.Body.List {
					cc := c.(*ast.CaseClause)
					label := "default"
					if len(cc.List) > 0 {
						label = exprString(cc.List[0])
					}
					var calls []string
					for _, st := range cc.Body {
						calls = append(calls, callsIn(st)...)
					}
					rows = append(rows, fmt.Sprintf("(%s, %s)", leanStr(label), leanStrList(calls)))
				}
				return false
			case *ast.AssignStmt:
				if len(rows) == 0 {
					prelude = append(prelude, callsIn(x)...)
				}
			case *ast.IfStmt:
				if len(rows) > 0 && x.Init == nil {
					for _, c := range callsIn(x.Body) {
						if c == "os.Chmod" {
							chmodGuard = exprString(x.Cond)
						}
					}
				}
			}
			return true
		})
	}
	if len(rows) == 0 || chmodGuard == "" {
		miss("content/file/utils.go:extractTarDirectory switch / chmod")
	}
	lf.def("extractCases", "List (String × List String)", "["+strings.Join(rows, ",\n   ")+"]")
	lf.def("extractPrelude", "List String", leanStrList(prelude))
	lf.def("extractChmodGuard", "String", leanStr(chmodGuard))
	// resolveRelToBase: the loop over the ancestors
	var walk []string
	if fd := funcDecl("content/file/utils.go", "", "resolveRelToBase"); fd == nil {
		miss("content/file/utils.go:resolveRelToBase")
	} else {
		ast.Inspect(fd.Body, func(n ast.Node) bool {
			if fs, ok := n.(*ast.ForStmt); ok {
				walk = append(walk, "for "+exprString(fs.Cond))
				ast.Inspect(fs.Body, func(m ast.Node) bool {
					switch y := m.(type) {
					case *ast.IfStmt:
						if y.Init != nil {
							if as, ok := y.Init.(*ast.AssignStmt); ok && len(as.Rhs) == 1 {
								walk = append(walk, "init "+exprString(as.Rhs[0]))
							}
						}
						walk = append(walk, "if "+exprString(y.Cond))
					case *ast.ReturnStmt:
						if len(y.Results) == 2 {
							walk = append(walk, "return "+exprString(y.Results[1]))
						}
					case *ast.AssignStmt:
						if len(y.Lhs) == 1 && exprString(y.Lhs[0]) == "dir" {
							walk = append(walk, "dir = "+exprString(y.Rhs[0]))
						}
					}
					return true
				})
				return false
			}
			return true
		})
	}
	if len(walk) == 0 {
		miss("content/file/utils.go:resolveRelToBase loop")
	}
	lf.def("relToBaseWalk", "List String", leanStrList(walk))
}
