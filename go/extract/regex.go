package main

import (
	"fmt"
	"go/ast"
	"go/token"
	"path/filepath"
	"regexp/syntax"
	"strconv"
	"strings"
)

// mustCompileLits returns name -> pattern for `name = regexp.MustCompile(<string literal>)`
// declarations (var specs and map literal entries keyed by identifiers) in a file.
func mustCompileLits(rel string) map[string]string {
	out := map[string]string{}
	f := parseFile(rel)
	if f == nil {
		return out
	}
	lit := func(e ast.Expr) (string, bool) {
		c, ok := e.(*ast.CallExpr)
		if !ok || exprString(c.Fun) != "regexp.MustCompile" || len(c.Args) != 1 {
			return "", false
		}
		bl, ok := c.Args[0].(*ast.BasicLit)
		if !ok || bl.Kind != token.STRING {
			return "", false
		}
		s, err := strconv.Unquote(bl.Value)
		return s, err == nil
	}
	ast.Inspect(f, func(n ast.Node) bool {
		switch x := n.(type) {
		case *ast.ValueSpec:
			for i, nm := range x.Names {
				if i < len(x.Values) {
					if s, ok := lit(x.Values[i]); ok {
						out[nm.Name] = s
					}
				}
			}
		case *ast.KeyValueExpr:
			if s, ok := lit(x.Value); ok {
				out[exprString(x.Key)] = s
			}
		}
		return true
	})
	return out
}

// reToLean translates an anchored pattern (^…$) into a term of the Lean inductive `Re`.
func reToLean(pattern string) (string, error) {
	re, err := syntax.Parse(pattern, syntax.Perl)
	if err != nil {
		return "", err
	}
	if re.Op != syntax.OpConcat || len(re.Sub) < 2 ||
		re.Sub[0].Op != syntax.OpBeginText || re.Sub[len(re.Sub)-1].Op != syntax.OpEndText {
		return "", fmt.Errorf("pattern %q is not anchored with ^…$", pattern)
	}
	inner := re.Sub[1 : len(re.Sub)-1]
	return concatLean(inner)
}

func concatLean(subs []*syntax.Regexp) (string, error) {
	if len(subs) == 0 {
		return "Re.eps", nil
	}
	last, err := nodeLean(subs[len(subs)-1])
	if err != nil {
		return "", err
	}
	acc := last
	for i := len(subs) - 2; i >= 0; i-- {
		s, err := nodeLean(subs[i])
		if err != nil {
			return "", err
		}
		acc = fmt.Sprintf("(Re.cat %s %s)", s, acc)
	}
	return acc, nil
}

func clsLean(pairs []rune) string {
	var rs []string
	for i := 0; i+1 < len(pairs); i += 2 {
		rs = append(rs, fmt.Sprintf("(%d, %d)", pairs[i], pairs[i+1]))
	}
	return "(Re.cls [" + strings.Join(rs, ", ") + "])"
}

func nodeLean(re *syntax.Regexp) (string, error) {
	switch re.Op {
	case syntax.OpEmptyMatch:
		return "Re.eps", nil
	case syntax.OpLiteral:
		if re.Flags&syntax.FoldCase != 0 {
			return "", fmt.Errorf("case-folded literal unsupported")
		}
		var parts []*syntax.Regexp
		for _, r := range re.Rune {
			parts = append(parts, &syntax.Regexp{Op: syntax.OpCharClass, Rune: []rune{r, r}})
		}
		return concatLean(parts)
	case syntax.OpCharClass:
		return clsLean(re.Rune), nil
	case syntax.OpAnyChar:
		return clsLean([]rune{0, 0x10FFFF}), nil
	case syntax.OpAnyCharNotNL:
		return clsLean([]rune{0, 9, 11, 0x10FFFF}), nil
	case syntax.OpCapture:
		return nodeLean(re.Sub[0])
	case syntax.OpStar:
		s, err := nodeLean(re.Sub[0])
		return "(Re.star " + s + ")", err
	case syntax.OpPlus:
		s, err := nodeLean(re.Sub[0])
		return "(Re.cat " + s + " (Re.star " + s + "))", err
	case syntax.OpQuest:
		s, err := nodeLean(re.Sub[0])
		return "(Re.alt " + s + " Re.eps)", err
	case syntax.OpRepeat:
		s, err := nodeLean(re.Sub[0])
		if err != nil {
			return "", err
		}
		if re.Max < 0 {
			return fmt.Sprintf("(Re.cat (Re.rep %s %d %d) (Re.star %s))", s, re.Min, re.Min, s), nil
		}
		return fmt.Sprintf("(Re.rep %s %d %d)", s, re.Min, re.Max), nil
	case syntax.OpConcat:
		return concatLean(re.Sub)
	case syntax.OpAlternate:
		last, err := nodeLean(re.Sub[len(re.Sub)-1])
		if err != nil {
			return "", err
		}
		acc := last
		for i := len(re.Sub) - 2; i >= 0; i-- {
			s, err := nodeLean(re.Sub[i])
			if err != nil {
				return "", err
			}
			acc = fmt.Sprintf("(Re.alt %s %s)", s, acc)
		}
		return acc, nil
	}
	return "", fmt.Errorf("unsupported regexp op %v", re.Op)
}

func emitRegex(lf *leanFile, leanName string, lits map[string]string, goName, anchor string) {
	p, ok := lits[goName]
	tree := "Re.empty"
	if !ok {
		miss(anchor + ":" + goName)
	} else if t, err := reToLean(p); err != nil {
		miss(anchor + ":" + goName + " (" + err.Error() + ")")
	} else {
		tree = t
	}
	lf.def(leanName, "Re", tree)
	lf.def(leanName+"Src", "String", leanStr(p))
}

func regexFile() {
	lf := newLean("Regex.lean", "import OrasModel.Model.Re\nnamespace Oras.Gen\nopen Oras\n\n")
	ref := mustCompileLits("registry/reference.go")
	emitRegex(lf, "repositoryRe", ref, "repositoryRegexp", "registry/reference.go")
	emitRegex(lf, "tagRe", ref, "tagRegexp", "registry/reference.go")
	pack := mustCompileLits("pack.go")
	emitRegex(lf, "mediaTypeRe", pack, "mediaTypeRegexp", "pack.go")
	// go-digest: algorithm names and their anchored hex patterns
	var rows []string
	if d := modDir("github.com/opencontainers/go-digest"); d != "" {
		loadConsts("digest", d)
		alg := mustCompileLits(filepath.Join(d, "algorithm.go"))
		for _, name := range []string{"SHA256", "SHA384", "SHA512"} {
			p, ok := alg[name]
			an, ok2 := constTables["digest"][name]
			if !ok || !ok2 {
				miss("go-digest algorithm.go:" + name)
				continue
			}
			t, err := reToLean(p)
			if err != nil {
				miss("go-digest algorithm.go:" + name + " " + err.Error())
				continue
			}
			rows = append(rows, fmt.Sprintf("(%s, %s)", leanChars(an), t))
		}
	} else {
		miss("module github.com/opencontainers/go-digest")
	}
	lf.def("digestAlgs", "List (List Char × Re)", "["+strings.Join(rows, ",\n   ")+"]")
	lf.flush("end Oras.Gen\n")
}

func leanChars(s string) string {
	var parts []string
	for _, r := range s {
		parts = append(parts, fmt.Sprintf("Char.ofNat %d", r))
	}
	return "[" + strings.Join(parts, ", ") + "]"
}
