// Command extract is tie 1 between the Lean model and /repo: it reads the *current
// working tree* of oras-go with go/parser and regenerates lean/OrasModel/Gen/*.lean —
// case tables, constant values, call sequences and regular-expression syntax trees.
// Theorems in Props/*.lean import these files, so a source change that alters a fact
// re-elaborates (and possibly breaks) the theorems that depend on it.
//
// If an anchor cannot be found the fact is emitted empty and listed in
// "missing_anchors"; the extractor never guesses.
package main

import (
	"crypto/sha256"
	"encoding/json"
	"flag"
	"fmt"
	"go/ast"
	"go/parser"
	"go/token"
	"os"
	"os/exec"
	"path/filepath"
	"sort"
	"strconv"
	"strings"
)

var (
	repo    string
	missing []string
	nfacts  int
	fset    = token.NewFileSet()
	files   = map[string]*ast.File{}
)

func parseFile(rel string) *ast.File {
	if f, ok := files[rel]; ok {
		return f
	}
	p := rel
	if !filepath.IsAbs(rel) {
		p = filepath.Join(repo, rel)
	}
	f, err := parser.ParseFile(fset, p, nil, parser.ParseComments)
	if err != nil {
		files[rel] = nil
		return nil
	}
	files[rel] = f
	return f
}

// funcDecl finds a top-level function or method (recv may be "" or the receiver type name).
func funcDecl(rel, recv, name string) *ast.FuncDecl {
	f := parseFile(rel)
	if f == nil {
		return nil
	}
	for _, d := range f.Decls {
		fd, ok := d.(*ast.FuncDecl)
		if !ok || fd.Name.Name != name {
			continue
		}
		r := ""
		if fd.Recv != nil && len(fd.Recv.List) > 0 {
			t := fd.Recv.List[0].Type
			if st, ok := t.(*ast.StarExpr); ok {
				t = st.X
			}
			if id, ok := t.(*ast.Ident); ok {
				r = id.Name
			}
			if ix, ok := t.(*ast.IndexExpr); ok {
				if id, ok := ix.X.(*ast.Ident); ok {
					r = id.Name
				}
			}
		}
		if r == recv {
			return fd
		}
	}
	return nil
}

func exprString(e ast.Expr) string {
	switch x := e.(type) {
	case *ast.Ident:
		return x.Name
	case *ast.SelectorExpr:
		return exprString(x.X) + "." + x.Sel.Name
	case *ast.BasicLit:
		return x.Value
	case *ast.StarExpr:
		return "*" + exprString(x.X)
	case *ast.UnaryExpr:
		return x.Op.String() + exprString(x.X)
	case *ast.BinaryExpr:
		return exprString(x.X) + " " + x.Op.String() + " " + exprString(x.Y)
	case *ast.CallExpr:
		var args []string
		for _, a := range x.Args {
			args = append(args, exprString(a))
		}
		return exprString(x.Fun) + "(" + strings.Join(args, ", ") + ")"
	case *ast.ParenExpr:
		return "(" + exprString(x.X) + ")"
	case *ast.IndexExpr:
		return exprString(x.X) + "[" + exprString(x.Index) + "]"
	case *ast.CompositeLit:
		return exprString(x.Type) + "{…}"
	case *ast.ArrayType:
		return "[]" + exprString(x.Elt)
	}
	return fmt.Sprintf("<%T>", e)
}

// ---- constant resolution ----------------------------------------------------------

var constTables = map[string]map[string]string{} // package alias -> name -> string value
var intConsts = map[string]map[string]string{}

func loadConsts(alias, dir string) {
	tab := map[string]string{}
	itab := map[string]string{}
	matches, _ := filepath.Glob(filepath.Join(dir, "*.go"))
	for _, m := range matches {
		if strings.HasSuffix(m, "_test.go") {
			continue
		}
		f := parseFile(m)
		if f == nil {
			continue
		}
		for _, d := range f.Decls {
			gd, ok := d.(*ast.GenDecl)
			if !ok || (gd.Tok != token.CONST && gd.Tok != token.VAR) {
				continue
			}
			for _, s := range gd.Specs {
				vs := s.(*ast.ValueSpec)
				for i, n := range vs.Names {
					if i < len(vs.Values) {
						if bl, ok := vs.Values[i].(*ast.BasicLit); ok {
							if bl.Kind == token.STRING {
								v, err := strconv.Unquote(bl.Value)
								if err == nil {
									tab[n.Name] = v
								}
							} else {
								itab[n.Name] = bl.Value
							}
						} else {
							itab[n.Name] = exprString(vs.Values[i])
						}
					}
				}
			}
		}
	}
	constTables[alias] = tab
	intConsts[alias] = itab
}

func modDir(mod string) string {
	cmd := exec.Command("go", "list", "-m", "-f", "{{.Dir}}", mod)
	cmd.Dir = repo
	out, err := cmd.Output()
	if err != nil {
		return ""
	}
	return strings.TrimSpace(string(out))
}

// resolve a (possibly qualified) identifier to its string constant value; local is the
// alias table of the package the expression appears in.
func resolveConst(e ast.Expr, local string) (string, bool) {
	switch x := e.(type) {
	case *ast.BasicLit:
		if x.Kind == token.STRING {
			v, err := strconv.Unquote(x.Value)
			return v, err == nil
		}
	case *ast.SelectorExpr:
		if id, ok := x.X.(*ast.Ident); ok {
			if t, ok := constTables[id.Name]; ok {
				v, ok := t[x.Sel.Name]
				return v, ok
			}
		}
	case *ast.Ident:
		if t, ok := constTables[local]; ok {
			v, ok := t[x.Name]
			return v, ok
		}
	}
	return "", false
}

// ---- Lean emission ------------------------------------------------------------------

func leanStr(s string) string {
	var b strings.Builder
	b.WriteByte('"')
	for _, r := range s {
		switch r {
		case '"':
			b.WriteString("\\\"")
		case '\\':
			b.WriteString("\\\\")
		case '\n':
			b.WriteString("\\n")
		case '\t':
			b.WriteString("\\t")
		default:
			b.WriteRune(r)
		}
	}
	b.WriteByte('"')
	return b.String()
}

func leanStrList(l []string) string {
	q := make([]string, len(l))
	for i, s := range l {
		q[i] = leanStr(s)
	}
	return "[" + strings.Join(q, ", ") + "]"
}

type leanFile struct {
	name string
	b    strings.Builder
}

func newLean(name, header string) *leanFile {
	lf := &leanFile{name: name}
	lf.b.WriteString("/- GENERATED by /verif/go/extract from /repo's working tree — do not edit. -/\n")
	lf.b.WriteString(header)
	return lf
}

func (lf *leanFile) def(name, typ, val string) {
	nfacts++
	fmt.Fprintf(&lf.b, "def %s : %s :=\n  %s\n\n", name, typ, val)
}

var outDir string
var hashes []string

func (lf *leanFile) flush(footer string) {
	lf.b.WriteString(footer)
	content := lf.b.String()
	hashes = append(hashes, fmt.Sprintf("%x", sha256.Sum256([]byte(content))))
	p := filepath.Join(outDir, lf.name)
	old, err := os.ReadFile(p)
	if err == nil && string(old) == content {
		return // unchanged: keep mtime so that lake does not rebuild
	}
	if err := os.WriteFile(p, []byte(content), 0o644); err != nil {
		panic(err)
	}
}

func miss(anchor string) { missing = append(missing, anchor) }

// ---- fact: switch case lists --------------------------------------------------------

// caseValues returns, for the first switch over tagExpr found in fd, each clause's
// resolved string values; bodies are returned alongside.
type clause struct {
	values []string
	names  []string
	body   []ast.Stmt
	dflt   bool
}

func switchClauses(fd *ast.FuncDecl, tag string, local string) []clause {
	if fd == nil || fd.Body == nil {
		return nil
	}
	var out []clause
	found := false
	ast.Inspect(fd.Body, func(n ast.Node) bool {
		if found {
			return false
		}
		sw, ok := n.(*ast.SwitchStmt)
		if !ok || sw.Tag == nil || exprString(sw.Tag) != tag {
			return true
		}
		found = true
		for _, c := range sw.Body.List {
			cc := c.(*ast.CaseClause)
			cl := clause{body: cc.Body, dflt: cc.List == nil}
			for _, e := range cc.List {
				cl.names = append(cl.names, exprString(e))
				if v, ok := resolveConst(e, local); ok {
					cl.values = append(cl.values, v)
				} else {
					cl.values = append(cl.values, "?"+exprString(e))
				}
			}
			out = append(out, cl)
		}
		return false
	})
	return out
}

// fieldsUsed lists, in source order, the fields X.F (X in vars) that occur in the
// statements outside `if` conditions.
func fieldsUsed(body []ast.Stmt, vars map[string]bool) []string {
	var out []string
	var visit func(n ast.Node) bool
	visit = func(n ast.Node) bool {
		switch x := n.(type) {
		case *ast.IfStmt:
			if x.Init != nil {
				ast.Inspect(x.Init, visit)
			}
			ast.Inspect(x.Body, visit)
			if x.Else != nil {
				ast.Inspect(x.Else, visit)
			}
			return false
		case *ast.SelectorExpr:
			if id, ok := x.X.(*ast.Ident); ok && vars[id.Name] {
				out = append(out, x.Sel.Name)
				return false
			}
		}
		return true
	}
	for _, s := range body {
		ast.Inspect(s, visit)
	}
	return out
}

func factSuccessors(lf *leanFile) {
	fd := funcDecl("content/graph.go", "", "Successors")
	cls := switchClauses(fd, "node.MediaType", "content")
	var rows []string
	for _, c := range cls {
		if c.dflt {
			continue
		}
		fields := fieldsUsed(c.body, map[string]bool{"manifest": true, "index": true})
		for _, v := range c.values {
			rows = append(rows, fmt.Sprintf("(%s, %s)", leanStr(v), leanStrList(fields)))
		}
	}
	if len(rows) == 0 {
		miss("content/graph.go:Successors switch node.MediaType")
	}
	lf.def("successorsCases", "List (String × List String)", "["+strings.Join(rows, ",\n   ")+"]")
}

func factCaseList(lf *leanFile, leanName, file, recv, fn, tag, local string, clauseIdx int) {
	fd := funcDecl(file, recv, fn)
	cls := switchClauses(fd, tag, local)
	var vals []string
	if clauseIdx < len(cls) {
		vals = cls[clauseIdx].values
	}
	if len(vals) == 0 {
		miss(fmt.Sprintf("%s:%s switch %s", file, fn, tag))
	}
	lf.def(leanName, "List String", leanStrList(vals))
}

func main() {
	flag.StringVar(&repo, "repo", "/repo", "oras-go working tree")
	flag.StringVar(&outDir, "out", "", "output directory for Gen/*.lean")
	harness := flag.String("harness", "", "harness source dir (unused for now)")
	flag.Parse()
	_ = harness
	if err := os.MkdirAll(outDir, 0o755); err != nil {
		panic(err)
	}
	loadConsts("docker", filepath.Join(repo, "internal/docker"))
	loadConsts("spec", filepath.Join(repo, "internal/spec"))
	loadConsts("descriptor", filepath.Join(repo, "internal/descriptor"))
	loadConsts("remote", filepath.Join(repo, "registry/remote"))
	if d := modDir("github.com/opencontainers/image-spec"); d != "" {
		loadConsts("ocispec", filepath.Join(d, "specs-go/v1"))
	} else {
		miss("module github.com/opencontainers/image-spec")
	}

	facts := newLean("Facts.lean", "namespace Oras.Gen\n\n")
	factSuccessors(facts)
	factCaseList(facts, "manifestTypes", "internal/descriptor/descriptor.go", "", "IsManifest", "desc.MediaType", "descriptor", 0)
	factCaseList(facts, "foreignTypes", "internal/descriptor/descriptor.go", "", "IsForeignLayer", "desc.MediaType", "descriptor", 0)
	extraFacts(facts)
	facts.flush("end Oras.Gen\n")
	extraFiles()

	sort.Strings(hashes)
	h := sha256.Sum256([]byte(strings.Join(hashes, "")))
	out := map[string]any{"facts": nfacts, "gen_hash": fmt.Sprintf("%x", h[:8]), "missing_anchors": missing}
	b, _ := json.Marshal(out)
	fmt.Println(string(b))
}
