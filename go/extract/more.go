package main

import (
	"fmt"
	"go/ast"
	"go/token"
	"strings"
)

// extraFacts / extraFiles: further facts, added property by property.

func extraFacts(lf *leanFile) {
	// C03: which predecessor media types FilterArtifactType / FilterAnnotation fetch, and
	// which manifest fields fetchArtifactType returns, in source order
	factCaseList(lf, "filterATFetchTypes", "extendedcopy.go", "ExtendedCopyGraphOptions", "FilterArtifactType", "p.MediaType", "oras", 0)
	factCaseList(lf, "filterAnnFetchTypes", "extendedcopy.go", "ExtendedCopyGraphOptions", "FilterAnnotation", "p.MediaType", "oras", 0)
	fd := funcDecl("extendedcopy.go", "", "fetchArtifactType")
	var rows []string
	for _, c := range switchClauses(fd, "desc.MediaType", "oras") {
		if c.dflt {
			continue
		}
		fields := fieldsUsed(c.body, map[string]bool{"manifest": true, "index": true})
		for _, v := range c.values {
			rows = append(rows, fmt.Sprintf("(%s, %s)", leanStr(v), leanStrList(fields)))
		}
	}
	if len(rows) == 0 {
		miss("extendedcopy.go:fetchArtifactType switch desc.MediaType")
	}
	lf.def("fetchATCases", "List (String × List String)", "["+strings.Join(rows, ",\n   ")+"]")
	ociFacts(lf)
	retryFacts(lf)
	remoteFacts(lf)
	referrersFlowFacts(lf)
	capabilityFacts(lf)
	tarfsFacts(lf)
	compactFacts(lf)
	extractDirFacts(lf)
	lockFacts(lf)
	errutilFacts(lf)
	refFacts(lf)
	copyFacts(lf)
}

// copyFacts: where copyGraph's task gives its permit back and takes one again - inside the
// `if len(successors) != 0` block, around the dispatch of the successors - and nowhere else.
func copyFacts(lf *leanFile) {
	var inside []string
	total := 0
	fd := funcDecl("copy.go", "", "copyGraph")
	if fd == nil {
		miss("copy.go:copyGraph")
	} else {
		interesting := func(c *ast.CallExpr) string {
			n := exprString(c.Fun)
			if n == "region.End" || n == "region.Start" || n == "syncutil.Go" {
				return n
			}
			return ""
		}
		found := false
		ast.Inspect(fd.Body, func(n ast.Node) bool {
			switch x := n.(type) {
			case *ast.IfStmt:
				if exprString(x.Cond) == "len(successors) != 0" {
					found = true
					ast.Inspect(x.Body, func(m ast.Node) bool {
						if c, ok := m.(*ast.CallExpr); ok {
							if nm := interesting(c); nm != "" {
								inside = append(inside, nm)
							}
						}
						return true
					})
				}
			case *ast.CallExpr:
				if nm := interesting(x); nm == "region.End" || nm == "region.Start" {
					total++
				}
			}
			return true
		})
		if !found {
			miss("copy.go:copyGraph if len(successors) != 0")
		}
	}
	regionInside := 0
	for _, n := range inside {
		if n != "syncutil.Go" {
			regionInside++
		}
	}
	lf.def("copyGraphDispatchCalls", "List String", leanStrList(inside))
	lf.def("copyGraphRegionCallsElsewhere", "Nat", fmt.Sprint(total-regionInside))
}

// refFacts: ValidateRegistry accepts a registry only when the host net/url parsed out of it
// is the whole string (no user-info, query or fragment around it).
func refFacts(lf *leanFile) {
	cmp := "false"
	if fd := funcDecl("registry/reference.go", "Reference", "ValidateRegistry"); fd != nil {
		ast.Inspect(fd.Body, func(n ast.Node) bool {
			ifs, ok := n.(*ast.IfStmt)
			if !ok {
				return true
			}
			ast.Inspect(ifs.Cond, func(m ast.Node) bool {
				if b, ok := m.(*ast.BinaryExpr); ok && b.Op.String() == "!=" {
					x, y := exprString(b.X), exprString(b.Y)
					if (x == "uri.Host" && y == "r.Registry") || (y == "uri.Host" && x == "r.Registry") {
						cmp = "true"
					}
				}
				return true
			})
			return true
		})
	} else {
		miss("registry/reference.go:ValidateRegistry")
	}
	lf.def("registryHostMustEqual", "Bool", cmp)
}

// ociFacts: structural facts about content/oci/oci.go that the OCI model is parameterised by.
func ociFacts(lf *leanFile) {
	// gcIndex: is the walk's loop variable `subject` ever assigned (`subject = …`), or only
	// shadowed by `subject, err := …`?
	advances := "false"
	found := false
	if fd := funcDecl("content/oci/oci.go", "Store", "gcIndex"); fd != nil {
		ast.Inspect(fd.Body, func(n ast.Node) bool {
			as, ok := n.(*ast.AssignStmt)
			if !ok {
				return true
			}
			for _, r := range as.Rhs {
				if c, ok := r.(*ast.CallExpr); ok && exprString(c.Fun) == "manifestutil.Subject" {
					found = true
				}
			}
			if as.Tok == token.ASSIGN {
				for _, l := range as.Lhs {
					if id, ok := l.(*ast.Ident); ok && id.Name == "subject" {
						advances = "true"
					}
				}
			}
			return true
		})
	}
	if !found {
		miss("content/oci/oci.go:gcIndex manifestutil.Subject call")
	}
	lf.def("gcWalkAdvances", "Bool", advances)
	// gcIndex: is the referrer pass wrapped in a loop that repeats it (a `for` statement
	// whose body contains the range over refMap with the manifestutil.Subject walk)?
	repeats := "false"
	if fd := funcDecl("content/oci/oci.go", "Store", "gcIndex"); fd != nil {
		ast.Inspect(fd.Body, func(n ast.Node) bool {
			outer, ok := n.(*ast.ForStmt)
			if !ok {
				return true
			}
			for _, st := range outer.Body.List {
				if rg, ok := st.(*ast.RangeStmt); ok {
					has := false
					ast.Inspect(rg.Body, func(m ast.Node) bool {
						if c, ok := m.(*ast.CallExpr); ok && exprString(c.Fun) == "manifestutil.Subject" {
							has = true
						}
						return true
					})
					if has {
						repeats = "true"
					}
				}
			}
			return true
		})
	}
	lf.def("gcRepeatsReferrerPass", "Bool", repeats)
	// GC: is the index saved after gcIndex?
	saves := "false"
	if fd := funcDecl("content/oci/oci.go", "Store", "GC"); fd != nil {
		ast.Inspect(fd.Body, func(n ast.Node) bool {
			if c, ok := n.(*ast.CallExpr); ok {
				if f := exprString(c.Fun); f == "s.saveIndex" || f == "s.writeIndexFile" {
					saves = "true"
				}
			}
			return true
		})
	} else {
		miss("content/oci/oci.go:GC")
	}
	lf.def("gcSavesIndex", "Bool", saves)
	// Delete: how many times is isTagged consulted (danglings only, or referrers too)?
	nTagged := 0
	if fd := funcDecl("content/oci/oci.go", "Store", "Delete"); fd != nil {
		ast.Inspect(fd.Body, func(n ast.Node) bool {
			if c, ok := n.(*ast.CallExpr); ok && exprString(c.Fun) == "s.isTagged" {
				nTagged++
			}
			return true
		})
	} else {
		miss("content/oci/oci.go:Delete")
	}
	lf.def("deleteIsTaggedCalls", "Nat", fmt.Sprint(nTagged))
	// Delete: does the cascade check storage existence of queued nodes?
	checks := "false"
	if fd := funcDecl("content/oci/oci.go", "Store", "Delete"); fd != nil {
		ast.Inspect(fd.Body, func(n ast.Node) bool {
			if c, ok := n.(*ast.CallExpr); ok && exprString(c.Fun) == "s.storage.Exists" {
				checks = "true"
			}
			return true
		})
	}
	lf.def("deleteSkipsAbsent", "Bool", checks)
	// resolver.Memory.Tag: when a reference moves to other content, is it removed from the
	// tag set of the content it used to point to?
	drops := "false"
	if fd := funcDecl("internal/resolver/memory.go", "Memory", "Tag"); fd != nil {
		ast.Inspect(fd.Body, func(n ast.Node) bool {
			if c, ok := n.(*ast.CallExpr); ok {
				if sel, ok := c.Fun.(*ast.SelectorExpr); ok && sel.Sel.Name == "Delete" && len(c.Args) == 1 && exprString(c.Args[0]) == "reference" {
					drops = "true"
				}
			}
			return true
		})
	} else {
		miss("internal/resolver/memory.go:Memory.Tag")
	}
	lf.def("tagDropsStale", "Bool", drops)
	// file store saveFile: is the digest -> path entry recorded after the verified copy?
	after := "false"
	if fd := funcDecl("content/file/file.go", "Store", "saveFile"); fd != nil {
		copyPos, storePos := token.NoPos, token.NoPos
		ast.Inspect(fd.Body, func(n ast.Node) bool {
			if c, ok := n.(*ast.CallExpr); ok {
				switch exprString(c.Fun) {
				case "ioutil.CopyBuffer":
					copyPos = c.Pos()
				case "s.digestToPath.Store":
					storePos = c.Pos()
				}
			}
			return true
		})
		if copyPos == token.NoPos || storePos == token.NoPos {
			miss("content/file/file.go:saveFile CopyBuffer / digestToPath.Store")
		} else if storePos > copyPos {
			after = "true"
		}
	} else {
		miss("content/file/file.go:saveFile")
	}
	lf.def("fileRecordsPathAfterCopy", "Bool", after)
	// file store pushFile: is the target removed when saveFile fails?
	removes := "false"
	if fd := funcDecl("content/file/file.go", "Store", "pushFile"); fd != nil {
		ast.Inspect(fd.Body, func(n ast.Node) bool {
			ifs, ok := n.(*ast.IfStmt)
			if !ok || ifs.Init == nil || !strings.Contains(exprString(ifs.Cond), "err != nil") {
				return true
			}
			if as, ok := ifs.Init.(*ast.AssignStmt); !ok || len(as.Rhs) != 1 || !strings.HasPrefix(exprString(as.Rhs[0]), "s.saveFile(") {
				return true
			}
			ast.Inspect(ifs.Body, func(m ast.Node) bool {
				if c, ok := m.(*ast.CallExpr); ok && exprString(c.Fun) == "os.Remove" && len(c.Args) == 1 && exprString(c.Args[0]) == "target" {
					removes = "true"
				}
				return true
			})
			return true
		})
	} else {
		miss("content/file/file.go:pushFile")
	}
	lf.def("fileRemovesPartialOnFailure", "Bool", removes)
	lf.def("ociCalls", "List (String × List String)", "["+strings.Join([]string{
		callList("content/oci/oci.go", "Store", "Delete"),
		callList("content/oci/oci.go", "Store", "delete"),
		callList("content/oci/oci.go", "Store", "writeIndexFile"),
		callList("content/oci/oci.go", "Store", "saveIndex"),
		callList("content/oci/oci.go", "Store", "GC"),
		callList("content/oci/storage.go", "Storage", "Push"),
		callList("content/oci/storage.go", "Storage", "ingest"),
		callList("content/oci/storage.go", "Storage", "Delete"),
	}, ",\n   ")+"]")
	// the work claim shared by copyGraph, ExtendedCopyGraph and IndexAll
	lf.def("trackerCalls", "List String", func() string {
		row := callList("internal/status/tracker.go", "Tracker", "TryCommit")
		// callList renders (name, [calls]); keep the list part
		if i := strings.Index(row, "["); i >= 0 {
			return strings.TrimSuffix(row[i:], ")")
		}
		return "[]"
	}())
	// the in-memory content store: check, verified read, commit
	lf.def("casCalls", "List (String × List String)", "["+callList("internal/cas/memory.go", "Memory", "Push")+"]")
}

// retryFacts: is rand.Int64N in ExponentialBackoff called under an `if`?
func retryFacts(lf *leanFile) {
	guarded := "false"
	found := false
	if fd := funcDecl("registry/remote/retry/policy.go", "", "ExponentialBackoff"); fd != nil {
		var stack []ast.Node
		ast.Inspect(fd.Body, func(n ast.Node) bool {
			if n == nil {
				stack = stack[:len(stack)-1]
				return true
			}
			if c, ok := n.(*ast.CallExpr); ok && exprString(c.Fun) == "rand.Int64N" {
				found = true
				for _, p := range stack {
					if _, ok := p.(*ast.IfStmt); ok {
						guarded = "true"
					}
				}
			}
			stack = append(stack, n)
			return true
		})
	}
	if !found {
		miss("registry/remote/retry/policy.go:ExponentialBackoff rand.Int64N")
	}
	lf.def("backoffGuardsJitter", "Bool", guarded)
}

// callList: the ordered list of selector calls (pkg.Func / recv.Method) in a function body.
func callList(file, recv, fn string) string {
	fd := funcDecl(file, recv, fn)
	var calls []string
	if fd == nil {
		miss(file + ":" + fn)
	} else {
		ast.Inspect(fd.Body, func(n ast.Node) bool {
			if c, ok := n.(*ast.CallExpr); ok {
				if _, ok := c.Fun.(*ast.SelectorExpr); ok {
					calls = append(calls, exprString(c.Fun))
				}
			}
			return true
		})
	}
	return fmt.Sprintf("(%s, %s)", leanStr(recv+"."+fn), leanStrList(calls))
}

func extraFiles() { regexFile() }
