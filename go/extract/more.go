package main

import (
	"fmt"
	"strings"
)

// extraFacts / extraFiles: further facts, added property by property.

func extraFacts(lf *leanFile) {
	// C03: which predecessor media types FilterArtifactType / FilterAnnotation fetch, and
	// which manifest fields fetchArtifactType returns, in source order
	factCaseList(lf, "filterATFetchTypes", "extendedcopy.go", "ExtendedCopyGraphOptions", "FilterArtifactType", "p.MediaType", "oras", 0)
	factCaseList(lf, "filterAnnFetchTypes", "extendedcopy.go", "ExtendedCopyGraphOptions", "FilterAnnotation", "p.MediaType", "oras", 0)
	fd := funcDecl("extendedcopy.go", "", "fetchArtifactType")
	var rows []string
	for _, c := range switchClauses(fd, "desc.MediaType", "oras") {
		if c.dflt {
			continue
		}
		fields := fieldsUsed(c.body, map[string]bool{"manifest": true, "index": true})
		for _, v := range c.values {
			rows = append(rows, fmt.Sprintf("(%s, %s)", leanStr(v), leanStrList(fields)))
		}
	}
	if len(rows) == 0 {
		miss("extendedcopy.go:fetchArtifactType switch desc.MediaType")
	}
	lf.def("fetchATCases", "List (String × List String)", "["+strings.Join(rows, ",\n   ")+"]")
}

func extraFiles() { regexFile() }
