package main

// extraFacts / extraFiles: further facts, added property by property.

func extraFacts(lf *leanFile) {}

func extraFiles() { regexFile() }
