//go:build verif

package remote

import (
	"net/http"
	"net/url"
	"strings"

	ocispec "github.com/opencontainers/image-spec/specs-go/v1"
)

// Export shims for the verification harness (overlay only; never on disk in /repo).

var (
	VerifBuildManifestURL = buildRepositoryManifestURL
	VerifBuildBlobURL     = buildRepositoryBlobURL
)

// VerifApplyReferrerChanges drives the unexported applyReferrerChanges: adds[i] tells
// whether change i is an add (true) or a remove (false) of descs[i].
func VerifApplyReferrerChanges(referrers []ocispec.Descriptor, adds []bool, descs []ocispec.Descriptor) ([]ocispec.Descriptor, bool, error) {
	changes := make([]referrerChange, len(descs))
	for i, d := range descs {
		op := referrerOperationRemove
		if adds[i] {
			op = referrerOperationAdd
		}
		changes[i] = referrerChange{referrer: d, operation: op}
	}
	res, err := applyReferrerChanges(referrers, changes)
	if err == errNoReferrerUpdate {
		return nil, true, nil
	}
	return res, false, err
}

// VerifParseLink runs parseLink on a response carrying the given Link header, received
// for a request to base.  kind is "" on success, else noLink|missingOpen|missingClose|parse.
func VerifParseLink(link, base string) (string, string) {
	u, _ := url.Parse(base)
	resp := &http.Response{Header: http.Header{}, Request: &http.Request{URL: u}}
	if link != "" {
		resp.Header["Link"] = []string{link}
	}
	res, err := parseLink(resp)
	switch {
	case err == nil:
		return res, ""
	case err == errNoLink:
		return "", "noLink"
	case strings.HasSuffix(err.Error(), "missing '<'"):
		return "", "missingOpen"
	case strings.HasSuffix(err.Error(), "missing '>'"):
		return "", "missingClose"
	}
	return "", "parse"
}

var VerifFilterReferrers = filterReferrers
