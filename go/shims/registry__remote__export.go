//go:build verif

package remote

// Export shims for the verification harness (overlay only; never on disk in /repo).

var (
	VerifBuildManifestURL = buildRepositoryManifestURL
	VerifBuildBlobURL     = buildRepositoryBlobURL
)
