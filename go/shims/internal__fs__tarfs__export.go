//go:build verif

package tarfs

// Export shim for the verification harness (overlay only; never on disk in /repo).

// VerifEntryPositions returns, for every indexed entry, the offset tarfs recorded for it.
func (tfs *TarFS) VerifEntryPositions() map[string]int64 {
	m := map[string]int64{}
	for k, e := range tfs.entries {
		m[k] = e.pos
	}
	return m
}
