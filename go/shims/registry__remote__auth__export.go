//go:build verif

package auth

// Export shim for the verification harness (overlay only; never on disk in /repo).

// VerifParseChallenge runs the unexported WWW-Authenticate parser.
func VerifParseChallenge(header string) (string, map[string]string) {
	s, p := parseChallenge(header)
	return s.String(), p
}
