//go:build verif

package file

// Export shims for the verification harness (overlay only; never on disk in /repo).

func (s *Store) VerifResolveWritePath(name string) (string, error) { return s.resolveWritePath(name) }
