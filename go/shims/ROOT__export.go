//go:build verif

package oras

// Export shims for the verification harness (overlay only; never on disk in /repo).

var VerifFindRoots = findRoots

var VerifRemoveForeignLayers = removeForeignLayers
