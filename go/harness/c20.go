//go:build verif

package main

// C20: reference parsing, round trip, Repository.ParseReference and URL slots.

import (
	"bytes"
	"context"
	"fmt"
	"github.com/opencontainers/go-digest"
	ocispec "github.com/opencontainers/image-spec/specs-go/v1"
	"io"
	"math/rand"
	"net/http"
	"net/url"
	"strings"

	"oras.land/oras-go/v2/registry"
	"oras.land/oras-go/v2/registry/remote"
)

func init() { domains["C20"] = runC20 }

func regOK(s string) string {
	i := strings.Index(s, "/")
	if i < 0 {
		return "0"
	}
	if (registry.Reference{Registry: s[:i]}).ValidateRegistry() == nil {
		if strings.Contains(s[:i], "/") {
			panic("validReg accepted a registry containing '/'")
		}
		return "1"
	}
	return "0"
}

func showRefImpl(r registry.Reference, err error) string {
	if err != nil {
		return "err"
	}
	return "ok " + r.Registry + "|" + r.Repository + "|" + r.Reference
}

func enumStrings(alpha []byte, maxLen int, f func(string)) {
	var rec func(prefix []byte)
	rec = func(prefix []byte) {
		f(string(prefix))
		if len(prefix) == maxLen {
			return
		}
		for _, c := range alpha {
			rec(append(prefix, c))
		}
	}
	rec(nil)
}

func runC20(seed int64, tier string, sc *Script) map[string]any {
	rng := rand.New(rand.NewSource(seed))
	evals := 0
	accepted := map[string]bool{}
	parseOne := func(s string) {
		if strings.ContainsAny(s, " \t\n") {
			return
		}
		ro := regOK(s)
		ref, err := registry.ParseReference(s)
		sc.Op(showRefImpl(ref, err), "ref parse regok=%s s=%s", ro, s)
		evals++
		if err == nil {
			if !accepted[s] {
				accepted[s] = true
				sc.Nontriv++
			}
			r2, err2 := registry.ParseReference(ref.String())
			sc.Op(showRefImpl(r2, err2), "ref round regok=%s s=%s", ro, s)
			sc.Count("accepted")
		} else {
			sc.Count("rejected")
		}
	}
	sc.Case("parse-exhaustive")
	sc.NonTrivial()
	shortMax, pathMax := 3, 4
	regs := []string{"h", "h:5", "", "h@x", "[::1]:5", "H%41"}
	if tier == "thorough" {
		shortMax, pathMax = 5, 6
		regs = []string{"h", "h:5", ""}
	}
	// all short strings over the delimiter/class alphabet
	enumStrings([]byte("a0A.-_/:@%?#"), shortMax, parseOne)
	// registry "/" then every path over the grammar's alphabet
	for _, reg := range regs {
		enumStrings([]byte("aA_.-/:@#"), pathMax, func(p string) { parseOne(reg + "/" + p) })
	}
	// digests and long tags
	sc.Case("parse-digests")
	sc.NonTrivial()
	hex := func(n int) string { return strings.Repeat("0123456789abcdef", n/16+1)[:n] }
	digs := []string{
		"sha256:" + hex(64), "sha256:" + hex(63), "sha256:" + hex(65), "sha256:" + strings.ToUpper(hex(64)),
		"sha384:" + hex(96), "sha512:" + hex(128), "sha512:" + hex(64), "md5:" + hex(32), "sha256:", ":" + hex(64),
		"sha256:" + hex(32) + ":" + hex(31), "sha256:" + hex(63) + "g", "sha256+b64:" + hex(64),
	}
	tags := []string{"", "v1", "v1.0-rc_1", ".bad", "-bad", "_ok", strings.Repeat("t", 128), strings.Repeat("t", 129), "a:b", "a/b", "A"}
	repos := []string{"r", "a/b", "a//b", "a_b", "a__b", "a___b", "a-b", "a--b", "a.b", "a..b", "a-", "A", "a/b/c", ""}
	for _, repo := range repos {
		for _, d := range digs {
			parseOne("h:5/" + repo + "@" + d)
			// a digest introduced by ":" is a tag with a colon in it: outside the grammar
			parseOne("h:5/" + repo + ":" + d)
			for _, t := range tags[:4] {
				parseOne("h:5/" + repo + ":" + t + "@" + d)
			}
		}
		for _, t := range tags {
			parseOne("h:5/" + repo + ":" + t)
		}
		parseOne("h:5/" + repo)
		parseOne("h:5/" + repo + "@")
		parseOne("h:5/" + repo + "@" + digs[0] + "@" + digs[0])
	}
	// random mutations of valid references
	sc.Case("parse-mutations")
	sc.NonTrivial()
	muts := 2000
	if tier == "thorough" {
		muts = 60000
	}
	seeds := []string{"localhost:5000/hello-world:v1", "docker.io/library/alpine@" + digs[0], "h/a/b:t@" + digs[4], "[::1]:443/x_y.z"}
	mutAlpha := "aZ09._-/:@%?#["
	for i := 0; i < muts; i++ {
		b := []byte(seeds[rng.Intn(len(seeds))])
		for k := 0; k < 1+rng.Intn(3); k++ {
			pos := rng.Intn(len(b) + 1)
			switch rng.Intn(3) {
			case 0:
				if pos < len(b) {
					b[pos] = mutAlpha[rng.Intn(len(mutAlpha))]
				}
			case 1:
				b = append(b[:pos], append([]byte{mutAlpha[rng.Intn(len(mutAlpha))]}, b[pos:]...)...)
			case 2:
				if pos < len(b) {
					b = append(b[:pos], b[pos+1:]...)
				}
			}
		}
		parseOne(string(b))
	}
	// Repository.ParseReference and URL slots
	sc.Case("repository-forms")
	sc.NonTrivial()
	base := "h:5|a/b"
	repo, err := remote.NewRepository("h:5/a/b")
	if err != nil {
		panic(err)
	}
	inputs := []string{}
	for _, t := range tags {
		inputs = append(inputs, t)
		for _, d := range digs {
			inputs = append(inputs, t+"@"+d)
		}
	}
	for _, d := range digs {
		inputs = append(inputs, d, "h:5/a/b@"+d, "h:5/a/b:"+d, "h:5/a/b:t@"+d, "h:5/a/c@"+d, "x:5/a/b@"+d, "@"+d)
	}
	inputs = append(inputs, "h:5/a/b:v1", "h:5/a/b", "h:5/a/b:", "x/a/b:v1", "a/b:v1", "v1?x=1", "v1#f", "v1%2F", "../x", "a/../b")
	enumStrings([]byte("aA.:@/?#%"), 3, func(s string) { inputs = append(inputs, s) })
	// fully-qualified near misses: registries and repositories that differ from the
	// repository's own by letter case, one character, a port, a trailing dot, a path level
	flip := func(s string, i int) string {
		b := []byte(s)
		switch {
		case b[i] >= 'a' && b[i] <= 'z':
			b[i] -= 32
		case b[i] >= 'A' && b[i] <= 'Z':
			b[i] += 32
		}
		return string(b)
	}
	regVars := []string{"h:5", "H:5", "h:50", "h", "h.:5", "hh:5", "h:5.", "h:05"}
	repoVars := []string{"a/b", "a/B", "A/b", "a/b/c", "a", "b/a", "a//b", "a/bb"}
	for _, rv := range regVars {
		for _, pv := range repoVars {
			for _, suf := range []string{":v1", "@" + digs[0], ":t@" + digs[0], ""} {
				inputs = append(inputs, rv+"/"+pv+suf)
			}
		}
	}
	runForms := func(repo *remote.Repository, base string, wantHost string, inputs []string) {
		for _, in := range inputs {
			if strings.ContainsAny(in, " \t\n") {
				continue
			}
			ro := regOK(in)
			ref, err := repo.ParseReference(in)
			sc.Op(showRefImpl(ref, err), "ref repo regok=%s base=%s s=%s", ro, base, in)
			evals++
			for _, kind := range []string{"manifests", "blobs"} {
				ans := "err"
				if err == nil {
					var u string
					if kind == "manifests" {
						u = remote.VerifBuildManifestURL(false, ref)
					} else {
						u = remote.VerifBuildBlobURL(false, ref)
					}
					pu, perr := url.Parse(u)
					if perr != nil {
						ans = "unparsable-url"
					} else {
						ans = fmt.Sprintf("path=%s query=%s frag=%s", pu.EscapedPath(), pu.RawQuery, pu.Fragment)
						if pu.Host != wantHost {
							ans += " host=" + pu.Host
						}
					}
				}
				sc.Op(ans, "ref url kind=%s regok=%s base=%s s=%s", kind, ro, base, in)
				evals++
			}
		}
	}
	runForms(repo, base, "h:5", inputs)
	// the same forms through the operations that take a reference string: which requests go
	// out, and to which path
	{
		mbytes := []byte(`{"schemaVersion":2,"mediaType":"application/vnd.oci.image.manifest.v1+json","config":{"mediaType":"application/vnd.oci.empty.v1+json","digest":"sha256:44136fa355b3678a1146ad16f7e8649e94fb4fc21fe77e8310c060f61caaff8a","size":2},"layers":[]}`)
		mdesc := ocispec.Descriptor{MediaType: ocispec.MediaTypeImageManifest, Digest: digest.FromBytes(mbytes), Size: int64(len(mbytes))}
		rec := &recordingRT{body: mbytes, desc: mdesc}
		opRepo, err := remote.NewRepository("h:5/a/b")
		if err != nil {
			panic(err)
		}
		opRepo.Client = &http.Client{Transport: rec}
		ctx := context.Background()
		for _, in := range inputs {
			if strings.ContainsAny(in, " \t\n") || len(in) > 200 {
				continue
			}
			ro := regOK(in)
			for _, kind := range []string{"resolve", "fetchref", "pushref", "tag"} {
				rec.reqs = nil
				var err error
				switch kind {
				case "resolve":
					_, err = opRepo.Resolve(ctx, in)
				case "fetchref":
					var rc io.ReadCloser
					_, rc, err = opRepo.FetchReference(ctx, in)
					if err == nil {
						rc.Close()
					}
				case "pushref":
					err = opRepo.PushReference(ctx, mdesc, bytes.NewReader(mbytes), in)
				case "tag":
					err = opRepo.Tag(ctx, mdesc, in)
				}
				ans := "err"
				if len(rec.reqs) > 0 {
					ans = strings.Join(rec.reqs, " ")
				} else if err == nil {
					ans = "no-request"
				}
				sc.Op(ans, "ref req kind=%s regok=%s base=%s dg=%s s=%s", kind, ro, base, mdesc.Digest, in)
				evals++
			}
		}
		// the same for manifest kinds that are not OCI ones (Docker v2 manifest and list): the
		// reference is the reference, whatever the media type
		for _, mt := range []string{"application/vnd.docker.distribution.manifest.v2+json", "application/vnd.docker.distribution.manifest.list.v2+json"} {
			ddesc := ocispec.Descriptor{MediaType: mt, Digest: mdesc.Digest, Size: mdesc.Size}
			rec.desc = ddesc
			for _, in := range []string{"v1", "h:5/a/b:v1", "v1@" + mdesc.Digest.String(), mdesc.Digest.String(), "latest", "h:5/a/b@" + mdesc.Digest.String()} {
				for _, kind := range []string{"pushref", "tag"} {
					rec.reqs = nil
					var err error
					if kind == "pushref" {
						err = opRepo.PushReference(ctx, ddesc, bytes.NewReader(mbytes), in)
					} else {
						err = opRepo.Tag(ctx, ddesc, in)
					}
					ans := "err"
					if len(rec.reqs) > 0 {
						ans = strings.Join(rec.reqs, " ")
					} else if err == nil {
						ans = "no-request"
					}
					sc.Op(ans, "ref req kind=%s regok=%s base=%s dg=%s s=%s", kind, regOK(in), base, mdesc.Digest, in)
					evals++
				}
			}
			sc.Count("ref-req:" + mt)
		}
		rec.desc = mdesc
	}
	// Registry.Repository(name): the derived base reference is checked against the grammar too
	{
		sc.Case("registry-repository")
		sc.NonTrivial()
		reg, err := remote.NewRegistry("h:5")
		if err != nil {
			panic(err)
		}
		names := append([]string{"hello-world", "Hello-World", "a//b", "../_catalog", "hello-world:v0", "hello-world?n=1", "hello-world/manifests/latest?x=",
			"hello-world#frag", "a/b/c", "a_b", "a__b", "a___b", "a-", "-a", "a.", "0", strings.Repeat("r", 300), "a b", "a@b", "a%2Fb"}, repos...)
		enumStrings([]byte("aA_.-/:@#?"), 3, func(s string) { names = append(names, s) })
		for _, nm := range names {
			if strings.ContainsAny(nm, " \t\n") {
				continue
			}
			r, err := reg.Repository(context.Background(), nm)
			ans := "err"
			if err == nil {
				rr := r.(*remote.Repository)
				ans = "ok:" + rr.Reference.Registry + "|" + rr.Reference.Repository
			}
			sc.Op(ans, "ref regrepo name=%s", nm)
			evals++
		}
	}
	// a repository whose registry has letters in both cases and dots
	repo2, err := remote.NewRepository("Reg.Example.io/team/app")
	if err != nil {
		panic(err)
	}
	var in2 []string
	reg2 := "Reg.Example.io"
	for i := 0; i < len(reg2); i++ {
		if f := flip(reg2, i); f != reg2 {
			in2 = append(in2, f+"/team/app:v1", f+"/team/app@"+digs[0])
		}
	}
	in2 = append(in2, reg2+"/team/app:v1", reg2+"/team/app@"+digs[0], strings.ToLower(reg2)+"/team/app:v1",
		strings.ToUpper(reg2)+"/team/app:v1", reg2+"/team/App:v1", reg2+"/Team/app:v1", reg2+"/team/app/x:v1", "v1", digs[0], "v1@"+digs[0])
	runForms(repo2, "Reg.Example.io|team/app", "Reg.Example.io", in2)
	sc.Extra["evaluations"] = evals
	sc.Extra["exhaustive_short_len"] = shortMax
	sc.Extra["exhaustive_path_len"] = pathMax
	return nil
}

// recordingRT answers manifest requests of one repository and records method and path.
type recordingRT struct {
	reqs []string
	body []byte
	desc ocispec.Descriptor
}

func (r *recordingRT) RoundTrip(req *http.Request) (*http.Response, error) {
	line := req.Method + ":" + req.URL.EscapedPath()
	if req.URL.RawQuery != "" {
		line += "?" + req.URL.RawQuery
	}
	if req.URL.Host != "h:5" {
		line += "@" + req.URL.Host
	}
	r.reqs = append(r.reqs, line)
	if req.Body != nil {
		io.Copy(io.Discard, req.Body)
		req.Body.Close()
	}
	h := http.Header{}
	h.Set("Content-Type", r.desc.MediaType)
	h.Set("Docker-Content-Digest", r.desc.Digest.String())
	mk := func(code int, body []byte) *http.Response {
		return &http.Response{StatusCode: code, Status: fmt.Sprint(code), Header: h, ContentLength: int64(len(body)),
			Body: io.NopCloser(bytes.NewReader(body)), Request: req}
	}
	switch req.Method {
	case http.MethodHead:
		resp := mk(200, nil)
		resp.ContentLength = int64(len(r.body))
		return resp, nil
	case http.MethodGet:
		return mk(200, r.body), nil
	case http.MethodPut:
		return mk(201, nil), nil
	}
	return mk(404, nil), nil
}
