//go:build verif

package main

// Instrumented source / destination / callbacks for trace validation of copy runs
// (C01, C02, C03, C04).  Events are appended to one mutex-protected log: on entry of a
// wrapped call for *Start events, after the wrapped call returned for result events.

import (
	"bytes"
	"context"
	"encoding/json"
	"errors"
	"fmt"
	"io"
	"math/rand"
	"os"
	"strings"
	"sync"
	"sync/atomic"
	"time"

	ocispec "github.com/opencontainers/image-spec/specs-go/v1"
	oras "oras.land/oras-go/v2"
	"oras.land/oras-go/v2/content"
	"oras.land/oras-go/v2/content/file"
	"oras.land/oras-go/v2/content/memory"
	"oras.land/oras-go/v2/content/oci"
	"oras.land/oras-go/v2/errdef"
)

var errInjected = errors.New("injected fault")

type fault struct {
	op   string // exists fetch push succs preCopy postCopy skipped preds
	node int
	mode string // before | after | cancel
}

type copyRun struct {
	u      *Universe
	mu     sync.Mutex
	events []string // "name n"
	// gauges (C04)
	srcInFlight, dstInFlight   int32
	maxSrcInFlight, maxDstInFl int32
	fetches, pushes            map[int]int
	// faults (C02)
	faults []fault
	fired  int32
	cancel context.CancelFunc
	// latency
	rng        *rand.Rand
	rngMu      sync.Mutex
	maxDelay   time.Duration
	hold       map[int]time.Duration // hold a node's Push open
	onFetch    map[int]func()        // run once when the source is asked for the node (file-system faults)
	onAnyFetch func()                // run at every source fetch, before it (cancellation points)
	instant    []string              // per-push closure observations "n ok"
	truthDst   content.ReadOnlyStorage
}

func newCopyRun(u *Universe, seed int64) *copyRun {
	return &copyRun{u: u, fetches: map[int]int{}, pushes: map[int]int{}, rng: rand.New(rand.NewSource(seed)), hold: map[int]time.Duration{}, onFetch: map[int]func(){}}
}

func (r *copyRun) log(name string, n int) {
	r.mu.Lock()
	r.events = append(r.events, fmt.Sprintf("%s %d", name, n))
	r.mu.Unlock()
}

func (r *copyRun) delay() {
	if r.maxDelay <= 0 {
		return
	}
	r.rngMu.Lock()
	d := time.Duration(r.rng.Int63n(int64(r.maxDelay)))
	r.rngMu.Unlock()
	time.Sleep(d)
}

// faultFor reports the injected fault for (op,node), if any.
func (r *copyRun) faultFor(op string, n int) *fault {
	for i := range r.faults {
		f := &r.faults[i]
		if f.op == op && f.node == n {
			return f
		}
	}
	return nil
}

func (r *copyRun) fire(f *fault, n int) error {
	atomic.AddInt32(&r.fired, 1)
	if f.mode == "cancel" {
		r.log("cancel", n)
		if r.cancel != nil {
			r.cancel()
		}
		return nil
	}
	r.log("fault", n)
	return errInjected
}

func gaugeEnter(g, max *int32) {
	v := atomic.AddInt32(g, 1)
	for {
		m := atomic.LoadInt32(max)
		if v <= m || atomic.CompareAndSwapInt32(max, m, v) {
			break
		}
	}
}

// ---- source ----

type instrSrc struct {
	inner content.ReadOnlyStorage
	r     *copyRun
}

func (s *instrSrc) Fetch(ctx context.Context, d ocispec.Descriptor) (io.ReadCloser, error) {
	n := s.r.u.IDOf(d)
	gaugeEnter(&s.r.srcInFlight, &s.r.maxSrcInFlight)
	defer atomic.AddInt32(&s.r.srcInFlight, -1)
	s.r.mu.Lock()
	s.r.fetches[n]++
	s.r.mu.Unlock()
	if f := s.r.faultFor("fetch", n); f != nil {
		if err := s.r.fire(f, n); err != nil {
			return nil, err
		}
	}
	s.r.delay()
	if s.r.onAnyFetch != nil {
		s.r.onAnyFetch()
	}
	s.r.mu.Lock()
	hook := s.r.onFetch[n]
	delete(s.r.onFetch, n)
	s.r.mu.Unlock()
	rc, err := s.inner.Fetch(ctx, d)
	if hook != nil && err == nil {
		// the hook runs inside the first Read, i.e. while the destination is already
		// ingesting the content (after its own existence check)
		return &hookReadCloser{ReadCloser: rc, hook: hook}, nil
	}
	return rc, err
}

type hookReadCloser struct {
	io.ReadCloser
	hook func()
}

func (h *hookReadCloser) Read(p []byte) (int, error) {
	if h.hook != nil {
		h.hook()
		h.hook = nil
	}
	return h.ReadCloser.Read(p)
}

func (s *instrSrc) Exists(ctx context.Context, d ocispec.Descriptor) (bool, error) {
	return s.inner.Exists(ctx, d)
}

// ---- destination ----

type instrDst struct {
	inner content.Storage
	r     *copyRun
}

func (s *instrDst) Fetch(ctx context.Context, d ocispec.Descriptor) (io.ReadCloser, error) {
	return s.inner.Fetch(ctx, d)
}

func (s *instrDst) Exists(ctx context.Context, d ocispec.Descriptor) (bool, error) {
	n := s.r.u.IDOf(d)
	gaugeEnter(&s.r.dstInFlight, &s.r.maxDstInFl)
	defer atomic.AddInt32(&s.r.dstInFlight, -1)
	if f := s.r.faultFor("exists", n); f != nil {
		if err := s.r.fire(f, n); err != nil {
			return false, err
		}
	}
	s.r.delay()
	ok, err := s.inner.Exists(ctx, d)
	if err != nil {
		s.r.log("fault", n)
		return ok, err
	}
	if ok {
		s.r.log("existsT", n)
	} else {
		s.r.log("existsF", n)
	}
	return ok, err
}

func (s *instrDst) Push(ctx context.Context, d ocispec.Descriptor, rd io.Reader) error {
	n := s.r.u.IDOf(d)
	gaugeEnter(&s.r.dstInFlight, &s.r.maxDstInFl)
	defer atomic.AddInt32(&s.r.dstInFlight, -1)
	s.r.mu.Lock()
	s.r.pushes[n]++
	s.r.mu.Unlock()
	s.r.log("pushStart", n)
	f := s.r.faultFor("push", n)
	if f != nil && f.mode != "after" {
		if err := s.r.fire(f, n); err != nil {
			return err
		}
	}
	s.r.delay()
	if h, ok := s.r.hold[n]; ok {
		time.Sleep(h)
	}
	err := s.inner.Push(ctx, d, rd)
	if err != nil && !errors.Is(err, errdef.ErrAlreadyExists) {
		s.r.log("fault", n)
		return err
	}
	// the instant the push completed: are all successors there? (ground truth edges,
	// asked of the underlying store)
	verdict := "1"
	for _, k := range s.r.u.Nodes[n].Succ {
		if s.r.u.Nodes[k].Kind == KForeign {
			continue
		}
		if ok, _ := s.inner.Exists(ctx, s.r.u.Nodes[k].Desc); !ok {
			verdict = fmt.Sprintf("0(missing-%d)", k)
		}
	}
	s.r.mu.Lock()
	s.r.instant = append(s.r.instant, fmt.Sprintf("%d %s", n, verdict))
	s.r.mu.Unlock()
	if f != nil && f.mode == "after" {
		atomic.AddInt32(&s.r.fired, 1)
		s.r.log("pushOk", n)
		s.r.log("late", n)
		return errInjected
	}
	s.r.log("pushOk", n)
	return err
}

// instrTarget adds Tag/Resolve for oras.Copy.
type instrTarget struct {
	instrDst
	t oras.Target
}

func (s *instrTarget) Tag(ctx context.Context, d ocispec.Descriptor, ref string) error {
	n := s.r.u.IDOf(d)
	if f := s.r.faultFor("tag", n); f != nil {
		if err := s.r.fire(f, n); err != nil {
			return err
		}
	}
	s.r.log("tag", n)
	s.r.log("tag:"+ref, n)
	return s.t.Tag(ctx, d, ref)
}

func (s *instrTarget) Resolve(ctx context.Context, ref string) (ocispec.Descriptor, error) {
	return s.t.Resolve(ctx, ref)
}

// options installs recording callbacks.
func (r *copyRun) options(conc int) oras.CopyGraphOptions {
	cb := func(name string) func(ctx context.Context, d ocispec.Descriptor) error {
		return func(ctx context.Context, d ocispec.Descriptor) error {
			n := r.u.IDOf(d)
			if name == "mounted" {
				r.log("pushOk", n) // the mount itself succeeded: the content is there, whatever the callback says
			}
			if f := r.faultFor(name, n); f != nil {
				if err := r.fire(f, n); err != nil {
					return err
				}
			}
			r.log(name, n)
			return nil
		}
	}
	return oras.CopyGraphOptions{
		Concurrency:   conc,
		PreCopy:       cb("preCopy"),
		PostCopy:      cb("postCopy"),
		OnCopySkipped: cb("skipped"),
		OnMounted:     cb("mounted"),
		FindSuccessors: func(ctx context.Context, fetcher content.Fetcher, d ocispec.Descriptor) ([]ocispec.Descriptor, error) {
			n := r.u.IDOf(d)
			if f := r.faultFor("succs", n); f != nil {
				if err := r.fire(f, n); err != nil {
					return nil, err
				}
			}
			if d.MediaType == BundleMT {
				// the caller's own non-leaf type, read through the fetcher it is handed (the
				// copy's caching proxy), as the option's documentation recommends
				b, err := content.FetchAll(ctx, fetcher, d)
				if err != nil {
					return nil, err
				}
				var doc struct {
					Children []ocispec.Descriptor `json:"children"`
				}
				if err := json.Unmarshal(b, &doc); err != nil {
					return nil, err
				}
				return doc.Children, nil
			}
			return content.Successors(ctx, fetcher, d)
		},
	}
}

// ---- stores ----

type dstKind string

func newDst(kind dstKind, dir string) (oras.Target, func()) {
	switch kind {
	case "memory":
		return memory.New(), func() {}
	case "oci":
		s, err := oci.New(dir)
		if err != nil {
			panic(err)
		}
		return s, func() { os.RemoveAll(dir) }
	case "file":
		s, err := file.New(dir)
		if err != nil {
			panic(err)
		}
		return s, func() { s.Close(); os.RemoveAll(dir) }
	}
	panic("unknown dst kind " + string(kind))
}

// dkeyOf: how the destination's Exists keys a node.
func dkeyOf(kind dstKind, u *Universe, n *Node) int {
	if kind != "oci" {
		return n.ID
	}
	// digest-keyed: the smallest node id with the same digest
	for _, m := range u.Nodes {
		if m.Desc.Digest == n.Desc.Digest {
			return m.ID
		}
	}
	return n.ID
}

func pushAll(ctx context.Context, st content.Storage, u *Universe, ids []int) {
	for _, id := range ids {
		n := u.Nodes[id]
		if err := st.Push(ctx, n.Desc, bytes.NewReader(n.Bytes)); err != nil && !errors.Is(err, errdef.ErrAlreadyExists) {
			panic(fmt.Sprintf("prepopulate %d: %v", id, err))
		}
	}
}

// downClosure returns ids of everything reachable from the given nodes (children
// before parents), foreign layers excluded.
func downClosure(u *Universe, roots []int) []int {
	seen := map[int]bool{}
	var out []int
	var rec func(int)
	rec = func(n int) {
		if seen[n] || u.Nodes[n].Kind == KForeign {
			return
		}
		seen[n] = true
		for _, k := range u.Nodes[n].Succ {
			rec(k)
		}
		out = append(out, n)
	}
	for _, r := range roots {
		rec(r)
	}
	return out
}

func declareCopyGraph(sc *Script, u *Universe, kind dstKind) {
	sc.Def("cp new")
	for _, n := range u.Nodes {
		var kids []int
		for _, k := range n.Succ {
			if u.Nodes[k].Kind != KForeign {
				kids = append(kids, k)
			}
		}
		sc.Def("cp node %d kids=%s dkey=%d", n.ID, fmtInts(kids), dkeyOf(kind, u, n))
	}
}

func presentSet(ctx context.Context, st content.ReadOnlyStorage, u *Universe) string {
	var ids []int
	for _, n := range u.Nodes {
		if ok, _ := st.Exists(ctx, n.Desc); !ok {
			continue
		}
		// present means: the described bytes come back ("byte-identical to the source")
		rc, err := st.Fetch(ctx, n.Desc)
		if err != nil {
			continue
		}
		b, rerr := io.ReadAll(rc)
		rc.Close()
		if rerr == nil && bytes.Equal(b, n.Bytes) {
			ids = append(ids, n.ID)
		}
	}
	return fmtSet(ids)
}

func closedTruth(ctx context.Context, st content.ReadOnlyStorage, u *Universe) string {
	for _, n := range u.Nodes {
		if ok, _ := st.Exists(ctx, n.Desc); !ok {
			continue
		}
		for _, k := range n.Succ {
			if u.Nodes[k].Kind == KForeign {
				continue
			}
			if ok, _ := st.Exists(ctx, u.Nodes[k].Desc); !ok {
				return fmt.Sprintf("0(%d-lacks-%d)", n.ID, k)
			}
		}
	}
	return "1"
}

// emitRun writes the event log and the end-of-run observations of one copy call.
func emitRun(ctx context.Context, sc *Script, r *copyRun, err error, dst content.ReadOnlyStorage, cancelPlan bool) {
	r.mu.Lock()
	events := append([]string(nil), r.events...)
	instant := append([]string(nil), r.instant...)
	r.mu.Unlock()
	for _, e := range events {
		var name string
		var n int
		fmt.Sscanf(e, "%s %d", &name, &n)
		switch name {
		case "cancel", "tag":
			continue
		}
		if strings.Contains(name, ":") {
			continue // root-flow detail (tag:<ref>, pushRef:<ref>), judged by `cp rootflow`
		}
		sc.Op("ok", "cp ev %s %d", name, n)
		sc.Count("ev:" + name)
	}
	for _, in := range instant {
		var n int
		var v string
		fmt.Sscanf(in, "%d %s", &n, &v)
		sc.Op(v, "cp instant %d", n)
	}
	res := "ok"
	if err != nil {
		res = "err"
	}
	fired := 0
	if atomic.LoadInt32(&r.fired) > 0 {
		fired = 1
	}
	c := 0
	if cancelPlan {
		c = 1
	}
	sc.Op(res, "cp end res=%s fired=%d cancel=%d", res, fired, c)
	sc.Op(presentSet(ctx, dst, r.u), "cp present")
	sc.Op(closedTruth(ctx, dst, r.u), "cp closed")
	sc.Count("result:" + res)
}

// mountTarget makes the instrumented target a registry.Mounter: per node the mount either
// succeeds (the content appears without a transfer) or fails, in which case the content is
// obtained through getContent - which may tell the mounter to try the next repository.
type mountTarget struct {
	*instrTarget
	seed int64
}

func (m *mountTarget) mountSucceeds(n int) bool { return (int64(n)*7+m.seed)%3 == 0 }

func (m *mountTarget) Mount(ctx context.Context, d ocispec.Descriptor, fromRepo string, getContent func() (io.ReadCloser, error)) error {
	n := m.r.u.IDOf(d)
	// a fault of the mount itself, before any side effect, at the first candidate repository
	// (which is not the last one when MountFrom named two)
	if f := m.r.faultFor("mount", n); f != nil && fromRepo == "test/repo1" {
		if err := m.r.fire(f, n); err != nil {
			return err
		}
	}
	if m.mountSucceeds(n) {
		if err := m.instrDst.inner.Push(ctx, d, bytes.NewReader(m.r.u.Nodes[n].Bytes)); err != nil && !errors.Is(err, errdef.ErrAlreadyExists) {
			return err
		}
		return nil
	}
	rc, err := getContent()
	if err != nil {
		return err
	}
	defer rc.Close()
	return m.instrTarget.Push(ctx, d, rc)
}
