//go:build verif

package main

// C15: listings against the registry model with every pagination variant, Link header
// form and body size around the metadata limit; OCI-layout Tags.

import (
	"bytes"
	"context"
	"encoding/json"
	"errors"
	"fmt"
	"io"
	"math/rand"
	"net/http"
	"net/url"
	"os"
	"path/filepath"
	"sort"
	"strings"
	"sync/atomic"

	ocispec "github.com/opencontainers/image-spec/specs-go/v1"
	"oras.land/oras-go/v2/content"
	"oras.land/oras-go/v2/content/memory"
	"oras.land/oras-go/v2/content/oci"
	"oras.land/oras-go/v2/errdef"
	"oras.land/oras-go/v2/registry"
	"oras.land/oras-go/v2/registry/remote"
)

func init() { domains["C15"] = runC15 }

var errCallback = errors.New("callback failure")

type countingRT struct {
	base http.RoundTripper
	read *int64
}

type countingBody struct {
	io.ReadCloser
	n *int64
}

func (c countingBody) Read(p []byte) (int, error) {
	n, err := c.ReadCloser.Read(p)
	atomic.AddInt64(c.n, int64(n))
	return n, err
}

func (c countingRT) RoundTrip(r *http.Request) (*http.Response, error) {
	resp, err := c.base.RoundTrip(r)
	if err == nil {
		resp.Body = countingBody{resp.Body, c.read}
	}
	return resp, err
}

func pagesStr(p [][]string) string {
	if len(p) == 0 {
		return "-"
	}
	var parts []string
	for _, x := range p {
		parts = append(parts, strings.Join(x, ","))
	}
	return strings.Join(parts, ";")
}

func runC15(seed int64, tier string, sc *Script) map[string]any {
	rng := rand.New(rand.NewSource(seed))
	ctx := context.Background()
	evals := 0
	cases := 150
	if tier == "thorough" {
		cases = 6000
	}
	for ci := 0; ci < cases; ci++ {
		sc.Case("listing")
		sc.NonTrivial()
		prof := regProfile{ReferrersAPI: true, DigestHeaders: true, PageLimit: []int{0, 1, 2, 3, 5}[rng.Intn(5)], LinkStyle: rng.Intn(4), ServerFilter: rng.Intn(2) == 0, EmptyPages: rng.Intn(3) == 0}
		kind0 := []string{"tags", "repos", "referrers"}[ci%3]
		if kind0 == "referrers" && rng.Intn(3) == 0 {
			prof.ReferrersAPI = false // tag-schema fallback: the listing is the index under sha256-<hex>
		}
		reg := newFakeRegistry(prof)
		kind := []string{"tags", "repos", "referrers"}[ci%3]
		nItems := rng.Intn(10)
		pageSize := []int{0, 1, 2, 4}[rng.Intn(4)]
		var all []string
		cbfail := -1
		if rng.Intn(5) == 0 {
			cbfail = rng.Intn(3)
		}
		run := func(call func(fn func([]string) error) error, last string) {
			var delivered [][]string
			page := 0
			err := call(func(items []string) error {
				delivered = append(delivered, append([]string(nil), items...))
				if page == cbfail {
					return errCallback
				}
				page++
				return nil
			})
			res := "ok"
			if errors.Is(err, errCallback) {
				res = "cberr"
			} else if err != nil {
				res = "err"
			}
			reg.mu.Lock()
			served := append([][]string(nil), reg.served...)
			var hn, lastq strings.Builder
			for _, b := range reg.servedNext {
				if b {
					hn.WriteByte('1')
				} else {
					hn.WriteByte('0')
				}
			}
			want := last // the first request carries the caller's last; request i+1 carries link i's
			i := 0
			for _, l := range reg.log {
				if strings.Contains(l.Path, "tags/list") || strings.Contains(l.Path, "_catalog") {
					q, _ := url.ParseQuery(l.Query)
					if q.Get("last") == want {
						lastq.WriteByte('0')
					} else {
						lastq.WriteByte('1')
					}
					if i < len(reg.servedLast) {
						want = reg.servedLast[i]
					}
					i++
				}
			}
			reg.mu.Unlock()
			cb := "-"
			if cbfail >= 0 && res == "cberr" {
				cb = fmt.Sprint(cbfail)
			}
			l := last
			if l == "" {
				l = "-"
			}
			sc.Op("ok", "pg list kind=%s all=%s last=%s served=%s hasnext=%s delivered=%s cbfail=%s lastq=%s res=%s",
				kind, strings.Join(all, ","), l, pagesStr(served), hn.String(), pagesStr(delivered), cb, lastq.String(), res)
			evals++
			sc.Count("kind:" + kind)
			sc.Count(fmt.Sprintf("pages:%d", len(served)))
		}
		switch kind {
		case "tags":
			repo, _ := remote.NewRepository(reg.Host() + "/a/b")
			repo.PlainHTTP = true
			repo.TagListPageSize = pageSize
			mb := []byte(`{"schemaVersion":2}`)
			md := content.NewDescriptorFromBytes(ocispec.MediaTypeImageManifest, mb)
			for i := 0; i < nItems; i++ {
				t := fmt.Sprintf("t%02d", i*2)
				if err := repo.PushReference(ctx, md, bytes.NewReader(mb), t); err != nil {
					panic(err)
				}
				all = append(all, t)
			}
			last := ""
			if rng.Intn(2) == 0 && nItems > 0 {
				last = []string{all[rng.Intn(len(all))], fmt.Sprintf("t%02d", 1+2*rng.Intn(nItems)), "zzz", "a"}[rng.Intn(4)]
			}
			reg.mu.Lock()
			reg.log, reg.served, reg.servedNext, reg.servedLast = nil, nil, nil, nil
			reg.mu.Unlock()
			run(func(fn func([]string) error) error { return repo.Tags(ctx, last, fn) }, last)
		case "repos":
			for i := 0; i < nItems; i++ {
				name := fmt.Sprintf("r%02d", i*2)
				reg.mu.Lock()
				reg.repo(name)
				reg.mu.Unlock()
				all = append(all, name)
			}
			r, _ := remote.NewRegistry(reg.Host())
			r.PlainHTTP = true
			r.RepositoryListPageSize = pageSize
			last := ""
			if rng.Intn(2) == 0 && nItems > 0 {
				last = all[rng.Intn(len(all))]
			}
			run(func(fn func([]string) error) error { return r.Repositories(ctx, last, fn) }, last)
		case "referrers":
			repo, _ := remote.NewRepository(reg.Host() + "/a/b")
			repo.PlainHTTP = true
			repo.ReferrerListPageSize = pageSize
			sb := []byte(`{"schemaVersion":2,"subject-of":"c15"}`)
			sd := content.NewDescriptorFromBytes(ocispec.MediaTypeImageManifest, sb)
			if err := repo.Push(ctx, sd, bytes.NewReader(sb)); err != nil {
				panic(err)
			}
			type ref struct{ name, at string }
			var refs []ref
			for i := 0; i < nItems; i++ {
				// (artifact types with characters that need query escaping: '+' and '&')
				// and one that differs from the filtered type by letter case only
				at := []string{"application/vnd.at0", "application/vnd.at1+json&x", "application/vnd.AT1+json&x"}[i%3]
				b := []byte(fmt.Sprintf(`{"schemaVersion":2,"mediaType":%q,"artifactType":%q,"config":{"mediaType":"application/vnd.oci.empty.v1+json","digest":"sha256:44136fa355b3678a1146ad16f7e8649e94fb4fc21fe77e8310c060f61caaff8a","size":2},"layers":[],"subject":{"mediaType":%q,"digest":%q,"size":%d},"annotations":{"i":"x%02d"}}`,
					ocispec.MediaTypeImageManifest, at, sd.MediaType, sd.Digest, sd.Size, i))
				d := content.NewDescriptorFromBytes(ocispec.MediaTypeImageManifest, b)
				if err := repo.Push(ctx, d, bytes.NewReader(b)); err != nil {
					panic(err)
				}
				refs = append(refs, ref{fmt.Sprintf("x%02d", i), at})
			}
			filter := ""
			if rng.Intn(2) == 0 {
				filter = "application/vnd.at1+json&x"
			}
			// expected order: the registry's (by digest); ask the registry model
			reg.mu.Lock()
			listing := reg.referrersOf(reg.repo("a/b"), sd.Digest)
			if !prof.ReferrersAPI {
				listing = nil
				if idg, ok := reg.repo("a/b").tags[strings.Replace(sd.Digest.String(), ":", "-", 1)]; ok {
					var idx ocispec.Index
					json.Unmarshal(reg.repo("a/b").manifests[idg].bytes, &idx)
					listing = idx.Manifests
				}
			}
			for _, d := range listing {
				if filter == "" || d.ArtifactType == filter {
					all = append(all, d.Annotations["i"])
				}
			}
			reg.log, reg.served, reg.servedNext, reg.servedLast = nil, nil, nil, nil
			reg.mu.Unlock()
			kind = "referrers" // the spec compares flattened delivered items with `all`; `last` does not apply
			var delivered [][]string
			page := 0
			err := repo.Referrers(ctx, sd, filter, func(rs []ocispec.Descriptor) error {
				var names []string
				for _, r := range rs {
					names = append(names, r.Annotations["i"])
				}
				delivered = append(delivered, names)
				if page == cbfail {
					return errCallback
				}
				page++
				return nil
			})
			res := "ok"
			if errors.Is(err, errCallback) {
				res = "cberr"
			} else if err != nil {
				res = "err:" + strings.ReplaceAll(err.Error(), " ", "_")
			}
			// client-side filtering and empty pages change what the callback sees; compare flattened
			var flat []string
			for _, p := range delivered {
				flat = append(flat, p...)
			}
			verdict := "ok"
			if res == "ok" && strings.Join(flat, ",") != strings.Join(all, ",") {
				verdict = fmt.Sprintf("got=%s want=%s", strings.Join(flat, ","), strings.Join(all, ","))
			}
			if res == "cberr" && !strings.HasPrefix(strings.Join(all, ",")+",", strings.Join(flat, ",")) {
				verdict = "not-a-prefix"
			}
			if strings.HasPrefix(res, "err:") {
				verdict = res
			}
			for _, p := range delivered {
				if len(p) == 0 {
					verdict = "empty-page-delivered"
				}
			}
			sc.Op(verdict, "pg referrers n=%d api=%v filter=%v serverfilter=%v pagesize=%d limit=%d cbfail=%d", nItems, prof.ReferrersAPI, filter != "", prof.ServerFilter, pageSize, prof.PageLimit, cbfail)
			sc.Count(fmt.Sprintf("referrers-api:%v", prof.ReferrersAPI))
			evals++
			sc.Count("kind:referrers")
		}
		reg.Close()
	}
	// filterReferrers against the Lean compaction loop: every list over three artifact types up
	// to length 5, each filtered for each type
	sc.Case("filter-referrers")
	sc.NonTrivial()
	{
		types := map[byte]string{'a': "application/vnd.a", 'b': "application/vnd.b", 'c': "application/vnd.A"}
		var rec func(prefix []byte)
		rec = func(prefix []byte) {
			for _, w := range []byte("abc") {
				var ds []ocispec.Descriptor
				var items []string
				for k, t := range prefix {
					ds = append(ds, ocispec.Descriptor{MediaType: ocispec.MediaTypeImageManifest, ArtifactType: types[t], Annotations: map[string]string{"id": fmt.Sprint(k + 1)}})
					items = append(items, fmt.Sprintf("%d%c", k+1, t))
				}
				var kept []string
				for _, d := range remote.VerifFilterReferrers(ds, types[w]) {
					kept = append(kept, d.Annotations["id"])
				}
				l, a := "-", "-"
				if len(items) > 0 {
					l = strings.Join(items, ",")
				}
				if len(kept) > 0 {
					a = strings.Join(kept, ",")
				}
				sc.Op(a, "cm filter want=%c l=%s", w, l)
				evals++
			}
			if len(prefix) == 5 {
				return
			}
			for _, t := range []byte("abc") {
				rec(append(append([]byte(nil), prefix...), t))
			}
		}
		rec(nil)
	}
	// Link header forms
	sc.Case("parse-link")
	sc.NonTrivial()
	links := []string{"", "<http://h/v2/x?last=a>", "<http://h/v2/x?last=a>; rel=\"next\"", "<http://h/v2/x>", "no-bracket", "<unterminated", "<http://h/a>b>", " <http://h/a>",
		"<http://h/v2/x?n=1&last=z>; rel=\"next\"; title=\"t\"", ">", "<http://h/v2/x?last=%3E>", "x<http://h/>"}
	for i := 0; i < 40; i++ {
		// random link text over a small alphabet, absolute targets so that resolution is the identity
		var b strings.Builder
		for k := rng.Intn(6); k >= 0; k-- {
			b.WriteString([]string{"<", ">", "http://h/p", "?last=q", ";", " ", "rel=\"next\""}[rng.Intn(7)])
		}
		links = append(links, b.String())
	}
	for _, h := range links {
		res, kind := remote.VerifParseLink(h, "http://h/v2/x/tags/list")
		ans := "err:" + kind
		if kind == "" {
			ans = "ok:" + hx(res)
		}
		if kind == "parse" {
			continue
		}
		if kind == "" {
			// resolution against the request URL is net/url's; the model covers the header syntax.
			raw := h[1:strings.IndexByte(h, '>')]
			base, _ := url.Parse("http://h/v2/x/tags/list")
			if u, err := base.Parse(raw); err != nil || u.String() != res {
				ans = "RESOLUTION-DIFFERS:" + hx(res)
			} else {
				ans = "ok:" + hx(raw)
			}
		}
		sc.Op(ans, "pg link h=%s", hx(h))
		evals++
		sc.Count("link:" + strings.SplitN(ans, ":", 2)[0] + ":" + kind)
	}
	// metadata limit
	sc.Case("metadata-limit")
	sc.NonTrivial()
	for _, limit := range []int{64, 200, 1000} {
		for _, delta := range []int{-1, 0, 1, 50} {
			reg := newFakeRegistry(regProfile{DigestHeaders: true})
			repo, _ := remote.NewRepository(reg.Host() + "/a/b")
			repo.PlainHTTP = true
			var read int64
			repo.Client = &http.Client{Transport: countingRT{http.DefaultTransport, &read}}
			repo.MaxMetadataBytes = int64(limit)
			mb := []byte(`{"schemaVersion":2}`)
			md := content.NewDescriptorFromBytes(ocispec.MediaTypeImageManifest, mb)
			repo.PushReference(ctx, md, bytes.NewReader(mb), "only")
			// document: {"name":"x","pad":"ppp…","tags":["only"]}
			base := len(`{"name":"x","pad":"","tags":["only"]}`)
			reg.padBody = limit + delta - base
			atomic.StoreInt64(&read, 0)
			var got []string
			err := repo.Tags(ctx, "", func(ts []string) error { got = append(got, ts...); return nil })
			res := "ok"
			if err != nil {
				res = "err"
			} else if len(got) != 1 {
				res = "truncated-result"
			}
			within := "within"
			if atomic.LoadInt64(&read) > int64(limit) {
				within = "OVERREAD"
			}
			sc.Op(res+" "+within, "pg limit limit=%d body=%d res=%s read=%d", limit, limit+delta, res, atomic.LoadInt64(&read))
			evals++
			reg.Close()
		}
	}
	// metadata limit on the referrers listings: through the Referrers API (one JSON page) and
	// through the tag schema (the index manifest fetched by tag, with and without a digest
	// header).  The body size is measured with a generous limit first.
	sc.Case("metadata-limit-referrers")
	sc.NonTrivial()
	for _, prof := range []regProfile{{ReferrersAPI: true, DigestHeaders: true}, {ReferrersAPI: false, DigestHeaders: true}, {ReferrersAPI: false, DigestHeaders: false}} {
		for _, nref := range []int{1, 6} {
			reg := newFakeRegistry(prof)
			repo, _ := remote.NewRepository(reg.Host() + "/a/b")
			repo.PlainHTTP = true
			var read int64
			repo.Client = &http.Client{Transport: countingRT{http.DefaultTransport, &read}}
			sb := []byte(`{"schemaVersion":2,"mediaType":"application/vnd.oci.image.manifest.v1+json","config":{"mediaType":"application/vnd.oci.empty.v1+json","digest":"sha256:44136fa355b3678a1146ad16f7e8649e94fb4fc21fe77e8310c060f61caaff8a","size":2},"layers":[]}`)
			sd := content.NewDescriptorFromBytes(ocispec.MediaTypeImageManifest, sb)
			if err := repo.Push(ctx, sd, bytes.NewReader(sb)); err != nil {
				panic(err)
			}
			for k := 0; k < nref; k++ {
				rb := []byte(fmt.Sprintf(`{"schemaVersion":2,"mediaType":"application/vnd.oci.image.manifest.v1+json","artifactType":"application/vnd.verif.ref","config":{"mediaType":"application/vnd.oci.empty.v1+json","digest":"sha256:44136fa355b3678a1146ad16f7e8649e94fb4fc21fe77e8310c060f61caaff8a","size":2},"layers":[],"subject":{"mediaType":%q,"digest":%q,"size":%d},"annotations":{"k":"%d"}}`,
					sd.MediaType, sd.Digest, sd.Size, k))
				rd := content.NewDescriptorFromBytes(ocispec.MediaTypeImageManifest, rb)
				if err := repo.Push(ctx, rd, bytes.NewReader(rb)); err != nil {
					panic(err)
				}
			}
			list := func(limit int64) (int, error, int64) {
				repo.MaxMetadataBytes = limit
				atomic.StoreInt64(&read, 0)
				n := 0
				err := repo.Referrers(ctx, sd, "", func(rs []ocispec.Descriptor) error { n += len(rs); return nil })
				return n, err, atomic.LoadInt64(&read)
			}
			n0, err0, body := list(1 << 20)
			if err0 != nil || n0 != nref {
				panic(fmt.Sprintf("referrers baseline: n=%d err=%v", n0, err0))
			}
			for _, delta := range []int64{-1, 0, 1, -40} {
				limit := body + delta
				n, err, rd := list(limit)
				res := "ok"
				if err != nil {
					res = "err"
				} else if n != nref {
					res = "truncated-result"
				}
				within := "within"
				if rd > limit {
					within = "OVERREAD"
				}
				sc.Op(res+" "+within, "pg limit limit=%d body=%d res=%s read=%d kind=referrers api=%v digesthdr=%v", limit, body, res, rd, prof.ReferrersAPI, prof.DigestHeaders)
				evals++
			}
			reg.Close()
		}
	}
	// OCI layout Tags
	sc.Case("oci-tags")
	sc.NonTrivial()
	tmp, _ := os.MkdirTemp("", "verif-c15-")
	defer os.RemoveAll(tmp)
	for i := 0; i < 30; i++ {
		st, err := oci.New(filepath.Join(tmp, fmt.Sprint(i)))
		if err != nil {
			panic(err)
		}
		mb := []byte(fmt.Sprintf(`{"schemaVersion":2,"i":%d}`, i))
		md := content.NewDescriptorFromBytes(ocispec.MediaTypeImageManifest, mb)
		st.Push(ctx, md, bytes.NewReader(mb))
		var tags []string
		for k := 0; k < rng.Intn(7); k++ {
			t := []string{"a", "b", "B", "a1", "latest", "v1.0", "v10", "_x"}[rng.Intn(8)]
			st.Tag(ctx, md, t)
			tags = append(tags, t)
		}
		last := []string{"", "a", "b0", "zz", "A"}[rng.Intn(5)]
		var got []string
		st.Tags(ctx, last, func(ts []string) error { got = append(got, ts...); return nil })
		l := last
		if l == "" {
			l = "-"
		}
		sc.Op(strings.Join(got, ","), "pg ocitags tags=%s last=%s", strings.Join(tags, ","), l)
		evals++
	}
	// registry.Referrers over stores that are no ReferrerLister (memory, OCI layout): an image
	// manifest's artifact type is its artifactType field, and its config media type only when
	// that field is empty
	sc.Case("local-referrers")
	sc.NonTrivial()
	for _, storeKind := range []string{"memory", "oci"} {
		var st content.ReadOnlyGraphStorage
		var pusher content.Pusher
		if storeKind == "memory" {
			m := memory.New()
			st, pusher = m, m
		} else {
			dir, _ := os.MkdirTemp("", "verif-c15-oci-")
			defer os.RemoveAll(dir)
			o, err := oci.New(dir)
			if err != nil {
				panic(err)
			}
			st, pusher = o, o
		}
		push := func(mt string, b []byte) ocispec.Descriptor {
			d := content.NewDescriptorFromBytes(mt, b)
			if err := pusher.Push(ctx, d, bytes.NewReader(b)); err != nil && !errors.Is(err, errdef.ErrAlreadyExists) {
				panic(err)
			}
			return d
		}
		emptyCfg := push(ocispec.MediaTypeEmptyJSON, []byte("{}"))
		typedCfg := push("application/vnd.verif.cfgtype", []byte(`{"c":1}`))
		subj := push(ocispec.MediaTypeImageManifest, []byte(fmt.Sprintf(`{"schemaVersion":2,"mediaType":%q,"config":{"mediaType":%q,"digest":%q,"size":2},"layers":[]}`, ocispec.MediaTypeImageManifest, emptyCfg.MediaType, emptyCfg.Digest)))
		mk := func(id, at string, cfg ocispec.Descriptor) {
			push(ocispec.MediaTypeImageManifest, []byte(fmt.Sprintf(`{"schemaVersion":2,"mediaType":%q,"artifactType":%q,"config":{"mediaType":%q,"digest":%q,"size":%d},"layers":[],"subject":{"mediaType":%q,"digest":%q,"size":%d},"annotations":{"id":%q}}`,
				ocispec.MediaTypeImageManifest, at, cfg.MediaType, cfg.Digest, cfg.Size, subj.MediaType, subj.Digest, subj.Size, id)))
		}
		mk("both", "application/vnd.verif.at", emptyCfg)       // artifactType and the empty config: the usual 1.1 artifact
		mk("both-typed", "application/vnd.verif.at", typedCfg) // artifactType and a config type of its own
		mk("cfg-only", "", typedCfg)                           // no artifactType: the config media type stands in
		for _, filter := range []string{"", "application/vnd.verif.at", "application/vnd.verif.cfgtype", ocispec.MediaTypeEmptyJSON} {
			rs, err := registry.Referrers(ctx, st, subj, filter)
			var items []string
			for _, r := range rs {
				items = append(items, r.Annotations["id"]+"="+r.ArtifactType)
			}
			sort.Strings(items)
			ans := strings.Join(items, ",")
			if ans == "" {
				ans = "-"
			}
			if err != nil {
				ans = "err"
			}
			f := filter
			if f == "" {
				f = "-"
			}
			sc.Op(ans, "pg localreferrers store=%s filter=%s", storeKind, f)
			evals++
		}
	}
	// a listing answered with an error status and a huge body (a proxy's HTML page, a
	// megabyte of errors): no more than the bound for error bodies is read
	sc.Case("error-body-limit")
	sc.NonTrivial()
	for _, kind := range []string{"tags", "repositories", "referrers"} {
		for _, bodyKind := range []string{"json", "junk"} {
			var read int64
			big := bytes.Repeat([]byte("x"), 1<<20)
			if bodyKind == "json" {
				big = append([]byte(`{"errors":[{"code":"UNKNOWN","message":"`), append(bytes.Repeat([]byte("m"), 1<<20), []byte(`"}]}`)...)...)
			}
			rt := rtFuncC15(func(req *http.Request) (*http.Response, error) {
				h := http.Header{}
				h.Set("Content-Type", "application/json")
				return &http.Response{StatusCode: 500, Status: "500 Internal Server Error", Header: h, ContentLength: int64(len(big)),
					Body: countingBody{io.NopCloser(bytes.NewReader(big)), &read}, Request: req}, nil
			})
			var err error
			called := false
			switch kind {
			case "tags":
				repo, _ := remote.NewRepository("registry.invalid/a/b")
				repo.Client = &http.Client{Transport: rt}
				err = repo.Tags(ctx, "", func([]string) error { called = true; return nil })
			case "repositories":
				r, _ := remote.NewRegistry("registry.invalid")
				r.Client = &http.Client{Transport: rt}
				err = r.Repositories(ctx, "", func([]string) error { called = true; return nil })
			default:
				repo, _ := remote.NewRepository("registry.invalid/a/b")
				repo.Client = &http.Client{Transport: rt}
				repo.SetReferrersCapability(true)
				sd := content.NewDescriptorFromBytes(ocispec.MediaTypeImageManifest, []byte(`{"schemaVersion":2}`))
				err = repo.Referrers(ctx, sd, "", func([]ocispec.Descriptor) error { called = true; return nil })
			}
			ans := "within"
			switch {
			case err == nil:
				ans = "no-error"
			case called:
				ans = "callback-called"
			case atomic.LoadInt64(&read) > 8192:
				ans = fmt.Sprintf("over(read=%d)", atomic.LoadInt64(&read))
			}
			sc.Op(ans, "pg errbody kind=%s body=%s", kind, bodyKind)
			evals++
		}
	}
	sc.Extra["evaluations"] = evals
	return nil
}

// rtFuncC15 adapts a function to http.RoundTripper.
type rtFuncC15 func(*http.Request) (*http.Response, error)

func (f rtFuncC15) RoundTrip(r *http.Request) (*http.Response, error) { return f(r) }
