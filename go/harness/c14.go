//go:build verif

package main

// C14: client-maintained referrers indexes.  (a) exhaustive differential of the pure
// update function; (b) many goroutines pushing and deleting referrers through one
// Repository against a registry without the Referrers API.

import (
	"bytes"
	"context"
	"encoding/json"
	"errors"
	"fmt"
	"math/rand"
	"net/http"
	"sort"
	"strings"
	"sync"
	"sync/atomic"
	"time"

	"github.com/opencontainers/go-digest"
	ocispec "github.com/opencontainers/image-spec/specs-go/v1"
	"oras.land/oras-go/v2/content"
	"oras.land/oras-go/v2/registry/remote"
)

func init() { domains["C14"] = runC14 }

func rdesc(key, payload int) ocispec.Descriptor {
	if key == 0 {
		return ocispec.Descriptor{}
	}
	return ocispec.Descriptor{MediaType: ocispec.MediaTypeImageManifest, Digest: digest.FromString(fmt.Sprintf("ref-%d", key)), Size: int64(100 + key),
		ArtifactType: fmt.Sprintf("application/vnd.p%d", payload), Annotations: map[string]string{"p": fmt.Sprint(payload)}}
}

func rkey(d ocispec.Descriptor) int {
	if content.Equal(d, ocispec.Descriptor{}) {
		return 0
	}
	for k := 1; k <= 9; k++ {
		if d.Digest == digest.FromString(fmt.Sprintf("ref-%d", k)) {
			return k
		}
	}
	return -1
}

func rpayload(d ocispec.Descriptor) int {
	var p int
	fmt.Sscanf(d.Annotations["p"], "%d", &p)
	return p
}

func runC14(seed int64, tier string, sc *Script) map[string]any {
	rng := rand.New(rand.NewSource(seed))
	ctx := context.Background()
	evals := 0
	// (a) exhaustive
	sc.Case("apply-exhaustive")
	sc.NonTrivial()
	maxOld, maxCh := 3, 3
	if tier == "thorough" {
		maxOld, maxCh = 4, 3
	}
	var olds [][]int
	var recOld func(prefix []int)
	recOld = func(prefix []int) {
		olds = append(olds, append([]int(nil), prefix...))
		if len(prefix) == maxOld {
			return
		}
		for k := 0; k <= 3; k++ {
			recOld(append(prefix, k))
		}
	}
	recOld(nil)
	var chs [][]int // +k => k, -k => -k
	var recCh func(prefix []int)
	recCh = func(prefix []int) {
		chs = append(chs, append([]int(nil), prefix...))
		if len(prefix) == maxCh {
			return
		}
		for _, c := range []int{1, 2, 3, -1, -2, -3} {
			recCh(append(prefix, c))
		}
	}
	recCh(nil)
	for _, old := range olds {
		var oldDescs []ocispec.Descriptor
		var oldStr []string
		for i, k := range old {
			p := 10*(i+1) + k
			if k == 0 {
				p = 0
			}
			oldDescs = append(oldDescs, rdesc(k, p))
			oldStr = append(oldStr, fmt.Sprintf("%d:%d", k, p))
		}
		for _, ch := range chs {
			var adds []bool
			var descs []ocispec.Descriptor
			var chStr []string
			for i, c := range ch {
				k := c
				if k < 0 {
					k = -k
				}
				p := 100 + i
				adds = append(adds, c > 0)
				descs = append(descs, rdesc(k, p))
				sign := "+"
				if c < 0 {
					sign = "-"
				}
				chStr = append(chStr, fmt.Sprintf("%s%d:%d", sign, k, p))
			}
			res, noUpdate, err := remote.VerifApplyReferrerChanges(append([]ocispec.Descriptor(nil), oldDescs...), adds, descs)
			ans := ""
			switch {
			case err != nil:
				ans = "err"
			case noUpdate:
				ans = "none"
			default:
				var rs []string
				for _, d := range res {
					rs = append(rs, fmt.Sprintf("%d:%d", rkey(d), rpayload(d)))
				}
				ans = "-"
				if len(rs) > 0 {
					ans = strings.Join(rs, ",")
				}
			}
			o, c := "-", "-"
			if len(oldStr) > 0 {
				o = strings.Join(oldStr, ",")
			}
			if len(chStr) > 0 {
				c = strings.Join(chStr, ",")
			}
			sc.Op(ans, "rf apply old=%s changes=%s", o, c)
			evals++
			// the outcome the property speaks about: "no update needed", or the key set of
			// the new index (duplicates would show: the list is not de-duplicated here)
			switch {
			case err != nil:
				sc.Op("err", "rf outcome old=%s changes=%s", o, c)
			case noUpdate:
				sc.Op("none", "rf outcome old=%s changes=%s", o, c)
			default:
				var ks []int
				for _, d := range res {
					ks = append(ks, rkey(d))
				}
				sc.Op("keys="+fmtSet(ks), "rf outcome old=%s changes=%s", o, c)
			}
		}
	}
	// (a2) faults on the index maintenance itself, sequentially: an index that cannot be
	// deleted is reported as such *after* the update took effect; an index that cannot be
	// pushed leaves what was indexed before in place
	for ri := 0; ri < 12; ri++ {
		sc.Case("referrers-index-fault")
		sc.NonTrivial()
		reg := newFakeRegistry(regProfile{ReferrersAPI: false, DigestHeaders: ri%2 == 0})
		repo, err := remote.NewRepository(reg.Host() + "/test/repo")
		if err != nil {
			panic(err)
		}
		repo.PlainHTTP = true
		sb := []byte(fmt.Sprintf(`{"schemaVersion":2,"mediaType":%q,"config":{"mediaType":"application/vnd.oci.empty.v1+json","digest":"sha256:44136fa355b3678a1146ad16f7e8649e94fb4fc21fe77e8310c060f61caaff8a","size":2},"layers":[],"annotations":{"f":"%d"}}`, ocispec.MediaTypeImageManifest, ri))
		sub := content.NewDescriptorFromBytes(ocispec.MediaTypeImageManifest, sb)
		if err := repo.Push(ctx, sub, bytes.NewReader(sb)); err != nil {
			panic(err)
		}
		mkRef := func(i int) (ocispec.Descriptor, []byte) {
			b := []byte(fmt.Sprintf(`{"schemaVersion":2,"mediaType":%q,"artifactType":"application/vnd.verif.f","config":{"mediaType":"application/vnd.oci.empty.v1+json","digest":"sha256:44136fa355b3678a1146ad16f7e8649e94fb4fc21fe77e8310c060f61caaff8a","size":2},"layers":[],"subject":{"mediaType":%q,"digest":%q,"size":%d},"annotations":{"i":"%d"}}`,
				ocispec.MediaTypeImageManifest, sub.MediaType, sub.Digest, sub.Size, i))
			return content.NewDescriptorFromBytes(ocispec.MediaTypeImageManifest, b), b
		}
		listed := func() string {
			var got []string
			if err := repo.Referrers(ctx, sub, "", func(rs []ocispec.Descriptor) error {
				for _, r := range rs {
					got = append(got, r.Annotations["i"])
				}
				return nil
			}); err != nil {
				return "listing-failed"
			}
			sort.Strings(got)
			return strings.Join(got, ",")
		}
		nPre := 1 + ri%3
		for i := 0; i < nPre; i++ {
			d, b := mkRef(i)
			if err := repo.Push(ctx, d, bytes.NewReader(b)); err != nil {
				panic(err)
			}
		}
		before := listed()
		kind := []string{"deny-index-delete", "fail-index-put", "fail-index-get"}[(ri/2)%3]
		reg.mu.Lock()
		switch kind {
		case "deny-index-delete":
			reg.denyIndexDelete = true
		case "fail-index-put":
			reg.failIndexPutOnce = true
		default:
			reg.failIndexGetOnce = true
		}
		reg.mu.Unlock()
		d, b := mkRef(100)
		perr := repo.Push(ctx, d, bytes.NewReader(b))
		var re *remote.ReferrersError
		isIdxDel := errors.As(perr, &re) && re.IsReferrersIndexDelete()
		after := listed()
		verdict := "ok"
		switch kind {
		case "deny-index-delete":
			ws := append(strings.Split(before, ","), "100")
			sort.Strings(ws)
			want := strings.Join(ws, ",")
			switch {
			case !isIdxDel:
				verdict = "not-reported-as-index-delete-error"
			case after != want:
				verdict = fmt.Sprintf("update-did-not-take-effect(listed=%s,want=%s)", after, want)
			}
		case "fail-index-put", "fail-index-get":
			// (an index that cannot be read must not be taken for an empty one)
			switch {
			case perr == nil:
				verdict = "failed-index-push-not-reported"
			case after != before:
				verdict = fmt.Sprintf("indexed-referrers-lost(listed=%s,before=%s)", after, before)
			}
		}
		sc.Op(verdict, "rf fault kind=%s pre=%d digesthdr=%v", kind, nPre, ri%2 == 0)
		evals++
		// the same faults while a referrer is deleted: whatever the call reports, the listing
		// is the set of referrers that are still there
		reg.mu.Lock()
		reg.denyIndexDelete, reg.failIndexPutOnce, reg.failIndexGetOnce = false, false, false
		switch kind {
		case "deny-index-delete":
			reg.denyIndexDelete = true
		case "fail-index-put":
			reg.failIndexPutOnce = true
		default:
			reg.failIndexGetOnce = true
		}
		reg.mu.Unlock()
		// (the referrer whose push was refused above may be stored without being listed - the
		// caller was told; it is left out of the comparison)
		skip100 := perr != nil && !isIdxDel
		liveSet := func() string {
			var live []string
			for i := 0; i <= 100; i++ {
				if (i >= nPre && i != 100) || (i == 100 && skip100) {
					continue
				}
				di, _ := mkRef(i)
				if ok, err := repo.Exists(ctx, di); err == nil && ok {
					live = append(live, fmt.Sprint(i))
				}
			}
			sort.Strings(live)
			return strings.Join(live, ",")
		}
		victim, _ := mkRef(0)
		derr := repo.Delete(ctx, victim)
		isIdxDel = errors.As(derr, &re) && re.IsReferrersIndexDelete()
		// (a delete that empties the index pushes no new one and may not need to read the old:
		// the once-only faults that did not fire are no faults)
		reg.mu.Lock()
		fired := kind == "deny-index-delete" || !(reg.failIndexPutOnce || reg.failIndexGetOnce)
		reg.mu.Unlock()
		verdict = "ok"
		if got, live := listed(), liveSet(); got != live {
			verdict = fmt.Sprintf("listing-is-not-the-live-set(listed=%s,live=%s,err=%v)", got, live, derr != nil)
		} else if kind == "deny-index-delete" && derr != nil && !isIdxDel {
			verdict = "not-reported-as-index-delete-error"
		} else if kind != "deny-index-delete" && fired && derr == nil {
			verdict = "failed-index-update-not-reported"
		}
		sc.Op(strings.ReplaceAll(verdict, " ", "_"), "rf fault kind=%s-on-delete pre=%d digesthdr=%v", kind, nPre, ri%2 == 0)
		evals++
		// with nothing in the way the same delete goes through (or has gone through)
		reg.mu.Lock()
		reg.denyIndexDelete, reg.failIndexPutOnce, reg.failIndexGetOnce = false, false, false
		reg.mu.Unlock()
		derr = repo.Delete(ctx, victim)
		verdict = "ok"
		if got, live := listed(), liveSet(); got != live {
			verdict = fmt.Sprintf("listing-is-not-the-live-set(listed=%s,live=%s,err=%v)", got, live, derr != nil)
		} else if strings.HasPrefix(live+",", "0,") {
			verdict = "victim-still-there"
		}
		sc.Op(strings.ReplaceAll(verdict, " ", "_"), "rf fault kind=%s-delete-again pre=%d digesthdr=%v", kind, nPre, ri%2 == 0)
		evals++
		reg.Close()
	}
	// (a3) the registry refuses to delete index manifests while the referrers of a subject are
	// deleted one by one, down to none: after every Delete the listing is the set of referrers
	// still stored, and a refusal is reported as a referrers-index-delete error
	for ri := 0; ri < 6; ri++ {
		sc.Case("referrers-index-fault")
		sc.NonTrivial()
		reg := newFakeRegistry(regProfile{ReferrersAPI: false, DigestHeaders: ri%2 == 0})
		repo, err := remote.NewRepository(reg.Host() + "/test/repo")
		if err != nil {
			panic(err)
		}
		repo.PlainHTTP = true
		repo.SkipReferrersGC = ri >= 4
		sb := []byte(fmt.Sprintf(`{"schemaVersion":2,"mediaType":%q,"config":{"mediaType":"application/vnd.oci.empty.v1+json","digest":"sha256:44136fa355b3678a1146ad16f7e8649e94fb4fc21fe77e8310c060f61caaff8a","size":2},"layers":[],"annotations":{"g":"%d"}}`, ocispec.MediaTypeImageManifest, ri))
		sub := content.NewDescriptorFromBytes(ocispec.MediaTypeImageManifest, sb)
		if err := repo.Push(ctx, sub, bytes.NewReader(sb)); err != nil {
			panic(err)
		}
		n := 1 + ri%2
		var ds []ocispec.Descriptor
		for i := 0; i < n; i++ {
			b := []byte(fmt.Sprintf(`{"schemaVersion":2,"mediaType":%q,"artifactType":"application/vnd.verif.g","config":{"mediaType":"application/vnd.oci.empty.v1+json","digest":"sha256:44136fa355b3678a1146ad16f7e8649e94fb4fc21fe77e8310c060f61caaff8a","size":2},"layers":[],"subject":{"mediaType":%q,"digest":%q,"size":%d},"annotations":{"i":"%d"}}`,
				ocispec.MediaTypeImageManifest, sub.MediaType, sub.Digest, sub.Size, i))
			d := content.NewDescriptorFromBytes(ocispec.MediaTypeImageManifest, b)
			if err := repo.Push(ctx, d, bytes.NewReader(b)); err != nil {
				panic(err)
			}
			ds = append(ds, d)
		}
		reg.mu.Lock()
		reg.denyIndexDelete = true
		reg.mu.Unlock()
		verdict := "ok"
		for i := 0; i < n && verdict == "ok"; i++ {
			derr := repo.Delete(ctx, ds[i])
			var re *remote.ReferrersError
			if derr != nil && !(errors.As(derr, &re) && re.IsReferrersIndexDelete()) {
				verdict = "not-reported-as-index-delete-error:" + strings.ReplaceAll(derr.Error(), " ", "_")
				break
			}
			var got, live []string
			if err := repo.Referrers(ctx, sub, "", func(rs []ocispec.Descriptor) error {
				for _, r := range rs {
					got = append(got, r.Annotations["i"])
				}
				return nil
			}); err != nil {
				verdict = "listing-failed"
				break
			}
			for k, d := range ds {
				if ok, err := repo.Exists(ctx, d); err == nil && ok {
					live = append(live, fmt.Sprint(k))
				}
			}
			sort.Strings(got)
			if ok, err := repo.Exists(ctx, ds[i]); err != nil || ok {
				// nil or the clean-up error: either way the delete itself has taken effect
				verdict = fmt.Sprintf("after-delete-%d:deleted-manifest-still-there(err=%v)", i, derr != nil)
			} else if strings.Join(got, ",") != strings.Join(live, ",") {
				verdict = fmt.Sprintf("after-delete-%d:listing-is-not-the-live-set(listed=%s,live=%s,err=%v)", i, strings.Join(got, ","), strings.Join(live, ","), derr != nil)
			}
		}
		sc.Op(verdict, "rf fault kind=deny-index-delete-down-to-none pre=%d digesthdr=%v skipgc=%v", n, ri%2 == 0, ri >= 4)
		evals++
		reg.Close()
	}
	// (a4) the flow around one referrers tag against the Lean flow model: random histories of
	// pushes and deletes of four referrers, each call with at most one injected fault (the
	// read of the old index, the push of the new one, the deletion of the old one), with and
	// without referrers GC; after every call: how it ended, what is listed, what is stored
	flows := 40
	if tier == "thorough" {
		flows = 1500
	}
	for fi := 0; fi < flows; fi++ {
		sc.Case("referrers-flow")
		sc.NonTrivial()
		skipGC := fi%3 == 2
		reg := newFakeRegistry(regProfile{ReferrersAPI: false, DigestHeaders: fi%2 == 0})
		repo, err := remote.NewRepository(reg.Host() + "/test/repo")
		if err != nil {
			panic(err)
		}
		repo.PlainHTTP = true
		repo.SkipReferrersGC = skipGC
		sb := []byte(fmt.Sprintf(`{"schemaVersion":2,"mediaType":%q,"config":{"mediaType":"application/vnd.oci.empty.v1+json","digest":"sha256:44136fa355b3678a1146ad16f7e8649e94fb4fc21fe77e8310c060f61caaff8a","size":2},"layers":[],"annotations":{"flow":"%d"}}`, ocispec.MediaTypeImageManifest, fi))
		sub := content.NewDescriptorFromBytes(ocispec.MediaTypeImageManifest, sb)
		if err := repo.Push(ctx, sub, bytes.NewReader(sb)); err != nil {
			panic(err)
		}
		var ds []ocispec.Descriptor
		var bs [][]byte
		for i := 0; i < 4; i++ {
			b := []byte(fmt.Sprintf(`{"schemaVersion":2,"mediaType":%q,"artifactType":"application/vnd.verif.flow","config":{"mediaType":"application/vnd.oci.empty.v1+json","digest":"sha256:44136fa355b3678a1146ad16f7e8649e94fb4fc21fe77e8310c060f61caaff8a","size":2},"layers":[],"subject":{"mediaType":%q,"digest":%q,"size":%d},"annotations":{"i":"%d"}}`,
				ocispec.MediaTypeImageManifest, sub.MediaType, sub.Digest, sub.Size, i))
			ds = append(ds, content.NewDescriptorFromBytes(ocispec.MediaTypeImageManifest, b))
			bs = append(bs, b)
		}
		sc.Def("rl new skipgc=%d", btoi(skipGC))
		denied := false
		nops := 3 + rng.Intn(8)
		for oi := 0; oi < nops; oi++ {
			k := rng.Intn(4)
			if oi < 2 {
				k = oi // something to work on
			}
			fault := []string{"none", "none", "none", "idxget", "idxput", "idxdel", "idxdel"}[rng.Intn(7)]
			isDelete := oi >= 2 && rng.Intn(2) == 0
			reg.mu.Lock()
			reg.failIndexGetOnce, reg.failIndexPutOnce, reg.denyIndexDelete = fault == "idxget", fault == "idxput", fault == "idxdel"
			reg.mu.Unlock()
			var oerr error
			if isDelete {
				oerr = repo.Delete(ctx, ds[k])
			} else {
				oerr = repo.Push(ctx, ds[k], bytes.NewReader(bs[k]))
			}
			reg.mu.Lock()
			reg.failIndexGetOnce, reg.failIndexPutOnce, reg.denyIndexDelete = false, false, false
			reg.mu.Unlock()
			out := "ok"
			var re *remote.ReferrersError
			switch {
			case oerr == nil:
			case errors.As(oerr, &re) && re.IsReferrersIndexDelete():
				out = "cleanup"
				denied = true
			default:
				out = "err"
			}
			var listed, live []int
			lerr := repo.Referrers(ctx, sub, "", func(rs []ocispec.Descriptor) error {
				for _, r := range rs {
					var id int
					fmt.Sscan(r.Annotations["i"], &id)
					listed = append(listed, id)
				}
				return nil
			})
			for i, d := range ds {
				if ok, err := repo.Exists(ctx, d); err == nil && ok {
					live = append(live, i)
				}
			}
			ans := fmt.Sprintf("out=%s listed=%s live=%s", out, fmtSet(listed), fmtSet(live))
			if lerr != nil {
				ans = "listing-failed:" + strings.ReplaceAll(lerr.Error(), " ", "_")
			}
			opName := "push"
			if isDelete {
				opName = "delete"
			}
			sc.Op(ans, "rl %s k=%d fault=%s", opName, k, fault)
			sc.Count("flow:" + opName + ":" + fault + ":" + out)
			evals++
		}
		if !denied && !skipGC {
			// superseded index manifests still stored: none (when GC is skipped they stay, and
			// equal index contents share one manifest, so a count says little)
			reg.mu.Lock()
			rp := reg.repo("test/repo")
			n := 0
			for _, m := range rp.manifests {
				if m.mediaType == ocispec.MediaTypeImageIndex {
					n++
				}
			}
			if _, ok := rp.tags[strings.Replace(sub.Digest.String(), ":", "-", 1)]; ok {
				n--
			}
			reg.mu.Unlock()
			sc.Op(fmt.Sprint(n), "rl dangling")
			evals++
		}
		reg.Close()
	}
	// (a5) SetReferrersCapability: every sequence of up to five calls on a fresh Repository,
	// and the same after a ping against a registry with / without the Referrers API has
	// settled the capability: which calls are refused
	for _, settled := range []string{"fresh", "pinged-supported", "pinged-unsupported"} {
		for n := 1; n <= 5; n++ {
			for bits := 0; bits < 1<<n; bits++ {
				sc.Case("capability-sequence")
				sc.NonTrivial()
				var reg *fakeRegistry
				host := "registry.invalid"
				if settled != "fresh" {
					reg = newFakeRegistry(regProfile{ReferrersAPI: settled == "pinged-supported", DigestHeaders: true})
					host = reg.Host()
				}
				repo, err := remote.NewRepository(host + "/test/repo")
				if err != nil {
					panic(err)
				}
				repo.PlainHTTP = true
				if reg != nil {
					// a listing pings the Referrers API and records what it learns
					sb := []byte(`{"schemaVersion":2,"cap":"subject"}`)
					sub := content.NewDescriptorFromBytes(ocispec.MediaTypeImageManifest, sb)
					repo.Push(ctx, sub, bytes.NewReader(sb))
					repo.Referrers(ctx, sub, "", func([]ocispec.Descriptor) error { return nil })
				}
				var calls, outs []string
				for i := 0; i < n; i++ {
					c := bits>>i&1 == 1
					calls = append(calls, fmt.Sprint(btoi(c)))
					if err := repo.SetReferrersCapability(c); err != nil {
						if !errors.Is(err, remote.ErrReferrersCapabilityAlreadySet) {
							panic(err)
						}
						outs = append(outs, "refused")
					} else {
						outs = append(outs, "ok")
					}
				}
				sc.Op(strings.Join(outs, ","), "rf setcap start=%s calls=%s", settled, strings.Join(calls, ","))
				evals++
				if reg != nil {
					reg.Close()
				}
			}
		}
	}
	// (a6) a Repository that has not learnt yet whether the registry has the Referrers API, and
	// whose first operations are several Deletes at once (the answer to the probe is slow, so
	// all but one of them wait for it): every one of them maintains the index
	for ri := 0; ri < 6; ri++ {
		sc.Case("fresh-repository-concurrent-deletes")
		sc.NonTrivial()
		reg := newFakeRegistry(regProfile{ReferrersAPI: false, DigestHeaders: ri%2 == 0})
		reg.hook = func(r *http.Request) {
			if strings.Contains(r.URL.Path, "/referrers/") {
				time.Sleep(15 * time.Millisecond)
			}
		}
		repoA, _ := remote.NewRepository(reg.Host() + "/test/repo")
		repoA.PlainHTTP = true
		sb := []byte(fmt.Sprintf(`{"schemaVersion":2,"mediaType":%q,"config":{"mediaType":"application/vnd.oci.empty.v1+json","digest":"sha256:44136fa355b3678a1146ad16f7e8649e94fb4fc21fe77e8310c060f61caaff8a","size":2},"layers":[],"annotations":{"fresh":"%d"}}`, ocispec.MediaTypeImageManifest, ri))
		sub := content.NewDescriptorFromBytes(ocispec.MediaTypeImageManifest, sb)
		if err := repoA.Push(ctx, sub, bytes.NewReader(sb)); err != nil {
			panic(err)
		}
		var ds []ocispec.Descriptor
		for i := 0; i < 6; i++ {
			b := []byte(fmt.Sprintf(`{"schemaVersion":2,"mediaType":%q,"artifactType":"application/vnd.verif.fresh","config":{"mediaType":"application/vnd.oci.empty.v1+json","digest":"sha256:44136fa355b3678a1146ad16f7e8649e94fb4fc21fe77e8310c060f61caaff8a","size":2},"layers":[],"subject":{"mediaType":%q,"digest":%q,"size":%d},"annotations":{"i":"%d"}}`,
				ocispec.MediaTypeImageManifest, sub.MediaType, sub.Digest, sub.Size, i))
			d := content.NewDescriptorFromBytes(ocispec.MediaTypeImageManifest, b)
			if err := repoA.Push(ctx, d, bytes.NewReader(b)); err != nil {
				panic(err)
			}
			ds = append(ds, d)
		}
		repoB, _ := remote.NewRepository(reg.Host() + "/test/repo") // knows nothing yet
		repoB.PlainHTTP = true
		start := make(chan struct{})
		var wg sync.WaitGroup
		derrs := make([]error, 4)
		for i := 0; i < 4; i++ {
			wg.Add(1)
			go func(i int) {
				defer wg.Done()
				<-start
				derrs[i] = repoB.Delete(ctx, ds[i])
			}(i)
		}
		close(start)
		wg.Wait()
		verdict := "ok"
		for i, e := range derrs {
			if e != nil {
				verdict = fmt.Sprintf("delete-%d-failed:%s", i, strings.ReplaceAll(e.Error(), " ", "_"))
			}
		}
		var got []string
		if err := repoB.Referrers(ctx, sub, "", func(rs []ocispec.Descriptor) error {
			for _, r := range rs {
				got = append(got, r.Annotations["i"])
			}
			return nil
		}); err != nil {
			verdict = "listing-failed"
		}
		sort.Strings(got)
		if verdict == "ok" && strings.Join(got, ",") != "4,5" {
			verdict = "listing-is-not-the-live-set(listed=" + strings.Join(got, ",") + ",live=4,5)"
		}
		sc.Op(verdict, "rf fault kind=fresh-repository-concurrent-deletes digesthdr=%v", ri%2 == 0)
		evals++
		reg.Close()
	}
	// (a7) two goroutines settle the capability of one fresh Repository at the same moment,
	// one way each: exactly one of them is refused, and the other's value stands
	{
		sc.Case("capability-race")
		sc.NonTrivial()
		trials := 3000
		if tier == "thorough" {
			trials = 60000
		}
		verdict := "stable"
		for t := 0; t < trials && verdict == "stable"; t++ {
			repo, _ := remote.NewRepository("registry.invalid/test/repo")
			var wg sync.WaitGroup
			var errT, errF error
			var ready int32
			wg.Add(2)
			go func() {
				defer wg.Done()
				atomic.AddInt32(&ready, 1)
				for atomic.LoadInt32(&ready) < 2 {
				}
				errT = repo.SetReferrersCapability(true)
			}()
			go func() {
				defer wg.Done()
				atomic.AddInt32(&ready, 1)
				for atomic.LoadInt32(&ready) < 2 {
				}
				errF = repo.SetReferrersCapability(false)
			}()
			wg.Wait()
			switch {
			case errT == nil && errF == nil:
				verdict = fmt.Sprintf("trial-%d:both-settled-it", t)
			case errT != nil && errF != nil:
				verdict = fmt.Sprintf("trial-%d:both-refused", t)
			case errT == nil && repo.SetReferrersCapability(true) != nil:
				verdict = fmt.Sprintf("trial-%d:flipped-after-true-was-accepted", t)
			case errF == nil && repo.SetReferrersCapability(false) != nil:
				verdict = fmt.Sprintf("trial-%d:flipped-after-false-was-accepted", t)
			}
		}
		sc.Op(verdict, "rf capability race trials=%d", trials)
		evals++
	}
	// (b) end to end under concurrency
	rounds := 12
	if tier == "thorough" {
		rounds = 300
	}
	for ri := 0; ri < rounds; ri++ {
		sc.Case("referrers-stress")
		sc.NonTrivial()
		skipGC := ri%4 == 3
		injectDeleteFailure := ri%5 == 4
		echo := ri%2 == 1
		reg := newFakeRegistry(regProfile{ReferrersAPI: false, DigestHeaders: true, EchoSubject: echo})
		repo, err := remote.NewRepository(reg.Host() + "/test/repo")
		if err != nil {
			panic(err)
		}
		repo.PlainHTTP = true
		repo.SkipReferrersGC = skipGC
		if echo {
			// the capability is settled (no Referrers API) before any response can claim otherwise:
			// it must not flip when manifest PUTs come back with an OCI-Subject header
			if err := repo.SetReferrersCapability(false); err != nil {
				panic(err)
			}
			sc.Count("registry:echoes-oci-subject")
		}
		// subjects
		nSubj := 1 + rng.Intn(3)
		var subjects []ocispec.Descriptor
		for s := 0; s < nSubj; s++ {
			b := []byte(fmt.Sprintf(`{"schemaVersion":2,"mediaType":%q,"config":{"mediaType":"application/vnd.oci.empty.v1+json","digest":"sha256:44136fa355b3678a1146ad16f7e8649e94fb4fc21fe77e8310c060f61caaff8a","size":2},"layers":[],"annotations":{"s":"%d-%d"}}`, ocispec.MediaTypeImageManifest, ri, s))
			d := content.NewDescriptorFromBytes(ocispec.MediaTypeImageManifest, b)
			if err := repo.Push(ctx, d, bytes.NewReader(b)); err != nil {
				panic(err)
			}
			subjects = append(subjects, d)
		}
		// a pre-seeded dirty index for the first subject (duplicate + empty entry)
		if ri%3 == 0 {
			junk := rdesc(7, 70)
			idx := ocispec.Index{MediaType: ocispec.MediaTypeImageIndex, Manifests: []ocispec.Descriptor{junk, junk, {}}}
			idx.SchemaVersion = 2
			ib, _ := json.Marshal(idx)
			id := content.NewDescriptorFromBytes(ocispec.MediaTypeImageIndex, ib)
			tag := strings.Replace(subjects[0].Digest.String(), ":", "-", 1)
			if err := repo.PushReference(ctx, id, bytes.NewReader(ib), tag); err != nil {
				panic(err)
			}
		}
		type refm struct {
			desc    ocispec.Descriptor
			bytes   []byte
			subject int
		}
		mk := func(i int) refm {
			s := rng.Intn(nSubj)
			sub := subjects[s]
			at := fmt.Sprintf("application/vnd.verif.at%d", i%3)
			b := []byte(fmt.Sprintf(`{"schemaVersion":2,"mediaType":%q,"artifactType":%q,"config":{"mediaType":"application/vnd.oci.empty.v1+json","digest":"sha256:44136fa355b3678a1146ad16f7e8649e94fb4fc21fe77e8310c060f61caaff8a","size":2},"layers":[],"subject":{"mediaType":%q,"digest":%q,"size":%d},"annotations":{"i":"%d"}}`,
				ocispec.MediaTypeImageManifest, at, sub.MediaType, sub.Digest, sub.Size, i))
			return refm{content.NewDescriptorFromBytes(ocispec.MediaTypeImageManifest, b), b, s}
		}
		n := 4 + rng.Intn(28)
		refs := make([]refm, n)
		for i := range refs {
			refs[i] = mk(ri*1000 + i)
		}
		var wg sync.WaitGroup
		pushErr := make([]error, n)
		delErr := make([]error, n)
		deleted := make([]bool, n)
		if injectDeleteFailure {
			reg.mu.Lock()
			reg.failNext["DELETE /manifests/"] = 500
			reg.mu.Unlock()
		}
		for i := range refs {
			wg.Add(1)
			go func(i int) {
				defer wg.Done()
				pushErr[i] = repo.Push(ctx, refs[i].desc, bytes.NewReader(refs[i].bytes))
				var re *remote.ReferrersError
				if pushErr[i] != nil && !(errors.As(pushErr[i], &re) && re.IsReferrersIndexDelete()) {
					return
				}
				if i%3 == 0 {
					deleted[i] = true
					delErr[i] = repo.Delete(ctx, refs[i].desc)
				}
			}(i)
		}
		wg.Wait()
		verdict := "ok"
		sawIndexDeleteError := false
		for i := range refs {
			for _, e := range []error{pushErr[i], delErr[i]} {
				if e == nil {
					continue
				}
				var re *remote.ReferrersError
				if errors.As(e, &re) && re.IsReferrersIndexDelete() {
					sawIndexDeleteError = true
					continue
				}
				verdict = "unexpected-error:" + strings.ReplaceAll(e.Error(), " ", "_")
			}
		}
		if injectDeleteFailure && !sawIndexDeleteError && !skipGC {
			// the injected failure may have hit a referrer delete instead of an index delete; tolerated
			_ = sawIndexDeleteError
		}
		// listing per subject equals the live manifests that name it
		for s, sub := range subjects {
			var got []string
			err := repo.Referrers(ctx, sub, "", func(rs []ocispec.Descriptor) error {
				for _, r := range rs {
					got = append(got, r.Digest.String()+"|"+r.ArtifactType+"|"+r.Annotations["i"])
				}
				return nil
			})
			if err != nil {
				verdict = "referrers-failed"
			}
			reg.mu.Lock()
			truth := reg.referrersOf(reg.repo("test/repo"), sub.Digest)
			reg.mu.Unlock()
			var want []string
			for _, r := range truth {
				want = append(want, r.Digest.String()+"|"+r.ArtifactType+"|"+r.Annotations["i"])
			}
			if s == 0 && ri%3 == 0 {
				touched := false
				for i := range refs {
					if refs[i].subject == 0 && pushErr[i] == nil {
						touched = true
					}
				}
				if !touched {
					// nobody updated this subject's index through the Repository: the
					// pre-seeded dirt is still what somebody else wrote, not ours to judge
					continue
				}
				// the pre-seeded junk entry (not a stored manifest) stays listed once, never twice
				cnt := 0
				var filtered []string
				for _, g := range got {
					if strings.HasPrefix(g, rdesc(7, 70).Digest.String()) {
						cnt++
					} else {
						filtered = append(filtered, g)
					}
				}
				if cnt > 1 {
					verdict = "duplicate-kept"
				}
				got = filtered
			}
			sort.Strings(got)
			sort.Strings(want)
			if strings.Join(got, ",") != strings.Join(want, ",") {
				verdict = fmt.Sprintf("lost-update(subject=%d,got=%d,want=%d,got=[%s],want=[%s])", s, len(got), len(want), strings.Join(got, ";"), strings.Join(want, ";"))
				verdict = strings.ReplaceAll(verdict, " ", "_")
			}
		}
		// superseded indexes are gone unless GC is skipped
		if !skipGC && !injectDeleteFailure && verdict == "ok" {
			reg.mu.Lock()
			r := reg.repo("test/repo")
			tagged := map[digest.Digest]bool{}
			for _, d := range r.tags {
				tagged[d] = true
			}
			for d, m := range r.manifests {
				if m.mediaType == ocispec.MediaTypeImageIndex && !tagged[d] {
					verdict = "dangling-index-left"
				}
			}
			reg.mu.Unlock()
		}
		sc.Op(verdict, "rf stress round=%d goroutines=%d subjects=%d skipgc=%v inject=%v", ri, n, nSubj, skipGC, injectDeleteFailure)
		evals++
		cap := "stable"
		if err := repo.SetReferrersCapability(true); err == nil {
			cap = "flipped"
		}
		sc.Op(cap, "rf capability")
		reg.Close()
	}
	sc.Extra["evaluations"] = evals
	return nil
}
