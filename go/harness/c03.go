//go:build verif

package main

// C03: findRoots differential (recorded predecessor lists replayed through the Lean
// model; ground-truth spec) and end-to-end ExtendedCopyGraph over several source kinds.

import (
	"bytes"
	"context"
	"encoding/json"
	"fmt"
	"math/rand"
	"os"
	"path/filepath"
	"regexp"
	"sort"
	"strings"
	"sync"

	"github.com/opencontainers/go-digest"
	ocispec "github.com/opencontainers/image-spec/specs-go/v1"
	oras "oras.land/oras-go/v2"
	"oras.land/oras-go/v2/content"
	"oras.land/oras-go/v2/content/file"
	"oras.land/oras-go/v2/content/memory"
	"oras.land/oras-go/v2/content/oci"
	"oras.land/oras-go/v2/registry/remote"
)

func init() { domains["C03"] = runC03 }

// specArtifactType: artifactType, else config media type (OCI image manifests).  Docker
// schema-2 manifests and manifest lists carry no OCI artifact type: the filter treats them
// as having none (interpretation recorded in DESIGN.md, C03).
func specArtifactType(n *Node) string {
	if n.Kind == KDockerManifest || n.Kind == KDockerList {
		return ""
	}
	if n.ArtifactType != "" {
		return n.ArtifactType
	}
	if n.Kind == KOCIManifest {
		return n.ConfigMT
	}
	return ""
}

func runC03(seed int64, tier string, sc *Script) map[string]any {
	rng := rand.New(rand.NewSource(seed))
	ctx := context.Background()
	tmp, err := os.MkdirTemp("", "verif-c03-")
	if err != nil {
		panic(err)
	}
	defer os.RemoveAll(tmp)
	cases := 180
	if tier == "thorough" {
		cases = 4000
	}
	evals := 0
	for ci := 0; ci < cases; ci++ {
		u := GenDAG(rng, GenCfg{Blobs: 1 + rng.Intn(4), Manifests: 2 + rng.Intn(10), Subjects: true, Indexes: true,
			Foreign: rng.Intn(3) == 0, EmptyBlob: rng.Intn(2) == 0,
			// (memory sources: now and then the bytes of a manifest are also listed as an opaque
			// blob - two nodes for a destination that tells media types apart)
			Alias: ci%9 == 0})
		// (a remote repository knows one kind of predecessor: the referrers of a subject,
		// listed page by page through the Referrers API or read from the referrers tag)
		srcKind := []string{"memory", "oci", "oci-reopen-dir", "oci-reopen-fs", "oci-reopen-tar", "file", "remote-api", "remote-tags", "file-cas"}[ci%9]
		remoteSrc := strings.HasPrefix(srcKind, "remote")
		sc.Case("extcopy-" + srcKind)
		sc.NonTrivial()
		sc.Count("src:" + srcKind)
		// which nodes are stored in the source
		stored := map[int]bool{}
		for _, n := range u.Nodes {
			stored[n.ID] = n.Kind != KForeign && (!n.Kind.IsManifest() || rng.Intn(10) != 0)
		}
		// the source must be link-closed: a node is stored only if all its (non-foreign)
		// successors are; node ids are topologically ordered (children first)
		for _, n := range u.Nodes {
			for _, k := range n.Succ {
				if u.Nodes[k].Kind != KForeign && !stored[k] {
					stored[n.ID] = false
				}
			}
		}
		dir := filepath.Join(tmp, fmt.Sprintf("s%d", ci))
		var src content.ReadOnlyGraphStorage
		push := func(st content.Storage) {
			order := rng.Perm(len(u.Nodes))
			for _, id := range order {
				if stored[id] {
					n := u.Nodes[id]
					if err := st.Push(ctx, n.Desc, bytes.NewReader(n.Bytes)); err != nil {
						panic(err)
					}
				}
			}
		}
		switch srcKind {
		case "remote-api", "remote-tags":
			reg := newFakeRegistry(regProfile{ReferrersAPI: srcKind == "remote-api", DigestHeaders: true, Ranges: true,
				PageLimit: []int{0, 1, 2, 3}[rng.Intn(4)], LinkStyle: rng.Intn(2), EmptyPages: rng.Intn(2) == 0})
			defer reg.Close()
			r, err := remote.NewRepository(reg.Host() + "/src/repo")
			if err != nil {
				panic(err)
			}
			r.PlainHTTP = true
			push(r)
			src = r
		case "memory":
			s := memory.New()
			push(s)
			src = s
		case "file", "file-cas":
			s, err := file.New(dir)
			if err != nil {
				panic(err)
			}
			s.ForceCAS = srcKind == "file-cas"
			defer s.Close()
			push(s)
			src = s
		default:
			s, err := oci.New(dir)
			if err != nil {
				panic(err)
			}
			push(s)
			src = s
			switch srcKind {
			case "oci-reopen-dir":
				s2, err := oci.New(dir)
				if err != nil {
					panic(err)
				}
				src = s2
			case "oci-reopen-fs":
				s2, err := oci.NewFromFS(ctx, os.DirFS(dir))
				if err != nil {
					panic(err)
				}
				src = s2
			case "oci-reopen-tar":
				tarAppended = rng.Intn(2) == 0
				tarPAX = nextTarPAX()
				if err := tarDir(dir, dir+".tar"); err != nil {
					panic(err)
				}
				s2, err := oci.NewFromTar(ctx, dir+".tar")
				if err != nil {
					panic(err)
				}
				src = s2
			}
		}
		// artifact-type and annotation classes
		atClass := map[string]int{"": 0}
		var atNames []string
		for _, n := range u.Nodes {
			a := specArtifactType(n)
			if _, ok := atClass[a]; !ok {
				atClass[a] = len(atClass)
				atNames = append(atNames, a)
			}
		}
		annClass := map[string]int{"": 0, "v0": 1, "v1": 2, "v2": 3}
		if remoteSrc {
			sc.Def("fr new rel=subject")
		} else {
			sc.Def("fr new")
		}
		for _, n := range u.Nodes {
			st := 0
			if stored[n.ID] {
				st = 1
			}
			fo := 0
			if n.Kind == KForeign {
				fo = 1
			}
			subj := "-"
			if n.Subject >= 0 {
				subj = fmt.Sprint(n.Subject)
			}
			sc.Def("fr node %d succ=%s stored=%d foreign=%d at=%d ann=%d subj=%s", n.ID, fmtInts(n.Succ), st, fo,
				atClass[specArtifactType(n)], annClass[n.Annotations["verif.k"]], subj)
		}
		for q := 0; q < 3; q++ {
			// start node: stored
			var n0 int
			for {
				n0 = rng.Intn(len(u.Nodes))
				if stored[n0] {
					break
				}
			}
			depth := []int{0, 0, 0, 1, 2, 3}[rng.Intn(6)]
			annEmptyOK := rng.Intn(2) == 0
			filter := "none"
			mkOpts := func() oras.ExtendedCopyGraphOptions {
				var o oras.ExtendedCopyGraphOptions
				o.Depth = depth
				o.Concurrency = 1 + rng.Intn(3)
				switch {
				case strings.HasPrefix(filter, "at:"):
					var k int
					fmt.Sscanf(filter, "at:%d", &k)
					o.FilterArtifactType(regexp.MustCompile("^" + regexp.QuoteMeta(atNames[k-1]) + "$"))
				case strings.HasPrefix(filter, "ann:"):
					var k int
					fmt.Sscanf(filter, "ann:%d", &k)
					if annEmptyOK {
						// a pattern that also matches the empty string: a predecessor without the
						// annotation is still not kept
						o.FilterAnnotation("verif.k", regexp.MustCompile(fmt.Sprintf("^(v%d)?$", k-1)))
					} else {
						o.FilterAnnotation("verif.k", regexp.MustCompile(fmt.Sprintf("^v%d$", k-1)))
					}
				}
				return o
			}
			// artifact types of the start node's own predecessors (a filter that keeps one of them
			// is the interesting one)
			var predATs []int
			for _, p := range u.Nodes {
				if !stored[p.ID] || specArtifactType(p) == "" {
					continue
				}
				for _, k := range p.Succ {
					if k == n0 {
						predATs = append(predATs, atClass[specArtifactType(p)])
					}
				}
			}
			switch rng.Intn(4) {
			case 0:
				if len(atNames) > 0 {
					filter = fmt.Sprintf("at:%d", 1+rng.Intn(len(atNames)))
				}
				if len(predATs) > 0 && rng.Intn(2) == 0 {
					filter = fmt.Sprintf("at:%d", predATs[rng.Intn(len(predATs))])
					sc.Count("filter:at-of-a-predecessor")
				}
			case 1:
				filter = fmt.Sprintf("ann:%d", 1+rng.Intn(3))
			}
			sc.Count("filter:" + strings.SplitN(filter, ":", 2)[0])
			sc.Count(fmt.Sprintf("depth:%d", depth))
			// (a) findRoots with recorded predecessor lists
			opts := mkOpts()
			var mu sync.Mutex
			rec := map[int][]int{}
			inner := opts.FindPredecessors
			opts.FindPredecessors = func(ctx context.Context, s content.ReadOnlyGraphStorage, d ocispec.Descriptor) ([]ocispec.Descriptor, error) {
				var ps []ocispec.Descriptor
				var err error
				if inner != nil {
					ps, err = inner(ctx, s, d)
				} else {
					ps, err = s.Predecessors(ctx, d)
				}
				if err != nil {
					return nil, err
				}
				var ids []int
				for _, p := range ps {
					ids = append(ids, u.IDOf(ocispec.Descriptor{MediaType: p.MediaType, Digest: p.Digest, Size: p.Size}))
				}
				mu.Lock()
				rec[u.IDOf(d)] = ids
				mu.Unlock()
				return ps, nil
			}
			roots, err := oras.VerifFindRoots(ctx, src, u.Nodes[n0].Desc, opts)
			if err != nil {
				panic(fmt.Sprintf("findRoots: %v", err))
			}
			var rootIDs []int
			for _, r := range roots {
				rootIDs = append(rootIDs, u.IDOf(r))
			}
			var keys []int
			for k := range rec {
				keys = append(keys, k)
			}
			sort.Ints(keys)
			var parts []string
			for _, k := range keys {
				ss := make([]string, len(rec[k]))
				for i, v := range rec[k] {
					ss[i] = fmt.Sprint(v)
				}
				parts = append(parts, fmt.Sprintf("%d:%s", k, strings.Join(ss, ".")))
			}
			predsStr := "-"
			if len(parts) > 0 {
				predsStr = strings.Join(parts, ";")
			}
			sc.Op("ok", "fr check depth=%d node=%d filter=%s preds=%s roots=%s", depth, n0, filter, predsStr, fmtSet(rootIDs))
			evals++
			// (b) end to end
			dst := memory.New()
			if err := oras.ExtendedCopyGraph(ctx, src, dst, u.Nodes[n0].Desc, mkOpts()); err != nil {
				panic(fmt.Sprintf("ExtendedCopyGraph: %v", err))
			}
			sc.Op("ok", "fr copied depth=%d node=%d filter=%s present=%s", depth, n0, filter, presentSet(ctx, dst, u))
			evals++
			// (c) the context is cancelled before the call (k = 0) or at the k-th predecessor
			// lookup: the call may fail, but if it reports success the copied set must be right
			if q == 0 {
				for k := 0; k <= len(rec) && k <= 3; k++ {
					cctx, cancel := context.WithCancel(ctx)
					o := mkOpts()
					calls := 0
					innerC := o.FindPredecessors
					o.FindPredecessors = func(ctx context.Context, s content.ReadOnlyGraphStorage, d ocispec.Descriptor) ([]ocispec.Descriptor, error) {
						mu.Lock()
						calls++
						hit := calls == k
						mu.Unlock()
						if hit {
							cancel()
						}
						if innerC != nil {
							return innerC(ctx, s, d)
						}
						return s.Predecessors(ctx, d)
					}
					if k == 0 {
						cancel()
					}
					dstC := memory.New()
					err := oras.ExtendedCopyGraph(cctx, src, dstC, u.Nodes[n0].Desc, o)
					cancel()
					if err == nil {
						sc.Count("cancelled:returned-nil")
						sc.Op("ok", "fr copied depth=%d node=%d filter=%s present=%s", depth, n0, filter, presentSet(ctx, dstC, u))
					} else {
						sc.Count("cancelled:error")
					}
					evals++
				}
			}
		}
		os.RemoveAll(dir)
		os.Remove(dir + ".tar")
	}
	// a remote source (Referrers API, or the tag schema) with an artifact-type filter whose
	// pattern is a plain string: the pattern is a regular expression - it keeps every referrer
	// whose type *contains* the string
	for vi := 0; vi < 6; vi++ {
		sc.Case("extcopy-remote-literal-filter")
		sc.NonTrivial()
		reg := newFakeRegistry(regProfile{ReferrersAPI: vi%2 == 0, DigestHeaders: true, ServerFilter: vi%3 == 0})
		repo, _ := remote.NewRepository(reg.Host() + "/lit/repo")
		repo.PlainHTTP = true
		push := func(mt string, b []byte) ocispec.Descriptor {
			d := ocispec.Descriptor{MediaType: mt, Digest: digest.FromBytes(b), Size: int64(len(b))}
			if err := repo.Push(ctx, d, bytes.NewReader(b)); err != nil {
				panic(err)
			}
			return d
		}
		cfgD := push(ocispec.MediaTypeEmptyJSON, []byte("{}"))
		mk := func(at string, subject *ocispec.Descriptor, id string) ocispec.Descriptor {
			payload := push("application/vnd.verif.payload", []byte("payload-"+id+fmt.Sprint(vi)))
			m := ocispec.Manifest{MediaType: ocispec.MediaTypeImageManifest, ArtifactType: at, Config: cfgD, Layers: []ocispec.Descriptor{payload}, Subject: subject,
				Annotations: map[string]string{"id": id}}
			m.SchemaVersion = 2
			b, _ := json.Marshal(m)
			return push(ocispec.MediaTypeImageManifest, b)
		}
		subj := mk("", nil, "subject")
		sbom := mk("application/vnd.demo.sbom+json", &subj, "sbom")
		sig := mk("application/vnd.demo.sig", &subj, "sig")
		pattern := []string{"sbom", "application/vnd.demo.s", "demo", "sig", "application/vnd.demo.sbom+json", "nothing-has-this"}[vi]
		var want []string
		for _, c := range []struct {
			at, id string
		}{{"application/vnd.demo.sbom+json", "sbom"}, {"application/vnd.demo.sig", "sig"}} {
			if regexp.MustCompile(regexp.QuoteMeta(pattern)).MatchString(c.at) {
				want = append(want, c.id)
			}
		}
		dst := memory.New()
		var o oras.ExtendedCopyGraphOptions
		o.FilterArtifactType(regexp.MustCompile(regexp.QuoteMeta(pattern)))
		err := oras.ExtendedCopyGraph(ctx, repo, dst, subj, o)
		var got []string
		for _, c := range []struct {
			d  ocispec.Descriptor
			id string
		}{{sbom, "sbom"}, {sig, "sig"}} {
			if ok, _ := dst.Exists(ctx, c.d); ok {
				got = append(got, c.id)
			}
		}
		ans := strings.Join(got, ",")
		if ans == "" {
			ans = "-"
		}
		if err != nil {
			ans = "err:" + strings.ReplaceAll(err.Error(), " ", "_")
		}
		w := strings.Join(want, ",")
		if w == "" {
			w = "-"
		}
		sc.Op(ans, "fr literalfilter api=%v pattern=%s want=%s", vi%2 == 0, pattern, w)
		evals++
		reg.Close()
	}
	// an OCI layout written by a concurrent ExtendedCopyGraph (a subject with twelve referrers),
	// opened afresh and used as the source of another ExtendedCopyGraph: every referrer the
	// first copy reported as copied is found and copied again
	{
		sc.Case("extcopy-from-freshly-written-layout")
		sc.NonTrivial()
		reps := 120
		if tier == "thorough" {
			reps = 1500
		}
		verdict := "complete"
		for ri := 0; ri < reps && verdict == "complete"; ri++ {
			src := memory.New()
			push := func(mt string, b []byte) ocispec.Descriptor {
				d := ocispec.Descriptor{MediaType: mt, Digest: digest.FromBytes(b), Size: int64(len(b))}
				if err := src.Push(ctx, d, bytes.NewReader(b)); err != nil {
					panic(err)
				}
				return d
			}
			cfgD := push(ocispec.MediaTypeEmptyJSON, []byte("{}"))
			mk := func(subject *ocispec.Descriptor, id string) ocispec.Descriptor {
				m := ocispec.Manifest{MediaType: ocispec.MediaTypeImageManifest, ArtifactType: "application/vnd.verif.fresh", Config: cfgD, Layers: []ocispec.Descriptor{}, Subject: subject,
					Annotations: map[string]string{"id": id, "rep": fmt.Sprint(ri)}}
				m.SchemaVersion = 2
				b, _ := json.Marshal(m)
				return push(ocispec.MediaTypeImageManifest, b)
			}
			subj := mk(nil, "subject")
			var refs []ocispec.Descriptor
			for k := 0; k < 12; k++ {
				refs = append(refs, mk(&subj, fmt.Sprint(k)))
			}
			dir := filepath.Join(tmp, fmt.Sprintf("fresh%d", ri))
			lay, err := oci.New(dir)
			if err != nil {
				panic(err)
			}
			o := oras.DefaultExtendedCopyGraphOptions
			o.Concurrency = 12
			if err := oras.ExtendedCopyGraph(ctx, src, lay, subj, o); err != nil {
				panic(err)
			}
			re, err := oci.New(dir)
			if err != nil {
				verdict = fmt.Sprintf("rep-%d:reopen-failed", ri)
				break
			}
			dst := memory.New()
			if err := oras.ExtendedCopyGraph(ctx, re, dst, subj, oras.DefaultExtendedCopyGraphOptions); err != nil {
				verdict = fmt.Sprintf("rep-%d:second-copy-failed", ri)
				break
			}
			missing := 0
			for _, r := range refs {
				if ok, _ := dst.Exists(ctx, r); !ok {
					missing++
				}
			}
			if missing > 0 {
				verdict = fmt.Sprintf("rep-%d:%d-of-12-referrers-not-copied-from-the-reopened-layout", ri, missing)
			}
			os.RemoveAll(dir)
		}
		sc.Op(verdict, "fr freshlayout reps=%d", reps)
		evals++
	}
	sc.Extra["evaluations"] = evals
	return nil
}
