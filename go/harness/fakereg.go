//go:build verif

package main

// An in-process registry following the OCI distribution specification, with capability
// switches, request logging and response corruption hooks.  Its behaviour is itself
// checked against the Lean registry model by the C13 replay.

import (
	"encoding/json"
	"fmt"
	"io"
	"net/http"
	"net/http/httptest"
	"net/url"
	"regexp"
	"sort"
	"strconv"
	"strings"
	"sync"

	"github.com/opencontainers/go-digest"
	ocispec "github.com/opencontainers/image-spec/specs-go/v1"
)

type regProfile struct {
	ReferrersAPI  bool
	DigestHeaders bool // Docker-Content-Digest on manifest/blob responses
	Ranges        bool
	Mount         bool
	ServerFilter  bool // apply artifactType filter server side (OCI-Filters-Applied)
	PageLimit     int  // server-imposed page size (0 = none)
	LinkStyle     int  // 0 relative, 1 absolute, 2 relative with extra params, 3 absolute path only
	EmptyPages    bool // every referrers page is preceded by an empty page that links to it
	EchoSubject   bool // answers manifest PUTs with OCI-Subject although it has no Referrers API (a proxy, a half-upgraded replica)
}

type regRepo struct {
	blobs     map[digest.Digest][]byte
	manifests map[digest.Digest]regManifest
	tags      map[string]digest.Digest
	uploads   map[string]bool
}

type regManifest struct {
	mediaType string
	bytes     []byte
}

type reqLog struct {
	Method, Path, Query string
	Status              int
	CT, Range           string
	CL                  int64
}

// respMutation changes one field of an otherwise valid response.
type respMutation struct {
	field string // "dcd" | "clen" | "ctype"
	value string // new header value; "" = remove the header (clen: unknown length)
}

type fakeRegistry struct {
	mu       sync.Mutex
	prof     regProfile
	repos    map[string]*regRepo
	log      []reqLog
	srv      *httptest.Server
	uploadN  int
	failNext map[string]int // "METHOD path-prefix" -> status to return once
	// faults on the referrers tag schema's index maintenance (not retried by the client: 4xx)
	denyIndexDelete  bool // DELETE of an image index is refused with 405
	failIndexPutOnce bool // the next PUT under a sha256-<hex> referrers tag is refused with 403
	failIndexGetOnce bool // the next GET of a sha256-<hex> referrers tag is refused with 403
	corrupt          func(w http.ResponseWriter, r *http.Request) bool
	hook             func(r *http.Request)
	served           [][]string // pages served by the listing endpoints, in order
	servedNext       []bool
	servedLast       []string      // the `last` value each Link header carried ("" when no link)
	padBody          int           // extra bytes of JSON padding inside listing documents
	mutate           *respMutation // applied to the next response that is not referrers maintenance, then cleared
	badReq           []string      // requests the distribution specification does not allow
}

func newFakeRegistry(p regProfile) *fakeRegistry {
	f := &fakeRegistry{prof: p, repos: map[string]*regRepo{}, failNext: map[string]int{}}
	f.srv = httptest.NewServer(f)
	return f
}

func (f *fakeRegistry) Close()       { f.srv.Close() }
func (f *fakeRegistry) Host() string { return strings.TrimPrefix(f.srv.URL, "http://") }

func (f *fakeRegistry) repo(name string) *regRepo {
	r, ok := f.repos[name]
	if !ok {
		r = &regRepo{blobs: map[digest.Digest][]byte{}, manifests: map[digest.Digest]regManifest{}, tags: map[string]digest.Digest{}, uploads: map[string]bool{}}
		f.repos[name] = r
	}
	return r
}

func writeErr(w http.ResponseWriter, status int, code string) {
	w.Header().Set("Content-Type", "application/json")
	w.WriteHeader(status)
	fmt.Fprintf(w, `{"errors":[{"code":%q,"message":"%s"}]}`, code, strings.ToLower(code))
}

type statusWriter struct {
	http.ResponseWriter
	status int
}

func (s *statusWriter) WriteHeader(c int) { s.status = c; s.ResponseWriter.WriteHeader(c) }

func (f *fakeRegistry) ServeHTTP(w0 http.ResponseWriter, r *http.Request) {
	if f.hook != nil {
		f.hook(r)
	}
	f.mu.Lock()
	defer f.mu.Unlock()
	w := &statusWriter{ResponseWriter: w0, status: 200}
	defer func() {
		f.log = append(f.log, reqLog{r.Method, r.URL.Path, r.URL.RawQuery, w.status, r.Header.Get("Content-Type"), r.Header.Get("Range"), r.ContentLength})
	}()
	if bad := validateRequest(r); bad != "" {
		f.badReq = append(f.badReq, r.Method+" "+r.URL.RequestURI()+": "+bad)
	}
	if f.mutate != nil && !isReferrersMaintenance(r.URL.Path) {
		m := f.mutate
		f.mutate = nil
		rec := httptest.NewRecorder()
		f.route(&statusWriter{ResponseWriter: rec, status: 200}, r)
		f.writeMutated(w, r, rec, m)
		return
	}
	f.route(w, r)
}

func isReferrersMaintenance(p string) bool {
	return strings.Contains(p, "/referrers/") || strings.Contains(p, "/manifests/sha256-")
}

// writeMutated replays a recorded response with one field changed.
func (f *fakeRegistry) writeMutated(w *statusWriter, r *http.Request, rec *httptest.ResponseRecorder, m *respMutation) {
	h := w.Header()
	for k, v := range rec.Header() {
		h[k] = v
	}
	body := rec.Body.Bytes()
	flush := false
	switch m.field {
	case "dcd":
		if m.value == "" {
			h.Del("Docker-Content-Digest")
		} else {
			h.Set("Docker-Content-Digest", m.value)
		}
	case "ctype":
		if m.value == "" {
			h["Content-Type"] = nil // suppress sniffing as well
		} else {
			h.Set("Content-Type", m.value)
		}
	case "clen":
		if m.value == "" {
			h.Del("Content-Length")
			flush = true
		} else {
			n, _ := strconv.Atoi(m.value)
			h.Set("Content-Length", m.value)
			if r.Method != http.MethodHead {
				for len(body) < n {
					body = append(body, 'x')
				}
				body = body[:n]
			}
		}
	}
	w.WriteHeader(rec.Code)
	if flush && r.Method != http.MethodHead {
		if fl, ok := w.ResponseWriter.(http.Flusher); ok {
			fl.Flush() // chunked: the client sees an unknown length
		}
	}
	if r.Method != http.MethodHead {
		w.Write(body)
	}
}

var (
	reRepoName = regexp.MustCompile(`^[a-z0-9]+((\.|_|__|-+)[a-z0-9]+)*(/[a-z0-9]+((\.|_|__|-+)[a-z0-9]+)*)*$`)
	reTagName  = regexp.MustCompile(`^[a-zA-Z0-9_][a-zA-Z0-9._-]{0,127}$`)
	reRange    = regexp.MustCompile(`^bytes=[0-9]+-[0-9]*$`)
)

// validateRequest checks a request against the end-point table of the OCI distribution
// specification v1.1 ("" = allowed).
func validateRequest(r *http.Request) string {
	p := r.URL.Path
	q := r.URL.Query()
	if p == "/v2/" || p == "/v2" {
		if r.Method != http.MethodGet {
			return "method on /v2/"
		}
		return ""
	}
	if p == "/v2/_catalog" {
		if r.Method != http.MethodGet {
			return "method on catalog"
		}
		return ""
	}
	if !strings.HasPrefix(p, "/v2/") {
		return "outside /v2/"
	}
	rest := strings.TrimPrefix(p, "/v2/")
	isDigest := func(s string) bool { return digest.Digest(s).Validate() == nil }
	for _, kind := range []string{"/blobs/uploads/", "/blobs/", "/manifests/", "/tags/list", "/referrers/"} {
		i := strings.LastIndex(rest, kind)
		if i < 0 {
			continue
		}
		name, ref := rest[:i], rest[i+len(kind):]
		if !reRepoName.MatchString(name) {
			return "repository name"
		}
		switch kind {
		case "/blobs/uploads/":
			switch {
			case r.Method == http.MethodPost && ref == "":
				if m := q.Get("mount"); m != "" {
					if !isDigest(m) {
						return "mount digest"
					}
					if from := q.Get("from"); from != "" && !reRepoName.MatchString(from) {
						return "mount from"
					}
				}
				if r.ContentLength > 0 && q.Get("digest") == "" {
					return "POST upload with a body but no digest"
				}
			case r.Method == http.MethodPut && ref != "":
				if !isDigest(q.Get("digest")) {
					return "PUT upload without a valid digest parameter"
				}
				if r.ContentLength < 0 {
					return "PUT upload without Content-Length"
				}
				if r.Header.Get("Content-Type") != "application/octet-stream" {
					return "PUT upload Content-Type"
				}
				if q.Get("state") == "" {
					return "PUT upload dropped the Location's query"
				}
			case r.Method == http.MethodPatch && ref != "", r.Method == http.MethodGet && ref != "", r.Method == http.MethodDelete && ref != "":
			default:
				return "method on uploads"
			}
		case "/blobs/":
			if !isDigest(ref) {
				return "blob reference is not a digest"
			}
			switch r.Method {
			case http.MethodGet, http.MethodHead:
				if rg := r.Header.Get("Range"); rg != "" {
					if !reRange.MatchString(rg) {
						return "Range form"
					}
					var a, b int
					if n, _ := fmt.Sscanf(rg, "bytes=%d-%d", &a, &b); n == 2 && b < a {
						return "Range with last-byte-pos before first-byte-pos"
					}
				}
			case http.MethodDelete:
			default:
				return "method on blobs"
			}
		case "/manifests/":
			if !isDigest(ref) && !reTagName.MatchString(ref) {
				return "manifest reference"
			}
			switch r.Method {
			case http.MethodGet, http.MethodHead:
				if r.Header.Get("Accept") == "" {
					return "manifest pull without Accept"
				}
			case http.MethodPut:
				if r.Header.Get("Content-Type") == "" {
					return "manifest push without Content-Type"
				}
				if r.ContentLength < 0 {
					return "manifest push without Content-Length"
				}
			case http.MethodDelete:
			default:
				return "method on manifests"
			}
		case "/tags/list":
			if r.Method != http.MethodGet || ref != "" {
				return "tags/list"
			}
			if n := q.Get("n"); n != "" {
				if _, err := strconv.Atoi(n); err != nil {
					return "n parameter"
				}
			}
		case "/referrers/":
			if r.Method != http.MethodGet || !isDigest(ref) {
				return "referrers"
			}
		}
		return ""
	}
	return "unknown end-point"
}

func (f *fakeRegistry) route(w *statusWriter, r *http.Request) {
	for k, st := range f.failNext {
		parts := strings.SplitN(k, " ", 2)
		if r.Method == parts[0] && strings.Contains(r.URL.Path, parts[1]) {
			delete(f.failNext, k)
			writeErr(w, st, "UNKNOWN")
			return
		}
	}
	if f.corrupt != nil && f.corrupt(w, r) {
		return
	}
	p := r.URL.Path
	if p == "/v2/" || p == "/v2" {
		w.WriteHeader(200)
		return
	}
	if p == "/v2/_catalog" {
		var names []string
		for n := range f.repos {
			names = append(names, n)
		}
		sort.Strings(names)
		f.servePage(w, r, names, "repositories")
		return
	}
	if !strings.HasPrefix(p, "/v2/") {
		writeErr(w, 404, "NOT_FOUND")
		return
	}
	rest := strings.TrimPrefix(p, "/v2/")
	for _, kind := range []string{"/blobs/uploads/", "/blobs/", "/manifests/", "/tags/list", "/referrers/"} {
		if i := strings.LastIndex(rest, kind); i >= 0 {
			name, ref := rest[:i], rest[i+len(kind):]
			switch kind {
			case "/blobs/uploads/":
				f.serveUpload(w, r, name, ref)
			case "/blobs/":
				f.serveBlob(w, r, name, ref)
			case "/manifests/":
				f.serveManifest(w, r, name, ref)
			case "/tags/list":
				repo := f.repo(name)
				var tags []string
				for t := range repo.tags {
					tags = append(tags, t)
				}
				sort.Strings(tags)
				f.servePage(w, r, tags, "tags")
			case "/referrers/":
				f.serveReferrers(w, r, name, ref)
			}
			return
		}
	}
	writeErr(w, 404, "NOT_FOUND")
}

// servePage implements n/last pagination with a Link header.
func (f *fakeRegistry) servePage(w http.ResponseWriter, r *http.Request, items []string, field string) {
	q := r.URL.Query()
	last := q.Get("last")
	start := 0
	if last != "" {
		start = sort.SearchStrings(items, last)
		if start < len(items) && items[start] == last {
			start++
		}
	}
	n := len(items)
	if v := q.Get("n"); v != "" {
		if k, err := strconv.Atoi(v); err == nil && k >= 0 {
			n = k
		}
	}
	if f.prof.PageLimit > 0 && (n > f.prof.PageLimit || q.Get("n") == "") {
		n = f.prof.PageLimit
	}
	end := start + n
	if end > len(items) {
		end = len(items)
	}
	page := items[start:end]
	if len(f.served) > 200 {
		writeErr(w, 500, "LISTING_LOOP") // a client that never advances must not hang the harness
		return
	}
	linkLast := ""
	if end < len(items) && len(page) > 0 {
		nq := url.Values{}
		nq.Set("last", page[len(page)-1])
		linkLast = page[len(page)-1]
		if q.Get("n") != "" {
			nq.Set("n", q.Get("n"))
		}
		var link string
		switch f.prof.LinkStyle {
		case 0:
			link = fmt.Sprintf("<%s?%s>; rel=\"next\"", r.URL.Path, nq.Encode())
		case 1:
			link = fmt.Sprintf("<%s%s?%s>; rel=\"next\"", f.srv.URL, r.URL.Path, nq.Encode())
		case 2:
			link = fmt.Sprintf("<%s?%s>; rel=\"next\"; title=\"more\"", r.URL.Path, nq.Encode())
		default:
			link = fmt.Sprintf("<?%s>; rel=\"next\"", nq.Encode())
		}
		w.Header().Set("Link", link)
	}
	w.Header().Set("Content-Type", "application/json")
	if page == nil {
		page = []string{}
	}
	f.served = append(f.served, append([]string(nil), page...))
	f.servedNext = append(f.servedNext, w.Header().Get("Link") != "")
	f.servedLast = append(f.servedLast, linkLast)
	doc := map[string]any{"name": "x", field: page}
	if f.padBody > 0 {
		doc["pad"] = strings.Repeat("p", f.padBody)
	}
	b, _ := json.Marshal(doc)
	w.Write(b)
}

func (f *fakeRegistry) serveBlob(w http.ResponseWriter, r *http.Request, name, ref string) {
	repo := f.repo(name)
	dg := digest.Digest(ref)
	data, ok := repo.blobs[dg]
	switch r.Method {
	case http.MethodHead, http.MethodGet:
		if !ok {
			writeErr(w, 404, "BLOB_UNKNOWN")
			return
		}
		w.Header().Set("Content-Type", "application/octet-stream")
		if f.prof.DigestHeaders {
			w.Header().Set("Docker-Content-Digest", dg.String())
		}
		if f.prof.Ranges {
			w.Header().Set("Accept-Ranges", "bytes")
			if rg := r.Header.Get("Range"); strings.HasPrefix(rg, "bytes=") {
				var from int
				fmt.Sscanf(strings.TrimPrefix(rg, "bytes="), "%d-", &from)
				if from >= len(data) { // RFC 7233: a first-byte-pos at or beyond the length is unsatisfiable
					w.WriteHeader(416)
					return
				}
				w.Header().Set("Content-Range", fmt.Sprintf("bytes %d-%d/%d", from, len(data)-1, len(data)))
				w.Header().Set("Content-Length", strconv.Itoa(len(data)-from))
				w.WriteHeader(206)
				if r.Method == http.MethodGet {
					w.Write(data[from:])
				}
				return
			}
		}
		w.Header().Set("Content-Length", strconv.Itoa(len(data)))
		w.WriteHeader(200)
		if r.Method == http.MethodGet {
			w.Write(data)
		}
	case http.MethodDelete:
		if !ok {
			writeErr(w, 404, "BLOB_UNKNOWN")
			return
		}
		delete(repo.blobs, dg)
		w.WriteHeader(202)
	default:
		writeErr(w, 405, "UNSUPPORTED")
	}
}

func (f *fakeRegistry) serveUpload(w http.ResponseWriter, r *http.Request, name, ref string) {
	repo := f.repo(name)
	q := r.URL.Query()
	switch r.Method {
	case http.MethodPost:
		if m := q.Get("mount"); m != "" && f.prof.Mount {
			from := q.Get("from")
			if src, ok := f.repos[from]; ok {
				if data, ok := src.blobs[digest.Digest(m)]; ok {
					repo.blobs[digest.Digest(m)] = data
					w.Header().Set("Location", "/v2/"+name+"/blobs/"+m)
					w.WriteHeader(201)
					return
				}
			}
		}
		f.uploadN++
		id := fmt.Sprintf("u%d", f.uploadN)
		repo.uploads[id] = true
		w.Header().Set("Location", "/v2/"+name+"/blobs/uploads/"+id+"?state=abc")
		w.WriteHeader(202)
	case http.MethodPut:
		if !repo.uploads[ref] {
			writeErr(w, 404, "BLOB_UPLOAD_UNKNOWN")
			return
		}
		data, _ := io.ReadAll(r.Body)
		dg := digest.Digest(q.Get("digest"))
		if dg.Validate() != nil || dg.Algorithm().FromBytes(data) != dg {
			writeErr(w, 400, "DIGEST_INVALID")
			return
		}
		delete(repo.uploads, ref)
		repo.blobs[dg] = data
		w.Header().Set("Location", "/v2/"+name+"/blobs/"+dg.String())
		w.WriteHeader(201)
	default:
		writeErr(w, 405, "UNSUPPORTED")
	}
}

func (f *fakeRegistry) serveManifest(w http.ResponseWriter, r *http.Request, name, ref string) {
	repo := f.repo(name)
	resolve := func() (digest.Digest, regManifest, bool) {
		dg := digest.Digest(ref)
		if dg.Validate() != nil {
			d, ok := repo.tags[ref]
			if !ok {
				return "", regManifest{}, false
			}
			dg = d
		}
		m, ok := repo.manifests[dg]
		return dg, m, ok
	}
	switch r.Method {
	case http.MethodHead, http.MethodGet:
		if f.failIndexGetOnce && r.Method == http.MethodGet && strings.HasPrefix(ref, "sha256-") {
			f.failIndexGetOnce = false
			writeErr(w, 403, "DENIED")
			return
		}
		dg, m, ok := resolve()
		if !ok {
			writeErr(w, 404, "MANIFEST_UNKNOWN")
			return
		}
		w.Header().Set("Content-Type", m.mediaType)
		if f.prof.DigestHeaders {
			w.Header().Set("Docker-Content-Digest", dg.String())
		}
		w.Header().Set("Content-Length", strconv.Itoa(len(m.bytes)))
		w.WriteHeader(200)
		if r.Method == http.MethodGet {
			w.Write(m.bytes)
		}
	case http.MethodPut:
		data, _ := io.ReadAll(r.Body)
		if f.failIndexPutOnce && strings.HasPrefix(ref, "sha256-") {
			f.failIndexPutOnce = false
			writeErr(w, 403, "DENIED")
			return
		}
		dg := digest.FromBytes(data)
		if d := digest.Digest(ref); d.Validate() == nil {
			if d != dg {
				writeErr(w, 400, "DIGEST_INVALID")
				return
			}
		}
		repo.manifests[dg] = regManifest{mediaType: r.Header.Get("Content-Type"), bytes: data}
		if digest.Digest(ref).Validate() != nil {
			repo.tags[ref] = dg
		}
		var sub struct {
			Subject *ocispec.Descriptor `json:"subject"`
		}
		json.Unmarshal(data, &sub)
		if sub.Subject != nil && (f.prof.ReferrersAPI || f.prof.EchoSubject) {
			w.Header().Set("OCI-Subject", sub.Subject.Digest.String())
		}
		if f.prof.DigestHeaders {
			w.Header().Set("Docker-Content-Digest", dg.String())
		}
		w.Header().Set("Location", "/v2/"+name+"/manifests/"+dg.String())
		w.WriteHeader(201)
	case http.MethodDelete:
		dg, _, ok := resolve()
		if !ok {
			writeErr(w, 404, "MANIFEST_UNKNOWN")
			return
		}
		if f.denyIndexDelete && repo.manifests[dg].mediaType == ocispec.MediaTypeImageIndex {
			writeErr(w, 405, "UNSUPPORTED")
			return
		}
		delete(repo.manifests, dg)
		for t, d := range repo.tags {
			if d == dg {
				delete(repo.tags, t)
			}
		}
		w.WriteHeader(202)
	default:
		writeErr(w, 405, "UNSUPPORTED")
	}
}

// referrersOf lists (sorted by digest) the stored manifests whose subject is dg.
func (f *fakeRegistry) referrersOf(repo *regRepo, dg digest.Digest) []ocispec.Descriptor {
	var out []ocispec.Descriptor
	for d, m := range repo.manifests {
		var body struct {
			Subject      *ocispec.Descriptor `json:"subject"`
			ArtifactType string              `json:"artifactType"`
			Config       *ocispec.Descriptor `json:"config"`
			Annotations  map[string]string   `json:"annotations"`
		}
		if json.Unmarshal(m.bytes, &body) != nil || body.Subject == nil || body.Subject.Digest != dg {
			continue
		}
		at := body.ArtifactType
		if at == "" && body.Config != nil {
			at = body.Config.MediaType
		}
		out = append(out, ocispec.Descriptor{MediaType: m.mediaType, Digest: d, Size: int64(len(m.bytes)), ArtifactType: at, Annotations: body.Annotations})
	}
	sort.Slice(out, func(i, j int) bool { return out[i].Digest < out[j].Digest })
	return out
}

func (f *fakeRegistry) serveReferrers(w http.ResponseWriter, r *http.Request, name, ref string) {
	if !f.prof.ReferrersAPI {
		writeErr(w, 404, "NOT_FOUND")
		return
	}
	repo := f.repo(name)
	all := f.referrersOf(repo, digest.Digest(ref))
	q := r.URL.Query()
	if at := q.Get("artifactType"); at != "" && f.prof.ServerFilter {
		var kept []ocispec.Descriptor
		for _, d := range all {
			if d.ArtifactType == at {
				kept = append(kept, d)
			}
		}
		all = kept
		w.Header().Set("OCI-Filters-Applied", "artifactType")
	}
	// pagination by index
	start := 0
	if v := q.Get("start"); v != "" {
		start, _ = strconv.Atoi(v)
	}
	n := len(all)
	if v := q.Get("n"); v != "" {
		if k, err := strconv.Atoi(v); err == nil && k > 0 {
			n = k
		}
	}
	if f.prof.PageLimit > 0 && (n > f.prof.PageLimit || q.Get("n") == "") {
		n = f.prof.PageLimit
	}
	end := start + n
	if end > len(all) {
		end = len(all)
	}
	if start > len(all) {
		start = len(all)
	}
	page := all[start:end]
	if f.prof.EmptyPages && q.Get("e") == "" && start < len(all) {
		// an empty page first (a registry that filters or expires entries after cutting pages)
		page, end = nil, start
	}
	if end < len(all) {
		nq := url.Values{}
		nq.Set("start", strconv.Itoa(end))
		if f.prof.EmptyPages && page == nil {
			nq.Set("e", "1")
		}
		if v := q.Get("n"); v != "" {
			nq.Set("n", v)
		}
		if at := q.Get("artifactType"); at != "" {
			nq.Set("artifactType", at)
		}
		link := fmt.Sprintf("<%s?%s>; rel=\"next\"", r.URL.Path, nq.Encode())
		if f.prof.LinkStyle == 1 {
			link = fmt.Sprintf("<%s%s?%s>; rel=\"next\"", f.srv.URL, r.URL.Path, nq.Encode())
		}
		w.Header().Set("Link", link)
	}
	if page == nil {
		page = []ocispec.Descriptor{}
	}
	var names []string
	for _, d := range page {
		names = append(names, d.Annotations["i"])
	}
	f.served = append(f.served, names)
	f.servedNext = append(f.servedNext, w.Header().Get("Link") != "")
	idx := ocispec.Index{MediaType: ocispec.MediaTypeImageIndex, Manifests: page}
	idx.SchemaVersion = 2
	b, _ := json.Marshal(idx)
	w.Header().Set("Content-Type", ocispec.MediaTypeImageIndex)
	w.Write(b)
}
