//go:build verif

package main

// C12: files and directories added to a file store come back identical after a trip
// through a manifest and another store.

import (
	"bytes"
	"compress/gzip"
	"context"
	"crypto/sha256"
	"errors"
	"fmt"
	"io"
	"math/rand"
	"os"
	"path/filepath"
	"sort"
	"strings"
	"syscall"
	"time"

	"github.com/opencontainers/go-digest"
	ocispec "github.com/opencontainers/image-spec/specs-go/v1"
	oras "oras.land/oras-go/v2"
	"oras.land/oras-go/v2/content"
	"oras.land/oras-go/v2/content/file"
	"oras.land/oras-go/v2/content/memory"
	"oras.land/oras-go/v2/content/oci"
)

func init() { domains["C12"] = runC12 }

type treeEnt struct {
	kind   byte // f d l
	mode   os.FileMode
	data   []byte
	target string
}

// genTree creates a random tree at root and returns its description (relative path -> entry).
func genTree(rng *rand.Rand, root string, big bool) map[string]treeEnt {
	out := map[string]treeEnt{}
	// (names that merely begin with dots are ordinary names: "..data", "..2024_01_01" as in
	// atomically updated config volumes, "...", ".hidden")
	names := []string{"a", "b.txt", "sub", "deep", "ünï-文", strings.Repeat("n", 120), "with space", "x.y.z",
		"..data", "..env", ".hidden", "...", "..2024_01_01"}
	var rec func(rel string, depth int)
	rec = func(rel string, depth int) {
		n := 1 + rng.Intn(4)
		if depth == 0 {
			n = 2 + rng.Intn(4)
		}
		used := map[string]bool{}
		var files []string
		for i := 0; i < n; i++ {
			nm := names[rng.Intn(len(names))]
			if used[nm] {
				continue
			}
			used[nm] = true
			p := filepath.Join(rel, nm)
			switch r := rng.Intn(10); {
			case r < 5 || depth >= 3:
				size := []int{0, 1, 17, 4096, 8193}[rng.Intn(5)]
				if big && rng.Intn(8) == 0 {
					size = 1<<20 + 3
				}
				data := make([]byte, size)
				rng.Read(data)
				mode := []os.FileMode{0o644, 0o600, 0o755, 0o400, 0o666, 0o777}[rng.Intn(6)]
				out[p] = treeEnt{kind: 'f', mode: mode, data: data}
				files = append(files, nm)
			case r < 8:
				mode := []os.FileMode{0o755, 0o700, 0o775}[rng.Intn(3)]
				out[p] = treeEnt{kind: 'd', mode: mode}
				rec(p, depth+1)
			default:
				t := "a"
				if len(files) > 0 {
					t = files[rng.Intn(len(files))]
				}
				if depth > 0 && rng.Intn(3) == 0 {
					t = "../" + t // stays inside the added directory
				}
				out[p] = treeEnt{kind: 'l', target: t}
			}
		}
	}
	rec("", 0)
	// a symbolic link whose target lies in a directory that comes later in the archive
	// (entries are written in walk order): the link is restored before its target exists
	if rng.Intn(2) == 0 {
		out["zz-late"] = treeEnt{kind: 'd', mode: 0o755}
		out["zz-late/target.txt"] = treeEnt{kind: 'f', mode: 0o644, data: []byte("forward target")}
		out["aa-early"] = treeEnt{kind: 'l', target: "zz-late/target.txt"}
		out["mm-missing"] = treeEnt{kind: 'l', target: "no-such-dir/file"} // dangling, parent never created
	}
	// materialise: directories first
	var paths []string
	for p := range out {
		paths = append(paths, p)
	}
	sort.Strings(paths)
	os.MkdirAll(root, 0o755)
	for _, p := range paths {
		e := out[p]
		full := filepath.Join(root, p)
		switch e.kind {
		case 'd':
			if err := os.Mkdir(full, 0o755); err != nil {
				panic(err)
			}
		case 'f':
			if err := os.WriteFile(full, e.data, 0o644); err != nil {
				panic(err)
			}
		case 'l':
			if err := os.Symlink(e.target, full); err != nil {
				panic(err)
			}
		}
	}
	// exact modes afterwards (chmod is not subject to the umask), deepest first
	for i := len(paths) - 1; i >= 0; i-- {
		e := out[paths[i]]
		if e.kind != 'l' {
			os.Chmod(filepath.Join(root, paths[i]), e.mode)
		}
	}
	return out
}

func readTree(root string) (map[string]string, error) {
	out := map[string]string{}
	err := filepath.Walk(root, func(p string, info os.FileInfo, err error) error {
		if err != nil {
			return err
		}
		rel, _ := filepath.Rel(root, p)
		if rel == "." {
			return nil
		}
		switch {
		case info.Mode()&os.ModeSymlink != 0:
			t, _ := os.Readlink(p)
			out[rel] = "l ->" + t
		case info.IsDir():
			out[rel] = fmt.Sprintf("d %o", info.Mode().Perm())
		default:
			b, err := os.ReadFile(p)
			if err != nil {
				return err
			}
			out[rel] = fmt.Sprintf("f %o %x", info.Mode().Perm(), sha256.Sum256(b))
		}
		return nil
	})
	return out, err
}

func expectTree(t map[string]treeEnt, umask os.FileMode, preserve bool) map[string]string {
	out := map[string]string{}
	for p, e := range t {
		m := e.mode
		if !preserve {
			m = m &^ umask
		}
		switch e.kind {
		case 'l':
			out[p] = "l ->" + e.target
		case 'd':
			out[p] = fmt.Sprintf("d %o", m.Perm())
		default:
			out[p] = fmt.Sprintf("f %o %x", m.Perm(), sha256.Sum256(e.data))
		}
	}
	return out
}

func diffTrees(want, got map[string]string) string {
	var keys []string
	for k := range want {
		keys = append(keys, k)
	}
	for k := range got {
		if _, ok := want[k]; !ok {
			keys = append(keys, k)
		}
	}
	sort.Strings(keys)
	for _, k := range keys {
		w, g := want[k], got[k]
		if w != g {
			short := k
			if len(short) > 40 {
				short = short[:40] + "…"
			}
			return strings.ReplaceAll(fmt.Sprintf("diff(%s:want=%s,got=%s)", short, w, g), " ", "_")
		}
	}
	return "same"
}

func runC12(seed int64, tier string, sc *Script) map[string]any {
	rng := rand.New(rand.NewSource(seed))
	ctx := context.Background()
	tmp, err := os.MkdirTemp("", "verif-c12-")
	if err != nil {
		panic(err)
	}
	defer os.RemoveAll(tmp)
	umask := os.FileMode(syscall.Umask(0o022))
	syscall.Umask(int(umask))
	trees := 12
	if tier == "thorough" {
		trees = 400
	}
	evals := 0
	for ti := 0; ti < trees; ti++ {
		sc.Case("roundtrip")
		sc.NonTrivial()
		base := filepath.Join(tmp, fmt.Sprintf("t%d", ti))
		wd1, wd2 := filepath.Join(base, "wd1"), filepath.Join(base, "wd2")
		os.MkdirAll(wd1, 0o755)
		os.MkdirAll(wd2, 0o755)
		// top-level names that begin with dots without leaving the working directory are
		// ordinary names
		dirName := []string{"data", "..data", "data", "..2024_01_01.cfg", "..."}[ti%5]
		oneName := []string{"one.bin", "one.bin", "..one.bin", ".one"}[ti%4]
		sc.Count("top-level-names:" + dirName + "," + oneName)
		// the name a directory is added (and restored) under need not be its name on disk
		restName, addPath := dirName, ""
		switch ti % 4 {
		case 1:
			restName, addPath = "release", filepath.Join(wd1, dirName)
		case 3:
			restName, addPath = "bundles/payload", filepath.Join(wd1, dirName)
		}
		sc.Count(fmt.Sprintf("added-under-its-own-name:%v", addPath == ""))
		tree := genTree(rng, filepath.Join(wd1, dirName), tier == "thorough")
		single := []byte(fmt.Sprintf("single-file-%d", ti))
		if ti%2 == 1 {
			// the path handed to Add is itself a symbolic link to the file
			os.WriteFile(filepath.Join(wd1, "one-v2.bin"), single, 0o640)
			os.Symlink("one-v2.bin", filepath.Join(wd1, oneName))
			sc.Count("single-file:added-through-a-symlink")
		} else {
			os.WriteFile(filepath.Join(wd1, oneName), single, 0o640)
		}
		dup := []byte(fmt.Sprintf("duplicate-bytes-%d", ti))
		os.WriteFile(filepath.Join(wd1, "dup1"), dup, 0o644)
		os.WriteFile(filepath.Join(wd1, "dup2"), dup, 0o644)
		reproducible := rng.Intn(2) == 0
		preserve := rng.Intn(2) == 0
		forceCAS := rng.Intn(4) == 0
		mid := []string{"memory", "oci", "direct"}[ti%3]
		fs1, err := file.New(wd1)
		if err != nil {
			panic(err)
		}
		fs1.TarReproducible = reproducible
		dDir, err := fs1.Add(ctx, restName, "", addPath)
		if err != nil {
			panic(err)
		}
		dOne, err := fs1.Add(ctx, oneName, "application/vnd.verif.one", "")
		if err != nil {
			panic(err)
		}
		dDup1, _ := fs1.Add(ctx, "dup1", "", "")
		dDup2, _ := fs1.Add(ctx, "dup2", "", "")
		// descriptor of the directory: digest/size of the stored gzip, recorded digest of the tar
		rc, err := fs1.Fetch(ctx, dDir)
		if err != nil {
			panic(err)
		}
		gzBytes, _ := io.ReadAll(rc)
		rc.Close()
		verdict := "ok"
		if digest.FromBytes(gzBytes) != dDir.Digest || int64(len(gzBytes)) != dDir.Size {
			verdict = "descriptor-does-not-match-stored-bytes"
		}
		if zr, err := gzip.NewReader(bytes.NewReader(gzBytes)); err != nil {
			verdict = "not-gzip"
		} else {
			tarBytes, _ := io.ReadAll(zr)
			if digest.FromBytes(tarBytes).String() != dDir.Annotations[file.AnnotationDigest] {
				verdict = "uncompressed-digest-annotation-wrong"
			}
		}
		if verdict == "ok" && (dOne.Digest != digest.FromBytes(single) || dOne.Size != int64(len(single))) {
			verdict = fmt.Sprintf("file-descriptor-does-not-match-its-bytes(size=%d,want=%d)", dOne.Size, len(single))
		}
		sc.Op(verdict, "tr descriptor reproducible=%v", reproducible)
		evals++
		root, err := oras.PackManifest(ctx, fs1, oras.PackManifestVersion1_1, "application/vnd.verif.artifact",
			oras.PackManifestOptions{Layers: []ocispec.Descriptor{dDir, dOne, dDup1, dDup2}})
		if err != nil {
			panic(err)
		}
		if err := fs1.Tag(ctx, root, "t"); err != nil {
			panic(err)
		}
		// the destination directory may already hold older, longer versions of the files
		stale := rng.Intn(2) == 0
		if stale {
			os.MkdirAll(wd2, 0o755)
			os.WriteFile(filepath.Join(wd2, oneName), append(append([]byte{}, single...), []byte("-STALE-TAIL-OF-AN-OLDER-VERSION")...), 0o644)
			if !forceCAS {
				// (with ForceCAS only one of the two duplicate names is materialised, so a stale
				// file under the other name would legitimately stay)
				os.WriteFile(filepath.Join(wd2, "dup1"), append(append([]byte{}, dup...), []byte("-STALE")...), 0o644)
			}
			sc.Count("destination:stale-files")
		}
		fs2, err := file.New(wd2)
		if err != nil {
			panic(err)
		}
		fs2.PreservePermissions = preserve
		fs2.ForceCAS = forceCAS
		var cerr error
		switch mid {
		case "memory":
			m := memory.New()
			if _, cerr = oras.Copy(ctx, fs1, "t", m, "", oras.DefaultCopyOptions); cerr == nil {
				_, cerr = oras.Copy(ctx, m, "t", fs2, "", oras.DefaultCopyOptions)
			}
		case "oci":
			m, err := oci.New(filepath.Join(base, "layout"))
			if err != nil {
				panic(err)
			}
			if _, cerr = oras.Copy(ctx, fs1, "t", m, "", oras.DefaultCopyOptions); cerr == nil {
				_, cerr = oras.Copy(ctx, m, "t", fs2, "", oras.DefaultCopyOptions)
			}
		default:
			_, cerr = oras.Copy(ctx, fs1, "t", fs2, "", oras.DefaultCopyOptions)
		}
		res := "same"
		if cerr != nil {
			res = "copy-failed:" + strings.ReplaceAll(cerr.Error(), " ", "_")
		} else {
			got, err := readTree(filepath.Join(wd2, restName))
			if err != nil {
				res = "unreadable:" + strings.ReplaceAll(err.Error(), " ", "_")
			} else {
				res = diffTrees(expectTree(tree, umask, preserve), got)
			}
			if res == "same" {
				if b, err := os.ReadFile(filepath.Join(wd2, oneName)); err != nil || !bytes.Equal(b, single) {
					res = "single-file-differs"
				}
			}
		}
		sc.Op(res, "tr roundtrip mid=%s reproducible=%v preserve=%v forcecas=%v entries=%d", mid, reproducible, preserve, forceCAS, len(tree))
		sc.Count("mid:" + mid)
		evals++
		// same bytes under two names: both materialise unless ForceCAS
		if cerr == nil {
			_, e1 := os.Stat(filepath.Join(wd2, "dup1"))
			_, e2 := os.Stat(filepath.Join(wd2, "dup2"))
			d := "both"
			switch {
			case e1 != nil && e2 != nil:
				d = "none"
			case e1 != nil || e2 != nil:
				d = "one"
			}
			if d == "both" {
				b1, _ := os.ReadFile(filepath.Join(wd2, "dup1"))
				b2, _ := os.ReadFile(filepath.Join(wd2, "dup2"))
				if !bytes.Equal(b1, dup) || !bytes.Equal(b2, dup) {
					d = "wrong-bytes"
				}
			}
			sc.Op(d, "tr duplicates forcecas=%v", forceCAS)
			evals++
		}
		// the same bytes under two names where the push under the second name broke off the
		// first time: the manifest that lists both still materialises both
		{
			wd7 := filepath.Join(base, "wd7")
			os.MkdirAll(wd7, 0o755)
			fs7, _ := file.New(wd7)
			da := content.NewDescriptorFromBytes("application/vnd.verif.dup", dup)
			da.Annotations = map[string]string{ocispec.AnnotationTitle: "a.txt"}
			db := content.NewDescriptorFromBytes("application/vnd.verif.dup", dup)
			db.Annotations = map[string]string{ocispec.AnnotationTitle: "b.txt"}
			v := "both"
			if err := fs7.Push(ctx, da, bytes.NewReader(dup)); err != nil {
				v = "first-push-failed"
			}
			if err := fs7.Push(ctx, db, io.MultiReader(bytes.NewReader(dup[:len(dup)/2]), errReader{})); err == nil {
				v = "broken-push-accepted"
			}
			mf, err := oras.PackManifest(ctx, fs7, oras.PackManifestVersion1_1, "application/vnd.verif.artifact",
				oras.PackManifestOptions{Layers: []ocispec.Descriptor{da, db}})
			if err != nil && v == "both" {
				v = "manifest-push-failed:" + strings.ReplaceAll(err.Error(), " ", "_")
			}
			_ = mf
			if v == "both" {
				for _, nm := range []string{"a.txt", "b.txt"} {
					if b, err := os.ReadFile(filepath.Join(wd7, nm)); err != nil || !bytes.Equal(b, dup) {
						v = nm + "-not-materialised"
					}
				}
				plain := content.NewDescriptorFromBytes("application/vnd.verif.dup", dup)
				if rc, err := fs7.Fetch(ctx, plain); err != nil {
					v = "content-not-fetchable-by-digest"
				} else {
					rc.Close()
				}
			}
			sc.Op(v, "tr duplicates-after-broken-push")
			evals++
			fs7.Close()
		}
		// a wrong uncompressed-digest annotation must make unpacking fail
		fs3, _ := file.New(filepath.Join(base, "wd3"))
		bad := dDir
		bad.Annotations = map[string]string{ocispec.AnnotationTitle: "data", file.AnnotationUnpack: "true",
			file.AnnotationDigest: digest.FromString("not the tar").String()}
		perr := fs3.Push(ctx, bad, bytes.NewReader(gzBytes))
		v := "rejected"
		if perr == nil {
			v = "accepted"
		}
		sc.Op(v, "tr checksum")
		evals++
		fs3.Close()
		// SkipUnpack: the gzip itself is stored under the name
		fs4, _ := file.New(filepath.Join(base, "wd4"))
		fs4.SkipUnpack = true
		perr = fs4.Push(ctx, dDir, bytes.NewReader(gzBytes))
		v = "blob"
		if perr != nil {
			v = "push-failed"
		} else if b, err := os.ReadFile(filepath.Join(base, "wd4", restName)); err != nil || !bytes.Equal(b, gzBytes) {
			v = "not-the-gzip"
		}
		sc.Op(v, "tr skipunpack")
		evals++
		fs4.Close()
		// IgnoreNoName: what has no title (the manifest, its config) is dropped by the
		// destination, everything with a title still comes back identical
		{
			wd6 := filepath.Join(base, "wd6")
			os.MkdirAll(wd6, 0o755)
			fs6, _ := file.New(wd6)
			fs6.IgnoreNoName = true
			fs6.PreservePermissions = preserve
			v := "same"
			if err := oras.CopyGraph(ctx, fs1, fs6, root, oras.DefaultCopyGraphOptions); err != nil {
				v = "copy-failed:" + strings.ReplaceAll(err.Error(), " ", "_")
			} else if got, err := readTree(filepath.Join(wd6, restName)); err != nil {
				v = "unreadable:" + strings.ReplaceAll(err.Error(), " ", "_")
			} else if v = diffTrees(expectTree(tree, umask, preserve), got); v == "same" {
				if b, err := os.ReadFile(filepath.Join(wd6, oneName)); err != nil || !bytes.Equal(b, single) {
					v = "single-file-differs"
				}
			}
			sc.Op(v, "tr roundtrip mid=ignorenoname reproducible=%v preserve=%v forcecas=false entries=%d", reproducible, preserve, len(tree))
			evals++
			fs6.Close()
		}
		// reproducible tars: the same tree with other timestamps gives the same descriptor
		if reproducible {
			wd5 := filepath.Join(base, "wd5")
			os.MkdirAll(wd5, 0o755)
			exec := func() ocispec.Descriptor {
				f, _ := file.New(wd5)
				f.TarReproducible = true
				d, err := f.Add(ctx, restName, "", filepath.Join(wd1, dirName))
				if err != nil {
					panic(err)
				}
				f.Close()
				return d
			}
			filepath.Walk(filepath.Join(wd1, dirName), func(p string, info os.FileInfo, err error) error {
				if err == nil && info.Mode()&os.ModeSymlink == 0 {
					os.Chtimes(p, time.Unix(1000000+int64(rng.Intn(1000)), 0), time.Unix(2000000+int64(rng.Intn(1000)), 0))
				}
				return nil
			})
			d2 := exec()
			v := "equal"
			if d2.Digest != dDir.Digest || d2.Size != dDir.Size || d2.Annotations[file.AnnotationDigest] != dDir.Annotations[file.AnnotationDigest] {
				v = "different"
			}
			sc.Op(v, "tr reproducible")
			evals++
		}
		fs1.Close()
		fs2.Close()
		// make everything removable again
		filepath.Walk(base, func(p string, info os.FileInfo, err error) error {
			if err == nil && info.IsDir() {
				os.Chmod(p, 0o755)
			}
			return nil
		})
		os.RemoveAll(base)
	}
	sc.Extra["evaluations"] = evals
	return nil
}

// errReader fails on the first read.
type errReader struct{}

func (errReader) Read([]byte) (int, error) { return 0, errors.New("broken off") }
