//go:build verif

package main

// C17: the client stack (auth client over the retrying transport) against scripted server
// behaviours; every physical attempt's received body is recorded.

import (
	"bytes"
	"context"
	"errors"
	"fmt"
	"io"
	"math"
	"math/rand"
	"net"
	"net/http"
	"strings"
	"time"

	"github.com/opencontainers/go-digest"
	ocispec "github.com/opencontainers/image-spec/specs-go/v1"
	"oras.land/oras-go/v2/registry/remote"
	"oras.land/oras-go/v2/registry/remote/auth"
	"oras.land/oras-go/v2/registry/remote/retry"
)

func init() { domains["C17"] = runC17 }

type timeoutErr struct{}

func (timeoutErr) Error() string   { return "scripted timeout" }
func (timeoutErr) Timeout() bool   { return true }
func (timeoutErr) Temporary() bool { return true }

var errNet = errors.New("scripted transport error")

type scriptedRT struct {
	script  []string
	payload []byte
	recv    []string
}

func (rt *scriptedRT) RoundTrip(req *http.Request) (*http.Response, error) {
	// like net/http's transport, nothing is sent on a cancelled context (the retry loop's
	// select may pick its timer when a short pause and the cancellation are both ready)
	if err := req.Context().Err(); err != nil {
		return nil, err
	}
	got := "n"
	if req.Body != nil && req.Body != http.NoBody {
		b, _ := io.ReadAll(req.Body)
		req.Body.Close()
		if bytes.Equal(b, rt.payload) {
			got = "f"
		} else {
			got = "t"
		}
	}
	rt.recv = append(rt.recv, got)
	if len(rt.script) == 0 {
		return nil, errors.New("script exhausted")
	}
	tok := rt.script[0]
	rt.script = rt.script[1:]
	mk := func(code int) *http.Response {
		return &http.Response{StatusCode: code, Status: fmt.Sprint(code), Header: http.Header{}, Body: io.NopCloser(strings.NewReader("")), Request: req}
	}
	switch {
	case tok == "T":
		return nil, timeoutErr{}
	case tok == "E":
		return nil, errNet
	case tok == "N":
		return nil, &net.OpError{Op: "read", Net: "tcp", Err: errNet}
	case tok == "401b":
		r := mk(401)
		r.Header.Set("Www-Authenticate", `Basic realm="x"`)
		return r, nil
	case tok == "401B":
		r := mk(401)
		r.Header.Set("Www-Authenticate", `Bearer realm="https://auth.invalid/token",service="s"`)
		return r, nil
	case strings.Contains(tok, ":ra"):
		var code, ra int
		fmt.Sscanf(tok, "%d:ra%d", &code, &ra)
		r := mk(code)
		r.Header.Set("Retry-After", fmt.Sprint(ra))
		return r, nil
	}
	var code int
	fmt.Sscanf(tok, "%d", &code)
	return mk(code), nil
}

type recordingPolicy struct {
	inner    retry.Policy
	pauses   []time.Duration
	cancelAt int
	cancel   context.CancelFunc
}

func (p *recordingPolicy) Retry(attempt int, resp *http.Response, err error) (time.Duration, error) {
	d, e := p.inner.Retry(attempt, resp, err)
	if e == nil && d >= 0 {
		if p.cancelAt == len(p.pauses) && p.cancel != nil {
			p.cancel()
		}
		p.pauses = append(p.pauses, d)
	}
	return d, e
}

type oneShot struct{ r io.Reader }

func (o *oneShot) Read(p []byte) (int, error) { return o.r.Read(p) }
func (o *oneShot) Close() error               { return nil }

func runC17(seed int64, tier string, sc *Script) map[string]any {
	rng := rand.New(rand.NewSource(seed))
	n := 1500
	if tier == "thorough" {
		n = 60000
	}
	unit := time.Microsecond
	// "E": a plain transport error; "N": a net.Error that is not a timeout (connection reset)
	// (statuses between 429 and 500 are client errors like any other: returned at once)
	toks := []string{"200", "404", "503", "500", "429:ra1", "408", "401b", "401B", "T", "E", "N", "201", "502", "431", "451", "499", "428", "599"}
	evals := 0
	sc.Case("stack-scripts")
	sc.NonTrivial()
	seen := map[string]bool{}
	for i := 0; i < n; i++ {
		maxRetry := rng.Intn(5)
		minW, maxW := int64(100+rng.Intn(200)), int64(300+rng.Intn(400))
		switch rng.Intn(8) {
		case 0: // immediate retries: both bounds zero
			minW, maxW = 0, 0
		case 1: // no lower bound
			minW = 0
		case 2: // the bounds coincide
			maxW = minW
		}
		var bo []int64
		for k := 0; k < 8; k++ {
			bo = append(bo, []int64{-5, 0, 50, 250, 500, 1000, 1 << 40, math.MaxInt64 / 1000}[rng.Intn(8)])
		}
		body := []string{"none", "replay", "oneshot"}[rng.Intn(3)]
		useAuth := rng.Intn(2)
		cancelAt := -1
		if useAuth == 0 && rng.Intn(5) == 0 {
			cancelAt = rng.Intn(3)
		}
		var script []string
		for k := 0; k < 14; k++ {
			t := toks[rng.Intn(len(toks))]
			if useAuth == 0 && strings.HasPrefix(t, "401") {
				t = "503"
			}
			// retryable behaviours dominate early so that the loop is exercised
			if k < 3 && rng.Intn(2) == 0 {
				t = []string{"503", "T", "429:ra1", "408"}[rng.Intn(4)]
			}
			script = append(script, t)
		}
		payload := []byte(fmt.Sprintf("payload-%d-%s", i, strings.Repeat("x", rng.Intn(2000))))
		base := &scriptedRT{script: append([]string(nil), script...), payload: payload}
		ctx, cancel := context.WithCancel(context.Background())
		pol := &recordingPolicy{cancelAt: cancelAt, cancel: cancel, inner: &retry.GenericPolicy{
			Retryable: retry.DefaultPredicate,
			Backoff: func(attempt int, resp *http.Response) time.Duration {
				if attempt < len(bo) {
					return time.Duration(bo[attempt]) * unit
				}
				return 0
			},
			MinWait: time.Duration(minW) * unit, MaxWait: time.Duration(maxW) * unit, MaxRetry: maxRetry}}
		hc := &http.Client{Transport: &retry.Transport{Base: base, Policy: func() retry.Policy { return pol }}}
		var rd io.Reader
		switch body {
		case "replay":
			rd = bytes.NewReader(payload)
		case "oneshot":
			rd = &oneShot{bytes.NewReader(payload)}
		}
		req, err := http.NewRequestWithContext(ctx, http.MethodPut, "http://registry.invalid/v2/x/blobs/uploads/1", rd)
		if err != nil {
			panic(err)
		}
		var resp *http.Response
		if useAuth == 1 {
			ac := &auth.Client{Client: hc, Credential: auth.StaticCredential("registry.invalid", auth.Credential{Username: "u", Password: "p", AccessToken: "tok"})}
			resp, err = ac.Do(req)
		} else {
			resp, err = hc.Do(req)
		}
		cancel()
		out := ""
		switch {
		case err == nil:
			out = fmt.Sprint(resp.StatusCode)
			if resp.StatusCode == 401 {
				if strings.HasPrefix(resp.Header.Get("Www-Authenticate"), "Basic") {
					out = "401b"
				} else {
					out = "401B"
				}
			}
			resp.Body.Close()
		case errors.Is(err, context.Canceled):
			out = "err:ctx"
		case strings.Contains(err.Error(), "not rewindable"):
			out = "err:notRewindable"
		case errors.Is(err, errNet):
			out = "err:predicate"
		case errors.As(err, new(timeoutErr)):
			out = "T"
		case strings.Contains(err.Error(), "script exhausted"):
			out = "err:script-exhausted"
		default:
			out = "err:other(" + strings.ReplaceAll(err.Error(), " ", "_") + ")"
		}
		var ps []string
		for _, d := range pol.pauses {
			ps = append(ps, fmt.Sprint(int64(d/unit)))
		}
		var bs []string
		for _, b := range bo {
			bs = append(bs, fmt.Sprint(b))
		}
		c := "-"
		if cancelAt >= 0 {
			c = fmt.Sprint(cancelAt)
		}
		line := fmt.Sprintf("rt run max=%d min=%d maxw=%d backoff=%s body=%s auth=%d cancel=%s script=%s", maxRetry, minW, maxW,
			strings.Join(bs, ","), body, useAuth, c, strings.Join(script, ","))
		sc.Op(fmt.Sprintf("recv=%s pauses=%s out=%s", strings.Join(base.recv, ","), strings.Join(ps, ","), out), "%s", line)
		evals++
		if len(base.recv) > 1 && !seen[line] {
			seen[line] = true
			sc.Nontriv++
		}
		sc.Count("out:" + strings.SplitN(out, "(", 2)[0])
		sc.Count("attempts:" + fmt.Sprint(len(base.recv)))
	}
	// ExponentialBackoff / GenericPolicy parameter sweep, including the points the model excludes
	sc.Case("backoff-sweep")
	sc.NonTrivial()
	for _, base := range []time.Duration{time.Nanosecond, time.Millisecond, 250 * time.Millisecond, time.Hour} {
		for _, factor := range []float64{1, 1.5, 2, 10} {
			for _, jitter := range []float64{0, 0.001, 0.1, 0.5, 1} {
				for _, attempt := range []int{0, 1, 2, 5, 10, 30, 40, 63, 64, 70, 100, 1000} {
					temp := float64(base) * math.Pow(factor, float64(attempt))
					v := 2 * jitter * temp
					ns := "+"
					switch {
					case v < 1:
						ns = "0"
					case v >= math.Pow(2, 63) || math.IsInf(v, 0) || math.IsNaN(v):
						ns = "-"
					}
					res := func() (r string) {
						defer func() {
							if recover() != nil {
								r = "panic"
							}
						}()
						retry.ExponentialBackoff(base, factor, jitter)(attempt, nil)
						return "ok"
					}()
					sc.Op(res, "rt backoff base=%d factor=%v jitter=%v attempt=%d nsign=%s", int64(base), factor, jitter, attempt, ns)
					within := func() (r string) {
						defer func() {
							if recover() != nil {
								r = "panic"
							}
						}()
						p := &retry.GenericPolicy{Retryable: retry.DefaultPredicate, Backoff: retry.ExponentialBackoff(base, factor, jitter),
							MinWait: 200 * time.Millisecond, MaxWait: 3 * time.Second, MaxRetry: attempt + 1}
						d, err := p.Retry(attempt, &http.Response{StatusCode: 503, Header: http.Header{}}, nil)
						if err != nil || d < p.MinWait || d > p.MaxWait {
							return "outside"
						}
						return "within"
					}()
					sc.Op(within, "rt exppause base=%d factor=%v jitter=%v attempt=%d", int64(base), factor, jitter, attempt)
					evals += 2
				}
			}
		}
	}
	// a manifest pushed through a Repository from a reader that can be read once (the body of
	// another registry's response, say), with the client stack in between: the Repository keeps
	// the bytes so that every re-send - after a challenge, after a retryable answer - carries them
	sc.Case("manifest-push-resend")
	sc.NonTrivial()
	for _, mt := range []string{"application/vnd.docker.distribution.manifest.v2+json", "application/vnd.oci.image.manifest.v1+json"} {
		for _, script := range [][]string{{"401b", "201"}, {"503", "201"}, {"429:ra1", "503", "201"}, {"201"}} {
			for _, byTag := range []bool{false, true} {
				payload := []byte(fmt.Sprintf(`{"schemaVersion":2,"mediaType":%q,"config":{"mediaType":"application/vnd.oci.empty.v1+json","digest":"sha256:44136fa355b3678a1146ad16f7e8649e94fb4fc21fe77e8310c060f61caaff8a","size":2},"layers":[],"annotations":{"s":%q}}`, mt, strings.Join(script, "-")))
				base := &scriptedRT{script: append([]string(nil), script...), payload: payload}
				pol := &retry.GenericPolicy{Retryable: retry.DefaultPredicate, Backoff: func(int, *http.Response) time.Duration { return 0 }, MinWait: 0, MaxWait: time.Millisecond, MaxRetry: 5}
				ac := &auth.Client{Client: &http.Client{Transport: &retry.Transport{Base: base, Policy: func() retry.Policy { return pol }}},
					Credential: auth.StaticCredential("registry.invalid", auth.Credential{Username: "u", Password: "p"})}
				repo, err := remote.NewRepository("registry.invalid/a/b")
				if err != nil {
					panic(err)
				}
				repo.Client = ac
				repo.SetReferrersCapability(true) // (known: no client-side referrers index, the manifest goes out as it comes in)
				d := ocispec.Descriptor{MediaType: mt, Digest: digest.FromBytes(payload), Size: int64(len(payload))}
				if byTag {
					err = repo.PushReference(context.Background(), d, &oneShot{bytes.NewReader(payload)}, "v1")
				} else {
					err = repo.Push(context.Background(), d, &oneShot{bytes.NewReader(payload)})
				}
				out := "ok"
				if err != nil {
					out = "err"
				}
				sc.Op(fmt.Sprintf("recv=%s out=%s", strings.Join(base.recv, ","), out), "rt pushresend attempts=%d", len(script))
				evals++
			}
		}
	}
	// Retry-After: what ExponentialBackoff (jitter 0, hence deterministic) answers for a response
	sc.Case("retry-after")
	sc.NonTrivial()
	for _, status := range []int{429, 503, 200, 408} {
		for _, ra := range []string{"none", "0", "1", "2", "5", "-3", "abc", "1.5", "3600", "007", "1s", "-0"} {
			for _, attempt := range []int{0, 1, 3} {
				base, factor := 250*time.Millisecond, 2.0
				resp := &http.Response{StatusCode: status, Header: http.Header{}}
				if ra != "none" {
					resp.Header.Set("Retry-After", ra)
				}
				d := retry.ExponentialBackoff(base, factor, 0)(attempt, resp)
				expo := int64(float64(base) * math.Pow(factor, float64(attempt)))
				sc.Op(fmt.Sprint(int64(d)), "rt retryafter status=%d ra=%s attempt=%d expo=%d", status, ra, attempt, expo)
				evals++
			}
		}
	}
	sc.Extra["evaluations"] = evals
	return nil
}
