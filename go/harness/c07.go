//go:build verif

package main

// C07: Predecessors exactness.  Part A drives internal/graph.Memory directly
// (all push orders of small graphs, random index/remove histories); part B drives the
// memory, file and OCI stores (random push orders, OCI Delete without auto-GC, reopen
// from the directory, an fs.FS and a tar archive).

import (
	"archive/tar"
	"bytes"
	"context"
	"fmt"
	"io"
	"io/fs"
	"math/rand"
	"os"
	"path/filepath"

	ocispec "github.com/opencontainers/image-spec/specs-go/v1"
	"oras.land/oras-go/v2/content"
	"oras.land/oras-go/v2/content/file"
	"oras.land/oras-go/v2/content/memory"
	"oras.land/oras-go/v2/content/oci"
	"oras.land/oras-go/v2/internal/cas"
	"oras.land/oras-go/v2/internal/graph"
)

func init() { domains["C07"] = runC07 }

func declareGraph(sc *Script, u *Universe) {
	sc.Def("g new")
	for _, n := range u.Nodes {
		k := "b"
		if n.Kind.IsManifest() {
			k = "m"
		}
		sc.Def("g node %d %s %s", n.ID, k, fmtInts(n.Succ))
		sc.Count("kind:" + n.Kind.String())
	}
}

func predIDs(u *Universe, ds []ocispec.Descriptor, err error) string {
	if err != nil {
		return "err:" + err.Error()
	}
	ids := make([]int, 0, len(ds))
	for _, d := range ds {
		ids = append(ids, u.IDOf(d)) // -1 for a descriptor the universe does not know
	}
	// no dedup here: a duplicate in the implementation's answer must show up
	return fmtSet(ids)
}

func permutations(n int, f func([]int)) {
	p := make([]int, n)
	for i := range p {
		p[i] = i
	}
	var rec func(int)
	rec = func(k int) {
		if k == n {
			f(p)
			return
		}
		for i := k; i < n; i++ {
			p[k], p[i] = p[i], p[k]
			rec(k + 1)
			p[k], p[i] = p[i], p[k]
		}
	}
	rec(0)
}

func fullCAS(u *Universe) *cas.Memory {
	c := cas.NewMemory()
	for _, n := range u.Nodes {
		if err := c.Push(context.Background(), n.Desc, bytes.NewReader(n.Bytes)); err != nil {
			panic(err)
		}
	}
	return c
}

func genExact(rng *rand.Rand, total int) *Universe {
	// a universe with exactly `total` nodes, at least one manifest
	for {
		b := 1 + rng.Intn(total-1)
		u := GenDAG(rng, GenCfg{Blobs: b, Manifests: total - b, Subjects: true, Indexes: true, EmptyBlob: rng.Intn(2) == 0})
		if len(u.Nodes) == total {
			return u
		}
	}
}

func runC07(seed int64, tier string, sc *Script) map[string]any {
	rng := rand.New(rand.NewSource(seed))
	ctx := context.Background()
	exhaustiveN, exhaustiveGraphs, randomHist, storeHist := 6, 1, 150, 40
	if tier == "thorough" {
		exhaustiveN, exhaustiveGraphs, randomHist, storeHist = 7, 3, 5000, 600
	}
	perms := 0
	// Part A1: all push orders
	for gi := 0; gi < exhaustiveGraphs; gi++ {
		u := genExact(rng, exhaustiveN)
		c := fullCAS(u)
		permutations(len(u.Nodes), func(p []int) {
			perms++
			sc.Case("graphmem-perm")
			sc.NonTrivial()
			declareGraph(sc, u)
			g := graph.NewMemory()
			for _, id := range p {
				if err := g.Index(ctx, c, u.Nodes[id].Desc); err != nil {
					panic(err)
				}
				sc.Op("ok", "g index %d", id)
			}
			for _, n := range u.Nodes {
				ds, err := g.Predecessors(ctx, n.Desc)
				sc.Op(predIDs(u, ds, err), "g preds %d", n.ID)
			}
			// remove the node at a position derived from the permutation and re-query
			victim := p[len(p)/2]
			dang := g.Remove(u.Nodes[victim].Desc)
			sc.Op("dang="+predIDs(u, dang, nil), "g remove %d", victim)
			for _, n := range u.Nodes {
				ds, err := g.Predecessors(ctx, n.Desc)
				sc.Op(predIDs(u, ds, err), "g preds %d", n.ID)
			}
		})
	}
	// Part A2: random index/remove histories (re-index after remove, remove of absent
	// nodes, queries of nodes that were never stored)
	for h := 0; h < randomHist; h++ {
		u := GenDAG(rng, GenCfg{Blobs: 1 + rng.Intn(5), Manifests: 1 + rng.Intn(8), Subjects: true, Indexes: true,
			Foreign: rng.Intn(2) == 0, Alias: rng.Intn(3) == 0, EmptyBlob: rng.Intn(2) == 0})
		c := fullCAS(u)
		sc.Case("graphmem-history")
		sc.NonTrivial()
		declareGraph(sc, u)
		g := graph.NewMemory()
		steps := 5 + rng.Intn(4*len(u.Nodes))
		for i := 0; i < steps; i++ {
			id := rng.Intn(len(u.Nodes))
			switch r := rng.Intn(10); {
			case r < 5:
				if err := g.Index(ctx, c, u.Nodes[id].Desc); err != nil {
					panic(err)
				}
				sc.Op("ok", "g index %d", id)
				sc.Count("op:index")
			case r == 5 && i%3 == 0:
				if err := g.IndexAll(ctx, c, u.Nodes[id].Desc); err != nil {
					panic(err)
				}
				sc.Op("ok", "g indexall %d", id)
				sc.Count("op:indexall")
			case r < 7:
				dang := g.Remove(u.Nodes[id].Desc)
				sc.Op("dang="+predIDs(u, dang, nil), "g remove %d", id)
				sc.Count("op:remove")
			case r < 8:
				sc.Op(fmt.Sprint(g.Exists(u.Nodes[id].Desc)), "g exists %d", id)
			default:
				ds, err := g.Predecessors(ctx, u.Nodes[id].Desc)
				sc.Op(predIDs(u, ds, err), "g preds %d", id)
				sc.Count("op:preds")
			}
		}
		for _, n := range u.Nodes {
			ds, err := g.Predecessors(ctx, n.Desc)
			sc.Op(predIDs(u, ds, err), "g preds %d", n.ID)
		}
	}
	// Part A3: IndexAll over graphs in which the bytes of a manifest are also listed as an
	// opaque blob (another media type), and the opaque listing is met first: the manifest is a
	// node of its own and is indexed all the same
	for h := 0; h < randomHist/4+3; h++ {
		u := NewUniverse()
		cfgB := u.AddBlob(ocispec.MediaTypeImageConfig, []byte(fmt.Sprintf("{\"a3\":%d}", h)))
		l := u.AddBlob(ocispec.MediaTypeImageLayer, []byte(fmt.Sprintf("a3-layer-%d", h)))
		m := u.AddImage(KOCIManifest, cfgB.ID, []int{l.ID}, -1, "", map[string]string{"a3": fmt.Sprint(h)})
		alias := u.AddAlias(m.ID)
		x := u.AddIndex(KOCIIndex, []int{m.ID}, -1, "", map[string]string{"x": fmt.Sprint(h)})
		var root *Node
		switch h % 3 {
		case 0: // the opaque listing is a direct child, the manifest one level further down
			root = u.AddIndex(KOCIIndex, []int{alias.ID, x.ID}, -1, "", map[string]string{"r": fmt.Sprint(h)})
		case 1: // both one level down
			w := u.AddImage(KOCIManifest, cfgB.ID, []int{alias.ID}, -1, "", map[string]string{"w": fmt.Sprint(h)})
			root = u.AddIndex(KOCIIndex, []int{w.ID, x.ID}, -1, "", map[string]string{"r": fmt.Sprint(h)})
		default: // the manifest first
			root = u.AddIndex(KOCIIndex, []int{m.ID, alias.ID}, -1, "", map[string]string{"r": fmt.Sprint(h)})
		}
		c := fullCAS(u)
		sc.Case("graphmem-indexall-alias")
		sc.NonTrivial()
		declareGraph(sc, u)
		g := graph.NewMemory()
		if err := g.IndexAll(ctx, c, root.Desc); err != nil {
			panic(err)
		}
		sc.Op("ok", "g indexall %d", root.ID)
		sc.Count("op:indexall")
		for _, n := range u.Nodes {
			ds, err := g.Predecessors(ctx, n.Desc)
			sc.Op(predIDs(u, ds, err), "g preds %d", n.ID)
		}
		// and on top of a random history
		if h%2 == 0 {
			dang := g.Remove(m.Desc)
			sc.Op("dang="+predIDs(u, dang, nil), "g remove %d", m.ID)
			if err := g.IndexAll(ctx, c, x.Desc); err != nil {
				panic(err)
			}
			sc.Op("ok", "g indexall %d", x.ID)
			for _, n := range u.Nodes {
				ds, err := g.Predecessors(ctx, n.Desc)
				sc.Op(predIDs(u, ds, err), "g preds %d", n.ID)
			}
		}
	}
	// Part B: the three stores
	tmp, err := os.MkdirTemp("", "verif-c07-")
	if err != nil {
		panic(err)
	}
	defer os.RemoveAll(tmp)
	for h := 0; h < storeHist; h++ {
		u := GenDAG(rng, GenCfg{Blobs: 1 + rng.Intn(5), Manifests: 1 + rng.Intn(8), Subjects: true, Indexes: true,
			EmptyBlob: rng.Intn(2) == 0})
		kind := []string{"memory", "file", "oci"}[h%3]
		sc.Case("store-" + kind)
		sc.NonTrivial()
		sc.Count("store:" + kind)
		declareGraph(sc, u)
		dir := filepath.Join(tmp, fmt.Sprintf("s%d", h))
		var st content.GraphStorage
		var ociStore *oci.Store
		switch kind {
		case "memory":
			st = memory.New()
		case "file":
			fsStore, err := file.New(dir)
			if err != nil {
				panic(err)
			}
			defer fsStore.Close()
			st = fsStore
		case "oci":
			ociStore, err = oci.New(dir)
			if err != nil {
				panic(err)
			}
			ociStore.AutoGC = false
			st = ociStore
		}
		var pf content.ReadOnlyGraphStorage = st
		queryAll := func() {
			for _, n := range u.Nodes {
				ds, err := pf.Predecessors(ctx, n.Desc)
				sc.Op(predIDs(u, ds, err), "g preds %d", n.ID)
			}
		}
		order := shuffled(rng, len(u.Nodes))
		// leave some nodes out so that absent nodes are queried too
		skip := rng.Intn(3)
		pushed := []int{}
		for _, id := range order[:len(order)-min(skip, len(order)-1)] {
			n := u.Nodes[id]
			if err := st.Push(ctx, n.Desc, bytes.NewReader(n.Bytes)); err != nil {
				panic(fmt.Sprintf("push %d: %v", id, err))
			}
			sc.Op("ok", "g index %d", id)
			pushed = append(pushed, id)
			if rng.Intn(4) == 0 {
				queryAll()
			}
		}
		queryAll()
		if kind == "oci" {
			for round := 0; round < 3; round++ {
				switch rng.Intn(3) {
				case 0: // delete a pushed node (auto-GC off: plain removal)
					if len(pushed) == 0 {
						continue
					}
					i := rng.Intn(len(pushed))
					id := pushed[i]
					if err := ociStore.Delete(ctx, u.Nodes[id].Desc); err != nil {
						panic(fmt.Sprintf("delete %d: %v", id, err))
					}
					pushed = append(pushed[:i], pushed[i+1:]...)
					sc.Op("ok", "g removeq %d", id) // danglings are not observable here
					sc.Count("op:delete")
				case 1: // re-push a deleted node
					for _, id := range order {
						n := u.Nodes[id]
						if ok, _ := ociStore.Exists(ctx, n.Desc); !ok {
							if err := ociStore.Push(ctx, n.Desc, bytes.NewReader(n.Bytes)); err != nil {
								panic(err)
							}
							sc.Op("ok", "g index %d", id)
							pushed = append(pushed, id)
							break
						}
					}
				case 2: // reopen
					how := rng.Intn(3)
					sc.Count(fmt.Sprintf("reopen:%d", how))
					switch how {
					case 0:
						s2, err := oci.New(dir)
						if err != nil {
							panic(err)
						}
						s2.AutoGC = false
						ociStore = s2
						pf = s2
					case 1:
						s2, err := oci.NewFromFS(ctx, os.DirFS(dir))
						if err != nil {
							panic(err)
						}
						pf = s2
					case 2:
						tp := dir + ".tar"
						tarAppended = rng.Intn(2) == 0
						tarPAX = nextTarPAX()
						if err := tarDir(dir, tp); err != nil {
							panic(err)
						}
						s2, err := oci.NewFromTar(ctx, tp)
						if err != nil {
							panic(err)
						}
						pf = s2
					}
					sc.Op("ok", "g reopen")
					queryAll()
					pf = ociStore // later mutations go to the live read-write store
					if how == 0 {
						continue
					}
					// the read-write handle has not been reopened: put the model back in step
					// by reopening it as well
					s2, err := oci.New(dir)
					if err != nil {
						panic(err)
					}
					s2.AutoGC = false
					ociStore = s2
					pf = s2
				}
				queryAll()
			}
		}
		os.RemoveAll(dir)
		os.Remove(dir + ".tar")
	}
	return map[string]any{"exhaustive_push_orders": perms, "exhaustive_nodes": exhaustiveN}
}

// tarAppended (set around a call of tarDir): the archive looks like one that was updated by
// appending (tar -r): it begins with a superseded index.json that lists nothing, and the
// current one comes later; a later entry of the same name replaces an earlier one.
var tarAppended bool

// tarPAX (set around a call of tarDir): every entry carries an extended (PAX) header, as
// archives written with sub-second times, extended attributes or long names do, so that an
// entry's header block is not the only block in front of its payload
var tarPAX bool
var tarCount int

// nextTarPAX alternates (three archives out of four keep the plain format) without drawing from
// the case generator's random stream
func nextTarPAX() bool { tarCount++; return tarCount%4 == 0 || tarCount == 1 }

func tarDir(dir, out string) error {
	f, err := os.Create(out)
	if err != nil {
		return err
	}
	defer f.Close()
	tw := tar.NewWriter(f)
	if tarAppended {
		old := []byte(`{"schemaVersion":2,"manifests":[]}`)
		if err := tw.WriteHeader(&tar.Header{Name: "index.json", Mode: 0o644, Size: int64(len(old)), Typeflag: tar.TypeReg}); err != nil {
			return err
		}
		if _, err := tw.Write(old); err != nil {
			return err
		}
	}
	err = filepath.WalkDir(dir, func(p string, d fs.DirEntry, err error) error {
		if err != nil {
			return err
		}
		rel, _ := filepath.Rel(dir, p)
		if rel == "." {
			return nil
		}
		info, err := d.Info()
		if err != nil {
			return err
		}
		hdr, err := tar.FileInfoHeader(info, "")
		if err != nil {
			return err
		}
		hdr.Name = filepath.ToSlash(rel)
		if d.IsDir() {
			hdr.Name += "/"
		}
		if tarPAX {
			hdr.Format = tar.FormatPAX
			hdr.PAXRecords = map[string]string{"VERIF.entry": rel}
		}
		if err := tw.WriteHeader(hdr); err != nil {
			return err
		}
		if info.Mode().IsRegular() {
			fp, err := os.Open(p)
			if err != nil {
				return err
			}
			defer fp.Close()
			if _, err := io.Copy(tw, fp); err != nil {
				return err
			}
		}
		return nil
	})
	if err != nil {
		return err
	}
	return tw.Close()
}
