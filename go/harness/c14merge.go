//go:build verif

package main

// C14: syncutil.Merge driven directly.  Many callers, recording closures; the batch each
// item ended up in decides what its caller must get back.

import (
	"errors"
	"fmt"
	"math/rand"
	"sort"
	"strings"
	"sync"
	"sync/atomic"
	"time"

	"oras.land/oras-go/v2/internal/syncutil"
)

func init() { domains["C14m"] = runC14Merge }

func runC14Merge(seed int64, tier string, sc *Script) map[string]any {
	rng := rand.New(rand.NewSource(seed))
	rounds := 150
	if tier == "thorough" {
		rounds = 4000
	}
	batchesSeen, merged := 0, 0
	sc.Case("merge-do")
	sc.NonTrivial()
	for ri := 0; ri < rounds; ri++ {
		n := 2 + rng.Intn(10)
		poison := map[int]string{} // item -> which phase fails when the item is in the batch
		for i := 0; i < n; i++ {
			switch rng.Intn(8) {
			case 0:
				poison[i] = "resolve"
			case 1:
				poison[i] = "prepare" // fails only when this caller is the one preparing
			}
		}
		var m syncutil.Merge[int]
		var mu sync.Mutex
		type batch struct {
			items []int
			err   error
		}
		var batches []batch
		var inCritical int32
		overlap := false
		results := make([]error, n)
		delays := make([]time.Duration, n)
		for i := range delays {
			delays[i] = time.Duration(rng.Intn(300)) * time.Microsecond
		}
		prepDelay := time.Duration(rng.Intn(400)) * time.Microsecond
		var wg sync.WaitGroup
		for i := 0; i < n; i++ {
			wg.Add(1)
			go func(i int) {
				defer wg.Done()
				time.Sleep(delays[i])
				var prepErr error
				results[i] = m.Do(i,
					func() error {
						if atomic.AddInt32(&inCritical, 1) != 1 {
							overlap = true
						}
						time.Sleep(prepDelay) // the window in which other callers join this batch
						if poison[i] == "prepare" {
							prepErr = fmt.Errorf("prepare failed for %d", i)
							// resolve will not run: the exclusive section ends here
							atomic.AddInt32(&inCritical, -1)
						}
						return prepErr
					},
					func(items []int) error {
						var err error
						for _, it := range items {
							if poison[it] == "resolve" {
								err = fmt.Errorf("resolve failed because of %d", it)
							}
						}
						mu.Lock()
						batches = append(batches, batch{append([]int(nil), items...), err})
						mu.Unlock()
						atomic.AddInt32(&inCritical, -1)
						return err
					})
			}(i)
		}
		done := make(chan struct{})
		go func() { wg.Wait(); close(done) }()
		verdict := "ok"
		select {
		case <-done:
		case <-time.After(20 * time.Second):
			sc.Op("HANG", "rf merge round=%d callers=%d", ri, n)
			panic("Merge.Do did not return")
		}
		// every item resolved at most once; items of a failed prepare are in no batch
		seen := map[int]int{}
		errOf := map[int]error{}
		for _, b := range batches {
			for _, it := range b.items {
				seen[it]++
				errOf[it] = b.err
			}
			if len(b.items) > 1 {
				merged++
			}
		}
		batchesSeen += len(batches)
		for i := 0; i < n; i++ {
			switch {
			case seen[i] > 1:
				verdict = fmt.Sprintf("item-resolved-twice:%d", i)
			case seen[i] == 1:
				// the caller gets exactly its batch's result
				if (results[i] == nil) != (errOf[i] == nil) || (results[i] != nil && results[i].Error() != errOf[i].Error()) {
					verdict = fmt.Sprintf("caller-%d-got-%v-batch-result-%v", i, results[i], errOf[i])
				}
			default:
				// never resolved: its batch's prepare failed, and the caller must hear about it
				if results[i] == nil {
					verdict = fmt.Sprintf("caller-%d-unresolved-but-nil", i)
				} else if !strings.HasPrefix(results[i].Error(), "prepare failed") {
					verdict = fmt.Sprintf("caller-%d-unresolved-with-%v", i, results[i])
				}
			}
		}
		if overlap {
			verdict = "two-callers-in-prepare-resolve"
		}
		verdict = strings.ReplaceAll(verdict, " ", "_")
		sc.Op(verdict, "rf merge round=%d callers=%d", ri, n)
	}
	_ = sort.Ints
	_ = errors.New
	sc.Extra["evaluations"] = rounds
	sc.Extra["batches"] = batchesSeen
	sc.Extra["merged_batches"] = merged
	return nil
}
