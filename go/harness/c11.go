//go:build verif

package main

// C11: the file store must not touch anything outside its working directory.  A sandbox
// root holds the working directory (nested, so that a few ".." stay inside the sandbox), a
// sibling "outside" tree, a victim next to the working directory's parent, and the process
// working directory with a file of its own.  Everything but the working directory is
// snapshotted before and after each push.

import (
	"archive/tar"
	"bytes"
	"compress/gzip"
	"context"
	"crypto/sha256"
	"encoding/json"
	"fmt"
	"math/rand"
	"os"
	"path/filepath"
	"sort"
	"strings"
	"syscall"

	"github.com/opencontainers/go-digest"
	ocispec "github.com/opencontainers/image-spec/specs-go/v1"
	"oras.land/oras-go/v2/content/file"
)

func init() { domains["C11"] = runC11 }

type tarEnt struct {
	typ    byte // r d s h
	name   string
	target string
}

func (e tarEnt) String() string {
	switch e.typ {
	case 'r':
		return "reg:" + e.name
	case 'd':
		return "dir:" + e.name
	case 's':
		return "sym:" + e.name + "->" + e.target
	}
	return "hard:" + e.name + "->" + e.target
}

type sandbox struct {
	root, wd, cwd string
}

func newSandbox(parent string, i int) *sandbox {
	root := filepath.Join(parent, fmt.Sprintf("sb%d", i))
	sb := &sandbox{root: root, wd: filepath.Join(root, "p1", "p2", "wd"), cwd: filepath.Join(root, "cwd")}
	must := func(err error) {
		if err != nil {
			panic(err)
		}
	}
	must(os.MkdirAll(sb.wd, 0o755))
	must(os.MkdirAll(sb.cwd, 0o755))
	must(os.MkdirAll(filepath.Join(root, "outside", "dir"), 0o755))
	must(os.MkdirAll(filepath.Join(root, "systmp"), 0o755))
	must(os.WriteFile(filepath.Join(root, "outside", "victim"), []byte("outside-victim"), 0o644))
	must(os.MkdirAll(filepath.Join(root, "p1", "p2", "wd-backup"), 0o755))
	must(os.WriteFile(filepath.Join(root, "p1", "p2", "wd-backup", "victim"), []byte("sibling-backup-victim"), 0o644))
	must(os.WriteFile(filepath.Join(root, "p1", "victim"), []byte("uncle-victim"), 0o644))
	must(os.WriteFile(filepath.Join(root, "p1", "p2", "victim"), []byte("sibling-victim"), 0o644))
	must(os.WriteFile(filepath.Join(sb.cwd, "cfile"), []byte("cwd-file"), 0o644))
	return sb
}

// snapshot of everything outside the working directory (and outside systmp).
func (sb *sandbox) snapshot() map[string]string {
	out := map[string]string{}
	filepath.Walk(sb.root, func(p string, info os.FileInfo, err error) error {
		if err != nil {
			return nil
		}
		if p == sb.wd || p == filepath.Join(sb.root, "systmp") {
			return filepath.SkipDir
		}
		rel, _ := filepath.Rel(sb.root, p)
		st := info.Sys().(*syscall.Stat_t)
		desc := fmt.Sprintf("mode=%v", info.Mode())
		switch {
		case info.Mode()&os.ModeSymlink != 0:
			t, _ := os.Readlink(p)
			desc += " ->" + t
		case info.Mode().IsRegular():
			b, _ := os.ReadFile(p)
			// (the link count is not part of the object's state for this property: a hard link
			// created inside the working directory to an outside inode modifies nothing)
			_ = st
			desc += fmt.Sprintf(" sha=%x", sha256.Sum256(b))
		}
		out[rel] = desc
		return nil
	})
	return out
}

func diffSnap(a, b map[string]string) string {
	var ch []string
	for k, v := range a {
		if w, ok := b[k]; !ok {
			ch = append(ch, "deleted:"+k)
		} else if w != v {
			ch = append(ch, "modified:"+k)
		}
	}
	for k := range b {
		if _, ok := a[k]; !ok {
			ch = append(ch, "created:"+k)
		}
	}
	sort.Strings(ch)
	if len(ch) == 0 {
		return "clean"
	}
	return "OUTSIDE(" + strings.Join(ch, ",") + ")"
}

func buildTarGz(ents []tarEnt) []byte {
	var buf bytes.Buffer
	gz := gzip.NewWriter(&buf)
	tw := tar.NewWriter(gz)
	for _, e := range ents {
		h := &tar.Header{Name: e.name, Mode: 0o644}
		switch e.typ {
		case 'r':
			h.Typeflag = tar.TypeReg
			h.Size = int64(len("payload"))
			if archivePreserve {
				h.Mode = 0o600
			}
		case 'd':
			h.Typeflag = tar.TypeDir
			h.Mode = 0o755
			if archivePreserve {
				h.Mode = 0o700
			}
		case 's':
			h.Typeflag = tar.TypeSymlink
			h.Linkname = e.target
		case 'h':
			h.Typeflag = tar.TypeLink
			h.Linkname = e.target
			if archivePreserve {
				h.Mode = 0o755
			}
		}
		if err := tw.WriteHeader(h); err != nil {
			panic(err)
		}
		if e.typ == 'r' {
			tw.Write([]byte("payload"))
		}
	}
	tw.Close()
	gz.Close()
	return buf.Bytes()
}

// classify finds the first entry whose extraction changes something outside and says how.
// lexicallyOutward: some symbolic link of the archive has a target that, resolved by name
// alone against the link's own directory, lies outside the unpack directory (or is absolute
// and outside it).  The unchanged code refuses such links; the known findings F3a / F3c are
// about links that are each lexically inside.
func lexicallyOutward(ents []tarEnt, named string) bool {
	// only links that the written path passes through (or is) matter
	var paths []string
	if named != "" {
		paths = []string{filepath.Clean(named)}
	} else {
		for _, e := range ents {
			if e.typ == 'r' || e.typ == 'd' {
				paths = append(paths, filepath.Clean(e.name))
			}
		}
	}
	onPath := func(link string) bool {
		link = filepath.Clean(link)
		for _, p := range paths {
			if p == link || strings.HasPrefix(p, link+"/") {
				return true
			}
		}
		return false
	}
	for _, e := range ents {
		if e.typ == 'h' && onPath(e.name) {
			return false // written through a hard link of the archive: the mechanism of F3b, whatever else the archive holds
		}
	}
	for _, e := range ents {
		if e.typ != 's' || !onPath(e.name) {
			continue
		}
		if filepath.IsAbs(e.target) {
			// absolute targets: inside only if they name a path beneath a directory called wd/…;
			// the corpus marks inside ones with the ABSWD: prefix before substitution, so
			// after substitution anything absolute whose cleaned form has no "/wd/" is outward
			if !strings.Contains(filepath.Clean(e.target)+"/", "/wd/") {
				return true
			}
			continue
		}
		rel := filepath.Clean(filepath.Join(filepath.Dir(e.name), e.target))
		// entry names are relative to the archive root and start with the title directory
		first := strings.SplitN(filepath.ToSlash(filepath.Clean(e.name)), "/", 2)[0]
		if rel == ".." || strings.HasPrefix(rel, "../") || (rel != first && !strings.HasPrefix(rel, first+"/")) {
			return true
		}
	}
	return false
}

func classify(parent string, ents []tarEnt, named string) string {
	w := classify0(parent, ents, named)
	if (w == "named-through-archive-link" || w == "reg-through-archive-symlink") && lexicallyOutward(ents, named) {
		return w + "-that-points-outward"
	}
	return w
}

func classify0(parent string, ents []tarEnt, named string) string {
	for k := 1; k <= len(ents); k++ {
		sb := newSandbox(parent, 900000+k)
		res := runArchive(sb, ents[:k], "")
		os.RemoveAll(sb.root)
		if strings.HasPrefix(res, "OUTSIDE") || strings.Contains(res, " OUTSIDE") {
			last := ents[k-1]
			through, how := "", "through"
			for _, e := range ents[:k-1] {
				same := filepath.Clean(e.name) == filepath.Clean(last.name)
				under := strings.HasPrefix(filepath.Clean(last.name), filepath.Clean(e.name)+"/")
				if same || under {
					switch e.typ {
					case 's':
						through = "symlink"
					case 'h':
						through = "hardlink"
					}
					if through != "" && under {
						how = "under"
					}
				}
			}
			kind := map[byte]string{'r': "reg", 'd': "dir", 's': "sym", 'h': "hard"}[last.typ]
			if through != "" {
				return kind + "-" + how + "-archive-" + through
			}
			return kind + "-direct"
		}
	}
	if named != "" {
		return "named-through-archive-link"
	}
	return "unclassified"
}

// runArchive pushes the archive as directory "d" (and optionally a named blob afterwards)
// into a file store rooted at the sandbox's working directory.
// archiveTitle is the title (directory name) the archive blob is pushed under.
var archiveTitle = "d"

// archivePrepop, when set, prepares the working directory before the store is opened
// (extraction into a directory that already holds entries).
var archivePrepop func(sb *sandbox)

// archivePreserve: the store unpacks with PreservePermissions, and link entries carry a mode
// of their own (0755).
var archivePreserve bool

// archiveNoOverwrite: the store runs with DisableOverwrite (names that are taken are refused;
// names outside the working directory are refused all the same).
var archiveNoOverwrite bool

func runArchive(sb *sandbox, ents []tarEnt, named string) string {
	ctx := context.Background()
	oldwd, _ := os.Getwd()
	os.Chdir(sb.cwd)
	defer os.Chdir(oldwd)
	os.Setenv("TMPDIR", filepath.Join(sb.root, "systmp"))
	if archivePrepop != nil {
		archivePrepop(sb)
	}
	before := sb.snapshot()
	st, err := file.New(sb.wd)
	if err != nil {
		panic(err)
	}
	st.PreservePermissions = archivePreserve
	st.DisableOverwrite = archiveNoOverwrite
	res := "ok"
	if len(ents) > 0 {
		gz := buildTarGz(ents)
		desc := ocispec.Descriptor{MediaType: "application/vnd.verif.dir+gzip", Digest: digest.FromBytes(gz), Size: int64(len(gz)),
			Annotations: map[string]string{ocispec.AnnotationTitle: archiveTitle, file.AnnotationUnpack: "true"}}
		if err := st.Push(ctx, desc, bytes.NewReader(gz)); err != nil {
			res = "err"
			if os.Getenv("VERIF_DEBUG") != "" {
				fmt.Fprintln(os.Stderr, "C11 push error:", err)
			}
		}
	}
	if named != "" {
		data := []byte("named-payload")
		desc := ocispec.Descriptor{MediaType: "application/vnd.verif.blob", Digest: digest.FromBytes(data), Size: int64(len(data)),
			Annotations: map[string]string{ocispec.AnnotationTitle: named}}
		if err := st.Push(ctx, desc, bytes.NewReader(data)); err != nil {
			res += "+named-err"
		} else {
			res += "+named-ok"
		}
	}
	st.Close()
	return res + " " + diffSnap(before, sb.snapshot())
}

// runRestore: a blob under a harmless name, then a manifest whose layer lists the same bytes
// under `title` (Store.restoreDuplicates materialises it).
func runRestore(sb *sandbox, title string) string {
	ctx := context.Background()
	oldwd, _ := os.Getwd()
	os.Chdir(sb.cwd)
	defer os.Chdir(oldwd)
	os.Setenv("TMPDIR", filepath.Join(sb.root, "systmp"))
	before := sb.snapshot()
	st, err := file.New(sb.wd)
	if err != nil {
		panic(err)
	}
	data := []byte("duplicated-payload")
	plain := ocispec.Descriptor{MediaType: "application/vnd.verif.blob", Digest: digest.FromBytes(data), Size: int64(len(data))}
	good := plain
	good.Annotations = map[string]string{ocispec.AnnotationTitle: "ok.txt"}
	res := "ok"
	if err := st.Push(ctx, good, bytes.NewReader(data)); err != nil {
		res = "blob-err"
	}
	other := plain
	other.Annotations = map[string]string{ocispec.AnnotationTitle: title}
	m := ocispec.Manifest{MediaType: ocispec.MediaTypeImageManifest, Config: plain, Layers: []ocispec.Descriptor{good, other}}
	m.SchemaVersion = 2
	mb, _ := json.Marshal(m)
	md := ocispec.Descriptor{MediaType: ocispec.MediaTypeImageManifest, Digest: digest.FromBytes(mb), Size: int64(len(mb))}
	if err := st.Push(ctx, md, bytes.NewReader(mb)); err != nil {
		res += "+manifest-err"
	} else {
		res += "+manifest-ok"
	}
	st.Close()
	return res + " " + diffSnap(before, sb.snapshot())
}

func runC11(seed int64, tier string, sc *Script) map[string]any {
	rng := rand.New(rand.NewSource(seed))
	tmp, err := os.MkdirTemp("", "verif-c11-")
	if err != nil {
		panic(err)
	}
	defer os.RemoveAll(tmp)
	oldTmp := os.Getenv("TMPDIR")
	defer os.Setenv("TMPDIR", oldTmp)
	probe := newSandbox(tmp, 0)
	abs := func(rel string) string { return filepath.Join(probe.root, rel) } // same layout in every sandbox modulo the sbN segment
	_ = abs
	names := []string{"d/a", "d/s/l1", "d/s/l2", "d/s/l2/x", "d/../x", "d/s", "d/a/../../../x", "d/./b//c"}
	targets := []string{"..", "l1/../..", "l1/../../victim", "../../../victim", "cfile", "../../../../outside/victim", "a", "ABS-OUTSIDE"}
	if tier != "thorough" {
		names = names[:6]
		targets = targets[:6]
	}
	var kinds []tarEnt
	for _, n := range names {
		kinds = append(kinds, tarEnt{'r', n, ""}, tarEnt{'d', n, ""})
		for _, t := range targets {
			kinds = append(kinds, tarEnt{'s', n, t}, tarEnt{'h', n, t})
		}
	}
	evals, idx := 0, 1
	_ = idx
	runOne := func(label string, ents []tarEnt, named string) {
		sc.Case("archive-" + label)
		sc.NonTrivial()
		sb := newSandbox(tmp, idx)
		idx++
		// absolute targets are per-sandbox
		es := make([]tarEnt, len(ents))
		for i, e := range ents {
			es[i] = e
			if e.target == "ABS-OUTSIDE" {
				es[i].target = filepath.Join(sb.root, "outside", "victim")
			}
			if strings.HasPrefix(e.target, "ABSWD:") {
				// an absolute target that starts with the working directory and is not normalised
				es[i].target = sb.wd + "/" + strings.TrimPrefix(e.target, "ABSWD:")
			}
			if strings.HasPrefix(e.name, "ABSWD:") {
				// an absolute entry name inside the working directory that is not normalised
				es[i].name = sb.wd + "/" + strings.TrimPrefix(e.name, "ABSWD:")
			}
			if strings.HasPrefix(e.name, "ABS:") {
				es[i].name = filepath.Join(sb.root, strings.TrimPrefix(e.name, "ABS:"))
			}
		}
		nm := named
		if strings.HasPrefix(nm, "ABS:") {
			nm = filepath.Join(sb.root, strings.TrimPrefix(nm, "ABS:"))
		}
		res := runArchive(sb, es, nm)
		os.RemoveAll(sb.root)
		var parts []string
		for _, e := range ents {
			parts = append(parts, e.String())
		}
		entStr := "-"
		if len(parts) > 0 {
			entStr = strings.Join(parts, ";")
		}
		why := "-"
		if strings.Contains(res, "OUTSIDE") {
			why = classify(tmp, es, nm)
		}
		namedStr := "-"
		if named != "" {
			namedStr = named
		}
		f := strings.Fields(res)
		sc.Op("ok", "pf tar ents=%s named=%s res=%s outside=%s why=%s", entStr, namedStr, f[0], f[1], why)
		evals++
		sc.Count("result:" + strings.Fields(res)[0])
	}
	// lexical layer: filepath.Clean and resolveWritePath against the Lean functions
	sc.Case("lexical")
	sc.NonTrivial()
	{
		st, err := file.New("/r/wd")
		if err != nil {
			panic(err)
		}
		var paths []string
		enumStrings([]byte("a./"), 6, func(s string) { paths = append(paths, s) })
		for i := 0; i < 3000; i++ {
			var b []byte
			for k := 0; k < 1+rng.Intn(14); k++ {
				b = append(b, "ab./"[rng.Intn(4)])
				if rng.Intn(4) == 0 {
					b = append(b, "../"...)
				}
			}
			paths = append(paths, string(b))
		}
		paths = append(paths, "/r/wd", "/r/wd/x", "/r/wdx", "/r", "/", "/r/wd/../wd/y", "/r/wd/../../r/wd/z",
			"../wd-backup/victim", "../wdx", "/r/wd-backup/victim", "a/../../wd2/x", "../wd", "../wd/x", "..wd", "..a/b", "a/..b")
		for _, p := range paths {
			sc.Op(filepath.Clean(p), "pf clean s=%s", p)
			got, err := st.VerifResolveWritePath(p)
			ans := "err"
			if err == nil {
				ans = "ok:" + filepath.Clean(got)
			}
			sc.Op(ans, "pf writepath wd=/r/wd name=%s", p)
			evals += 2
		}
		st.Close()
	}
	// corpus first: the two witnesses of F3a / F3b
	runOne("F3a", []tarEnt{{'d', "d/s", ""}, {'s', "d/s/l1", ".."}, {'s', "d/s/l2", "l1/../../victim"}, {'r', "d/s/l2", ""}}, "")
	runOne("F3b", []tarEnt{{'h', "d/a", "cfile"}, {'r', "d/a", ""}}, "")
	// hard links whose target is an existing file outside the working directory, named
	// absolutely or relative to the process directory: refused, and a following regular entry
	// of the same name must not reach the outside file
	runOne("hard-abs", []tarEnt{{'h', "d/a", "ABS-OUTSIDE"}, {'r', "d/a", ""}}, "")
	runOne("hard-abs", []tarEnt{{'d', "d/s", ""}, {'h', "d/s/l1", "ABS-OUTSIDE"}, {'r', "d/s/l1", ""}}, "")
	runOne("hard-dotdot", []tarEnt{{'h', "d/a", "../outside/victim"}, {'r', "d/a", ""}}, "")
	// extraction into a directory that already holds symbolic links leading outside: a
	// directory link (entries beneath it) and a file link (an entry of the same name)
	archivePrepop = func(sb *sandbox) {
		os.MkdirAll(filepath.Join(sb.wd, "d"), 0o755)
		os.Symlink(filepath.Join(sb.root, "outside"), filepath.Join(sb.wd, "d", "out"))
		os.Symlink(filepath.Join(sb.root, "outside", "victim"), filepath.Join(sb.wd, "d", "vlink"))
		os.Symlink("../../../../outside/victim", filepath.Join(sb.wd, "d", "rlink"))
	}
	runOne("prepop-dirlink", []tarEnt{{'r', "d/out/victim", ""}}, "")
	runOne("prepop-dirlink", []tarEnt{{'r', "d/out/newfile", ""}}, "")
	runOne("prepop-dirlink", []tarEnt{{'d', "d/out/sub", ""}, {'r', "d/out/sub/x", ""}}, "")
	runOne("prepop-filelink", []tarEnt{{'r', "d/vlink", ""}}, "")
	runOne("prepop-filelink", []tarEnt{{'r', "d/rlink", ""}}, "")
	runOne("prepop-filelink", []tarEnt{{'h', "d/h", "d/vlink"}, {'r', "d/h", ""}}, "")
	runOne("prepop-filelink", []tarEnt{{'s', "d/s2", "vlink"}, {'r', "d/s2", ""}}, "")
	archivePrepop = nil
	// directory entries are names too: with ".." segments, absolute, and beneath a link that
	// the directory already holds
	runOne("dir-dotdot", []tarEnt{{'d', "../../escaped/deep", ""}}, "")
	runOne("dir-dotdot", []tarEnt{{'d', "d/../../../escaped", ""}, {'r', "d/../../../escaped/x", ""}}, "")
	runOne("dir-abs", []tarEnt{{'d', "ABS:outside/newdir", ""}}, "")
	archivePrepop = func(sb *sandbox) {
		os.MkdirAll(filepath.Join(sb.wd, "d"), 0o755)
		os.Symlink(filepath.Join(sb.root, "outside"), filepath.Join(sb.wd, "d", "out"))
	}
	// entries two and three levels below a link the directory already holds, with real
	// directories in between (the link's destination has sub-directories of its own)
	archivePrepop = func(sb *sandbox) {
		os.MkdirAll(filepath.Join(sb.wd, "d"), 0o755)
		os.MkdirAll(filepath.Join(sb.root, "outside", "sub", "deeper"), 0o755)
		os.WriteFile(filepath.Join(sb.root, "outside", "sub", "victim2"), []byte("precious"), 0o644)
		os.Symlink(filepath.Join(sb.root, "outside"), filepath.Join(sb.wd, "d", "out"))
	}
	runOne("prepop-dirlink-deep", []tarEnt{{'r', "d/out/sub/victim2", ""}}, "")
	runOne("prepop-dirlink-deep", []tarEnt{{'r', "d/out/sub/new", ""}}, "")
	runOne("prepop-dirlink-deep", []tarEnt{{'d', "d/out/sub/newdir", ""}}, "")
	runOne("prepop-dirlink-deep", []tarEnt{{'r', "d/out/sub/deeper/new", ""}}, "")
	archivePrepop = func(sb *sandbox) {
		os.MkdirAll(filepath.Join(sb.wd, "d"), 0o755)
		os.Symlink(filepath.Join(sb.root, "outside"), filepath.Join(sb.wd, "d", "out"))
	}
	runOne("prepop-dirlink-mkdir", []tarEnt{{'d', "d/out/planted", ""}}, "")
	runOne("prepop-dirlink-mkdir", []tarEnt{{'d', "d/out/planted/deeper", ""}}, "")
	archivePrepop = nil
	// PreservePermissions: the modes an archive carries are applied inside the working
	// directory only - a hard link to a file of the process directory shares that file's
	// inode, and must not have the entry's mode applied to it
	archivePreserve = true
	runOne("hard-preserve-mode", []tarEnt{{'h', "d/a", "cfile"}}, "")
	runOne("hard-preserve-mode", []tarEnt{{'d', "d/s", ""}, {'h', "d/s/l1", "cfile"}, {'d', "d/t", ""}}, "")
	runOne("sym-preserve-mode", []tarEnt{{'s', "d/a", "../../cfile"}}, "")
	// a directory or regular entry at the very path of a link the directory already holds:
	// the mode it carries is applied by name
	archivePrepop = func(sb *sandbox) {
		os.MkdirAll(filepath.Join(sb.wd, "d"), 0o755)
		os.Symlink(filepath.Join(sb.root, "outside"), filepath.Join(sb.wd, "d", "out"))
		os.Symlink(filepath.Join(sb.root, "outside", "victim"), filepath.Join(sb.wd, "d", "vlink"))
		os.Symlink("../../../../outside/dir", filepath.Join(sb.wd, "d", "rdir"))
	}
	runOne("prepop-link-preserve-mode", []tarEnt{{'d', "d/out", ""}}, "")
	runOne("prepop-link-preserve-mode", []tarEnt{{'d', "d/rdir", ""}}, "")
	runOne("prepop-link-preserve-mode", []tarEnt{{'r', "d/vlink", ""}}, "")
	runOne("prepop-link-preserve-mode", []tarEnt{{'d', "d/out", ""}, {'r', "d/out/victim", ""}}, "")
	archivePrepop = nil
	// ... and of a link an earlier entry of the same archive created (lexically inside)
	runOne("chain-preserve-mode", []tarEnt{{'d', "d/s", ""}, {'s', "d/s/l1", ".."}, {'s', "d/s/l2", "l1/../.."}, {'d', "d/s/l2", ""}}, "")
	runOne("chain-preserve-mode", []tarEnt{{'d', "d/s", ""}, {'s', "d/s/l1", ".."}, {'s', "d/s/l2", "l1/../../victim"}, {'r', "d/s/l2", ""}}, "")
	archivePreserve = false
	// symbolic links whose absolute target starts with the working directory's path but leaves
	// it through "..", and (archive pushed under the title ".") a relative target into the
	// sibling directory whose name extends the working directory's
	runOne("sym-abs-dotdot", []tarEnt{{'s', "d/a", "ABSWD:d/../../../../outside/victim"}, {'r', "d/a", ""}}, "")
	runOne("sym-abs-dotdot", []tarEnt{{'d', "d/s", ""}, {'s', "d/s/l1", "ABSWD:d/d/s/../../../../../../outside/victim"}, {'r', "d/s/l1", ""}}, "")
	// the same targets for hard links (a regular entry replaces a symbolic link at its path,
	// a hard link it writes into), and for a link that is left behind and then named by a
	// later push
	runOne("hard-abs-dotdot", []tarEnt{{'h', "d/a", "ABSWD:d/../../../../outside/victim"}, {'r', "d/a", ""}}, "")
	runOne("hard-abs-dotdot", []tarEnt{{'d', "d/s", ""}, {'h', "d/s/l1", "ABSWD:d/d/s/../../../../../../outside/victim"}, {'r', "d/s/l1", ""}}, "")
	runOne("sym-abs-dotdot-then-named", []tarEnt{{'s', "d/l", "ABSWD:d/../../../../outside/victim"}}, "d/l")
	runOne("sym-abs-dotdot-then-named", []tarEnt{{'d', "d/s", ""}, {'s', "d/s/l", "ABSWD:d/../../../../outside"}}, "d/s/l/victim")
	// absolute entry names that are lexically inside the unpack directory but whose ".."
	// segments follow a symbolic link an earlier entry created (the link itself stays inside)
	runOne("name-abs-dotdot", []tarEnt{{'d', "d/d1/d2", ""}, {'s', "d/d1/d2/l", "../.."}, {'r', "ABSWD:d/d1/d2/l/../../victim", ""}}, "")
	runOne("name-abs-dotdot", []tarEnt{{'d', "d/d1/d2", ""}, {'s', "d/d1/d2/l", "../.."}, {'d', "ABSWD:d/d1/d2/l/../../planted", ""}}, "")
	runOne("name-abs-dotdot", []tarEnt{{'r', "ABSWD:d/x/../y", ""}}, "")
	runOne("name-abs-dotdot", []tarEnt{{'r', "ABSWD:d/../../victim", ""}}, "")
	// an archive that is refused because of a symbolic link leading outside must not leave
	// that link behind: a later push to the same path would be written through it
	runOne("sym-rejected-then-named", []tarEnt{{'s', "d/l", "ABS-OUTSIDE"}}, "d/l")
	runOne("sym-rejected-then-named", []tarEnt{{'s', "d/l", "../../../../outside/victim"}}, "d/l")
	runOne("sym-rejected-then-named", []tarEnt{{'d', "d/s", ""}, {'s', "d/s/l", "../../../../../outside/victim"}}, "d/s/l")
	runOne("sym-rejected-then-named", []tarEnt{{'r', "d/l", ""}, {'s', "d/l", "ABS-OUTSIDE"}}, "d/l")
	archiveTitle = "."
	runOne("sym-sibling-prefix", []tarEnt{{'s', "l", "../wd-backup/victim"}, {'r', "l", ""}}, "")
	runOne("sym-sibling-prefix", []tarEnt{{'d', "s", ""}, {'s', "s/l", "../../wd-backup/victim"}, {'r', "s/l", ""}}, "")
	runOne("hard-sibling-prefix", []tarEnt{{'h', "l", "ABS:p1/p2/wd-backup/victim"}, {'r', "l", ""}}, "")
	runOne("hard-sibling-prefix", []tarEnt{{'d', "s", ""}, {'h', "s/l", "ABS:p1/p2/wd-backup/victim"}, {'r', "s/l", ""}}, "")
	archiveTitle = "d"
	// a directory reached through a chain of symlinks: the ancestor check must reject the file beneath it
	runOne("dir-chain", []tarEnt{{'d', "d/s", ""}, {'s', "d/s/l1", ".."}, {'s', "d/s/l2", "l1/../.."}, {'r', "d/s/l2/x", ""}}, "")
	runOne("dir-chain-named", []tarEnt{{'d', "d/s", ""}, {'s', "d/s/l1", ".."}, {'s', "d/s/l2", "l1/../.."}}, "d/s/l2/x")
	// named blobs with hostile titles
	for _, n := range []string{"a", "a/b", "../x", "a/../../x", "a/../b", "./a", "a//b", "ABS:outside/newfile", "ABS:p1/p2/wd/inside", "..", ".", "a/..", "../wd/x", "../../p2/victim",
		"../wd-backup/victim", "../wd-backup/new", "sub/../../wd-backup/victim", "ABS:p1/p2/wd-backup/victim", "../wdx", "..data", "..a/b"} {
		runOne("named", nil, n)
	}
	// the same hostile titles with DisableOverwrite: the option adds a refusal, it removes none
	archiveNoOverwrite = true
	for _, n := range []string{"a", "../x", "a/../../newdir/x", "ABS:outside/newfile", "../wd-backup/new", "ABS:p1/p2/wd-backup/new2", "../../p2/new3", "sub/../../wd-backup/new4"} {
		runOne("named-nooverwrite", nil, n)
	}
	runOne("archive-nooverwrite", []tarEnt{{'r', "d/a", ""}, {'r', "d/../../escaped", ""}}, "")
	runOne("archive-nooverwrite-title", nil, "")
	archiveTitle = "../outdir"
	runOne("archive-nooverwrite-title", []tarEnt{{'r', "../outdir/x", ""}}, "")
	archiveTitle = "d"
	archiveNoOverwrite = false
	// titles that reach the disk through duplicate restoration: content stored under a good
	// name, then a manifest listing the same bytes under another title
	for _, n := range []string{"sub/inside.txt", "../escape.txt", "sub/../../../outside/victim", "ABS:outside/victim", "../../victim",
		"ok/../../x", "ABS:outside/newfile", "..", "a/../../p2/victim"} {
		sc.Case("restore-duplicate")
		sc.NonTrivial()
		sb := newSandbox(tmp, idx)
		idx++
		title := n
		if strings.HasPrefix(title, "ABS:") {
			title = filepath.Join(sb.root, strings.TrimPrefix(title, "ABS:"))
		}
		res := runRestore(sb, title)
		os.RemoveAll(sb.root)
		f := strings.Fields(res)
		sc.Op("ok", "pf tar ents=- named=- via=%s res=%s outside=%s why=-", n, f[0], f[1])
		evals++
		sc.Count("restore:" + f[0])
	}
	// exhaustive: all archives of up to two entries
	for _, a := range kinds {
		runOne("1", []tarEnt{{'d', "d/s", ""}, a}, "")
	}
	n2 := 0
	for _, a := range kinds {
		for _, b := range kinds {
			// keep the second entry related to the first (same name, or beneath it, or a regular file)
			if !(b.name == a.name || strings.HasPrefix(b.name, a.name+"/") || a.typ == 's' || a.typ == 'h') {
				continue
			}
			if tier != "thorough" && n2%3 != int(seed)%3 {
				n2++
				continue
			}
			n2++
			runOne("2", []tarEnt{{'d', "d/s", ""}, a, b}, "")
		}
	}
	// random longer archives, with a named blob pushed afterwards through what was extracted
	nr := 300
	if tier == "thorough" {
		nr = 20000
	}
	for i := 0; i < nr; i++ {
		ents := []tarEnt{{'d', "d/s", ""}}
		for k := 0; k < 2+rng.Intn(4); k++ {
			ents = append(ents, kinds[rng.Intn(len(kinds))])
		}
		named := ""
		if rng.Intn(3) == 0 {
			named = []string{"d/s/l2", "d/s/l1/x", "d/a", "d/s/l2/x"}[rng.Intn(4)]
		}
		runOne("r", ents, named)
	}
	sc.Extra["evaluations"] = evals
	sc.Extra["entry_kinds"] = len(kinds)
	return nil
}
