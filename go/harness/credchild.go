//go:build verif

package main

func credChildMain(args []string) { credChildMainImpl(args) }
