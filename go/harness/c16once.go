//go:build verif

package main

// C16: syncutil.Once driven directly by many goroutines with contexts that are cancelled
// at chosen moments; the fetch function records when it runs.  What every caller got back
// is checked against the single-flight rules the Lean model proves (Props/C16b.lean).

import (
	"context"
	"fmt"
	"math/rand"
	"strings"
	"sync"
	"sync/atomic"
	"time"

	"oras.land/oras-go/v2/internal/syncutil"
)

func init() { domains["C16o"] = runC16Once }

func runC16Once(seed int64, tier string, sc *Script) map[string]any {
	rng := rand.New(rand.NewSource(seed))
	rounds := 200
	if tier == "thorough" {
		rounds = 5000
	}
	handovers := 0
	sc.Case("once-do")
	sc.NonTrivial()
	for ri := 0; ri < rounds; ri++ {
		n := 2 + rng.Intn(8)
		once := syncutil.NewOnce()
		var inFlight, maxInFlight, runs, completed int32
		type outcome struct {
			first bool
			val   any
			err   error
		}
		outs := make([]outcome, n)
		ownErr := make([]error, n) // the caller's own context error when Do returned
		// in every other round contexts end by deadline instead of cancellation
		deadlineMode := ri%2 == 1
		// per caller: delay before the call, whether its context is cancelled while it fetches,
		// whether it gives up waiting early
		cancelInFetch := make([]bool, n)
		giveUp := make([]bool, n)
		delays := make([]time.Duration, n)
		fetchDur := make([]time.Duration, n)
		for i := 0; i < n; i++ {
			cancelInFetch[i] = rng.Intn(3) == 0
			giveUp[i] = rng.Intn(6) == 0
			delays[i] = time.Duration(rng.Intn(200)) * time.Microsecond
			fetchDur[i] = time.Duration(100+rng.Intn(200)) * time.Microsecond
		}
		var stored atomic.Value
		var wg sync.WaitGroup
		for i := 0; i < n; i++ {
			wg.Add(1)
			go func(i int) {
				defer wg.Done()
				time.Sleep(delays[i])
				ctx, cancel := context.WithCancel(context.Background())
				if deadlineMode && cancelInFetch[i] {
					cancel()
					ctx, cancel = context.WithTimeout(context.Background(), fetchDur[i]/2+delays[i]/4)
				}
				defer cancel()
				if giveUp[i] {
					go func() { time.Sleep(50 * time.Microsecond); cancel() }()
				}
				first, v, err := once.Do(ctx, func() (any, error) {
					c := atomic.AddInt32(&inFlight, 1)
					for {
						m := atomic.LoadInt32(&maxInFlight)
						if c <= m || atomic.CompareAndSwapInt32(&maxInFlight, m, c) {
							break
						}
					}
					atomic.AddInt32(&runs, 1)
					time.Sleep(fetchDur[i])
					defer atomic.AddInt32(&inFlight, -1)
					if cancelInFetch[i] {
						if deadlineMode {
							<-ctx.Done() // the deadline passes while the fetch is under way
						} else {
							cancel()
						}
						return nil, ctx.Err() // the fetch notices its context
					}
					atomic.AddInt32(&completed, 1)
					val := fmt.Sprintf("token-by-%d", i)
					stored.Store(val)
					return val, nil
				})
				ownErr[i] = ctx.Err()
				outs[i] = outcome{first, v, err}
			}(i)
		}
		done := make(chan struct{})
		go func() { wg.Wait(); close(done) }()
		select {
		case <-done:
		case <-time.After(20 * time.Second):
			sc.Op("HANG", "au once round=%d callers=%d", ri, n)
			panic("Once.Do did not return")
		}
		verdict := "ok"
		if maxInFlight > 1 {
			verdict = fmt.Sprintf("two-fetches-in-flight(%d)", maxInFlight)
		}
		if completed > 1 {
			verdict = fmt.Sprintf("fetch-completed-%d-times", completed)
		}
		firsts := 0
		var shared any
		for i, o := range outs {
			if o.first {
				firsts++
			}
			if o.err == nil {
				if shared == nil {
					shared = o.val
				} else if shared != o.val {
					verdict = fmt.Sprintf("callers-got-different-results(%v,%v)", shared, o.val)
				}
				if sv := stored.Load(); sv == nil || sv != o.val {
					verdict = fmt.Sprintf("caller-%d-result-not-the-stored-one", i)
				}
			} else if o.err != context.Canceled && o.err != context.DeadlineExceeded {
				verdict = "unexpected-error:" + o.err.Error()
			} else if ownErr[i] == nil {
				// a caller whose own context is alive never receives another caller's context error
				verdict = fmt.Sprintf("caller-%d-with-a-live-context-got-%v", i, o.err)
			}
		}
		if firsts > 1 {
			verdict = fmt.Sprintf("%d-callers-told-first", firsts)
		}
		if completed == 1 && firsts != 1 {
			verdict = fmt.Sprintf("fetch-completed-but-%d-firsts", firsts)
		}
		if int(runs) > 1 {
			handovers++
		}
		sc.Op(strings.ReplaceAll(verdict, " ", "_"), "au once round=%d callers=%d", ri, n)
	}
	sc.Extra["evaluations"] = rounds
	sc.Extra["rounds_with_handover"] = handovers
	return nil
}
