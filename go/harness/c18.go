//go:build verif

package main

// C18: the docker-config credentials file store: histories over random pre-existing
// documents, raw preservation of everything else, file mode, crash points of a save,
// concurrent callers.

import (
	"context"
	"encoding/base64"
	"encoding/hex"
	"encoding/json"
	"errors"
	"fmt"
	"math/rand"
	"os"
	"os/exec"
	"path/filepath"
	"runtime"
	"sort"
	"strings"
	"sync"
	"sync/atomic"

	"oras.land/oras-go/v2/registry/remote/auth"
	"oras.land/oras-go/v2/registry/remote/credentials"
)

func init() { domains["C18"] = runC18 }

func hx(s string) string { return hex.EncodeToString([]byte(s)) }

type preEntry struct {
	addr, auth, idt, rgt, lu, lp string
	hasAuth                      bool
	unk                          int
}

func (e preEntry) raw() json.RawMessage {
	m := map[string]any{}
	if e.hasAuth {
		m["auth"] = base64.StdEncoding.EncodeToString([]byte(e.auth))
	}
	if e.idt != "" {
		m["identitytoken"] = e.idt
	}
	if e.rgt != "" {
		m["registrytoken"] = e.rgt
	}
	if e.lu != "" {
		m["username"] = e.lu
	}
	if e.lp != "" {
		m["password"] = e.lp
	}
	if e.unk != 0 {
		m["x-unknown"] = map[string]any{"tag": e.unk, "nested": []int{1, 2, e.unk}}
	}
	b, _ := json.Marshal(m)
	return b
}

// dumpFile renders the config file in the canonical form the driver prints.
func dumpFile(path string) string {
	b, err := os.ReadFile(path)
	if err != nil {
		return "unreadable"
	}
	var top map[string]json.RawMessage
	if err := json.Unmarshal(b, &top); err != nil {
		return "unparsable"
	}
	var auths map[string]map[string]json.RawMessage
	if raw, ok := top["auths"]; ok {
		if err := json.Unmarshal(raw, &auths); err != nil {
			return "auths-unparsable"
		}
	}
	var es []string
	for addr, f := range auths {
		str := func(k string) string {
			var s string
			json.Unmarshal(f[k], &s)
			return s
		}
		a := "-"
		if s := str("auth"); s != "" {
			dec, err := base64.StdEncoding.DecodeString(s)
			if err != nil {
				return "bad-base64"
			}
			a = hx(string(dec))
		}
		unk := 0
		if raw, ok := f["x-unknown"]; ok {
			var u struct{ Tag int }
			json.Unmarshal(raw, &u)
			unk = u.Tag
		}
		es = append(es, fmt.Sprintf("%s:[auth=%s,idt=%s,rgt=%s,lu=%s,lp=%s,unk=%d]", hx(addr), a, hx(str("identitytoken")), hx(str("registrytoken")), hx(str("username")), hx(str("password")), unk))
	}
	sort.Strings(es)
	var os_ []string
	for k, raw := range top {
		if k == "auths" {
			continue
		}
		var u struct{ Tag int }
		json.Unmarshal(raw, &u)
		os_ = append(os_, fmt.Sprintf("%s=%d", hx(k), u.Tag))
	}
	sort.Strings(os_)
	return "auths{" + strings.Join(es, ";") + "} others{" + strings.Join(os_, ";") + "}"
}

func credStr(c auth.Credential, err error) string {
	if err != nil {
		return "err:invalidFormat"
	}
	return fmt.Sprintf("cred %s|%s|%s|%s", hx(c.Username), hx(c.Password), hx(c.RefreshToken), hx(c.AccessToken))
}

type credOp struct {
	Op   string          `json:"op"`
	Addr string          `json:"addr"`
	Cred auth.Credential `json:"cred"`
}

// credRaceChild: many goroutines on one store - readers of an address that is stored under a
// legacy key (and of one that is not stored at all) against writers of other addresses.  A
// data race on the store's map ends the process with a fatal error, which the parent sees.
func credRaceChild(path string) {
	fs, err := credentials.NewFileStore(path)
	if err != nil {
		os.Exit(3)
	}
	ctx := context.Background()
	var wg sync.WaitGroup
	bad := int32(0)
	for g := 0; g < 6; g++ {
		wg.Add(1)
		go func(g int) {
			defer wg.Done()
			for k := 0; k < 400; k++ {
				switch g % 3 {
				case 0: // stored as https://legacy.example/v1/ only
					c, err := fs.Get(ctx, "legacy.example")
					if err != nil || c.Username != "lu" || c.Password != "lp" {
						atomic.StoreInt32(&bad, 1)
					}
				case 1:
					if c, err := fs.Get(ctx, "absent.example"); err != nil || c != auth.EmptyCredential {
						atomic.StoreInt32(&bad, 1)
					}
				default:
					addr := fmt.Sprintf("w%d-%d.example", g, k%40)
					if k%3 == 2 {
						fs.Delete(ctx, addr)
					} else if err := fs.Put(ctx, addr, auth.Credential{Username: "u", Password: fmt.Sprint(k)}); err != nil {
						atomic.StoreInt32(&bad, 1)
					}
				}
			}
		}(g)
	}
	wg.Wait()
	if bad != 0 {
		os.Exit(5)
	}
}

func credChildMainImpl(args []string) {
	if len(args) == 2 && args[1] == "RACE" {
		credRaceChild(args[0])
		return
	}
	runtime.LockOSThread()
	b, _ := os.ReadFile(args[1])
	var ops []credOp
	json.Unmarshal(b, &ops)
	fs, err := credentials.NewFileStore(args[0])
	if err != nil {
		os.Exit(3)
	}
	for _, o := range ops {
		switch o.Op {
		case "put":
			err = fs.Put(context.Background(), o.Addr, o.Cred)
		case "del":
			err = fs.Delete(context.Background(), o.Addr)
		}
		if err != nil {
			os.Exit(4)
		}
	}
}

func runC18(seed int64, tier string, sc *Script) map[string]any {
	rng := rand.New(rand.NewSource(seed))
	ctx := context.Background()
	tmp, err := os.MkdirTemp("", "verif-c18-")
	if err != nil {
		panic(err)
	}
	defer os.RemoveAll(tmp)
	cases := 60
	if tier == "thorough" {
		cases = 2500
	}
	evals := 0
	// (the last four make the standard base64 of "user:password" use '+' and '/', which the
	// URL-safe alphabet does not have)
	parts := []string{"", "u", "user", "p:a:s:s", ":", "päß wörd", "x y", "tok.en/+=", "a:b", "~~~?>>>", "ÿ", "¿qué?", ">>>???~~~"}
	hosts := []string{"r.io", "reg.example.com:5000", "localhost", "other.io", "legacy.io", "h2"}
	for ci := 0; ci < cases; ci++ {
		sc.Case("cred-history")
		sc.NonTrivial()
		path := filepath.Join(tmp, fmt.Sprintf("c%d", ci), "config.json")
		os.MkdirAll(filepath.Dir(path), 0o755)
		sc.Def("cd new")
		// what Get must answer, kept independently of the store: entries of the document as
		// written (docker's format: auth = user:password, identitytoken = refresh token,
		// registrytoken = access token, username/password when there is no auth), replaced by
		// Put under the exact address, removed by Delete under the exact address; an address is
		// also served by a legacy key - the same host with a scheme and/or a path
		var preLive []preEntry
		puts := map[string]auth.Credential{}
		hostOfKey := func(k string) string {
			k = strings.TrimPrefix(strings.TrimPrefix(k, "https://"), "http://")
			if i := strings.IndexByte(k, '/'); i >= 0 {
				k = k[:i]
			}
			return k
		}
		credOfPre := func(e preEntry) auth.Credential {
			c := auth.Credential{Username: e.lu, Password: e.lp, RefreshToken: e.idt, AccessToken: e.rgt}
			if e.hasAuth {
				i := strings.IndexByte(e.auth, ':')
				c.Username, c.Password = e.auth[:i], e.auth[i+1:]
			}
			return c
		}
		expect := func(addr string) string {
			c := auth.EmptyCredential
			if pc, ok := puts[addr]; ok {
				c = pc
			} else {
				found := false
				for _, e := range preLive {
					if e.addr == addr {
						c, found = credOfPre(e), true
					}
				}
				for _, e := range preLive {
					if !found && hostOfKey(e.addr) == addr {
						c, found = credOfPre(e), true
					}
				}
			}
			return fmt.Sprintf("%s|%s|%s|%s", hx(c.Username), hx(c.Password), hx(c.RefreshToken), hx(c.AccessToken))
		}
		dropExact := func(addr string) {
			var keep []preEntry
			for _, e := range preLive {
				if e.addr != addr {
					keep = append(keep, e)
				}
			}
			preLive = keep
		}
		// pre-existing document
		// every third history: one host under two key forms (bare and https://host/v1/), the
		// bare one deleted first and then read (the other form must still answer, and stay)
		twoForms := ci%3 == 1
		h0 := hosts[ci%len(hosts)]
		if rng.Intn(4) != 0 || twoForms {
			top := map[string]json.RawMessage{}
			auths := map[string]json.RawMessage{}
			used := map[string]bool{}
			if twoForms {
				used[h0] = true
				for fi, addr := range []string{h0, "https://" + h0 + "/v1/"} {
					e := preEntry{addr: addr, unk: 1 + fi, hasAuth: true, auth: fmt.Sprintf("user%d:pass%d", fi, fi)}
					auths[addr] = e.raw()
					preLive = append(preLive, e)
					sc.Def("cd entry addr=%s auth=%s idt=%s rgt=%s lu=%s lp=%s unk=%d", hx(addr), hx(e.auth), hx(e.idt), hx(e.rgt), hx(e.lu), hx(e.lp), e.unk)
				}
				sc.Count("pre:one-host-two-key-forms")
			}
			for k := 0; k < rng.Intn(4); k++ {
				h := hosts[rng.Intn(len(hosts))]
				if used[h] {
					continue
				}
				used[h] = true
				addr := h
				if rng.Intn(3) == 0 {
					// legacy keys: with a scheme, or bare with a path / trailing slash
					addr = []string{"https://" + h + "/v1/", "http://" + h, "https://" + h, h + "/v1/", h + "/"}[rng.Intn(5)]
				}
				e := preEntry{addr: addr, unk: rng.Intn(3)}
				if rng.Intn(3) != 0 {
					e.hasAuth = true
					e.auth = parts[1+rng.Intn(3)] + ":" + parts[rng.Intn(len(parts))]
				} else if rng.Intn(2) == 0 {
					e.lu, e.lp = "legacyuser", "legacy:pass"
				}
				if rng.Intn(3) == 0 {
					e.idt = "idtok"
				}
				if rng.Intn(3) == 0 {
					e.rgt = "regtok"
				}
				auths[addr] = e.raw()
				preLive = append(preLive, e)
				a := "-"
				if e.hasAuth {
					a = hx(e.auth)
				}
				sc.Def("cd entry addr=%s auth=%s idt=%s rgt=%s lu=%s lp=%s unk=%d", hx(addr), a, hx(e.idt), hx(e.rgt), hx(e.lu), hx(e.lp), e.unk)
			}
			ab, _ := json.Marshal(auths)
			top["auths"] = ab
			for k := 0; k < rng.Intn(3); k++ {
				key := []string{"HttpHeaders", "psFormat", "experimental", "detachKeys"}[rng.Intn(4)]
				if _, ok := top[key]; ok {
					continue
				}
				tag := 1 + rng.Intn(9)
				top[key] = json.RawMessage(fmt.Sprintf(`{"tag":%d,"deep":{"list":[1,"two",null]}}`, tag))
				sc.Def("cd other key=%s tag=%d", hx(key), tag)
			}
			b, _ := json.Marshal(top)
			os.WriteFile(path, b, 0o644)
		}
		fs, err := credentials.NewFileStore(path)
		if err != nil {
			panic(err)
		}
		rawOthers := func() string {
			b, err := os.ReadFile(path)
			if err != nil {
				return ""
			}
			var top map[string]json.RawMessage
			json.Unmarshal(b, &top)
			var ks []string
			for k, v := range top {
				if k != "auths" {
					var c strings.Builder
					var anyv any
					json.Unmarshal(v, &anyv)
					cb, _ := json.Marshal(anyv)
					c.Write(cb)
					ks = append(ks, k+"="+c.String())
				}
			}
			sort.Strings(ks)
			return strings.Join(ks, "|")
		}
		othersBefore := rawOthers()
		wrote := false
		for step := 0; step < 12; step++ {
			addr := hosts[rng.Intn(len(hosts))]
			evals++
			r := rng.Intn(10)
			if twoForms && step == 0 {
				addr, r = h0, 9
			}
			if twoForms && step == 1 {
				addr, r = h0, 5
			}
			switch {
			case r < 5:
				c := auth.Credential{Username: parts[rng.Intn(len(parts))], Password: parts[rng.Intn(len(parts))]}
				if strings.ContainsAny(base64.StdEncoding.EncodeToString([]byte(c.Username+":"+c.Password)), "+/") {
					sc.Count("put:base64-uses-plus-or-slash")
				}
				if rng.Intn(3) == 0 {
					c.RefreshToken = "refresh-" + parts[rng.Intn(len(parts))]
				}
				if rng.Intn(3) == 0 {
					c.AccessToken = "access"
				}
				if !strings.Contains(c.Username, ":") && rng.Intn(4) == 0 {
					// the save fails (the config path is, for a moment, a non-empty directory);
					// once the fault is gone the caller retries the same Put, which must reach the file
					bak := path + ".bak"
					_, statErr := os.Stat(path)
					if statErr == nil {
						os.Rename(path, bak)
					}
					os.MkdirAll(filepath.Join(path, "blocker"), 0o755)
					ferr := fs.Put(ctx, addr, c)
					os.RemoveAll(path)
					if statErr == nil {
						os.Rename(bak, path)
					}
					if ferr == nil {
						panic("injected save failure did not fail")
					}
					sc.Def("# cd putfail addr=%s (save failed: %s)", hx(addr), strings.ReplaceAll(ferr.Error(), " ", "_"))
					sc.Count("op:put-with-failing-save")
				}
				err := fs.Put(ctx, addr, c)
				res := "ok"
				if errors.Is(err, credentials.ErrBadCredentialFormat) {
					res = "err:badFormat"
				} else if err != nil {
					res = "err:other"
				}
				sc.Op(res, "cd put addr=%s u=%s p=%s rt=%s at=%s", hx(addr), hx(c.Username), hx(c.Password), hx(c.RefreshToken), hx(c.AccessToken))
				if err == nil {
					wrote = true
					dropExact(addr)
					puts[addr] = c
					got, gerr := fs.Get(ctx, addr)
					v := "same"
					if gerr != nil || got != c {
						v = "different"
					}
					sc.Op(v, "cd roundtrip addr=%s", hx(addr))
					if fi, err := os.Stat(path); err == nil {
						sc.Op(fmt.Sprintf("%o", fi.Mode().Perm()), "cd mode")
					}
				}
			case r < 8:
				c, err := fs.Get(ctx, addr)
				sc.Op(credStr(c, err), "cd get addr=%s want=%s", hx(addr), expect(addr))
			default:
				if err := fs.Delete(ctx, addr); err != nil {
					panic(err)
				}
				dropExact(addr)
				delete(puts, addr)
				sc.Op("ok", "cd del addr=%s", hx(addr))
			}
			if wrote {
				sc.Op(dumpFile(path), "cd dump")
				v := "preserved"
				if rawOthers() != othersBefore {
					v = "changed"
				}
				sc.Op(v, "cd others")
			}
		}
		// a fresh store on the same file sees the same credentials
		if wrote {
			fs2, err := credentials.NewFileStore(path)
			if err != nil {
				panic(err)
			}
			for _, h := range hosts {
				c, err := fs2.Get(ctx, h)
				sc.Op(credStr(c, err), "cd get addr=%s want=%s", hx(h), expect(h))
			}
		}
	}
	// crash points of a save
	sc.Case("cred-crash")
	sc.NonTrivial()
	self, _ := os.Executable()
	kills := 3
	if tier == "thorough" {
		kills = 40
	}
	for ki := 0; ki < kills; ki++ {
		dir := filepath.Join(tmp, fmt.Sprintf("k%d", ki))
		os.MkdirAll(dir, 0o755)
		path := filepath.Join(dir, "config.json")
		fs, _ := credentials.NewFileStore(path)
		fs.Put(ctx, "r.io", auth.Credential{Username: "old", Password: "oldpass"})
		oldDump := dumpFile(path)
		ops := []credOp{{Op: "put", Addr: "r.io", Cred: auth.Credential{Username: "new", Password: fmt.Sprintf("newpass-%d", ki)}}}
		if ki%2 == 1 {
			ops = []credOp{{Op: "del", Addr: "r.io"}}
		}
		ob, _ := json.Marshal(ops)
		opsFile := filepath.Join(dir, "ops.json")
		os.WriteFile(opsFile, ob, 0o644)
		base := filepath.Join(dir, "base.json")
		b0, _ := os.ReadFile(path)
		os.WriteFile(base, b0, 0o600)
		logPath := filepath.Join(dir, "trace.log")
		cmd := exec.Command("strace", "-f", "-o", logPath, "-e", "trace="+straceSet, self, "credchild", path, opsFile)
		cmd.Env = append(os.Environ(), "GOMAXPROCS=1")
		if out, err := cmd.CombinedOutput(); err != nil {
			panic(fmt.Sprintf("credchild: %v %s", err, out))
		}
		newDump := dumpFile(path)
		pts, _ := parseTrace(logPath, dir)
		for pi, kp := range pts {
			os.WriteFile(path, b0, 0o600)
			os.Chmod(path, 0o600)
			cmd := exec.Command("strace", "-f", "-o", "/dev/null", "-e", "trace="+straceSet,
				"-e", fmt.Sprintf("inject=%s:signal=SIGKILL:when=%d", kp.sys, kp.ord), self, "credchild", path, opsFile)
			cmd.Env = append(os.Environ(), "GOMAXPROCS=1")
			cmd.Run()
			d := dumpFile(path)
			v := "ok"
			if d != oldDump && d != newDump {
				v = "neither-old-nor-new:" + d
			}
			if fi, err := os.Stat(path); err != nil || fi.Mode().Perm() != 0o600 {
				v = "mode-or-missing"
			}
			sc.Op(v, "cd kill point=%d/%d at=%s", pi+1, len(pts), strings.ReplaceAll(kp.norm, " ", "_"))
			evals++
		}
		// the same system calls failing instead (disk full, I/O error): a call that reports
		// success has written the new complete file, one that reports failure left the old one
		for pi, kp := range pts {
			for _, errno := range []string{"ENOSPC", "EIO"} {
				os.WriteFile(path, b0, 0o600)
				os.Chmod(path, 0o600)
				cmd := exec.Command("strace", "-f", "-o", "/dev/null", "-e", "trace="+straceSet,
					"-e", fmt.Sprintf("inject=%s:error=%s:when=%d", kp.sys, errno, kp.ord), self, "credchild", path, opsFile)
				cmd.Env = append(os.Environ(), "GOMAXPROCS=1")
				rerr := cmd.Run()
				d := dumpFile(path)
				v := "ok"
				switch {
				case rerr == nil && d != newDump:
					v = "reported-success-but-file-is-not-the-new-one:" + d
				case rerr != nil && d != oldDump && d != newDump:
					v = "failed-and-left-neither-old-nor-new:" + d
				}
				sc.Op(v, "cd kill point=%d/%d at=%s fault=%s", pi+1, len(pts), strings.ReplaceAll(kp.norm, " ", "_"), errno)
				evals++
			}
		}
	}
	// readers of a legacy-keyed address racing writers of other addresses, in a child process
	// (a race on the store's map is fatal to the process that has it)
	sc.Case("cred-legacy-get-race")
	sc.NonTrivial()
	{
		rounds := 4
		if tier == "thorough" {
			rounds = 40
		}
		verdict := "survived"
		self, _ := os.Executable()
		for ri := 0; ri < rounds && verdict == "survived"; ri++ {
			path := filepath.Join(tmp, fmt.Sprintf("race%d.json", ri))
			var auths []string
			for k := 0; k < 200; k++ {
				auths = append(auths, fmt.Sprintf(`"pre%d.example":{"auth":"dTpw"}`, k))
			}
			os.WriteFile(path, []byte(`{"auths":{"https://legacy.example/v1/":{"auth":"bHU6bHA="},`+strings.Join(auths, ",")+`}}`), 0o600)
			cmd := exec.Command(self, "credchild", path, "RACE")
			out, err := cmd.CombinedOutput()
			if err != nil {
				first := strings.SplitN(strings.TrimSpace(string(out)), "\n", 2)[0]
				verdict = "child-died:" + strings.ReplaceAll(first, " ", "_")
				if ee, ok := err.(*exec.ExitError); ok && ee.ExitCode() == 5 {
					verdict = "wrong-answer-under-concurrency"
				}
			}
		}
		sc.Op(verdict, "cd legacyrace rounds=%d", rounds)
		evals++
	}
	// concurrent callers: the final file equals some sequential order (per-address last writer)
	sc.Case("cred-concurrent")
	sc.NonTrivial()
	rounds := 10
	if tier == "thorough" {
		rounds = 300
	}
	for ri := 0; ri < rounds; ri++ {
		path := filepath.Join(tmp, fmt.Sprintf("cc%d", ri), "config.json")
		os.MkdirAll(filepath.Dir(path), 0o755)
		fs, _ := credentials.NewFileStore(path)
		var wg sync.WaitGroup
		type put struct {
			addr string
			c    auth.Credential
		}
		var mu sync.Mutex
		byAddr := map[string][]auth.Credential{}
		for g := 0; g < 8; g++ {
			wg.Add(1)
			go func(g int) {
				defer wg.Done()
				for k := 0; k < 5; k++ {
					addr := hosts[(g+k)%3]
					c := auth.Credential{Username: fmt.Sprintf("u%d", g), Password: fmt.Sprintf("p%d-%d", g, k)}
					mu.Lock()
					byAddr[addr] = append(byAddr[addr], c)
					mu.Unlock()
					if err := fs.Put(ctx, addr, c); err != nil {
						panic(err)
					}
					fs.Get(ctx, addr)
				}
			}(g)
		}
		wg.Wait()
		v := "serialisable"
		fs2, err := credentials.NewFileStore(path)
		if err != nil {
			v = "file-damaged"
		} else {
			for addr, cs := range byAddr {
				got, err := fs2.Get(ctx, addr)
				ok := false
				for _, c := range cs {
					if err == nil && got == c {
						ok = true
					}
				}
				if !ok {
					v = "value-never-written:" + addr
				}
				mem, _ := fs.Get(ctx, addr)
				if mem != got {
					v = "memory-and-file-disagree"
				}
			}
		}
		sc.Op(v, "cd concurrent round=%d", ri)
		evals++
	}
	// concurrent callers, each goroutine working on addresses of its own: whatever the
	// interleaving, every sequential order of the calls ends in the same file, namely each
	// address holding what its owner did last, with the foreign keys untouched
	sc.Case("cred-concurrent-owned")
	sc.NonTrivial()
	ownedRounds := 60
	if tier == "thorough" {
		ownedRounds = 1500
	}
	for ri := 0; ri < ownedRounds; ri++ {
		path := filepath.Join(tmp, fmt.Sprintf("co%d", ri), "config.json")
		os.MkdirAll(filepath.Dir(path), 0o755)
		const G = 8
		// pre-populate: every goroutine owns two addresses; plus keys the library does not know
		auths := map[string]any{}
		for g := 0; g < G; g++ {
			for a := 0; a < 2; a++ {
				auths[fmt.Sprintf("own%d-%d.test", g, a)] = map[string]any{
					"auth": base64.StdEncoding.EncodeToString([]byte(fmt.Sprintf("init%d:pw%d", g, a))), "x-unknown": g}
			}
		}
		auths["keep.test"] = map[string]any{"auth": base64.StdEncoding.EncodeToString([]byte("keep:kpw")), "identitytoken": "krt"}
		doc := map[string]any{"auths": auths, "x-foreign": map[string]any{"a": []int{1, 2, 3}}, "credsStore": ""}
		b, _ := json.Marshal(doc)
		os.WriteFile(path, b, 0o600)
		fs, err := credentials.NewFileStore(path)
		if err != nil {
			panic(err)
		}
		final := make([]map[string]*auth.Credential, G) // per goroutine: address -> last state (nil = deleted)
		plans := make([][]int, G)
		for g := 0; g < G; g++ {
			final[g] = map[string]*auth.Credential{}
			n := 2 + rng.Intn(4)
			for k := 0; k < n; k++ {
				plans[g] = append(plans[g], rng.Intn(100))
			}
		}
		var wg sync.WaitGroup
		var failed sync.Map
		for g := 0; g < G; g++ {
			wg.Add(1)
			go func(g int) {
				defer wg.Done()
				for k, r := range plans[g] {
					addr := fmt.Sprintf("own%d-%d.test", g, r%2)
					if r < 60 { // deletes dominate
						if err := fs.Delete(ctx, addr); err != nil {
							failed.Store(fmt.Sprintf("delete:%v", err), true)
						}
						final[g][addr] = nil
					} else {
						c := auth.Credential{Username: fmt.Sprintf("u%d", g), Password: fmt.Sprintf("p%d-%d", g, k)}
						if err := fs.Put(ctx, addr, c); err != nil {
							failed.Store(fmt.Sprintf("put:%v", err), true)
						}
						final[g][addr] = &c
					}
					fs.Get(ctx, "keep.test")
				}
			}(g)
		}
		wg.Wait()
		v := "serialisable"
		failed.Range(func(k, _ any) bool { v = "call-failed:" + k.(string); return false })
		fs2, err := credentials.NewFileStore(path)
		if err != nil {
			v = "file-damaged"
		} else if v == "serialisable" {
			for g := 0; g < G; g++ {
				for addr, want := range final[g] {
					got, err := fs2.Get(ctx, addr)
					switch {
					case err != nil:
						v = "get-failed:" + addr
					case want == nil && got != auth.EmptyCredential:
						v = "deleted-entry-still-in-file:" + addr
					case want != nil && got != *want:
						v = "last-put-lost:" + addr
					}
				}
			}
			if k, _ := fs2.Get(ctx, "keep.test"); k.Username != "keep" || k.Password != "kpw" || k.RefreshToken != "krt" {
				v = "untouched-entry-changed"
			}
			raw, _ := os.ReadFile(path)
			var back struct {
				Foreign struct {
					A []int `json:"a"`
				} `json:"x-foreign"`
			}
			if json.Unmarshal(raw, &back) != nil || fmt.Sprint(back.Foreign.A) != "[1 2 3]" {
				v = "foreign-key-lost"
			}
		}
		sc.Op(v, "cd concurrent round=%d", ri)
		sc.Count("concurrent-owned")
		evals++
	}
	sc.Extra["evaluations"] = evals
	return nil
}
