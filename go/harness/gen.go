//go:build verif

package main

// Universe generator: Merkle DAGs built from the repository's own manifest types.
// The edge lists recorded here are the generator's ground truth; they are computed
// from how each manifest was assembled, never by calling content.Successors.

import (
	"encoding/json"
	"fmt"
	"math/rand"

	"github.com/opencontainers/go-digest"
	"github.com/opencontainers/image-spec/specs-go"
	ocispec "github.com/opencontainers/image-spec/specs-go/v1"
	"oras.land/oras-go/v2/internal/docker"
	"oras.land/oras-go/v2/internal/spec"
)

type Kind int

const (
	KBlob Kind = iota
	KForeign
	KDockerManifest
	KOCIManifest
	KDockerList
	KOCIIndex
	KArtifact
)

func (k Kind) IsManifest() bool { return k >= KDockerManifest }

func (k Kind) String() string {
	return [...]string{"blob", "foreign", "dockerManifest", "ociManifest", "dockerList", "ociIndex", "artifact"}[k]
}

type Node struct {
	ID      int
	Kind    Kind
	Desc    ocispec.Descriptor // plain: mediaType, digest, size
	Bytes   []byte
	Succ    []int // ground truth, in content.Successors order, duplicates kept
	Subject int   // -1 if none
	Config  int   // -1 if none
	// ArtifactType / annotations as recorded in the manifest (for referrers / filters)
	ArtifactType string
	Annotations  map[string]string
	ConfigMT     string
}

type Universe struct {
	Nodes []*Node
	byKey map[string]int
	// MixedAlgs: digests are sha256, sha384 or sha512 depending on the bytes (all three are
	// registered algorithms and legal in a layout, a registry or a descriptor)
	MixedAlgs bool
}

// desc describes bytes b under media type mt, with the universe's choice of digest algorithm.
func (u *Universe) desc(mt string, b []byte) ocispec.Descriptor {
	if !u.MixedAlgs {
		return descOf(mt, b)
	}
	sum := 0
	for _, c := range b {
		sum += int(c)
	}
	alg := []digest.Algorithm{digest.SHA256, digest.SHA512, digest.SHA384, digest.SHA256}[sum%4]
	return ocispec.Descriptor{MediaType: mt, Digest: alg.FromBytes(b), Size: int64(len(b))}
}

func NewUniverse() *Universe { return &Universe{byKey: map[string]int{}} }

func keyOf(d ocispec.Descriptor) string {
	return d.MediaType + "|" + string(d.Digest) + "|" + fmt.Sprint(d.Size)
}

// IDOf maps a descriptor returned by the implementation back to a node id (-1 if unknown).
func (u *Universe) IDOf(d ocispec.Descriptor) int {
	if id, ok := u.byKey[keyOf(d)]; ok {
		return id
	}
	return -1
}

func (u *Universe) add(n *Node) *Node {
	k := keyOf(n.Desc)
	if id, ok := u.byKey[k]; ok {
		return u.Nodes[id]
	}
	n.ID = len(u.Nodes)
	u.Nodes = append(u.Nodes, n)
	u.byKey[k] = n.ID
	return n
}

func descOf(mt string, b []byte) ocispec.Descriptor {
	return ocispec.Descriptor{MediaType: mt, Digest: digest.FromBytes(b), Size: int64(len(b))}
}

func (u *Universe) AddBlob(mt string, data []byte) *Node {
	kind := KBlob
	switch mt {
	case ocispec.MediaTypeImageLayerNonDistributable, ocispec.MediaTypeImageLayerNonDistributableGzip,
		ocispec.MediaTypeImageLayerNonDistributableZstd, docker.MediaTypeForeignLayer:
		kind = KForeign
	}
	return u.add(&Node{Kind: kind, Desc: u.desc(mt, data), Bytes: data, Subject: -1, Config: -1})
}

func (u *Universe) descs(ids []int) []ocispec.Descriptor {
	out := make([]ocispec.Descriptor, 0, len(ids))
	for _, id := range ids {
		out = append(out, u.Nodes[id].Desc)
	}
	return out
}

// AddImage adds a docker or OCI image manifest.  subject < 0 means none (docker
// manifests never carry one).
func (u *Universe) AddImage(kind Kind, config int, layers []int, subject int, artifactType string, ann map[string]string) *Node {
	m := ocispec.Manifest{
		Versioned:    specs.Versioned{SchemaVersion: 2},
		Config:       u.Nodes[config].Desc,
		Layers:       u.descs(layers),
		ArtifactType: artifactType,
		Annotations:  ann,
	}
	if m.Layers == nil {
		m.Layers = []ocispec.Descriptor{}
	}
	n := &Node{Kind: kind, Subject: -1, Config: config, ArtifactType: artifactType, Annotations: ann,
		ConfigMT: u.Nodes[config].Desc.MediaType}
	mt := ocispec.MediaTypeImageManifest
	if kind == KDockerManifest {
		mt = docker.MediaTypeManifest
		subject = -1
	}
	m.MediaType = mt
	if subject >= 0 {
		s := u.Nodes[subject].Desc
		m.Subject = &s
		n.Subject = subject
		n.Succ = append(n.Succ, subject)
	}
	n.Succ = append(n.Succ, config)
	n.Succ = append(n.Succ, layers...)
	b, err := json.Marshal(m)
	if err != nil {
		panic(err)
	}
	n.Bytes = b
	n.Desc = u.desc(mt, b)
	return u.add(n)
}

func (u *Universe) AddIndex(kind Kind, manifests []int, subject int, artifactType string, ann map[string]string) *Node {
	idx := ocispec.Index{
		Versioned:    specs.Versioned{SchemaVersion: 2},
		Manifests:    u.descs(manifests),
		ArtifactType: artifactType,
		Annotations:  ann,
	}
	n := &Node{Kind: kind, Subject: -1, Config: -1, ArtifactType: artifactType, Annotations: ann}
	mt := ocispec.MediaTypeImageIndex
	if kind == KDockerList {
		mt = docker.MediaTypeManifestList
		subject = -1
	}
	idx.MediaType = mt
	if subject >= 0 {
		s := u.Nodes[subject].Desc
		idx.Subject = &s
		n.Subject = subject
		n.Succ = append(n.Succ, subject)
	}
	n.Succ = append(n.Succ, manifests...)
	b, err := json.Marshal(idx)
	if err != nil {
		panic(err)
	}
	n.Bytes = b
	n.Desc = u.desc(mt, b)
	return u.add(n)
}

// BundleMT: a media type of the caller's own whose content lists further descriptors - the
// kind of node a custom FindSuccessors makes a non-leaf.
const BundleMT = "application/vnd.verif.bundle.v1+json"

// AddBundle adds a node of the custom bundle type over the given children.
func (u *Universe) AddBundle(children []int, tag string) *Node {
	b, err := json.Marshal(struct {
		Tag      string               `json:"tag"`
		Children []ocispec.Descriptor `json:"children"`
	}{tag, u.descs(children)})
	if err != nil {
		panic(err)
	}
	n := &Node{Kind: KBlob, Subject: -1, Config: -1, Succ: append([]int(nil), children...), Bytes: b}
	n.Desc = u.desc(BundleMT, b)
	return u.add(n)
}

func (u *Universe) AddArtifact(blobs []int, subject int, artifactType string, ann map[string]string) *Node {
	a := spec.Artifact{
		MediaType:    spec.MediaTypeArtifactManifest,
		ArtifactType: artifactType,
		Blobs:        u.descs(blobs),
		Annotations:  ann,
	}
	n := &Node{Kind: KArtifact, Subject: -1, Config: -1, ArtifactType: artifactType, Annotations: ann}
	if subject >= 0 {
		s := u.Nodes[subject].Desc
		a.Subject = &s
		n.Subject = subject
		n.Succ = append(n.Succ, subject)
	}
	n.Succ = append(n.Succ, blobs...)
	b, err := json.Marshal(a)
	if err != nil {
		panic(err)
	}
	n.Bytes = b
	n.Desc = u.desc(spec.MediaTypeArtifactManifest, b)
	return u.add(n)
}

// AddAlias adds a blob node whose bytes are those of node id but whose media type is
// application/octet-stream ("same bytes under two media types").
func (u *Universe) AddAlias(id int) *Node {
	return u.AddBlob("application/octet-stream", u.Nodes[id].Bytes)
}

type GenCfg struct {
	Blobs     int  // number of plain blobs (>=1)
	Manifests int  // number of manifest-kind nodes
	Foreign   bool // allow foreign layers
	Alias     bool // allow same-bytes-two-media-types nodes
	Subjects  bool // allow subject links
	Indexes   bool // allow index kinds
	EmptyBlob bool
	NoOctet   bool // never use application/octet-stream (keeps resolveBlob answers distinguishable)
	MixedAlgs bool // sha256 / sha384 / sha512 digests
}

var layerMTs = []string{
	ocispec.MediaTypeImageLayer, ocispec.MediaTypeImageLayerGzip, "application/vnd.verif.data", "application/octet-stream",
}
var configMTs = []string{ocispec.MediaTypeImageConfig, "application/vnd.verif.config.a+json", "application/vnd.verif.config.b+json", ocispec.MediaTypeEmptyJSON}
var foreignMTs = []string{ocispec.MediaTypeImageLayerNonDistributable, ocispec.MediaTypeImageLayerNonDistributableGzip,
	ocispec.MediaTypeImageLayerNonDistributableZstd, docker.MediaTypeForeignLayer}
var artifactTypes = []string{"", "application/vnd.verif.sig", "application/vnd.verif.sbom", "application/vnd.verif.doc"}

func GenDAG(rng *rand.Rand, cfg GenCfg) *Universe {
	u := NewUniverse()
	u.MixedAlgs = cfg.MixedAlgs
	var blobs, foreign, images, manifests []int
	for i := 0; i < cfg.Blobs; i++ {
		data := []byte(fmt.Sprintf("blob-%d-%x", i, rng.Int63()))
		if cfg.EmptyBlob && i == 1 {
			data = []byte{}
		}
		mt := layerMTs[rng.Intn(len(layerMTs))]
		if cfg.NoOctet && mt == "application/octet-stream" {
			mt = layerMTs[0]
		}
		if i == 0 {
			mt = configMTs[rng.Intn(len(configMTs))]
			if mt == ocispec.MediaTypeEmptyJSON {
				data = []byte("{}")
			}
		}
		blobs = append(blobs, u.AddBlob(mt, data).ID)
	}
	if cfg.Foreign {
		for i := 0; i < 1+rng.Intn(2); i++ {
			data := []byte(fmt.Sprintf("foreign-%d-%x", i, rng.Int63()))
			foreign = append(foreign, u.AddBlob(foreignMTs[rng.Intn(len(foreignMTs))], data).ID)
		}
	}
	pick := func(l []int) int { return l[rng.Intn(len(l))] }
	pickSome := func(l []int, max int, dup bool) []int {
		if len(l) == 0 {
			return nil
		}
		n := rng.Intn(max + 1)
		var out []int
		for i := 0; i < n; i++ {
			out = append(out, pick(l))
		}
		if dup && len(out) > 0 && rng.Intn(3) == 0 {
			out = append(out, out[0]) // the same blob listed twice
		}
		return out
	}
	for i := 0; i < cfg.Manifests; i++ {
		ann := map[string]string{"verif.id": fmt.Sprint(i)}
		if rng.Intn(3) == 0 {
			ann["verif.k"] = fmt.Sprintf("v%d", rng.Intn(3))
		}
		subject := -1
		if cfg.Subjects && len(manifests) > 0 && rng.Intn(2) == 0 {
			subject = pick(manifests)
		}
		at := artifactTypes[rng.Intn(len(artifactTypes))]
		r := rng.Intn(10)
		var n *Node
		switch {
		case r < 4 || (!cfg.Indexes && r >= 6 && r < 9) || (r >= 6 && r < 9 && len(manifests) == 0):
			layers := pickSome(blobs, 3, true)
			if cfg.Foreign && rng.Intn(3) == 0 {
				layers = append(layers, pick(foreign))
			}
			n = u.AddImage(KOCIManifest, pick(blobs), layers, subject, at, ann)
			images = append(images, n.ID)
		case r < 6:
			layers := pickSome(blobs, 3, true)
			if cfg.Foreign && rng.Intn(3) == 0 {
				layers = append(layers, pick(foreign))
			}
			n = u.AddImage(KDockerManifest, pick(blobs), layers, -1, "", ann)
			images = append(images, n.ID)
		case r < 8:
			ms := pickSome(manifests, 3, true)
			if cfg.Alias && len(ms) > 0 && rng.Intn(2) == 0 {
				// the same bytes listed under a second media type, before the manifest itself
				a := u.AddAlias(ms[0])
				ms = append([]int{a.ID}, ms...)
			}
			n = u.AddIndex(KOCIIndex, ms, subject, at, ann)
		case r < 9:
			n = u.AddIndex(KDockerList, pickSome(manifests, 3, false), -1, "", ann)
		default:
			n = u.AddArtifact(pickSome(blobs, 3, true), subject, at, ann)
		}
		manifests = append(manifests, n.ID)
	}
	return u
}

func shuffled(rng *rand.Rand, n int) []int {
	p := rng.Perm(n)
	return p
}
