//go:build verif

package main

// C05: scripted readers x descriptors against ReadAll, CopyBuffer and Push of the
// built-in stores.

import (
	"bytes"
	"context"
	"errors"
	"fmt"
	"io"
	"math/rand"
	"os"
	"path/filepath"
	"strings"
	"sync"
	"time"

	"github.com/opencontainers/go-digest"
	ocispec "github.com/opencontainers/image-spec/specs-go/v1"
	"oras.land/oras-go/v2/content"
	"oras.land/oras-go/v2/content/file"
	"oras.land/oras-go/v2/content/oci"
	"oras.land/oras-go/v2/errdef"
	"oras.land/oras-go/v2/internal/cas"
	"oras.land/oras-go/v2/internal/ioutil"
)

func init() { domains["C05"] = runC05 }

var errScripted = errors.New("scripted reader failure")

type rdEv struct {
	kind byte // d, e, x, E, X
	bs   []byte
}

// scriptedReader returns exactly the scripted outcomes; a chunk larger than the caller's
// buffer is delivered in pieces (the terminal flag travels with the last piece).
type scriptedReader struct {
	evs  []rdEv
	done error // sticky terminal state
}

func (r *scriptedReader) Read(p []byte) (int, error) {
	if r.done != nil {
		return 0, r.done
	}
	if len(r.evs) == 0 {
		r.done = io.EOF
		return 0, io.EOF
	}
	ev := &r.evs[0]
	switch ev.kind {
	case 'E':
		r.done = io.EOF
		return 0, io.EOF
	case 'X':
		r.done = errScripted
		return 0, errScripted
	}
	if len(ev.bs) > len(p) {
		n := copy(p, ev.bs)
		ev.bs = ev.bs[n:]
		return n, nil
	}
	n := copy(p, ev.bs)
	kind := ev.kind
	r.evs = r.evs[1:]
	switch kind {
	case 'e':
		r.done = io.EOF
		return n, io.EOF
	case 'x':
		r.done = errScripted
		return n, errScripted
	case 'y': // reported once: the next call goes on with the script
		return n, errScripted
	}
	return n, nil
}

func fmtBytes(b []byte) string {
	if len(b) == 0 {
		return ""
	}
	s := make([]string, len(b))
	for i, v := range b {
		s[i] = fmt.Sprint(v)
	}
	return strings.Join(s, ".")
}

func fmtReader(evs []rdEv) string {
	if len(evs) == 0 {
		return "-"
	}
	var parts []string
	for _, e := range evs {
		switch e.kind {
		case 'E', 'X':
			parts = append(parts, string(e.kind))
		default:
			parts = append(parts, string(e.kind)+":"+fmtBytes(e.bs))
		}
	}
	return strings.Join(parts, ";")
}

func cloneEvs(evs []rdEv) []rdEv {
	out := make([]rdEv, len(evs))
	for i, e := range evs {
		out[i] = rdEv{e.kind, append([]byte(nil), e.bs...)}
	}
	return out
}

func errKind(err error) string {
	switch {
	case err == nil:
		return "ok"
	case errors.Is(err, content.ErrInvalidDescriptorSize):
		return "err:invalidSize"
	case errors.Is(err, digest.ErrDigestInvalidFormat), errors.Is(err, digest.ErrDigestUnsupported),
		errors.Is(err, digest.ErrDigestInvalidLength), errors.Is(err, errdef.ErrInvalidDigest):
		return "err:invalidDigest"
	case errors.Is(err, io.ErrUnexpectedEOF):
		return "err:unexpectedEOF"
	case errors.Is(err, errScripted):
		return "err:readerErr"
	case errors.Is(err, content.ErrTrailingData):
		return "err:trailingData"
	case errors.Is(err, content.ErrMismatchedDigest):
		return "err:mismatchedDigest"
	case errors.Is(err, errdef.ErrAlreadyExists):
		return "err:alreadyExists"
	case errors.Is(err, errdef.ErrSizeExceedsLimit):
		return "err:sizeLimit"
	case errors.Is(err, errdef.ErrNotFound):
		return "err:notFound"
	case errors.Is(err, file.ErrDuplicateName):
		return "err:duplicateName"
	}
	return "err:other(" + strings.ReplaceAll(err.Error(), " ", "_") + ")"
}

type vdesc struct {
	digKind string // of, of512, bad, unsup
	digOf   []byte
	size    int64
	mt      int
}

func (d vdesc) String() string {
	dg := d.digKind
	if strings.HasPrefix(dg, "of") {
		dg += ":" + fmtBytes(d.digOf)
	}
	return fmt.Sprintf("mt=%d size=%d dig=%s", d.mt, d.size, dg)
}

var vMediaTypes = []string{"application/vnd.verif.a", "application/vnd.verif.b"}

func (d vdesc) oci() ocispec.Descriptor {
	var dg digest.Digest
	switch d.digKind {
	case "of":
		dg = digest.FromBytes(d.digOf)
	case "of512":
		dg = digest.SHA512.FromBytes(d.digOf)
	case "bad":
		dg = digest.Digest("sha256:xyz")
	case "unsup":
		dg = digest.Digest("sha1:da39a3ee5e6b4b0d3255bfef95601890afd80709")
	}
	return ocispec.Descriptor{MediaType: vMediaTypes[d.mt], Digest: dg, Size: d.size}
}

// reader plans for a byte string to deliver
func readerPlans(c []byte) [][]rdEv {
	cp := func(b []byte) []byte { return append([]byte(nil), b...) }
	var plans [][]rdEv
	plans = append(plans, []rdEv{{'d', cp(c)}})                               // one chunk, then EOF on next read
	plans = append(plans, []rdEv{{'e', cp(c)}})                               // chunk with EOF piggy-backed
	plans = append(plans, []rdEv{{'d', cp(c)}, {'E', nil}, {'d', []byte{7}}}) // explicit EOF (then junk never read)
	var bytewise []rdEv
	for _, b := range c {
		bytewise = append(bytewise, rdEv{'d', []byte{b}}, rdEv{'d', nil})
	}
	plans = append(plans, bytewise)                         // bytewise with zero-length reads
	plans = append(plans, []rdEv{{'x', cp(c)}})             // all bytes, error on the same read
	plans = append(plans, []rdEv{{'d', cp(c)}, {'X', nil}}) // all bytes, then error
	plans = append(plans, []rdEv{{'y', cp(c)}})             // all bytes, an error reported once on the same read, then EOF
	plans = append(plans, []rdEv{{'y', cp(c)}, {'E', nil}})
	if len(c) >= 2 {
		k := len(c) / 2
		plans = append(plans, []rdEv{{'d', cp(c[:k])}, {'X', nil}})       // error at offset k
		plans = append(plans, []rdEv{{'d', cp(c[:k])}, {'e', cp(c[k:])}}) // two chunks
		plans = append(plans, []rdEv{{'d', cp(c[:k])}, {'y', cp(c[k:])}}) // a one-off error with the last bytes
		plans = append(plans, []rdEv{{'y', cp(c[:k])}, {'e', cp(c[k:])}}) // a one-off error in the middle
		plans = append(plans, []rdEv{{'d', nil}, {'d', cp(c[:k])}, {'d', nil}, {'d', cp(c[k:])}, {'d', nil}})
	}
	return plans
}

func rawFetch(ctx context.Context, f content.Fetcher, d ocispec.Descriptor) string {
	rc, err := f.Fetch(ctx, d)
	if err != nil {
		return "err"
	}
	defer rc.Close()
	b, err := io.ReadAll(rc)
	if err != nil {
		return "err"
	}
	return "ok:" + fmtBytes(b)
}

func countFiles(dir string) int {
	n := 0
	filepath.WalkDir(dir, func(p string, d os.DirEntry, err error) error {
		if err == nil && !d.IsDir() {
			n++
		}
		return nil
	})
	return n
}

func runC05(seed int64, tier string, sc *Script) map[string]any {
	rng := rand.New(rand.NewSource(seed))
	ctx := context.Background()
	contents := [][]byte{{}, {1}, {1, 2, 3}, {1, 2, 3, 4}}
	if tier == "thorough" {
		contents = append(contents, []byte{5, 6, 7, 8, 9, 10, 11}, []byte{0, 0})
	}
	type tcase struct {
		d  vdesc
		rd []rdEv
	}
	var grid []tcase
	for _, b := range contents {
		// what the reader actually delivers
		delivered := [][]byte{b, append(append([]byte(nil), b...), 9)}
		if len(b) > 0 {
			delivered = append(delivered, b[:len(b)-1])
			fl := append([]byte(nil), b...)
			fl[0] ^= 0x40
			delivered = append(delivered, fl)
		}
		var descs []vdesc
		for _, dk := range []string{"of", "other", "bad", "unsup", "of512"} {
			for _, sz := range []int64{int64(len(b)), int64(len(b)) - 1, int64(len(b)) + 1, 0, -1} {
				d := vdesc{digKind: dk, digOf: b, size: sz, mt: 0}
				if dk == "other" {
					d.digKind = "of"
					d.digOf = []byte{42, 42}
				}
				descs = append(descs, d)
			}
		}
		for _, c := range delivered {
			for _, plan := range readerPlans(c) {
				for _, d := range descs {
					grid = append(grid, tcase{d, plan})
				}
			}
		}
	}
	// Part 1: ReadAll and CopyBuffer on the whole grid
	sc.Case("readall-copybuffer-grid")
	sc.NonTrivial()
	nontrivGrid := 0
	for _, tc := range grid {
		od := tc.d.oci()
		b, err := content.ReadAll(&scriptedReader{evs: cloneEvs(tc.rd)}, od)
		ans := errKind(err)
		if err == nil {
			ans = "ok:" + fmtBytes(b)
		}
		sc.Op(ans, "v readall %s reader=%s", tc.d, fmtReader(tc.rd))
		// FetchAll over a fetcher that hands out this reader: the same verdict, bytes beyond
		// Size and a short stream included
		b, err = content.FetchAll(context.Background(), fetcherFunc(func(context.Context, ocispec.Descriptor) (io.ReadCloser, error) {
			return io.NopCloser(&scriptedReader{evs: cloneEvs(tc.rd)}), nil
		}), od)
		ans = errKind(err)
		if err == nil {
			ans = "ok:" + fmtBytes(b)
		}
		sc.Op(ans, "v fetchall %s reader=%s", tc.d, fmtReader(tc.rd))
		var buf bytes.Buffer
		err = ioutil.CopyBuffer(&buf, &scriptedReader{evs: cloneEvs(tc.rd)}, make([]byte, 32*1024), od)
		ans = errKind(err)
		if err == nil {
			ans = "ok:" + fmtBytes(buf.Bytes())
		}
		sc.Op(ans, "v copy %s reader=%s", tc.d, fmtReader(tc.rd))
		sc.Count("result:" + strings.SplitN(ans, ":", 2)[0] + ":" + strings.SplitN(errKind(err), "(", 2)[0])
		if tc.d.digKind != "bad" && tc.d.digKind != "unsup" && tc.d.size >= 0 {
			nontrivGrid++
		}
	}
	// Part 2: Push into the stores; one store per case, a random sub-sequence of the grid
	tmp, err := os.MkdirTemp("", "verif-c05-")
	if err != nil {
		panic(err)
	}
	defer os.RemoveAll(tmp)
	storeKinds := []string{"cas", "lim", "oci", "ocistore", "file", "filefb"}
	rounds := 4
	perCase := 40
	if tier == "thorough" {
		rounds, perCase = 40, 80
	}
	pushes := 0
	for round := 0; round < rounds; round++ {
		for _, kind := range storeKinds {
			sc.Case("push-" + kind)
			sc.NonTrivial()
			dir := filepath.Join(tmp, fmt.Sprintf("%s-%d", kind, round))
			var st content.Storage
			var blobsDir, ingestDir string
			nameSeq := 0
			switch kind {
			case "cas":
				st = cas.NewMemory()
			case "lim":
				st = content.LimitStorage(cas.NewMemory(), 3)
			case "oci":
				s, err := oci.NewStorage(dir)
				if err != nil {
					panic(err)
				}
				st = s
				blobsDir, ingestDir = filepath.Join(dir, "blobs"), filepath.Join(dir, "ingest")
			case "ocistore":
				s, err := oci.New(dir)
				if err != nil {
					panic(err)
				}
				st = s
				blobsDir, ingestDir = filepath.Join(dir, "blobs"), filepath.Join(dir, "ingest")
			case "file", "filefb":
				s, err := file.New(dir)
				if err != nil {
					panic(err)
				}
				defer s.Close()
				st = s
			}
			sc.Def("v store %s", kind)
			for i := 0; i < perCase; i++ {
				tc := grid[rng.Intn(len(grid))]
				tc.d.mt = rng.Intn(2)
				od := tc.d.oci()
				if kind == "file" {
					nameSeq++
					od.Annotations = map[string]string{ocispec.AnnotationTitle: fmt.Sprintf("f%d.bin", nameSeq)}
				}
				err := st.Push(ctx, od, &scriptedReader{evs: cloneEvs(tc.rd)})
				ex, exErr := st.Exists(ctx, od)
				exs := "0"
				if exErr != nil {
					exs = "err"
				} else if ex {
					exs = "1"
				}
				ans := fmt.Sprintf("%s exists=%s fetch=%s", errKind(err), exs, rawFetch(ctx, st, od))
				if blobsDir != "" {
					ans += fmt.Sprintf(" blobs=%d", countFiles(blobsDir))
				}
				if kind == "file" {
					// the same content addressed without its name (digest -> path map, then fallback)
					plain := tc.d.oci()
					pex, pexErr := st.Exists(ctx, plain)
					pexs := "0"
					if pexErr != nil {
						pexs = "err"
					} else if pex {
						pexs = "1"
					}
					ans += fmt.Sprintf(" pexists=%s pfetch=%s", pexs, rawFetch(ctx, st, plain))
				}
				sc.Op(ans, "v push %s reader=%s", tc.d, fmtReader(tc.rd))
				if blobsDir != "" {
					sc.Op(fmt.Sprint(countFiles(ingestDir)), "v ingestcount")
				}
				sc.Count("push:" + kind + ":" + strings.SplitN(errKind(err), "(", 2)[0])
				pushes++
			}
			os.RemoveAll(dir)
		}
	}
	// Part 3 (runtime observation): goroutines race good and bad content under one digest
	races := 20
	if tier == "thorough" {
		races = 400
	}
	sc.Case("race-same-digest")
	for i := 0; i < races; i++ {
		dir := filepath.Join(tmp, fmt.Sprintf("race-%d", i))
		s, err := oci.NewStorage(dir)
		if err != nil {
			panic(err)
		}
		good := []byte(fmt.Sprintf("good-content-%d", i))
		od := ocispec.Descriptor{MediaType: "application/vnd.verif.a", Digest: digest.FromBytes(good), Size: int64(len(good))}
		var wg sync.WaitGroup
		n := 2 + rng.Intn(6)
		results := make([]error, n)
		isGood := make([]bool, n)
		for g := 0; g < n; g++ {
			isGood[g] = rng.Intn(2) == 0
			var data []byte
			switch {
			case isGood[g]:
				data = good
			case rng.Intn(2) == 0:
				data = append([]byte("bad!"), good[4:]...) // same length, wrong bytes
			default:
				data = good[:len(good)-1] // short
			}
			wg.Add(1)
			go func(g int, data []byte) {
				defer wg.Done()
				results[g] = s.Push(ctx, od, bytes.NewReader(data))
			}(g, data)
		}
		wg.Wait()
		verdict := "ok"
		anyGood := false
		for g := 0; g < n; g++ {
			if isGood[g] {
				anyGood = true
				if results[g] != nil && !errors.Is(results[g], errdef.ErrAlreadyExists) {
					verdict = "good-push-failed:" + errKind(results[g])
				}
			} else if results[g] == nil {
				verdict = "bad-push-accepted"
			}
		}
		ex, _ := s.Exists(ctx, od)
		if ex != anyGood {
			verdict = fmt.Sprintf("exists=%v anyGood=%v", ex, anyGood)
		}
		if ex {
			if got := rawFetch(ctx, s, od); got != "ok:"+fmtBytes(good) {
				verdict = "visible-content-mismatch"
			}
		}
		sc.Op(verdict, "v race pushers=%d", n)
		os.RemoveAll(dir)
	}
	// Part 4 (runtime observation): the file store, one name, a failing push overlapping a
	// good one.  The failing reader stalls inside its first Read and then hands over junk
	// together with its error; the good push runs during the stall if nothing stops it.
	fraces := 15
	if tier == "thorough" {
		fraces = 300
	}
	sc.Case("race-same-name-file")
	for i := 0; i < fraces; i++ {
		dir := filepath.Join(tmp, fmt.Sprintf("frace-%d", i))
		fsr, err := file.New(dir)
		if err != nil {
			panic(err)
		}
		good := []byte(fmt.Sprintf("good-content-of-named-file-%d", i))
		od := ocispec.Descriptor{MediaType: "application/vnd.verif.a", Digest: digest.FromBytes(good), Size: int64(len(good)),
			Annotations: map[string]string{ocispec.AnnotationTitle: "data.bin"}}
		st := &stallReader{junk: bytes.Repeat([]byte("X"), len(good)/2), started: make(chan struct{}), release: make(chan struct{})}
		var badErr, goodErr error
		badDone, goodDone := make(chan struct{}), make(chan struct{})
		go func() { defer close(badDone); badErr = fsr.Push(ctx, od, st) }()
		<-st.started
		go func() { defer close(goodDone); goodErr = fsr.Push(ctx, od, bytes.NewReader(good)) }()
		select {
		case <-goodDone:
		case <-time.After(20 * time.Millisecond):
		}
		close(st.release)
		<-badDone
		<-goodDone
		verdict := "ok"
		if badErr == nil {
			verdict = "bad-push-accepted"
		}
		plain := ocispec.Descriptor{MediaType: od.MediaType, Digest: od.Digest, Size: od.Size}
		for _, d := range []ocispec.Descriptor{od, plain} {
			ex, _ := fsr.Exists(ctx, d)
			if goodErr == nil && !ex {
				verdict = "good-push-returned-but-absent"
			}
			if ex {
				if got := rawFetch(ctx, fsr, d); got != "ok:"+fmtBytes(good) {
					verdict = "visible-content-mismatch"
				}
			}
		}
		sc.Op(verdict, "v race pushers=2 store=file round=%d", i)
		fsr.Close()
		os.RemoveAll(dir)
	}
	sc.Extra["evaluations"] = 2*len(grid) + pushes + races + fraces
	sc.Extra["grid_cases"] = len(grid)
	sc.Extra["exhaustive_grid"] = true
	sc.Nontriv += nontrivGrid // grid rows are distinct by construction
	return nil
}

// stallReader blocks in its first Read until released, then returns junk and an error.
type stallReader struct {
	junk    []byte
	started chan struct{}
	release chan struct{}
	once    sync.Once
}

func (r *stallReader) Read(p []byte) (int, error) {
	r.once.Do(func() { close(r.started) })
	<-r.release
	n := copy(p, r.junk)
	return n, errors.New("injected read failure after stall")
}

// fetcherFunc adapts a function to content.Fetcher.
type fetcherFunc func(context.Context, ocispec.Descriptor) (io.ReadCloser, error)

func (f fetcherFunc) Fetch(ctx context.Context, d ocispec.Descriptor) (io.ReadCloser, error) {
	return f(ctx, d)
}
