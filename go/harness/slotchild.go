//go:build verif

package main

// slotchild: CopyGraph with Concurrency = 1 over  R -> {M1 -> B1, M2 -> B2}.  With one slot
// the FIFO semaphore forces the schedule: B1 is copied, B2 gets the slot while M1 (successors
// done) waits to get its slot back; B2's PreCopy cancels the context at that moment.  The
// copy must return an error in bounded time, leave the destination link-closed, and a rerun
// must complete.  Run in a child process: releasing a slot that was never acquired is a
// panic of the semaphore, which would take the harness down with it.

import (
	"bytes"
	"context"
	"encoding/json"
	"fmt"
	"os"
	"os/exec"
	"strings"
	"time"

	"github.com/opencontainers/go-digest"
	ocispec "github.com/opencontainers/image-spec/specs-go/v1"
	"oras.land/oras-go/v2"
	"oras.land/oras-go/v2/content"
	"oras.land/oras-go/v2/content/memory"
)

func slotChildMain(args []string) {
	failNode := len(args) > 0 && args[0] == "FAIL" // a sibling's failure instead of a cancellation
	ctx0 := context.Background()
	src := memory.New()
	var all []ocispec.Descriptor
	add := func(mt string, data []byte) ocispec.Descriptor {
		d := ocispec.Descriptor{MediaType: mt, Digest: digest.FromBytes(data), Size: int64(len(data))}
		all = append(all, d)
		if err := src.Push(ctx0, d, bytes.NewReader(data)); err != nil {
			panic(err)
		}
		return d
	}
	manifest := func(cfg ocispec.Descriptor) ocispec.Descriptor {
		m := ocispec.Manifest{MediaType: ocispec.MediaTypeImageManifest, Config: cfg, Layers: []ocispec.Descriptor{}}
		m.SchemaVersion = 2
		b, _ := json.Marshal(m)
		return add(ocispec.MediaTypeImageManifest, b)
	}
	b1 := add("application/vnd.verif.config", []byte("config-one"))
	b2 := add("application/vnd.verif.config", []byte("config-two"))
	m1, m2 := manifest(b1), manifest(b2)
	idx := ocispec.Index{MediaType: ocispec.MediaTypeImageIndex, Manifests: []ocispec.Descriptor{m1, m2}}
	idx.SchemaVersion = 2
	ib, _ := json.Marshal(idx)
	root := add(ocispec.MediaTypeImageIndex, ib)
	dst := memory.New()
	closed := func() bool {
		for _, n := range all {
			if ok, _ := dst.Exists(ctx0, n); !ok {
				continue
			}
			succ, err := content.Successors(ctx0, dst, n)
			if err != nil {
				return false
			}
			for _, s := range succ {
				if ok, _ := dst.Exists(ctx0, s); !ok {
					return false
				}
			}
		}
		return true
	}
	ctx, cancel := context.WithCancel(ctx0)
	defer cancel()
	reached := false
	opts := oras.CopyGraphOptions{Concurrency: 1, PreCopy: func(_ context.Context, d ocispec.Descriptor) error {
		if d.Digest == b2.Digest {
			time.Sleep(150 * time.Millisecond) // M1 reaches the wait for a free slot
			reached = true
			if failNode {
				return fmt.Errorf("injected")
			}
			cancel()
			time.Sleep(150 * time.Millisecond) // the cancellation reaches the waiting M1
		}
		return nil
	}}
	res := make(chan error, 1)
	go func() { res <- oras.CopyGraph(ctx, src, dst, root, opts) }()
	select {
	case err := <-res:
		if !reached {
			fmt.Println("not-reached")
			os.Exit(6)
		}
		if err == nil {
			fmt.Println("nil-error")
			os.Exit(3)
		}
	case <-time.After(20 * time.Second):
		fmt.Println("hangs")
		os.Exit(7)
	}
	time.Sleep(100 * time.Millisecond) // stragglers of the failed copy
	if ok, _ := dst.Exists(ctx0, root); ok || !closed() {
		fmt.Println("not-closed")
		os.Exit(4)
	}
	if err := oras.CopyGraph(ctx0, src, dst, root, oras.CopyGraphOptions{Concurrency: 1}); err != nil {
		fmt.Println("retry-failed")
		os.Exit(5)
	}
	for _, n := range all {
		if ok, _ := dst.Exists(ctx0, n); !ok {
			fmt.Println("retry-incomplete")
			os.Exit(5)
		}
	}
}

// slotCancelVerdict runs the scenario in a child and names what happened.
func slotCancelVerdict(kind string) string {
	self, _ := os.Executable()
	cmd := exec.Command(self, "slotchild", kind)
	out, err := cmd.CombinedOutput()
	if err == nil {
		return "ok"
	}
	first := strings.SplitN(strings.TrimSpace(string(out)), "\n", 2)[0]
	if len(first) > 80 {
		first = first[:80]
	}
	return "child-died:" + strings.ReplaceAll(first, " ", "_")
}
