//go:build verif

package main

// C16: the auth client against scripted registries and token realms.  Every host has its
// own marker secrets; the innermost RoundTripper records where each request goes and which
// markers it carries.

import (
	"context"
	"encoding/base64"
	"encoding/hex"
	"fmt"
	"io"
	"math/rand"
	"net/http"
	"net/url"
	"sort"
	"strings"
	"sync"

	"oras.land/oras-go/v2/registry/remote/auth"
)

func init() {
	domains["C16"] = func(seed int64, tier string, sc *Script) map[string]any { return runC16(seed, tier, sc, false) }
	// C17: the same histories with request bodies; what each registry send carries is recorded
	domains["C17a"] = func(seed int64, tier string, sc *Script) map[string]any { return runC16(seed, tier, sc, true) }
}

// oneShotBody hides the concrete reader type so that http.NewRequest cannot set GetBody.
type oneShotBody struct{ io.Reader }

const bodyText = "BODY-0123456789-0123456789-0123456789"

type authNet struct {
	mu       sync.Mutex
	replies  map[string][]string // host -> queued replies for registry requests
	fetch    string              // next token fetch result: "TOK-n" or "fail"
	out      []string            // recorded requests "to=<host>:<sec>[:F]"
	leaks    []string
	hostNum  map[string]int
	withBody bool
}

// addressedHost: the registry a request is addressed to is the one its Host names; the URL's
// host is merely where the connection goes (several registries may be served as name-based
// virtual hosts behind one front address).
func addressedHost(req *http.Request) string {
	if req.Host != "" {
		return req.Host
	}
	return req.URL.Host
}

// frontAddr is the shared front address of the virtual-host cases.
const frontAddr = "front.test"

func (n *authNet) markers(req *http.Request, body []byte) string {
	var found []string
	check := func(s string) {
		for _, m := range []string{"PW", "RT", "AT"} {
			for h := 1; h <= 4; h++ {
				if strings.Contains(s, fmt.Sprintf("%s-h%d", m, h)) {
					found = append(found, fmt.Sprintf("%s%d", strings.ToLower(m), h))
				}
			}
		}
		if i := strings.Index(s, "TOK-"); i >= 0 {
			var id int
			fmt.Sscanf(s[i:], "TOK-%d", &id)
			found = append(found, fmt.Sprintf("tok%d", id))
		}
	}
	a := req.Header.Get("Authorization")
	check(a)
	// whatever the scheme says, the credential part may be base64 of user:password
	if i := strings.IndexByte(a, ' '); i >= 0 {
		if dec, err := base64.StdEncoding.DecodeString(strings.TrimSpace(a[i+1:])); err == nil {
			check(string(dec))
		}
	}
	check(req.URL.RawQuery)
	if body != nil {
		b := body
		if q, err := url.ParseQuery(string(b)); err == nil {
			for _, vs := range q {
				for _, v := range vs {
					check(v)
				}
			}
		}
	}
	seen := map[string]bool{}
	var uniq []string
	for _, f := range found {
		if !seen[f] {
			seen[f] = true
			uniq = append(uniq, f)
		}
	}
	sort.Strings(uniq)
	if len(uniq) == 0 {
		return "-"
	}
	return strings.Join(uniq, "+")
}

func (n *authNet) RoundTrip(req *http.Request) (*http.Response, error) {
	n.mu.Lock()
	defer n.mu.Unlock()
	host := addressedHost(req)
	hn := n.hostNum[host]
	var body []byte
	recv := "none"
	if req.Body != nil && req.Body != http.NoBody {
		body, _ = io.ReadAll(req.Body)
		recv = "trunc"
		if string(body) == bodyText {
			recv = "full"
		}
	}
	sec := n.markers(req, body)
	mk := func(code int, body string) *http.Response {
		return &http.Response{StatusCode: code, Status: fmt.Sprint(code), Header: http.Header{}, Body: io.NopCloser(strings.NewReader(body)), Request: req}
	}
	if strings.HasPrefix(req.URL.Path, "/token") {
		n.out = append(n.out, fmt.Sprintf("to=%d:%s:F", hn, sec))
		if n.fetch == "fail" {
			return mk(500, ""), nil
		}
		return mk(200, fmt.Sprintf(`{"token":%q,"access_token":%q}`, n.fetch, n.fetch)), nil
	}
	if n.withBody {
		n.out = append(n.out, fmt.Sprintf("to=%d:%s/%s", hn, sec, recv))
	} else {
		n.out = append(n.out, fmt.Sprintf("to=%d:%s", hn, sec))
	}
	q := n.replies[host]
	r := "final"
	if len(q) > 0 {
		r = q[0]
		n.replies[host] = q[1:]
	}
	switch {
	case strings.HasPrefix(r, "redirect|"):
		resp := mk(307, "")
		resp.Header.Set("Location", "https://"+strings.TrimPrefix(r, "redirect|")+req.URL.Path)
		return resp, nil
	case r == "final":
		return mk(200, ""), nil
	case r == "basic":
		resp := mk(401, "")
		resp.Header.Set("Www-Authenticate", `Basic realm="x"`)
		return resp, nil
	case r == "unknown":
		resp := mk(401, "")
		resp.Header.Set("Www-Authenticate", `Negotiate`)
		return resp, nil
	}
	// bearer:<realm host name>:<scope string>
	parts := strings.SplitN(r, "|", 3)
	resp := mk(401, "")
	resp.Header.Set("Www-Authenticate", fmt.Sprintf(`Bearer realm="https://%s/token",service="svc",scope="%s"`, parts[1], parts[2]))
	return resp, nil
}

func runC16(seed int64, tier string, sc *Script, withBody bool) map[string]any {
	rng := rand.New(rand.NewSource(seed))
	hosts := []string{"", "h1.test", "h2.test", "h3.test", "realm.test"}
	hostNum := map[string]int{}
	for i, h := range hosts {
		if h != "" {
			hostNum[h] = i
		}
	}
	cases := 300
	if tier == "thorough" {
		cases = 6000
	}
	evals := 0
	scopePool := []string{"repository:a:pull", "repository:a:push", "repository:a:pull,push", "repository:b:pull", "registry:catalog:*", "repository:a:*",
		"repository:h:5000/a:pull", "repository:h:5000/a:push"}
	for ci := 0; ci < cases; ci++ {
		sc.Case("auth-history")
		sc.NonTrivial()
		sc.Def("au new")
		cacheKind := ci % 2 // 0: shared cache, 1: no cache
		// every fifth case: the single-context cache, used the way it is meant to be - one
		// registry, one scope set - where it must behave exactly like the shared cache
		single := !withBody && ci%5 == 4
		if single {
			cacheKind = 0
		}
		fixedHost := 1 + rng.Intn(3)
		var fixedHints, fixedChal []string
		for k := 0; k < rng.Intn(3); k++ {
			fixedHints = append(fixedHints, scopePool[rng.Intn(len(scopePool))])
		}
		for k := 0; k < 1+rng.Intn(2); k++ {
			fixedChal = append(fixedChal, scopePool[rng.Intn(len(scopePool))])
		}
		// credentials per host
		type credSpec struct{ pw, rt, at bool }
		creds := map[string]credSpec{}
		for h := 1; h <= 3; h++ {
			creds[hosts[h]] = credSpec{rng.Intn(4) != 0, rng.Intn(3) == 0, rng.Intn(5) == 0}
		}
		net := &authNet{replies: map[string][]string{}, hostNum: hostNum, withBody: withBody}
		client := &auth.Client{
			Client: &http.Client{Transport: net},
			Credential: func(ctx context.Context, reg string) (auth.Credential, error) {
				cs, ok := creds[reg]
				if !ok {
					return auth.EmptyCredential, nil
				}
				n := hostNum[reg]
				var c auth.Credential
				if cs.pw {
					c.Username, c.Password = "user", fmt.Sprintf("PW-h%d", n)
				}
				if cs.rt {
					c.RefreshToken = fmt.Sprintf("RT-h%d", n)
				}
				if cs.at {
					c.AccessToken = fmt.Sprintf("AT-h%d", n)
				}
				return c, nil
			},
		}
		if cacheKind == 0 {
			client.Cache = auth.NewCache()
		}
		if single {
			client.Cache = auth.NewSingleContextCache()
			sc.Count("cache:single-context")
		}
		client.ForceAttemptOAuth2 = rng.Intn(3) == 0
		keyNum := map[string]int{}
		keyOf := func(scopes []string) int {
			k := strings.Join(auth.CleanScopes(scopes), " ")
			if _, ok := keyNum[k]; !ok {
				keyNum[k] = len(keyNum) + 1
			}
			if k == "" {
				return 0
			}
			return keyNum[k]
		}
		tokSeq := 100 * (ci + 1)
		for step := 0; step < 12; step++ {
			h := 1 + rng.Intn(3)
			var hints []string
			for k := 0; k < rng.Intn(3); k++ {
				hints = append(hints, scopePool[rng.Intn(len(scopePool))])
			}
			if single && ci%2 == 0 {
				h, hints = fixedHost, fixedHints // half of them used as intended: one registry, one scope set
			}
			host := hosts[h]
			ctx := context.Background()
			if len(hints) > 0 {
				ctx = auth.WithScopesForHost(ctx, host, hints...)
			}
			mkReply := func() (string, string) {
				switch r := rng.Intn(10); {
				case r < 3:
					return "final", "final"
				case r < 5:
					return "basic", "basic"
				case r < 6:
					return "unknown", "unknown"
				}
				realm := []string{"realm.test", host, hosts[1+rng.Intn(3)]}[rng.Intn(3)]
				var chal []string
				for k := 0; k < 1+rng.Intn(2); k++ {
					chal = append(chal, scopePool[rng.Intn(len(scopePool))])
				}
				if single && ci%2 == 0 {
					chal = append([]string(nil), fixedChal...)
				}
				if rng.Intn(3) == 0 {
					chal = append(chal, chal[0]) // duplicated scope in the challenge
				}
				key := keyOf(append(append([]string{}, hints...), chal...))
				return fmt.Sprintf("bearer|%s|%s", realm, strings.Join(chal, " ")), fmt.Sprintf("bearer:%d:%d", hostNum[realm], key)
			}
			r1net, r1mod := mkReply()
			r2net, r2mod := mkReply()
			net.replies[host] = []string{r1net, r2net, "final", "final"}
			fetch := "fail"
			fetchMod := "fail"
			if rng.Intn(5) != 0 {
				tokSeq++
				fetch = fmt.Sprintf("TOK-%d", tokSeq)
				fetchMod = fmt.Sprint(tokSeq)
			}
			net.fetch = fetch
			net.out = nil
			req, _ := http.NewRequestWithContext(ctx, http.MethodGet, "https://"+host+"/v2/a/manifests/x", nil)
			bodyKind := "none"
			if withBody {
				switch rng.Intn(5) {
				case 0:
				case 4:
					// replayable, but the length is not announced (a streamed upload)
					bodyKind = "replay0"
					req, _ = http.NewRequestWithContext(ctx, http.MethodPut, "https://"+host+"/v2/a/manifests/x", strings.NewReader(bodyText))
					req.ContentLength = 0
				case 1:
					bodyKind = "oneshot"
					req, _ = http.NewRequestWithContext(ctx, http.MethodPut, "https://"+host+"/v2/a/manifests/x", oneShotBody{strings.NewReader(bodyText)})
					req.ContentLength = int64(len(bodyText))
				default:
					bodyKind = "replay"
					req, _ = http.NewRequestWithContext(ctx, http.MethodPut, "https://"+host+"/v2/a/manifests/x", strings.NewReader(bodyText))
				}
				sc.Count("body:" + bodyKind)
			}
			if ci%4 == 3 {
				// the registries are name-based virtual hosts behind one address: the request
				// is addressed (Host) to the registry and dialled at the front
				req.URL.Host = frontAddr
				sc.Count("request:host-differs-from-dialled-address")
			}
			resp, err := client.Do(req)
			if err == nil {
				resp.Body.Close()
			}
			cs := creds[host]
			b := func(x bool) int {
				if x {
					return 1
				}
				return 0
			}
			outStr := "-"
			if len(net.out) > 0 {
				outStr = strings.Join(net.out, " ")
			}
			if single {
				// the single-context cache falls back to a per-registry entry, so which attempt
				// carries a cached token differs from the modelled cache; what the property bounds
				// does not: at most three sends to the registry and one token fetch per request
				sends, fetches := 0, 0
				for _, o := range net.out {
					if strings.HasSuffix(o, ":F") {
						fetches++
					} else {
						sends++
					}
				}
				v := "within"
				if sends > 3 || fetches > 1 {
					v = fmt.Sprintf("over(sends=%d,fetches=%d)", sends, fetches)
				}
				sc.Op(v, "au bound cache=single out=%s", strings.ReplaceAll(outStr, " ", ","))
				sc.Op(outStr, "au do host=%d hint=%d pw=%d rt=%d at=%d oauth=%d r1=%s r2=%s fetch=%s fb=1", h, keyOf(hints), b(cs.pw), b(cs.rt), b(cs.at), b(client.ForceAttemptOAuth2), r1mod, r2mod, fetchMod)
			} else if withBody {
				if cacheKind != 0 {
					sc.Def("au new")
				}
				sc.Op(outStr, "au dob body=%s host=%d hint=%d pw=%d rt=%d at=%d oauth=%d r1=%s r2=%s fetch=%s", bodyKind, h, keyOf(hints), b(cs.pw), b(cs.rt), b(cs.at), b(client.ForceAttemptOAuth2), r1mod, r2mod, fetchMod)
			} else if cacheKind == 0 {
				sc.Op(outStr, "au do host=%d hint=%d pw=%d rt=%d at=%d oauth=%d r1=%s r2=%s fetch=%s", h, keyOf(hints), b(cs.pw), b(cs.rt), b(cs.at), b(client.ForceAttemptOAuth2), r1mod, r2mod, fetchMod)
			} else {
				// without a cache every Do starts from nothing
				sc.Def("au new")
				sc.Op(outStr, "au do host=%d hint=%d pw=%d rt=%d at=%d oauth=%d r1=%s r2=%s fetch=%s", h, keyOf(hints), b(cs.pw), b(cs.rt), b(cs.at), b(client.ForceAttemptOAuth2), r1mod, r2mod, fetchMod)
			}
			evals++
			sc.Count("r1:" + strings.SplitN(r1mod, ":", 2)[0])
			// independent scan: a marker of host X may only go to X, or (pw/rt) to a token endpoint
			verdict := "clean"
			for _, o := range net.out {
				var to int
				var rest string
				fmt.Sscanf(o, "to=%d:%s", &to, &rest)
				if i := strings.IndexByte(rest, '/'); i >= 0 {
					rest = rest[:i]
				}
				isFetch := strings.HasSuffix(rest, ":F")
				for _, m := range strings.Split(strings.TrimSuffix(rest, ":F"), "+") {
					if len(m) == 3 && (strings.HasPrefix(m, "pw") || strings.HasPrefix(m, "rt") || strings.HasPrefix(m, "at")) {
						owner := int(m[2] - '0')
						if to != owner && !(isFetch && m[:2] != "at") {
							verdict = "leak:" + o
						}
						if owner != h {
							verdict = "foreign-secret:" + o
						}
					}
				}
			}
			sc.Op(verdict, "au scan")
		}
	}
	// redirects: registry A answers with a redirect to another host B, which challenges.  The
	// http.Client underneath follows the redirect; whatever B asks for, A's secrets stay with A.
	if !withBody {
		rcases := 60
		if tier == "thorough" {
			rcases = 1500
		}
		for ci := 0; ci < rcases; ci++ {
			sc.Case("auth-redirect")
			sc.NonTrivial()
			net := &authNet{replies: map[string][]string{}, hostNum: hostNum}
			a := 1 + rng.Intn(3)
			b := 1 + (a+rng.Intn(2))%3
			client := &auth.Client{
				Client: &http.Client{Transport: net},
				Credential: func(ctx context.Context, reg string) (auth.Credential, error) {
					n, ok := hostNum[reg]
					if !ok || n > 3 {
						return auth.EmptyCredential, nil
					}
					return auth.Credential{Username: "user", Password: fmt.Sprintf("PW-h%d", n), RefreshToken: fmt.Sprintf("RT-h%d", n)}, nil
				},
			}
			switch ci % 3 {
			case 0:
				client.Cache = auth.NewCache()
			case 1:
				client.Cache = auth.NewSingleContextCache()
			}
			chal := []string{"basic", fmt.Sprintf("bearer|%s|repository:a:pull", hosts[b]), fmt.Sprintf("bearer|realm.test|repository:a:pull"), "unknown"}[rng.Intn(4)]
			net.fetch = fmt.Sprintf("TOK-%d", 9000+ci)
			for step := 0; step < 3; step++ {
				// A redirects to B; B challenges, then accepts whatever comes
				net.replies[hosts[a]] = []string{"redirect|" + hosts[b], "redirect|" + hosts[b], "final"}
				net.replies[hosts[b]] = []string{chal, "final", "final"}
				if step == 1 {
					// a plain request to A in between (fills the cache for A)
					net.replies[hosts[a]] = []string{"basic", "final"}
				}
				net.out = nil
				req, _ := http.NewRequest(http.MethodGet, "https://"+hosts[a]+"/v2/a/manifests/x", nil)
				resp, err := client.Do(req)
				if err == nil {
					resp.Body.Close()
				}
				verdict := "clean"
				for _, o := range net.out {
					var to int
					var rest string
					fmt.Sscanf(o, "to=%d:%s", &to, &rest)
					isFetch := strings.HasSuffix(rest, ":F")
					for _, m := range strings.Split(strings.TrimSuffix(rest, ":F"), "+") {
						if len(m) == 3 && (strings.HasPrefix(m, "pw") || strings.HasPrefix(m, "rt") || strings.HasPrefix(m, "at")) {
							owner := int(m[2] - '0')
							// the only place a password / refresh token may go besides its own registry
							// is the token realm that registry itself advertised - never B's realm, never B
							if to != owner && !(isFetch && m[:2] != "at" && owner == a && step == 1) {
								verdict = "leak:" + o
							}
						}
					}
				}
				sc.Op(verdict, "au scan redirect a=%d b=%d step=%d chal=%s", a, b, step, strings.SplitN(chal, "|", 2)[0])
				evals++
				sc.Count("redirect:" + strings.SplitN(chal, "|", 2)[0])
			}
		}
	}
	// StaticCredential: one registry's credential on a client that also talks to registries
	// whose host[:port] text merely resembles it
	if !withBody {
		regA := "h1.test"
		lookalikes := []string{"h1.test:8443", "h1.testing", "h1.test.evil.test", "xh1.test", "h1.tes", "H1.test"}
		for li, regB := range lookalikes {
			for _, chal := range []string{"basic", "bearer"} {
				for cacheKind := 0; cacheKind < 3; cacheKind++ {
					sc.Case("auth-static-credential")
					sc.NonTrivial()
					hn := map[string]int{regA: 1, regB: 6, "realm.test": 4, "realmb.test": 7}
					net := &authNet{replies: map[string][]string{}, hostNum: hn}
					client := &auth.Client{
						Client:     &http.Client{Transport: net},
						Credential: auth.StaticCredential(regA, auth.Credential{Username: "user", Password: "PW-h1", RefreshToken: "RT-h1"}),
					}
					switch cacheKind {
					case 0:
						client.Cache = auth.NewCache()
					case 1:
						client.Cache = auth.NewSingleContextCache()
					}
					client.ForceAttemptOAuth2 = li%2 == 0
					net.fetch = fmt.Sprintf("TOK-%d", 7000+li)
					for step, host := range []string{regA, regB, regA, regB} {
						realm := "realm.test"
						if host == regB {
							realm = "realmb.test"
						}
						r := "basic"
						if chal == "bearer" {
							r = fmt.Sprintf("bearer|%s|repository:a:pull", realm)
						}
						net.replies[host] = []string{r, "final", "final"}
						net.out = nil
						req, _ := http.NewRequest(http.MethodGet, "https://"+host+"/v2/a/manifests/x", nil)
						resp, err := client.Do(req)
						if err == nil {
							resp.Body.Close()
						}
						verdict := "clean"
						for _, o := range net.out {
							var to int
							var rest string
							fmt.Sscanf(o, "to=%d:%s", &to, &rest)
							isFetch := strings.HasSuffix(rest, ":F")
							if strings.Contains(rest, "pw1") || strings.Contains(rest, "rt1") {
								// A's secrets: to A itself, or to the realm A advertised
								if !(to == 1 || (isFetch && to == 4 && host == regA)) {
									verdict = "leak:" + o
								}
							}
						}
						sc.Op(verdict, "au scan static b=%s chal=%s step=%d", regB, chal, step)
						evals++
					}
					sc.Count("static:" + chal)
				}
			}
		}
	}
	// a concurrent mix: several goroutines share one client and one cache and talk to three
	// registries with different schemes and realms at once; every request that reaches the
	// network is checked for whose secrets it carries
	if !withBody {
		rounds := 6
		if tier == "thorough" {
			rounds = 120
		}
		for ri := 0; ri < rounds; ri++ {
			sc.Case("auth-concurrent")
			sc.NonTrivial()
			cn := &concNet{hostNum: hostNum, base: &authNet{hostNum: hostNum}}
			client := &auth.Client{
				Client: &http.Client{Transport: cn},
				Credential: func(ctx context.Context, reg string) (auth.Credential, error) {
					n, ok := hostNum[reg]
					if !ok || n > 3 {
						return auth.EmptyCredential, nil
					}
					c := auth.Credential{Username: "user", Password: fmt.Sprintf("PW-h%d", n)}
					if n == 3 {
						c.RefreshToken = fmt.Sprintf("RT-h%d", n)
					}
					return c, nil
				},
			}
			switch ri % 3 {
			case 0:
				client.Cache = auth.NewCache()
			case 1:
				client.Cache = auth.NewSingleContextCache()
			}
			var wg sync.WaitGroup
			workers := 4 + rng.Intn(6)
			seeds := make([]int64, workers)
			for w := range seeds {
				seeds[w] = rng.Int63()
			}
			for w := 0; w < workers; w++ {
				wg.Add(1)
				go func(w int) {
					defer wg.Done()
					lr := rand.New(rand.NewSource(seeds[w]))
					for k := 0; k < 25; k++ {
						host := hosts[1+lr.Intn(3)]
						ctx := context.Background()
						if lr.Intn(2) == 0 {
							ctx = auth.WithScopesForHost(ctx, host, scopePool[lr.Intn(len(scopePool))])
						}
						req, _ := http.NewRequestWithContext(ctx, http.MethodGet, "https://"+host+"/v2/a/manifests/x", nil)
						if resp, err := client.Do(req); err == nil {
							resp.Body.Close()
						}
					}
				}(w)
			}
			wg.Wait()
			verdict := "clean"
			cn.mu.Lock()
			for _, o := range cn.out {
				// realm that each registry advertises: h1 -> realm.test (4), h3 -> itself
				for _, m := range strings.Split(o.sec, "+") {
					switch {
					case len(m) == 3 && (m[:2] == "pw" || m[:2] == "rt" || m[:2] == "at"):
						owner := int(m[2] - '0')
						realmOf := map[int]int{1: 4, 3: 3}
						if o.to != owner && !(o.fetch && m[:2] != "at" && realmOf[owner] == o.to && realmOf[owner] != 0) {
							verdict = fmt.Sprintf("leak:to=%d:%s", o.to, m)
						}
					case strings.HasPrefix(m, "tok"):
						var id int
						fmt.Sscanf(m, "tok%d", &id)
						if owner := id / 100000; owner != o.to {
							verdict = fmt.Sprintf("leak:to=%d:%s", o.to, m)
						}
					}
				}
			}
			nreq := len(cn.out)
			cn.mu.Unlock()
			sc.Op(verdict, "au scan concurrent workers=%d cache=%d", workers, ri%3)
			sc.Count(fmt.Sprintf("concurrent-requests:%d", (nreq/100)*100))
			evals++
		}
	}
	// many goroutines share one context that carries three scope hints for the registry; each
	// asks for another repository and is challenged for that repository's scope: every request
	// ends with the registry's 200 (its token covers its own repository), and no token fetch
	// asks for a scope that another request was challenged with
	{
		rounds := 60
		if tier == "thorough" {
			rounds = 1500
		}
		for ri := 0; ri < rounds; ri++ {
			sc.Case("shared-context-hints")
			sc.NonTrivial()
			hn := &hintNet{}
			client := &auth.Client{Client: &http.Client{Transport: hn},
				Credential: auth.StaticCredential("h1.test", auth.Credential{Username: "user", Password: "PW-h1"})}
			if ri%2 == 0 {
				client.Cache = auth.NewCache()
			}
			ctx := auth.WithScopesForHost(context.Background(), "h1.test", "repository:base:pull", "repository:other:pull", "registry:catalog:*")
			var wg sync.WaitGroup
			var mu sync.Mutex
			bad := ""
			for w := 0; w < 8; w++ {
				wg.Add(1)
				go func(w int) {
					defer wg.Done()
					for k := 0; k < 12; k++ {
						repo := fmt.Sprintf("r%d", (w+k)%8)
						req, _ := http.NewRequestWithContext(ctx, http.MethodGet, "https://h1.test/v2/"+repo+"/manifests/x", nil)
						resp, err := client.Do(req)
						v := ""
						switch {
						case err != nil:
							v = "error:" + strings.ReplaceAll(err.Error(), " ", "_")
						case resp.StatusCode != 200:
							v = fmt.Sprintf("valid-credentials-ended-with-%d(repo=%s)", resp.StatusCode, repo)
						}
						if resp != nil {
							resp.Body.Close()
						}
						if v != "" {
							mu.Lock()
							if bad == "" {
								bad = v
							}
							mu.Unlock()
						}
					}
				}(w)
			}
			wg.Wait()
			verdict := "clean"
			if bad != "" {
				verdict = bad
			} else if m := hn.mixed(); m != "" {
				verdict = "token-fetch-with-another-requests-scope(" + m + ")"
			}
			sc.Op(verdict, "au scan sharedhints workers=8 cache=%d", ri%2)
			evals++
		}
	}
	// the WWW-Authenticate parser against the Lean model: hand-written headers, every string of
	// length <= 4 over the delimiters after "Bearer ", and random well-formed / damaged headers
	sc.Case("parse-challenge")
	sc.NonTrivial()
	{
		emitCh := func(h string) {
			scheme, params := auth.VerifParseChallenge(h)
			var ks []string
			for k := range params {
				ks = append(ks, k)
			}
			sort.Strings(ks)
			var items []string
			for _, k := range ks {
				items = append(items, k+"="+hex.EncodeToString([]byte(params[k])))
			}
			a := scheme + " -"
			if len(items) > 0 {
				a = scheme + " " + strings.Join(items, ",")
			}
			sc.Op(a, "ch parse h=%s", hex.EncodeToString([]byte(h)))
			evals++
		}
		for _, h := range []string{"", "Basic", "basic realm=\"x\"", "BEARER", "Bearer", "Bearer realm=\"https://auth.example/token\",service=\"svc\",scope=\"repository:a:pull\"",
			"bearer  realm = \"r\" , service = s", "Bearer realm=\"a\",realm=\"b\"", "Bearer realm=\"unterminated", "Bearer realm=", "Bearer realm", "Bearer =x",
			"Bearer realm=\"a\" service=\"b\"", "Bearer realm=\"a\",,service=\"b\"", "Bearer realm=a b", "Bearer\trealm=\"t\"", "Bearer realm=\"a,b=c\",x=y",
			"Bearer realm=\"with \\\" escape\"", "Bearer realm=\"\"", "Negotiate abc", "Bearer\u00a0realm=\"nbsp\"", "Bearer realm=\"é\"", "Bearer scope=\"a b  c\"", "Bearer realm=\"a\nb\"",
			"Bearer realm=\"a\";service=b", "Bearer realm=\"a\", error=\"insufficient_scope\"", "bearer-x realm=\"a\"", "Bearer,realm=\"a\""} {
			emitCh(h)
		}
		enumStrings([]byte("a =\",\t"), 4, func(s string) { emitCh("Bearer " + s) })
		keys := []string{"realm", "service", "scope", "error", "x-y", "REALM"}
		vals := []string{"https://r.test/token", "svc", "repository:a:pull", "a b", "", "q,r", "p=q"}
		for i := 0; i < 300; i++ {
			var b strings.Builder
			b.WriteString([]string{"Bearer", "bearer", "BeArEr", "Basic", "Digest"}[rng.Intn(5)])
			b.WriteString([]string{" ", "  ", "\t", ""}[rng.Intn(4)])
			for k := 0; k < rng.Intn(5); k++ {
				if k > 0 {
					b.WriteString([]string{",", ", ", " ,", ",,", " "}[rng.Intn(5)])
				}
				b.WriteString(keys[rng.Intn(len(keys))])
				b.WriteString([]string{"=", " = ", "= ", ""}[rng.Intn(4)])
				v := vals[rng.Intn(len(vals))]
				switch rng.Intn(4) {
				case 0:
					b.WriteString(strings.ReplaceAll(v, " ", "")) // a bare token (or not quite)
				case 1:
					b.WriteString("\"" + v) // unterminated
				default:
					b.WriteString("\"" + v + "\"")
				}
			}
			emitCh(b.String())
		}
	}
	// CleanScopes: exhaustive short lists over a pool of well-formed and malformed scopes
	sc.Case("clean-scopes")
	sc.NonTrivial()
	pool := []string{"repository:a:pull", "repository:a:push", "repository:a:push,pull", "repository:a:*", "repository:a-b:pull",
		"repository:b:pull,pull", "registry:catalog:*", "repository:a:", "repository:a:,", "a", "x:y", "t:n:m:act", "repository:a:pull,*", ":n:a", "r::a",
		// resource names that contain colons (a registry host:port prefix): the actions are what follows the last colon
		"repository:h:5000/a:pull", "repository:h:5000/a:push", "repository:h:5000/a:*", "t:n:m:other",
		// a wildcard next to an empty action (a stray comma): the wildcard still absorbs the rest
		"repository:a:pull,*,", "repository:a:*,,pull,push", "repository:a:,*", "repository:b:,pull"}
	emit := func(l []string) {
		got := auth.CleanScopes(append([]string(nil), l...))
		in, out := "-", "-"
		if len(l) > 0 {
			in = strings.Join(l, "|")
		}
		if len(got) > 0 {
			out = strings.Join(got, "|")
		}
		sc.Op(out, "sc clean l=%s", in)
		evals++
	}
	emit(nil)
	maxLen := 2
	if tier == "thorough" {
		maxLen = 3
	}
	var rec func(prefix []string)
	rec = func(prefix []string) {
		if len(prefix) > 0 {
			emit(prefix)
		}
		if len(prefix) == maxLen {
			return
		}
		for _, p := range pool {
			rec(append(append([]string(nil), prefix...), p))
		}
	}
	rec(nil)
	for i := 0; i < 500; i++ {
		var l []string
		for k := 0; k < 3+rng.Intn(5); k++ {
			l = append(l, pool[rng.Intn(len(pool))])
		}
		emit(l)
	}
	sc.Extra["evaluations"] = evals
	return nil
}

// hintNet: one registry whose every repository wants its own pull scope, and a token endpoint
// that issues a token naming the scopes it was asked for.
type hintNet struct {
	mu      sync.Mutex
	fetches [][]string
}

func (n *hintNet) RoundTrip(req *http.Request) (*http.Response, error) {
	mk := func(code int, body string) *http.Response {
		return &http.Response{StatusCode: code, Status: fmt.Sprint(code), Header: http.Header{}, Body: io.NopCloser(strings.NewReader(body)), Request: req}
	}
	if req.URL.Host == "realm.test" {
		scopes := req.URL.Query()["scope"]
		if len(scopes) == 1 && strings.Contains(scopes[0], " ") {
			scopes = strings.Fields(scopes[0])
		}
		if req.Body != nil {
			b, _ := io.ReadAll(req.Body)
			if q, err := url.ParseQuery(string(b)); err == nil && q.Get("scope") != "" {
				scopes = strings.Fields(q.Get("scope"))
			}
		}
		n.mu.Lock()
		n.fetches = append(n.fetches, scopes)
		n.mu.Unlock()
		tok := "TOK/" + strings.Join(scopes, "/")
		return mk(200, fmt.Sprintf(`{"token":%q,"access_token":%q}`, tok, tok)), nil
	}
	parts := strings.Split(req.URL.Path, "/") // /v2/<repo>/manifests/x
	repo := parts[2]
	need := "repository:" + repo + ":pull"
	if a := req.Header.Get("Authorization"); strings.HasPrefix(a, "Bearer TOK/") {
		for _, sc := range strings.Split(strings.TrimPrefix(a, "Bearer TOK/"), "/") {
			if sc == need || sc == "repository:"+repo+":*" {
				return mk(200, ""), nil
			}
		}
	}
	resp := mk(401, "")
	resp.Header.Set("Www-Authenticate", fmt.Sprintf(`Bearer realm="https://realm.test/token",service="svc",scope=%q`, need))
	return resp, nil
}

// mixed: a token fetch that names the challenge scopes of two different requests.
func (n *hintNet) mixed() string {
	n.mu.Lock()
	defer n.mu.Unlock()
	for _, f := range n.fetches {
		challenged := 0
		for _, sc := range f {
			if strings.HasPrefix(sc, "repository:r") {
				challenged++
			}
		}
		if challenged != 1 {
			return strings.Join(f, ",")
		}
	}
	return ""
}

// concNet is a stateless, goroutine-safe network for the concurrent mix: registry h1 asks for
// a Bearer token from realm.test, h2 for Basic, h3 for a Bearer token from its own /token;
// a token endpoint issues a token numbered after the registry whose secret it was shown.
type concNet struct {
	mu      sync.Mutex
	hostNum map[string]int
	base    *authNet // for its marker scanner
	out     []concOut
	seq     int
}

type concOut struct {
	to    int
	sec   string
	fetch bool
}

func (n *concNet) RoundTrip(req *http.Request) (*http.Response, error) {
	host := addressedHost(req)
	hn := n.hostNum[host]
	var body []byte
	if req.Body != nil && req.Body != http.NoBody {
		body, _ = io.ReadAll(req.Body)
	}
	sec := n.base.markers(req, body)
	mk := func(code int, body string) *http.Response {
		return &http.Response{StatusCode: code, Status: fmt.Sprint(code), Header: http.Header{}, Body: io.NopCloser(strings.NewReader(body)), Request: req}
	}
	n.mu.Lock()
	defer n.mu.Unlock()
	if strings.HasPrefix(req.URL.Path, "/token") {
		n.out = append(n.out, concOut{hn, sec, true})
		owner := 0
		for _, m := range strings.Split(sec, "+") {
			if len(m) == 3 && (m[:2] == "pw" || m[:2] == "rt") {
				owner = int(m[2] - '0')
			}
		}
		n.seq++
		tok := fmt.Sprintf("TOK-%d", owner*100000+n.seq)
		return mk(200, fmt.Sprintf(`{"token":%q,"access_token":%q}`, tok, tok)), nil
	}
	n.out = append(n.out, concOut{hn, sec, false})
	if req.Header.Get("Authorization") != "" {
		return mk(200, ""), nil
	}
	resp := mk(401, "")
	switch hn {
	case 1:
		resp.Header.Set("Www-Authenticate", `Bearer realm="https://realm.test/token",service="svc",scope="repository:a:pull"`)
	case 2:
		resp.Header.Set("Www-Authenticate", `Basic realm="x"`)
	default:
		resp.Header.Set("Www-Authenticate", fmt.Sprintf(`Bearer realm="https://%s/token",service="svc",scope="repository:a:pull"`, host))
	}
	return resp, nil
}
