//go:build verif

package main

// C11l: the link file-system model (lean Model/LinkFS.lean) against the real extraction.
// A directory is pre-populated with directories, files and symbolic links (to a file
// outside, to a directory outside, to a location inside), an archive of regular, directory
// and symbolic-link entries (targets: absolute paths inside) is pushed with the unpack
// annotation, and what the unpack directory holds afterwards - the kind of object at every
// location - is compared with the model's file system, together with whether the push
// succeeded and whether anything outside changed.

import (
	"bytes"
	"context"
	"fmt"
	"math/rand"
	"os"
	"path/filepath"
	"sort"
	"strings"

	"github.com/opencontainers/go-digest"
	ocispec "github.com/opencontainers/image-spec/specs-go/v1"
	"oras.land/oras-go/v2/content/file"
)

func init() { domains["C11l"] = runC11l }

type lfItem struct {
	path []int
	kind string // d f lo li
	to   []int
}

func lfPath(p []int) string {
	s := make([]string, len(p))
	for i, c := range p {
		s[i] = fmt.Sprint(c)
	}
	return strings.Join(s, ".")
}

func lfFs(base string, p []int) string {
	parts := []string{base}
	for _, c := range p {
		parts = append(parts, fmt.Sprint(c))
	}
	return filepath.Join(parts...)
}

func lfRandPath(rng *rand.Rand, maxDepth int) []int {
	n := 1 + rng.Intn(maxDepth)
	p := make([]int, n)
	for i := range p {
		p[i] = 1 + rng.Intn(3)
	}
	return p
}

func runC11l(seed int64, tier string, sc *Script) map[string]any {
	rng := rand.New(rand.NewSource(seed))
	tmp, err := os.MkdirTemp("", "verif-c11l-")
	if err != nil {
		panic(err)
	}
	defer os.RemoveAll(tmp)
	oldTmp := os.Getenv("TMPDIR")
	defer os.Setenv("TMPDIR", oldTmp)
	cases := 400
	if tier == "thorough" {
		cases = 4000
	}
	evals := 0
	runCase := func(i int, pre []lfItem, ents []lfItem, preserve bool) {
		sb := newSandbox(tmp, i)
		defer os.RemoveAll(sb.root)
		base := filepath.Join(sb.wd, "d")
		os.MkdirAll(base, 0o755)
		var preS []string
		for _, it := range pre {
			p := lfFs(base, it.path)
			switch it.kind {
			case "d":
				os.Mkdir(p, 0o755)
				preS = append(preS, lfPath(it.path)+":d")
			case "f":
				os.WriteFile(p, []byte("old"), 0o644)
				preS = append(preS, lfPath(it.path)+":f")
			case "lo":
				// to a file outside and to a directory outside, alternating: the model has one "outside"
				t := filepath.Join(sb.root, "outside", "victim")
				if len(it.to) > 0 {
					t = filepath.Join(sb.root, "outside", "dir")
				}
				os.Symlink(t, p)
				preS = append(preS, lfPath(it.path)+":lo")
			case "li":
				os.Symlink(lfFs(base, it.to), p)
				preS = append(preS, lfPath(it.path)+":li>"+lfPath(it.to))
			}
		}
		var tes []tarEnt
		var entS []string
		for _, e := range ents {
			name := "d/" + strings.ReplaceAll(lfPath(e.path), ".", "/")
			switch e.kind {
			case "r":
				tes = append(tes, tarEnt{'r', name, ""})
				entS = append(entS, "r:"+lfPath(e.path))
			case "d":
				tes = append(tes, tarEnt{'d', name, ""})
				entS = append(entS, "d:"+lfPath(e.path))
			case "s":
				tes = append(tes, tarEnt{'s', name, lfFs(base, e.to)})
				entS = append(entS, "s:"+lfPath(e.path)+">"+lfPath(e.to))
			}
		}
		oldwd, _ := os.Getwd()
		os.Chdir(sb.cwd)
		os.Setenv("TMPDIR", filepath.Join(sb.root, "systmp"))
		before := sb.snapshot()
		st, err := file.New(sb.wd)
		if err != nil {
			panic(err)
		}
		st.PreservePermissions = preserve
		archivePreserve = preserve
		gz := buildTarGz(tes)
		archivePreserve = false
		desc := ocispec.Descriptor{MediaType: "application/vnd.verif.dir+gzip", Digest: digest.FromBytes(gz), Size: int64(len(gz)),
			Annotations: map[string]string{ocispec.AnnotationTitle: "d", file.AnnotationUnpack: "true"}}
		res := "ok"
		if err := st.Push(context.Background(), desc, bytes.NewReader(gz)); err != nil {
			res = "err"
		}
		st.Close()
		os.Chdir(oldwd)
		outside := "clean"
		if d := diffSnap(before, sb.snapshot()); d != "clean" {
			outside = "touched"
		}
		// what the unpack directory holds
		type ent struct {
			p []string
			k string
		}
		var have []ent
		filepath.Walk(base, func(p string, info os.FileInfo, err error) error {
			if err != nil || p == base {
				return nil
			}
			rel, _ := filepath.Rel(base, p)
			k := "f"
			if info.Mode()&os.ModeSymlink != 0 {
				k = "l"
			} else if info.IsDir() {
				k = "d"
			}
			have = append(have, ent{strings.Split(rel, string(filepath.Separator)), k})
			return nil
		})
		sort.Slice(have, func(a, b int) bool {
			if len(have[a].p) != len(have[b].p) {
				return len(have[a].p) < len(have[b].p)
			}
			return strings.Join(have[a].p, ".") < strings.Join(have[b].p, ".")
		})
		var ls []string
		for _, h := range have {
			ls = append(ls, strings.Join(h.p, ".")+"="+h.k)
		}
		join := func(l []string) string {
			if len(l) == 0 {
				return "-"
			}
			return strings.Join(l, ",")
		}
		pv := 0
		if preserve {
			pv = 1
		}
		sc.Op(fmt.Sprintf("res=%s fs=%s", res, join(ls)), "lf run preserve=%d pre=%s ents=%s", pv, join(preS), join(entS))
		sc.Op(outside, "lf outside preserve=%d pre=%s ents=%s", pv, join(preS), join(entS))
		evals++
		sc.Count("lf-result:" + res)
		for _, it := range pre {
			sc.Count("lf-pre:" + it.kind)
		}
		for _, e := range ents {
			sc.Count("lf-ent:" + e.kind)
		}
	}
	// scripted corpus: the shapes of F24, F25 and the refusals around them
	corpus := []struct {
		pre, ents []lfItem
		preserve  bool
	}{
		{[]lfItem{{[]int{1}, "lo", nil}}, []lfItem{{[]int{1}, "r", nil}}, false},
		{[]lfItem{{[]int{1}, "lo", []int{1}}}, []lfItem{{[]int{1}, "d", nil}}, true},
		{[]lfItem{{[]int{1}, "lo", []int{1}}}, []lfItem{{[]int{1, 2}, "r", nil}}, false},
		{[]lfItem{{[]int{1}, "lo", []int{1}}}, []lfItem{{[]int{1, 2}, "d", nil}}, true},
		{[]lfItem{{[]int{2}, "d", nil}, {[]int{1}, "li", []int{2}}}, []lfItem{{[]int{1}, "d", nil}, {[]int{1, 3}, "r", nil}}, true},
		{[]lfItem{{[]int{2}, "d", nil}, {[]int{1}, "li", []int{2}}}, []lfItem{{[]int{1, 3}, "r", nil}}, false},
		{nil, []lfItem{{[]int{1}, "d", nil}, {[]int{2}, "s", []int{1}}, {[]int{2}, "r", nil}, {[]int{3}, "s", []int{2}}, {[]int{3, 1}, "r", nil}}, false},
		{nil, []lfItem{{[]int{1, 2, 3}, "d", nil}, {[]int{1, 2, 3, 1}, "r", nil}, {[]int{1, 2}, "s", nil}}, false},
		{[]lfItem{{[]int{1}, "f", nil}}, []lfItem{{[]int{1, 2}, "r", nil}}, false},
		{[]lfItem{{[]int{1}, "f", nil}}, []lfItem{{[]int{2}, "s", []int{1, 2, 3}}}, false},
		{[]lfItem{{[]int{1}, "d", nil}}, []lfItem{{[]int{1}, "s", []int{}}, {[]int{1, 1}, "r", nil}}, false},
	}
	sc.Case("lf-corpus")
	sc.NonTrivial()
	for i, c := range corpus {
		runCase(i+1, c.pre, c.ents, c.preserve)
	}
	for i := 0; i < cases; i++ {
		if i%50 == 0 {
			sc.Case(fmt.Sprintf("lf-random-%d", i/50))
			sc.NonTrivial()
		}
		// pre-populated objects: parents first, each below an existing directory
		var pre []lfItem
		dirs := [][]int{{}}
		used := map[string]bool{}
		for k := rng.Intn(5); k > 0; k-- {
			parent := dirs[rng.Intn(len(dirs))]
			if len(parent) >= 2 {
				continue
			}
			p := append(append([]int{}, parent...), 1+rng.Intn(3))
			if used[lfPath(p)] {
				continue
			}
			used[lfPath(p)] = true
			switch rng.Intn(6) {
			case 0, 1:
				pre = append(pre, lfItem{p, "d", nil})
				dirs = append(dirs, p)
			case 2:
				pre = append(pre, lfItem{p, "f", nil})
			case 3:
				var to []int
				if rng.Intn(2) == 0 {
					to = []int{1}
				}
				pre = append(pre, lfItem{p, "lo", to})
			default:
				to := lfRandPath(rng, 2)
				if rng.Intn(6) == 0 {
					to = []int{}
				}
				pre = append(pre, lfItem{p, "li", to})
			}
		}
		var ents []lfItem
		for k := 1 + rng.Intn(5); k > 0; k-- {
			p := lfRandPath(rng, 3)
			if len(p) > 1 && rng.Intn(5) < 3 {
				// mostly below a directory the archive brings along
				ents = append(ents, lfItem{append([]int{}, p[:len(p)-1]...), "d", nil})
			}
			switch rng.Intn(5) {
			case 0, 1:
				ents = append(ents, lfItem{p, "r", nil})
			case 2, 3:
				ents = append(ents, lfItem{p, "d", nil})
			default:
				to := lfRandPath(rng, 3)
				if rng.Intn(8) == 0 {
					to = []int{}
				}
				ents = append(ents, lfItem{p, "s", to})
			}
		}
		runCase(100+i, pre, ents, rng.Intn(2) == 0)
	}
	return map[string]any{"evaluations": evals}
}
