//go:build verif

package main

// `harness crashchild <dir> <ops.json>`: perform a fixed list of operations on the OCI
// layout at <dir>, on the main OS thread, so that the sequence of system calls is
// deterministic and can be cut at any point by the parent (C10) or (C18) for the
// credentials file store.

import (
	"bytes"
	"context"
	"encoding/json"
	"fmt"
	"os"
	"runtime"

	"github.com/opencontainers/go-digest"
	ocispec "github.com/opencontainers/image-spec/specs-go/v1"
	"oras.land/oras-go/v2/content/oci"
)

type crashOp struct {
	Op        string `json:"op"` // push tag untag delete saveindex gc
	MediaType string `json:"mediaType,omitempty"`
	Data      []byte `json:"data,omitempty"`
	Ref       string `json:"ref,omitempty"`
	Ann       string `json:"ann,omitempty"` // value of the verif.ann annotation on the tagged descriptor
	AutoSave  bool   `json:"autoSave"`
	AutoGC    bool   `json:"autoGC"`
}

func (o crashOp) desc() ocispec.Descriptor {
	d := ocispec.Descriptor{MediaType: o.MediaType, Digest: digest.FromBytes(o.Data), Size: int64(len(o.Data))}
	if o.Ann != "" {
		d.Annotations = map[string]string{"verif.ann": o.Ann}
	}
	return d
}

// tagView is what a handle says about its reference names: name -> digest + annotation.
func tagView(ctx context.Context, s *oci.Store) (map[string]string, error) {
	out := map[string]string{}
	var tags []string
	if err := s.Tags(ctx, "", func(ts []string) error { tags = append(tags, ts...); return nil }); err != nil {
		return nil, err
	}
	for _, t := range tags {
		d, err := s.Resolve(ctx, t)
		if err != nil {
			return nil, fmt.Errorf("resolve:%s", t)
		}
		out[t] = d.Digest.String() + "#" + d.Annotations["verif.ann"]
	}
	return out, nil
}

func applyCrashOps(dir string, ops []crashOp) error {
	ctx := context.Background()
	s, err := oci.New(dir)
	if err != nil {
		return fmt.Errorf("open: %w", err)
	}
	defer func() {
		// the live handle's view when the last operation has returned (outside the layout)
		if os.Getenv("VERIF_LIVE_VIEW") != "" {
			if v, err := tagView(ctx, s); err == nil {
				b, _ := json.Marshal(v)
				fmt.Printf("LIVE %s\n", b) // standard output: no file is opened for it
			}
		}
	}()
	// a caller keeps one descriptor value (and hence one annotations map) per manifest and
	// annotation, and uses it for every operation on that manifest
	kept := map[string]ocispec.Descriptor{}
	descFor := func(o crashOp) ocispec.Descriptor {
		k := o.MediaType + "|" + string(o.Data) + "|" + o.Ann
		if d, ok := kept[k]; ok {
			return d
		}
		kept[k] = o.desc()
		return kept[k]
	}
	for _, o := range ops {
		s.AutoSaveIndex = o.AutoSave
		s.AutoGC = o.AutoGC
		switch o.Op {
		case "push":
			err = s.Push(ctx, o.desc(), bytes.NewReader(o.Data))
		case "tag":
			err = s.Tag(ctx, descFor(o), o.Ref)
		case "untag":
			err = s.Untag(ctx, o.Ref)
		case "delete":
			err = s.Delete(ctx, o.desc())
		case "saveindex":
			err = s.SaveIndex()
		case "gc":
			err = s.GC(ctx)
		default:
			err = fmt.Errorf("unknown op %q", o.Op)
		}
		if err != nil {
			return fmt.Errorf("%s: %w", o.Op, err)
		}
	}
	return nil
}

func crashChildMain(args []string) {
	runtime.LockOSThread()
	if len(args) != 2 {
		fmt.Fprintln(os.Stderr, "usage: harness crashchild <dir> <ops.json>")
		os.Exit(2)
	}
	b, err := os.ReadFile(args[1])
	if err != nil {
		fmt.Fprintln(os.Stderr, err)
		os.Exit(2)
	}
	var ops []crashOp
	if err := json.Unmarshal(b, &ops); err != nil {
		fmt.Fprintln(os.Stderr, err)
		os.Exit(2)
	}
	if err := applyCrashOps(args[0], ops); err != nil {
		fmt.Fprintln(os.Stderr, "crashchild:", err)
		os.Exit(3)
	}
}
