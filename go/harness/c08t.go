//go:build verif

package main

// C08t: where tarfs finds the entries of an archive.  Archives are written with
// archive/tar in the USTAR, PAX and GNU formats, with long names, PAX records and payloads
// of block-boundary sizes; the positions tarfs recorded (shim) are compared with the Lean
// offset model fed with what a raw walk over the 512-byte blocks finds, and every entry is
// opened and read back.

import (
	"archive/tar"
	"bytes"
	"fmt"
	"io"
	"math/rand"
	"os"
	"path/filepath"
	"strconv"
	"strings"

	"oras.land/oras-go/v2/internal/fs/tarfs"
)

func init() { domains["C08t"] = runC08t }

// rawEntries walks the blocks of an archive: for every entry, the payload sizes of the
// extension records in front of it, its own payload size, and where its header block is.
func rawEntries(b []byte) (ext [][]int64, size []int64, off []int64) {
	var cur []int64
	pos := int64(0)
	for pos+512 <= int64(len(b)) {
		h := b[pos : pos+512]
		if bytes.Equal(h, make([]byte, 512)) {
			break
		}
		sz := parseTarNum(h[124:136])
		switch h[156] {
		case 'x', 'g', 'L', 'K':
			cur = append(cur, sz)
		default:
			ext = append(ext, cur)
			size = append(size, sz)
			off = append(off, pos)
			cur = nil
			if h[156] != '0' && h[156] != 0 {
				sz = 0 // directories, links: no payload
				size[len(size)-1] = 0
			}
		}
		pos += 512 + (sz+511)/512*512
	}
	return
}

func parseTarNum(f []byte) int64 {
	if len(f) > 0 && f[0]&0x80 != 0 { // base-256
		var v int64
		for i, c := range f {
			if i == 0 {
				c &= 0x7f
			}
			v = v<<8 | int64(c)
		}
		return v
	}
	s := strings.Trim(string(f), " \x00")
	v, _ := strconv.ParseInt(s, 8, 64)
	return v
}

func runC08t(seed int64, tier string, sc *Script) map[string]any {
	rng := rand.New(rand.NewSource(seed))
	tmp, err := os.MkdirTemp("", "verif-c08t-")
	if err != nil {
		panic(err)
	}
	defer os.RemoveAll(tmp)
	archives := 60
	if tier == "thorough" {
		archives = 2500
	}
	evals := 0
	for ai := 0; ai < archives; ai++ {
		sc.Case("tar-offsets")
		sc.NonTrivial()
		format := []tar.Format{tar.FormatUSTAR, tar.FormatPAX, tar.FormatGNU, tar.FormatUnknown}[ai%4]
		var buf bytes.Buffer
		tw := tar.NewWriter(&buf)
		n := 1 + rng.Intn(7)
		var names []string
		bodies := map[string][]byte{}
		for i := 0; i < n; i++ {
			name := fmt.Sprintf("blobs/sha256/%064x", rng.Uint64())
			switch rng.Intn(4) {
			case 0:
				name = fmt.Sprintf("f%d", i)
			case 1:
				if format != tar.FormatUSTAR {
					name = fmt.Sprintf("blobs/sha512/%0128x", rng.Uint64()) // longer than the 100-byte name field
				}
			case 2:
				if format != tar.FormatUSTAR {
					name = fmt.Sprintf("deep/%s/f%d", strings.Repeat("d", 180), i) // longer than prefix + name
				}
			}
			size := []int{0, 1, 10, 511, 512, 513, 1024, 1500, 4096}[rng.Intn(9)]
			body := make([]byte, size)
			rng.Read(body)
			hdr := &tar.Header{Name: name, Mode: 0o644, Size: int64(size), Typeflag: tar.TypeReg, Format: format}
			if format == tar.FormatPAX && rng.Intn(2) == 0 {
				hdr.PAXRecords = map[string]string{"VERIF.note": strings.Repeat("n", rng.Intn(700))}
			}
			if i == 1 && rng.Intn(3) == 0 {
				hdr = &tar.Header{Name: fmt.Sprintf("dir%d/", i), Mode: 0o755, Typeflag: tar.TypeDir, Format: format}
				body, name = nil, fmt.Sprintf("dir%d", i)
			}
			if err := tw.WriteHeader(hdr); err != nil {
				panic(err)
			}
			tw.Write(body)
			names = append(names, filepath.ToSlash(filepath.Clean(name)))
			bodies[names[len(names)-1]] = body
		}
		tw.Close()
		p := filepath.Join(tmp, fmt.Sprintf("a%d.tar", ai))
		os.WriteFile(p, buf.Bytes(), 0o644)
		ext, size, off := rawEntries(buf.Bytes())
		if len(size) != n {
			panic(fmt.Sprintf("raw walk found %d entries, wrote %d", len(size), n))
		}
		tfs, err := tarfs.New(p)
		if err != nil {
			panic(err)
		}
		posOf := tfs.VerifEntryPositions()
		var ents, got, raw []string
		for i := 0; i < n; i++ {
			var xs []string
			for _, x := range ext[i] {
				xs = append(xs, fmt.Sprint(x))
			}
			x := "-"
			if len(xs) > 0 {
				x = strings.Join(xs, "+")
			}
			ents = append(ents, fmt.Sprintf("%s:%d", x, size[i]))
			got = append(got, fmt.Sprint(posOf[names[i]]))
			raw = append(raw, fmt.Sprint(off[i]))
			sc.Count(fmt.Sprintf("ext-records:%d", len(ext[i])))
		}
		sc.Op(strings.Join(got, ","), "tf index raw=%s ents=%s", strings.Join(raw, ","), strings.Join(ents, ";"))
		evals++
		// every regular entry opens and reads back
		verdict := "ok"
		for i, nm := range names {
			if strings.HasPrefix(nm, "dir") {
				continue
			}
			f, err := tfs.Open(nm)
			if err != nil {
				verdict = fmt.Sprintf("open-failed(%d)", i)
				break
			}
			b, _ := io.ReadAll(f)
			f.Close()
			if !bytes.Equal(b, bodies[nm]) {
				verdict = fmt.Sprintf("other-bytes(%d)", i)
				break
			}
		}
		sc.Op(verdict, "tf read")
		evals++
		os.Remove(p)
	}
	sc.Extra["evaluations"] = evals
	return nil
}
