//go:build verif

package main

// C06 for the memory store and the file store: random histories of Push (good and bad
// content, named and unnamed), Exists, Fetch, Tag, Resolve and Predecessors, with
// manifests whose layer descriptors carry titles (so that duplicate restoration runs).

import (
	"bytes"
	"context"
	"encoding/json"
	"errors"
	"fmt"
	"io"
	"math/rand"
	"os"
	"path/filepath"
	"runtime"
	"sort"
	"strings"
	"sync"
	"sync/atomic"
	"time"

	"github.com/opencontainers/image-spec/specs-go"
	ocispec "github.com/opencontainers/image-spec/specs-go/v1"
	"oras.land/oras-go/v2/content/file"
	"oras.land/oras-go/v2/content/memory"
	"oras.land/oras-go/v2/content/oci"
	"oras.land/oras-go/v2/errdef"
)

func init() { domains["C06s"] = runC06s; domains["C06c"] = runC06c }

type sNode struct {
	id    int
	desc  ocispec.Descriptor // plain
	bytes []byte
	dig   int
	isMan bool
	succ  []sRef
}

type sRef struct {
	node int
	name int // -1: none
}

type sTarget interface {
	Push(ctx context.Context, d ocispec.Descriptor, r io.Reader) error
	Exists(ctx context.Context, d ocispec.Descriptor) (bool, error)
	Fetch(ctx context.Context, d ocispec.Descriptor) (io.ReadCloser, error)
	Tag(ctx context.Context, d ocispec.Descriptor, ref string) error
	Resolve(ctx context.Context, ref string) (ocispec.Descriptor, error)
	Predecessors(ctx context.Context, d ocispec.Descriptor) ([]ocispec.Descriptor, error)
}

func sErr(err error) string {
	switch {
	case err == nil:
		return "ok"
	case errors.Is(err, errdef.ErrAlreadyExists):
		return "err:alreadyExists"
	case errors.Is(err, errdef.ErrNotFound):
		return "err:notFound"
	case errors.Is(err, errdef.ErrMissingReference):
		return "err:missingRef"
	case errors.Is(err, file.ErrDuplicateName):
		return "err:duplicateName"
	case errors.Is(err, file.ErrOverwriteDisallowed):
		return "err:overwrite"
	}
	return "err:verify" // every other failure of a push in these histories is a content mismatch / reader error
}

type failingReader struct {
	data []byte
	at   int
}

func (f *failingReader) Read(p []byte) (int, error) {
	if f.at >= len(f.data) {
		return 0, errors.New("injected read failure")
	}
	n := copy(p, f.data[f.at:])
	f.at += n
	return n, nil
}

func sName(k int) string { return fmt.Sprintf("f%d.bin", k) }

func runC06s(seed int64, tier string, sc *Script) map[string]any {
	rng := rand.New(rand.NewSource(seed))
	ctx := context.Background()
	tmp, err := os.MkdirTemp("", "verif-c06s-")
	if err != nil {
		panic(err)
	}
	defer os.RemoveAll(tmp)
	cases, steps := 120, 40
	if tier == "thorough" {
		cases, steps = 3000, 70
	}
	ops := 0
	for ci := 0; ci < cases; ci++ {
		kind := []string{"mem", "file", "mem", "filecas", "mem", "filenov", "mem", "fileinn"}[ci%8]
		forceCAS := kind == "filecas"
		noOverwrite := kind == "filenov"
		ignoreNoName := kind == "fileinn"
		if forceCAS || noOverwrite || ignoreNoName {
			kind = "file"
		}
		// universe: blobs (some sharing bytes under another media type for the memory store),
		// then image manifests listing blobs with titles
		var nodes []*sNode
		digOf := map[string]int{}
		add := func(mt string, b []byte, isMan bool, succ []sRef) *sNode {
			d := descOf(mt, b)
			k := string(d.Digest)
			if _, ok := digOf[k]; !ok {
				digOf[k] = len(digOf) + 1
			}
			n := &sNode{id: len(nodes), desc: d, bytes: b, dig: digOf[k], isMan: isMan, succ: succ}
			nodes = append(nodes, n)
			return n
		}
		nb := 3 + rng.Intn(3)
		for i := 0; i < nb; i++ {
			data := []byte(fmt.Sprintf("blob-%d-%d-%s", ci, i, strings.Repeat("x", rng.Intn(20))))
			if i == 1 && rng.Intn(3) == 0 {
				data = []byte{} // empty blob
			}
			add("application/vnd.verif.blob", data, false, nil)
		}
		if kind == "mem" && rng.Intn(2) == 0 {
			add("application/vnd.verif.alias", nodes[0].bytes, false, nil) // same bytes, another media type
		}
		nblobs := len(nodes)
		nm := 1 + rng.Intn(3)
		for i := 0; i < nm; i++ {
			cfg := rng.Intn(nblobs)
			var succ []sRef
			m := ocispec.Manifest{Versioned: specs.Versioned{SchemaVersion: 2}, MediaType: ocispec.MediaTypeImageManifest,
				Config: nodes[cfg].desc, Layers: []ocispec.Descriptor{},
				Annotations: map[string]string{"verif.m": fmt.Sprint(ci, i)}}
			succ = append(succ, sRef{cfg, -1})
			for k := 0; k < 1+rng.Intn(3); k++ {
				l := rng.Intn(nblobs)
				ld := nodes[l].desc
				name := -1
				if rng.Intn(4) != 0 {
					name = rng.Intn(6)
					ld.Annotations = map[string]string{ocispec.AnnotationTitle: sName(name)}
				}
				m.Layers = append(m.Layers, ld)
				succ = append(succ, sRef{l, name})
			}
			b, _ := json.Marshal(m)
			add(ocispec.MediaTypeImageManifest, b, true, succ)
		}
		byKey := map[string]int{}
		for _, n := range nodes {
			byKey[keyOf(n.desc)] = n.id
		}
		sc.Case("store-history " + kind + map[bool]string{true: " ForceCAS"}[forceCAS] + map[bool]string{true: " DisableOverwrite"}[noOverwrite] + map[bool]string{true: " IgnoreNoName"}[ignoreNoName])
		sc.NonTrivial()
		if forceCAS {
			sc.Def("s new kind=%s cas=1", kind)
		} else if noOverwrite {
			sc.Def("s new kind=%s nov=1", kind)
		} else if ignoreNoName {
			sc.Def("s new kind=%s inn=1", kind)
		} else {
			sc.Def("s new kind=%s", kind)
		}
		for _, n := range nodes {
			k := "b"
			if n.isMan {
				k = "m"
			}
			var ss []string
			for _, r := range n.succ {
				if r.name < 0 {
					ss = append(ss, fmt.Sprintf("%d:-", r.node))
				} else {
					ss = append(ss, fmt.Sprintf("%d:%d", r.node, r.name))
				}
			}
			s := "-"
			if len(ss) > 0 {
				s = strings.Join(ss, ",")
			}
			sc.Def("s node %d kind=%s dig=%d succ=%s", n.id, k, n.dig, s)
		}
		var st sTarget
		dir := filepath.Join(tmp, fmt.Sprintf("w%d", ci))
		var fstore *file.Store
		if kind == "mem" {
			st = memory.New()
		} else {
			if noOverwrite {
				// files that sit in the working directory before the store is opened
				os.MkdirAll(dir, 0o755)
				for _, k := range []int{6, 7} {
					os.WriteFile(filepath.Join(dir, sName(k)), []byte("here before"), 0o644)
					sc.Def("s disk name=%d", k)
				}
			}
			fstore, err = file.New(dir)
			if err != nil {
				panic(err)
			}
			fstore.ForceCAS = forceCAS
			fstore.DisableOverwrite = noOverwrite
			fstore.IgnoreNoName = ignoreNoName
			st = fstore
		}
		withName := func(d ocispec.Descriptor, name int) ocispec.Descriptor {
			if name >= 0 {
				d.Annotations = map[string]string{ocispec.AnnotationTitle: sName(name)}
			}
			return d
		}
		nameStr := func(name int) string {
			if name < 0 {
				return "-"
			}
			return fmt.Sprint(name)
		}
		pickName := func(n *sNode) int {
			if kind == "mem" || n.isMan && rng.Intn(4) != 0 {
				return -1
			}
			if rng.Intn(4) == 0 {
				return -1
			}
			if noOverwrite {
				return rng.Intn(8) // 6 and 7 are taken on disk
			}
			return rng.Intn(6)
		}
		classify := func(b []byte) string {
			for _, n := range nodes {
				if bytes.Equal(n.bytes, b) {
					return fmt.Sprintf("ok:%d", n.dig)
				}
			}
			return "garbage"
		}
		query := func(n *sNode, name int) {
			d := withName(n.desc, name)
			ex, err := st.Exists(ctx, d)
			a := "0"
			if err != nil {
				a = sErr(err)
			} else if ex {
				a = "1"
			}
			sc.Op(a, "s exists %d name=%s", n.id, nameStr(name))
			rc, err := st.Fetch(ctx, d)
			if err != nil {
				sc.Op(sErr(err), "s fetch %d name=%s", n.id, nameStr(name))
			} else {
				b, rerr := io.ReadAll(rc)
				rc.Close()
				if rerr != nil {
					sc.Op("err:read", "s fetch %d name=%s", n.id, nameStr(name))
				} else {
					sc.Op(classify(b), "s fetch %d name=%s", n.id, nameStr(name))
				}
			}
		}
		for step := 0; step < steps; step++ {
			ops++
			n := nodes[rng.Intn(len(nodes))]
			r := rng.Intn(100)
			// every file-store history begins with one blob pushed under a first name, then the
			// same bytes under a second name through a reader that breaks off: what the store
			// says about the content afterwards is what it said before
			scripted := kind != "mem" && !ignoreNoName && step < 2
			if scripted {
				for _, c := range nodes {
					if !c.isMan && len(c.bytes) > 1 {
						n = c
						break
					}
				}
				r = 0
			}
			switch {
			case r < 40:
				name := pickName(n)
				// (for the empty blob there is no content a push must refuse: nothing needs to be
				// read, and bytes beyond Size may be ignored by a size-limited store)
				good := rng.Intn(10) < 7 || len(n.bytes) == 0
				if scripted {
					name, good = step, step == 0
				}
				var rd io.Reader = bytes.NewReader(n.bytes)
				if !good {
					badKind := rng.Intn(3)
					if scripted {
						badKind = 2
					}
					switch badKind {
					case 0: // same length, other bytes
						b := append([]byte(nil), n.bytes...)
						if len(b) == 0 {
							b = []byte("x") // longer than described
						} else {
							b[len(b)/2] ^= 0x55
						}
						rd = bytes.NewReader(b)
					case 1: // short
						if len(n.bytes) == 0 {
							rd = bytes.NewReader([]byte("extra"))
						} else {
							rd = bytes.NewReader(n.bytes[:len(n.bytes)-1])
						}
					default: // the reader fails half way
						rd = &failingReader{data: n.bytes[:len(n.bytes)/2]}
					}
				}
				err := st.Push(ctx, withName(n.desc, name), rd)
				g := 0
				if good {
					g = 1
				}
				sc.Op(sErr(err), "s push %d name=%s good=%d", n.id, nameStr(name), g)
				sc.Count(fmt.Sprintf("push:%s:good=%d:%s", kind, g, strings.SplitN(sErr(err), "(", 2)[0]))
				// what the store now says about this content, under this name, without a
				// name, and under another name
				query(n, name)
				query(n, -1)
				if kind == "file" {
					query(n, rng.Intn(6))
				}
			case r < 60:
				query(n, pickName(n))
			case r < 78:
				name := pickName(n)
				ref := rng.Intn(5) - 1 // -1: the empty reference
				rs := ""
				if ref >= 0 {
					rs = fmt.Sprintf("tag%d", ref)
				}
				err := st.Tag(ctx, withName(n.desc, name), rs)
				sc.Op(sErr(err), "s tag %d name=%s ref=%s", n.id, nameStr(name), nameStr(ref))
				sc.Count("op:tag")
			case r < 90:
				ref := rng.Intn(5) - 1
				rs := ""
				if ref >= 0 {
					rs = fmt.Sprintf("tag%d", ref)
				}
				d, err := st.Resolve(ctx, rs)
				if err != nil {
					sc.Op(sErr(err), "s resolve ref=%s", nameStr(ref))
				} else {
					id, ok := byKey[keyOf(ocispec.Descriptor{MediaType: d.MediaType, Digest: d.Digest, Size: d.Size})]
					name := "-"
					if t := d.Annotations[ocispec.AnnotationTitle]; t != "" {
						var k int
						fmt.Sscanf(t, "f%d.bin", &k)
						name = fmt.Sprint(k)
					}
					if !ok {
						sc.Op("unknown-descriptor", "s resolve ref=%s", nameStr(ref))
					} else {
						sc.Op(fmt.Sprintf("%d name=%s", id, name), "s resolve ref=%s", nameStr(ref))
					}
				}
			default:
				ds, err := st.Predecessors(ctx, n.desc)
				if err != nil {
					sc.Op(sErr(err), "s preds %d", n.id)
				} else {
					var ids []int
					for _, d := range ds {
						id, ok := byKey[keyOf(ocispec.Descriptor{MediaType: d.MediaType, Digest: d.Digest, Size: d.Size})]
						if !ok {
							id = -1
						}
						ids = append(ids, id)
					}
					sc.Op(fmtSet(ids), "s preds %d", n.id)
				}
			}
		}
		// final sweep
		for _, n := range nodes {
			query(n, -1)
			ds, _ := st.Predecessors(ctx, n.desc)
			var ids []int
			for _, d := range ds {
				ids = append(ids, byKey[keyOf(ocispec.Descriptor{MediaType: d.MediaType, Digest: d.Digest, Size: d.Size})])
			}
			sc.Op(fmtSet(ids), "s preds %d", n.id)
		}
		if fstore != nil {
			fstore.Close()
		}
		os.RemoveAll(dir)
	}
	sc.Extra["evaluations"] = ops
	return nil
}

// gateReader hands out its bytes only after `release` is closed, and reports on `started`
// when the store first asks for them.
type gateReader struct {
	data    []byte
	at      int
	started chan struct{}
	release chan struct{}
	once    bool
}

func (g *gateReader) Read(p []byte) (int, error) {
	if !g.once {
		g.once = true
		close(g.started)
		<-g.release
	}
	if g.at >= len(g.data) {
		return 0, io.EOF
	}
	n := copy(p, g.data[g.at:])
	g.at += n
	return n, nil
}

// overlapPush: one Push of `d` is suspended inside its first Read while a second Push of the
// same descriptor runs to completion; then the first resumes.  Returns both results.
func overlapPush(ctx context.Context, st sTarget, d ocispec.Descriptor, data []byte, serialised bool) (first, second string) {
	wait := 30 * time.Second
	if serialised {
		wait = 100 * time.Millisecond
	}
	g := &gateReader{data: data, started: make(chan struct{}), release: make(chan struct{})}
	res := make(chan error, 1)
	go func() { res <- st.Push(ctx, d, g) }()
	select {
	case <-g.started:
	case err := <-res: // refused before reading anything
		return sErr(err), sErr(st.Push(ctx, d, bytes.NewReader(data)))
	}
	res2 := make(chan error, 1)
	go func() { res2 <- st.Push(ctx, d, bytes.NewReader(data)) }()
	select {
	case err := <-res2:
		second = sErr(err)
		close(g.release)
	case <-time.After(wait):
		// the store serialises the two (the file store's per-name lock): let the first finish
		close(g.release)
		second = sErr(<-res2)
	}
	return sErr(<-res), second
}

// C06c: operations that overlap in time.
func runC06c(seed int64, tier string, sc *Script) map[string]any {
	ctx := context.Background()
	tmp, err := os.MkdirTemp("", "verif-c06c-")
	if err != nil {
		panic(err)
	}
	defer os.RemoveAll(tmp)
	ops := 0
	// two pushes of the same content that overlap in time: in every sequential order of the
	// two exactly one is accepted
	for ci := 0; ci < 12; ci++ {
		for _, kind := range []string{"mem", "file-unnamed", "file-named", "oci"} {
			data := []byte(fmt.Sprintf("overlap-%d-%s", ci, kind))
			d := descOf("application/vnd.verif.blob", data)
			var st sTarget
			dir := filepath.Join(tmp, fmt.Sprintf("ov%d-%s", ci, kind))
			var closer func()
			switch kind {
			case "mem":
				st = memory.New()
			case "oci":
				o, err := oci.New(dir)
				if err != nil {
					panic(err)
				}
				st = o
			default:
				f, err := file.New(dir)
				if err != nil {
					panic(err)
				}
				closer = func() { f.Close() }
				st = f
				if kind == "file-named" {
					d.Annotations = map[string]string{ocispec.AnnotationTitle: "n.bin"}
				}
			}
			sc.Case("overlapping-push " + kind)
			sc.NonTrivial()
			a, b := overlapPush(ctx, st, d, data, kind == "file-named")
			okc := 0
			for _, r := range []string{a, b} {
				if r == "ok" {
					okc++
				}
			}
			sc.Op(fmt.Sprintf("accepted=%d", okc), "s overlap kind=%s first=%s second=%s", kind, a, b)
			if closer != nil {
				closer()
			}
			os.RemoveAll(dir)
			ops++
		}
	}
	// Tag racing Delete on an OCI layout: whatever the interleaving, afterwards a reference
	// that resolves names content that exists (Tag then Delete leaves no tag; Delete then Tag is
	// refused with not-found)
	races := 600
	if tier == "thorough" {
		races = 4000
	}
	v := tagDeleteRace(ctx, tmp, seed, races, false)
	ops += races
	// Push racing Delete of the same manifest: one of the two sequential orders explains
	// what both calls returned and what the store says afterwards
	pdRounds := 150
	if tier == "thorough" {
		pdRounds = 1500
	}
	sc.Case("push-races-delete oci")
	sc.NonTrivial()
	sc.Op(pushDeleteRace(ctx, tmp, pdRounds), "s pushdelrace rounds=%d", pdRounds)
	ops += pdRounds
	sc.Case("concurrent-tags-then-reopen oci")
	sc.NonTrivial()
	sc.Op(tagReopen(ctx, tmp, pdRounds), "s tagreopen rounds=%d", pdRounds)
	ops += pdRounds
	sc.Case("tag-races-delete oci")
	sc.NonTrivial()
	sc.Op(v, "s tagrace rounds=%d", races)
	sc.Extra["evaluations"] = ops
	return nil
}

// tagDeleteRace: Tag racing Delete on an OCI layout.  With checkDisk the directory is
// validated after every round and a store opened on it must know the same names.
func tagDeleteRace(ctx context.Context, tmp string, seed int64, races int, checkDisk bool) string {
	// Tag racing Delete on an OCI layout: whatever the interleaving, afterwards a reference
	// that resolves names content that exists (Tag then Delete leaves no tag; Delete then Tag is
	// refused with not-found)
	rrng := rand.New(rand.NewSource(seed))
	bad := ""
	for ri := 0; ri < races && bad == ""; ri++ {
		dir := filepath.Join(tmp, fmt.Sprintf("race%d", ri))
		o, err := oci.New(dir)
		if err != nil {
			panic(err)
		}
		cfg := []byte("{}")
		cd := descOf(ocispec.MediaTypeImageConfig, cfg)
		m := ocispec.Manifest{Versioned: specs.Versioned{SchemaVersion: 2}, MediaType: ocispec.MediaTypeImageManifest, Config: cd,
			Layers: []ocispec.Descriptor{}, Annotations: map[string]string{"race": fmt.Sprint(ri)}}
		mb, _ := json.Marshal(m)
		md := descOf(ocispec.MediaTypeImageManifest, mb)
		o.Push(ctx, cd, bytes.NewReader(cfg))
		if err := o.Push(ctx, md, bytes.NewReader(mb)); err != nil {
			panic(err)
		}
		// a few tags first make the index rewrite inside Delete take longer
		for k := 0; k < 6; k++ {
			o.Tag(ctx, md, fmt.Sprintf("pre%d", k))
		}
		// three rounds in four keep the index in memory: a Tag is then a few hundred
		// nanoseconds, the taggers spin, and the Delete lands among thousands of Tags
		spin := ri%4 != 0
		o.AutoSaveIndex = !spin
		taggers := 4 + rrng.Intn(6)
		wait := rrng.Intn(3000)
		start := make(chan struct{})
		var stop int32
		var wg sync.WaitGroup
		for k := 0; k < taggers; k++ {
			wg.Add(1)
			go func(k int) {
				defer wg.Done()
				<-start
				if spin {
					for r := 0; atomic.LoadInt32(&stop) == 0 && r < 200000; r++ {
						o.Tag(ctx, md, fmt.Sprintf("t%d-%d", k, r%4))
					}
					return
				}
				for r := 0; r < 3; r++ {
					o.Tag(ctx, md, fmt.Sprintf("t%d-%d", k, r))
				}
			}(k)
		}
		wg.Add(1)
		go func() {
			defer wg.Done()
			<-start
			if spin {
				for w := wait; w > 0; w-- {
					runtime.Gosched()
				}
			}
			o.Delete(ctx, md)
			atomic.StoreInt32(&stop, 1)
		}()
		close(start)
		wg.Wait()
		exists, _ := o.Exists(ctx, md)
		var tags []string
		o.Tags(ctx, "", func(ts []string) error { tags = append(tags, ts...); return nil })
		for _, t := range tags {
			if d, err := o.Resolve(ctx, t); err == nil && d.Digest == md.Digest && !exists {
				bad = fmt.Sprintf("round-%d:tag-%s-resolves-to-deleted-content", ri, t)
				break
			}
		}
		if checkDisk && bad == "" {
			if !o.AutoSaveIndex {
				o.SaveIndex() // (the spinning rounds keep the index in memory)
			}
			if v := validateLayout(dir); v != "ok" {
				bad = fmt.Sprintf("round-%d:%s", ri, v)
			} else if s2, err := oci.New(dir); err != nil {
				bad = fmt.Sprintf("round-%d:reopen-failed", ri)
			} else {
				var t2 []string
				s2.Tags(ctx, "", func(ts []string) error { t2 = append(t2, ts...); return nil })
				sort.Strings(tags)
				sort.Strings(t2)
				if strings.Join(tags, ",") != strings.Join(t2, ",") {
					bad = fmt.Sprintf("round-%d:reopened-store-knows-other-names(live=%d,disk=%d)", ri, len(tags), len(t2))
				}
			}
		}
		os.RemoveAll(dir)
	}
	if bad != "" {
		return bad
	}
	return "consistent"
}
