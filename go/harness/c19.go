//go:build verif

package main

// C19: PackManifest over the full decision grid with recording targets.

import (
	"context"
	"encoding/json"
	"errors"
	"fmt"
	"io"
	"reflect"
	"regexp"
	"strings"

	"github.com/opencontainers/go-digest"
	ocispec "github.com/opencontainers/image-spec/specs-go/v1"
	oras "oras.land/oras-go/v2"
	"oras.land/oras-go/v2/content"
	"oras.land/oras-go/v2/content/memory"
	"oras.land/oras-go/v2/errdef"
)

func init() { domains["C19"] = runC19 }

type recTarget struct {
	inner   *memory.Store
	events  []string
	cfgNone bool
}

func (r *recTarget) classify(d ocispec.Descriptor) string {
	if d.MediaType == ocispec.MediaTypeImageManifest {
		return "Manifest"
	}
	if r.cfgNone {
		return "Config"
	}
	return "Layer"
}

func (r *recTarget) Push(ctx context.Context, d ocispec.Descriptor, rd io.Reader) error {
	r.events = append(r.events, "push"+r.classify(d))
	return r.inner.Push(ctx, d, rd)
}

type recROS struct{ *recTarget }

func (r recROS) Exists(ctx context.Context, d ocispec.Descriptor) (bool, error) {
	r.events = append(r.events, "exists"+r.classify(d))
	return r.inner.Exists(ctx, d)
}
func (r recROS) Fetch(ctx context.Context, d ocispec.Descriptor) (io.ReadCloser, error) {
	return r.inner.Fetch(ctx, d)
}

func runC19(seed int64, tier string, sc *Script) map[string]any {
	ctx := context.Background()
	evals := 0
	sc.Case("decision-grid")
	sc.NonTrivial()
	layer := content.NewDescriptorFromBytes("application/vnd.verif.layer", []byte("layer-bytes"))
	subjectDesc := content.NewDescriptorFromBytes(ocispec.MediaTypeImageManifest, []byte(`{"x":1}`))
	// (the subject as an earlier PackManifest returned it: with artifact type and annotations;
	// it is written as requested, field for field)
	subjectDesc.ArtifactType = "application/vnd.verif.subject"
	subjectDesc.Annotations = map[string]string{"org.opencontainers.image.created": "2001-02-03T04:05:06Z", "s": "t"}
	userCfgBytes := []byte(`{"user":"config"}`)
	for _, ver := range []string{"10", "11"} {
		for _, at := range []string{"empty", "valid", "invalid"} {
			for _, cfg := range []string{"none", "valid", "validempty", "invalid", "emptytype"} {
				for _, layers := range []int{0, 2} {
					for _, subject := range []int{0, 1} {
						for _, created := range []string{"absent", "valid", "malformed", "empty", "validfrac", "validoffset"} {
							for _, target := range []string{"ros-present", "ros-absent", "pusher"} {
								artifactType := map[string]string{"empty": "", "valid": "application/vnd.verif.type", "invalid": "not a media type"}[at]
								opts := oras.PackManifestOptions{ConfigAnnotations: map[string]string{"cfg": "ann"}}
								switch cfg {
								case "valid":
									d := content.NewDescriptorFromBytes("application/vnd.verif.config", userCfgBytes)
									opts.ConfigDescriptor = &d
								case "validempty":
									// the caller's own config happens to be the two bytes "{}"
									d := content.NewDescriptorFromBytes("application/vnd.verif.config", []byte("{}"))
									opts.ConfigDescriptor = &d
								case "invalid":
									d := content.NewDescriptorFromBytes("bad media/type!!", userCfgBytes)
									opts.ConfigDescriptor = &d
								case "emptytype":
									d := content.NewDescriptorFromBytes(ocispec.MediaTypeEmptyJSON, []byte("{}"))
									opts.ConfigDescriptor = &d
								}
								for k := 0; k < layers; k++ {
									opts.Layers = append(opts.Layers, layer)
								}
								if layers == 0 && created != "absent" {
									opts.Layers = []ocispec.Descriptor{} // no layers, given as an empty (not nil) list
								}
								if subject == 1 {
									opts.Subject = &subjectDesc
								}
								opts.ManifestAnnotations = map[string]string{"k": "v"}
								switch created {
								case "valid":
									opts.ManifestAnnotations[ocispec.AnnotationCreated] = "2001-02-03T04:05:06Z"
								case "malformed":
									opts.ManifestAnnotations[ocispec.AnnotationCreated] = "yesterday"
								case "empty":
									opts.ManifestAnnotations[ocispec.AnnotationCreated] = ""
								case "validfrac": // valid RFC 3339, not in whole-second form: kept as given
									opts.ManifestAnnotations[ocispec.AnnotationCreated] = "2001-02-03T04:05:06.5Z"
								case "validoffset":
									opts.ManifestAnnotations[ocispec.AnnotationCreated] = "2001-02-03T04:05:06+00:00"
								}
								version := oras.PackManifestVersion1_1
								if ver == "10" {
									version = oras.PackManifestVersion1_0
								}
								run := func() (*recTarget, ocispec.Descriptor, error) {
									rt := &recTarget{inner: memory.New(), cfgNone: cfg == "none"}
									if target == "ros-present" {
										// whatever blob the function may invent is already there
										for _, mt := range []string{ocispec.MediaTypeEmptyJSON, artifactType, oras.MediaTypeUnknownConfig} {
											if mt != "" {
												d := content.NewDescriptorFromBytes(mt, []byte("{}"))
												rt.inner.Push(ctx, d, strings.NewReader("{}"))
											}
										}
									}
									var p content.Pusher = rt
									if target != "pusher" {
										p = recROS{rt}
									}
									d, err := oras.PackManifest(ctx, p, version, artifactType, opts)
									return rt, d, err
								}
								rt, desc, err := run()
								ev := "-"
								if len(rt.events) > 0 {
									ev = strings.Join(rt.events, ",")
								}
								res := "res=ok"
								switch {
								case err == nil:
									res += " fields=" + checkPacked(ctx, rt.inner, desc, ver, artifactType, opts, layers, subject == 1, created)
								case errors.Is(err, errdef.ErrUnsupported):
									res = "res=err:unsupported"
								case errors.Is(err, errdef.ErrInvalidMediaType):
									res = "res=err:invalidMediaType"
								case errors.Is(err, oras.ErrMissingArtifactType):
									res = "res=err:missingArtifactType"
								case errors.Is(err, oras.ErrInvalidDateTimeFormat):
									res = "res=err:invalidDateTime"
								default:
									res = "res=err:other(" + strings.ReplaceAll(err.Error(), " ", "_") + ")"
								}
								sc.Op(ev+" "+res, "pk run ver=%s at=%s cfg=%s layers=%d subject=%d created=%s target=%s", ver, at, cfg, layers, subject, created, target)
								sc.Op(res, "pk result ver=%s at=%s cfg=%s layers=%d subject=%d created=%s target=%s", ver, at, cfg, layers, subject, created, target)
								evals++
								sc.Count(strings.SplitN(res, " ", 2)[0])
								if err == nil && created == "valid" {
									_, d2, err2 := run()
									v := "same"
									if err2 != nil || d2.Digest != desc.Digest || d2.Size != desc.Size {
										v = "different"
									}
									sc.Op(v, "pk det ver=%s at=%s cfg=%s layers=%d subject=%d target=%s", ver, at, cfg, layers, subject, target)
									evals++
									// and once more into the very same target, which now holds everything
									// the call produces: the same descriptor again, no error
									var p2 content.Pusher = rt
									if target != "pusher" {
										p2 = recROS{rt}
									}
									d3, err3 := oras.PackManifest(ctx, p2, version, artifactType, opts)
									v = "same"
									if err3 != nil {
										v = "err:" + strings.ReplaceAll(err3.Error(), " ", "_")
									} else if d3.Digest != desc.Digest || d3.Size != desc.Size || d3.MediaType != desc.MediaType {
										v = "different"
									}
									sc.Op(v, "pk again ver=%s at=%s cfg=%s layers=%d subject=%d target=%s", ver, at, cfg, layers, subject, target)
									evals++
								}
							}
						}
					}
				}
			}
		}
	}
	// media type strings against Go's regexp
	sc.Case("media-types")
	sc.NonTrivial()
	re := regexp.MustCompile(`^[A-Za-z0-9][A-Za-z0-9!#$&^_.+-]{0,126}/[A-Za-z0-9][A-Za-z0-9!#$&^_.+-]{0,126}$`)
	_ = re
	var mts []string
	enumStrings([]byte("a9/.+ !"), 5, func(s string) { mts = append(mts, s) })
	long := strings.Repeat("a", 127)
	mts = append(mts, long+"/"+long, long+"a/"+long, "a/"+long+"a", "application/vnd.oci.image.manifest.v1+json", "a/b/c", "/a", "a/", "é/a", "a/b;q=1")
	// every printable ASCII character in each position of the type and the subtype
	for ch := 33; ch < 127; ch++ {
		c := string(rune(ch))
		mts = append(mts, "a"+c+"/b", "a/b"+c, c+"/b", "a/"+c, "a"+c+"c/b"+c+"d")
	}
	for _, m := range mts {
		if m == "" || strings.ContainsAny(m, " \t") {
			continue
		}
		d := content.NewDescriptorFromBytes(m, []byte("{}"))
		_, err := oras.PackManifest(ctx, memory.New(), oras.PackManifestVersion1_1, "application/vnd.verif.x", oras.PackManifestOptions{ConfigDescriptor: &d})
		sc.Op(fmt.Sprint(!errors.Is(err, errdef.ErrInvalidMediaType)), "pk mt s=%s", m)
		evals++
	}
	sc.Extra["evaluations"] = evals
	sc.Extra["exhaustive_grid"] = true
	return nil
}

func checkPacked(ctx context.Context, st *memory.Store, desc ocispec.Descriptor, ver, artifactType string, opts oras.PackManifestOptions, layers int, subject bool, created string) string {
	rc, err := st.Fetch(ctx, desc)
	if err != nil {
		return "manifest-not-stored"
	}
	b, _ := io.ReadAll(rc)
	rc.Close()
	if digest.FromBytes(b) != desc.Digest || int64(len(b)) != desc.Size {
		return "descriptor-mismatch"
	}
	if desc.MediaType != ocispec.MediaTypeImageManifest {
		return "media-type"
	}
	var m ocispec.Manifest
	if err := json.Unmarshal(b, &m); err != nil {
		return "unparsable"
	}
	if m.MediaType != ocispec.MediaTypeImageManifest || m.SchemaVersion != 2 {
		return "manifest-header"
	}
	// config
	if opts.ConfigDescriptor != nil {
		if m.Config.Digest != opts.ConfigDescriptor.Digest || m.Config.MediaType != opts.ConfigDescriptor.MediaType {
			return "config-not-the-requested-one"
		}
	} else {
		if ok, _ := st.Exists(ctx, m.Config); !ok {
			return "invented-config-absent"
		}
		if m.Config.Annotations["cfg"] != "ann" {
			return "config-annotations-lost"
		}
		if ver == "11" && m.Config.MediaType != ocispec.MediaTypeEmptyJSON {
			return "config-not-empty-descriptor"
		}
		if ver == "10" {
			want := artifactType
			if want == "" {
				want = oras.MediaTypeUnknownConfig
			}
			if m.Config.MediaType != want {
				return "config-media-type"
			}
		}
	}
	// layers
	switch {
	case layers > 0:
		if len(m.Layers) != layers || m.Layers[0].Digest != opts.Layers[0].Digest {
			return "layers"
		}
	case ver == "11":
		if len(m.Layers) != 1 || m.Layers[0].MediaType != ocispec.MediaTypeEmptyJSON {
			return "placeholder-layer"
		}
		// the placeholder is the bare empty descriptor: nothing of the caller's config or of
		// an earlier call rides on it
		if len(m.Layers[0].Annotations) != 0 || m.Layers[0].Size != 2 ||
			m.Layers[0].Digest != "sha256:44136fa355b3678a1146ad16f7e8649e94fb4fc21fe77e8310c060f61caaff8a" {
			return "placeholder-layer-not-bare"
		}
		if ok, _ := st.Exists(ctx, m.Layers[0]); !ok {
			return "placeholder-layer-absent"
		}
	default:
		if m.Layers == nil || len(m.Layers) != 0 {
			return "layers-not-empty-array"
		}
	}
	if subject != (m.Subject != nil) {
		return "subject"
	}
	if subject && !reflect.DeepEqual(*m.Subject, *opts.Subject) {
		return "subject-not-the-requested-one"
	}
	if ver == "11" && m.ArtifactType != artifactType {
		return "artifactType"
	}
	if m.Annotations["k"] != "v" {
		return "annotations"
	}
	c, ok := m.Annotations[ocispec.AnnotationCreated]
	if !ok {
		return "created-missing"
	}
	if want := map[string]string{"valid": "2001-02-03T04:05:06Z", "validfrac": "2001-02-03T04:05:06.5Z", "validoffset": "2001-02-03T04:05:06+00:00"}[created]; want != "" && c != want {
		return "created-overwritten"
	}
	if desc.Annotations[ocispec.AnnotationCreated] != c {
		return "descriptor-annotations"
	}
	// the library's shared empty descriptor must never be written to
	if len(ocispec.DescriptorEmptyJSON.Annotations) != 0 || ocispec.DescriptorEmptyJSON.MediaType != ocispec.MediaTypeEmptyJSON {
		return "shared-empty-descriptor-modified"
	}
	return "ok"
}
