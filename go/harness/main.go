//go:build verif

// Command verifharness is the Go side of the correspondence check.  It lives in
// /verif/go/harness and is compiled *inside* the oras-go module through
// `go build -overlay`, so it may import internal packages; nothing is written to /repo.
//
// usage: harness <domain> -seed N -tier quick|thorough -out script.txt -stats stats.json
//
// The script file has one operation per line, `<op> => <implementation's answer>`;
// the same lines are fed to the Lean driver, which answers `m=<model> s=<spec>`.
package main

import (
	"bufio"
	_ "crypto/sha256"
	_ "crypto/sha512"
	"encoding/json"
	"flag"
	"fmt"
	"os"
	"sort"
	"strconv"
	"strings"
)

type Script struct {
	w     *bufio.Writer
	Cases int
	Lines int
	Stats map[string]int
	// Samples holds the first few cases verbatim for the evidence file.
	Samples []string
	cur     strings.Builder
	nontriv map[string]bool
	curNT   bool
	Nontriv int
	Extra   map[string]any
}

func NewScript(path string) *Script {
	f, err := os.Create(path)
	if err != nil {
		panic(err)
	}
	return &Script{w: bufio.NewWriterSize(f, 1<<20), Stats: map[string]int{}, nontriv: map[string]bool{}, Extra: map[string]any{}}
}

func (s *Script) endCase() {
	if s.cur.Len() > 0 {
		txt := s.cur.String()
		if s.curNT && !s.nontriv[txt] {
			s.nontriv[txt] = true
			s.Nontriv++
			if len(s.Samples) < 3 {
				lines := strings.SplitN(txt, "\n", 26)
				if len(lines) > 25 {
					lines = append(lines[:25], "... (truncated)")
				}
				s.Samples = append(s.Samples, strings.Join(lines, "\n"))
			}
		}
	}
	s.cur.Reset()
	s.curNT = false
}

// Case starts a new independent case; the driver resets all its state.
func (s *Script) Case(label string) {
	s.endCase()
	s.Cases++
	fmt.Fprintf(s.w, "case %d %s\n", s.Cases, label)
	s.Lines++
}

// NonTrivial marks the current case as reaching the mechanism under test.
func (s *Script) NonTrivial() { s.curNT = true }

// Def writes a definition line (no implementation answer).
func (s *Script) Def(format string, a ...any) {
	l := fmt.Sprintf(format, a...)
	fmt.Fprintln(s.w, l)
	s.cur.WriteString(l)
	s.cur.WriteByte('\n')
	s.Lines++
}

// Op writes an operation and the implementation's canonical answer.
func (s *Script) Op(impl string, format string, a ...any) {
	l := fmt.Sprintf(format, a...) + " => " + impl
	fmt.Fprintln(s.w, l)
	s.cur.WriteString(l)
	s.cur.WriteByte('\n')
	s.Lines++
}

func (s *Script) Count(k string) { s.Stats[k]++ }

func (s *Script) Close(statsPath string, extra map[string]any) {
	s.endCase()
	s.w.Flush()
	out := map[string]any{
		"cases": s.Cases, "lines": s.Lines, "distinct_nontrivial": s.Nontriv,
		"distribution": s.Stats, "samples": s.Samples,
	}
	for k, v := range s.Extra {
		out[k] = v
	}
	for k, v := range extra {
		out[k] = v
	}
	b, _ := json.MarshalIndent(out, "", " ")
	if err := os.WriteFile(statsPath, b, 0o644); err != nil {
		panic(err)
	}
}

func fmtInts(l []int) string {
	if len(l) == 0 {
		return "-"
	}
	ss := make([]string, len(l))
	for i, v := range l {
		ss[i] = strconv.Itoa(v)
	}
	return strings.Join(ss, ",")
}

func fmtSet(l []int) string {
	c := append([]int(nil), l...)
	sort.Ints(c)
	return fmtInts(c)
}

type runFn func(seed int64, tier string, sc *Script) map[string]any

var domains = map[string]runFn{}

func main() {
	if len(os.Args) < 2 {
		fmt.Fprintln(os.Stderr, "usage: harness <domain> [flags]")
		os.Exit(2)
	}
	dom := os.Args[1]
	if dom == "crashchild" {
		crashChildMain(os.Args[2:])
		return
	}
	if dom == "slotchild" {
		slotChildMain(os.Args[2:])
		return
	}
	if dom == "credchild" {
		credChildMain(os.Args[2:])
		return
	}
	fs := flag.NewFlagSet(dom, flag.ExitOnError)
	seed := fs.Int64("seed", 1, "PRNG seed")
	tier := fs.String("tier", "quick", "quick|thorough")
	out := fs.String("out", "script.txt", "script output")
	stats := fs.String("stats", "stats.json", "stats output")
	fs.Parse(os.Args[2:])
	fn, ok := domains[dom]
	if !ok {
		fmt.Fprintln(os.Stderr, "unknown domain", dom)
		os.Exit(2)
	}
	sc := NewScript(*out)
	extra := fn(*seed, *tier, sc)
	sc.Close(*stats, extra)
}
