//go:build verif

package main

// C13: histories of Repository / BlobStore / ManifestStore calls against the in-process
// registry under every capability profile, with the request trace of each call, one-field
// response corruptions, and Read/Seek sequences on blob readers.

import (
	"bytes"
	"context"
	"crypto/sha256"
	"errors"
	"fmt"
	"io"
	"math/rand"
	"net/http"
	"sort"
	"strings"

	"github.com/opencontainers/go-digest"
	ocispec "github.com/opencontainers/image-spec/specs-go/v1"
	"oras.land/oras-go/v2/errdef"
	"oras.land/oras-go/v2/registry/remote"
)

func init() { domains["C13"] = runC13 }

var c13MT = map[string]string{
	"blob":   "application/octet-stream",
	"layer":  "application/vnd.oci.image.layer.v1.tar+gzip",
	"img":    ocispec.MediaTypeImageManifest,
	"idx":    ocispec.MediaTypeImageIndex,
	"art":    "application/vnd.oci.artifact.manifest.v1+json",
	"dman":   "application/vnd.docker.distribution.manifest.v2+json",
	"dlist":  "application/vnd.docker.distribution.manifest.list.v2+json",
	"custom": "application/vnd.verif.custom+json",
}

func c13Tok(mt string) string {
	for k, v := range c13MT {
		if v == mt {
			return k
		}
	}
	return mt
}

type c13Body struct {
	id    int
	mt    string // token: the media type the content is meant for
	bytes []byte
	dg    digest.Digest
	subj  int // -1 = none
}

type c13Case struct {
	sc     *Script
	rng    *rand.Rand
	reg    *fakeRegistry
	prof   regProfile
	repos  map[string]*remote.Repository
	bodies []*c13Body
	byDg   map[digest.Digest]int
	mtypes []string
}

func (c *c13Case) idOf(dg digest.Digest) string {
	if id, ok := c.byDg[dg]; ok {
		return fmt.Sprintf("d%d", id)
	}
	return "d?" + dg.Encoded()[:6]
}

func (c *c13Case) bodyID(b []byte) string {
	dg := digest.Digest(fmt.Sprintf("sha256:%x", sha256.Sum256(b)))
	if id, ok := c.byDg[dg]; ok {
		return fmt.Sprint(id)
	}
	return "?"
}

// trace renders the requests logged since mark, leaving out referrers maintenance.
func (c *c13Case) trace(mark int) string {
	c.reg.mu.Lock()
	defer c.reg.mu.Unlock()
	var out []string
	for _, l := range c.reg.log[mark:] {
		if isReferrersMaintenance(l.Path) {
			continue
		}
		rest := strings.TrimPrefix(l.Path, "/v2/")
		q := parseQuery(l.Query)
		switch {
		case strings.Contains(rest, "/blobs/uploads/"):
			i := strings.LastIndex(rest, "/blobs/uploads/")
			name, ref := rest[:i], rest[i+len("/blobs/uploads/"):]
			switch {
			case l.Method == "POST" && q["mount"] != "":
				out = append(out, fmt.Sprintf("POST:mount:%s:%s:from=%s", name, c.idOf(digest.Digest(q["mount"])), q["from"]))
			case l.Method == "POST":
				out = append(out, "POST:uploads:"+name)
			case l.Method == "PUT" && ref != "":
				out = append(out, fmt.Sprintf("PUT:upload:%s:%s:len=%d", name, c.idOf(digest.Digest(q["digest"])), l.CL))
			default:
				out = append(out, l.Method+":uploads?:"+rest)
			}
		case strings.Contains(rest, "/blobs/"):
			i := strings.LastIndex(rest, "/blobs/")
			t := fmt.Sprintf("%s:blobs:%s:%s", l.Method, rest[:i], c.idOf(digest.Digest(rest[i+len("/blobs/"):])))
			if l.Range != "" {
				t += ":range"
			}
			out = append(out, t)
		case strings.Contains(rest, "/manifests/"):
			i := strings.LastIndex(rest, "/manifests/")
			ref := rest[i+len("/manifests/"):]
			if digest.Digest(ref).Validate() == nil {
				if _, ok := c.byDg[digest.Digest(ref)]; !ok {
					continue // a referrers index manifest made by the client (tag schema upkeep)
				}
				ref = c.idOf(digest.Digest(ref))
			}
			t := fmt.Sprintf("%s:manifests:%s:%s", l.Method, rest[:i], ref)
			if l.Method == "PUT" {
				t += fmt.Sprintf(":ct=%s:len=%d", c13Tok(l.CT), l.CL)
			}
			out = append(out, t)
		default:
			out = append(out, l.Method+":"+rest)
		}
	}
	if len(out) == 0 {
		return "-"
	}
	return strings.Join(out, " ")
}

func parseQuery(q string) map[string]string {
	out := map[string]string{}
	for _, kv := range strings.Split(q, "&") {
		if i := strings.IndexByte(kv, '='); i > 0 {
			v := strings.ReplaceAll(kv[i+1:], "%3A", ":")
			v = strings.ReplaceAll(v, "%2F", "/")
			out[kv[:i]] = v
		}
	}
	return out
}

func (c *c13Case) errStr(err error) string {
	if errors.Is(err, errdef.ErrNotFound) {
		return "err:notfound"
	}
	return "err"
}

func (c *c13Case) descStr(d ocispec.Descriptor) string {
	return fmt.Sprintf("%s,%s,%d", c13Tok(d.MediaType), strings.TrimPrefix(c.idOf(d.Digest), "d"), d.Size)
}

func (c *c13Case) desc(mt string, b *c13Body, size int64) ocispec.Descriptor {
	return ocispec.Descriptor{MediaType: c13MT[mt], Digest: b.dg, Size: size}
}

func (c *c13Case) isManifest(mt string) bool {
	for _, m := range c.mtypes {
		if m == mt {
			return true
		}
	}
	return false
}

// finish emits the op line: result, request trace, and any request the validator refused.
func (c *c13Case) finish(mark int, res string, format string, args ...any) {
	tr := c.trace(mark)
	c.reg.mu.Lock()
	bad := c.reg.badReq
	c.reg.badReq = nil
	c.reg.mutate = nil
	c.reg.mu.Unlock()
	ans := res + " | " + tr
	if len(bad) > 0 {
		ans = "BADREQ:" + strings.ReplaceAll(bad[0], " ", "_") + " " + ans
	}
	c.sc.Op(ans, format, args...)
}

func (c *c13Case) mark() int {
	c.reg.mu.Lock()
	defer c.reg.mu.Unlock()
	return len(c.reg.log)
}

func c13ManifestJSON(mt string, salt int, subject *ocispec.Descriptor) []byte {
	subj := ""
	if subject != nil {
		subj = fmt.Sprintf(`,"subject":{"mediaType":%q,"digest":%q,"size":%d}`, subject.MediaType, subject.Digest, subject.Size)
	}
	switch mt {
	case "img":
		return []byte(fmt.Sprintf(`{"schemaVersion":2,"mediaType":%q,"config":{"mediaType":"application/vnd.oci.empty.v1+json","digest":"sha256:44136fa355b3678a1146ad16f7e8649e94fb4fc21fe77e8310c060f61caaff8a","size":2},"layers":[]%s,"annotations":{"salt":"%d"}}`, c13MT[mt], subj, salt))
	case "idx":
		return []byte(fmt.Sprintf(`{"schemaVersion":2,"mediaType":%q,"manifests":[]%s,"annotations":{"salt":"%d"}}`, c13MT[mt], subj, salt))
	case "art":
		return []byte(fmt.Sprintf(`{"mediaType":%q,"artifactType":"application/vnd.verif"%s,"annotations":{"salt":"%d"}}`, c13MT[mt], subj, salt))
	}
	return []byte(fmt.Sprintf(`{"schemaVersion":2,"mediaType":%q,"salt":%d}`, c13MT[mt], salt))
}

func runC13(seed int64, tier string, sc *Script) map[string]any {
	rng := rand.New(rand.NewSource(seed))
	ctx := context.Background()
	cases, steps := 40, 40
	if tier == "thorough" {
		cases, steps = 1200, 70
	}
	evals := 0
	for ci := 0; ci < cases; ci++ {
		prof := regProfile{ReferrersAPI: rng.Intn(2) == 0, DigestHeaders: rng.Intn(3) != 0, Ranges: rng.Intn(2) == 0, Mount: rng.Intn(2) == 0,
			// the referrers listing may come in pages, some of them empty
			PageLimit: []int{0, 0, 1, 2}[rng.Intn(4)], EmptyPages: rng.Intn(3) == 0}
		custom := rng.Intn(4) == 0
		sc.Case(fmt.Sprintf("remote-history api=%v dh=%v rg=%v mt=%v custom=%v", prof.ReferrersAPI, prof.DigestHeaders, prof.Ranges, prof.Mount, custom))
		sc.NonTrivial()
		reg := newFakeRegistry(prof)
		c := &c13Case{sc: sc, rng: rng, reg: reg, prof: prof, repos: map[string]*remote.Repository{}, byDg: map[digest.Digest]int{}}
		mtypes := "default"
		c.mtypes = []string{"dman", "dlist", "img", "idx", "art"}
		var mmt []string
		if custom {
			c.mtypes = []string{"img", "idx", "custom"}
			mtypes = strings.Join(c.mtypes, ",")
			for _, t := range c.mtypes {
				mmt = append(mmt, c13MT[t])
			}
		}
		for _, name := range []string{"a/b", "c/d"} {
			r, err := remote.NewRepository(reg.Host() + "/" + name)
			if err != nil {
				panic(err)
			}
			r.PlainHTTP = true
			r.ManifestMediaTypes = mmt
			if !custom && ci%2 == 1 {
				r.ManifestMediaTypes = []string{} // an empty list means the defaults, like nil
			}
			r.SkipReferrersGC = rng.Intn(2) == 0
			c.repos[name] = r
		}
		b2i := func(b bool) int {
			if b {
				return 1
			}
			return 0
		}
		sc.Def("rm new api=%d dh=%d rg=%d mt=%d mtypes=%s", b2i(prof.ReferrersAPI), b2i(prof.DigestHeaders), b2i(prof.Ranges), b2i(prof.Mount), mtypes)
		// universe
		add := func(mt string, data []byte, subj int) *c13Body {
			b := &c13Body{id: len(c.bodies), mt: mt, bytes: data, dg: digest.FromBytes(data), subj: subj}
			if _, dup := c.byDg[b.dg]; dup {
				return nil
			}
			c.bodies = append(c.bodies, b)
			c.byDg[b.dg] = b.id
			s := "-"
			if subj >= 0 {
				s = fmt.Sprint(subj)
			}
			sc.Def("rm body %d len=%d subj=%s", b.id, len(data), s)
			return b
		}
		add("blob", []byte{}, -1)
		for i := 0; i < 2+rng.Intn(3); i++ {
			data := make([]byte, 1+rng.Intn(40))
			rng.Read(data)
			add([]string{"blob", "layer"}[rng.Intn(2)], data, -1)
		}
		manKinds := []string{"img", "idx", "art", "dman", "custom"}
		var mans []*c13Body
		for i := 0; i < 3+rng.Intn(3); i++ {
			k := manKinds[rng.Intn(len(manKinds))]
			subj := -1
			var sd *ocispec.Descriptor
			if len(mans) > 0 && rng.Intn(2) == 0 && (k == "img" || k == "idx" || k == "art") {
				s := mans[rng.Intn(len(mans))]
				subj = s.id
				sd = &ocispec.Descriptor{MediaType: c13MT[s.mt], Digest: s.dg, Size: int64(len(s.bytes))}
			}
			if b := add(k, c13ManifestJSON(k, ci*100+i, sd), subj); b != nil {
				mans = append(mans, b)
			}
		}
		tags := []string{"t1", "t2", "latest"}
		pick := func() *c13Body { return c.bodies[rng.Intn(len(c.bodies))] }
		// a descriptor for body b, occasionally inconsistent in size or media type
		mkDesc := func(b *c13Body) (string, int64) {
			mt, size := b.mt, int64(len(b.bytes))
			switch rng.Intn(12) {
			case 0:
				size++
			case 1:
				// (a manifest that names a subject keeps its one media type: the same bytes
				// pushed as two manifest kinds would be two referrers of one digest - the
				// one-(mediaType,size)-per-digest universe of the property excludes that)
				if c.isManifest(mt) && b.subj < 0 {
					mt = []string{"img", "idx"}[rng.Intn(2)]
				}
			}
			return mt, size
		}
		for step := 0; step < steps; step++ {
			evals++
			repoName := []string{"a/b", "a/b", "c/d"}[rng.Intn(3)]
			repo := c.repos[repoName]
			// a reference may be given fully qualified (registry/repository:tag or
			// registry/repository@digest) wherever a tag or digest is accepted: same meaning
			fq := func(ref string) string {
				if rng.Intn(4) != 0 {
					return ref
				}
				sc.Count("ref-form:fully-qualified")
				sep := ":"
				if strings.Contains(ref, ":") {
					sep = "@"
				}
				return repo.Reference.Registry + "/" + repoName + sep + ref
			}
			b := pick()
			// occasionally arm a one-field corruption for read-type calls
			corrupt := ""
			armDen := 4
			arm := func(isMan bool, avoid int64) {
				numericLen := avoid != -2 // a numeric length on a by-reference GET would need a padded body
				if rng.Intn(armDen) != 0 {
					return
				}
				other := pick()
				var m respMutation
				switch rng.Intn(8) {
				case 0:
					m = respMutation{"dcd", other.dg.String()}
					corrupt = fmt.Sprintf("dcd=%d", other.id)
				case 1:
					m = respMutation{"dcd", "sha256:zz"}
					corrupt = "dcd=invalid"
				case 2:
					m = respMutation{"dcd", ""}
					corrupt = "dcd=absent"
				case 3:
					if !numericLen {
						return
					}
					n := len(b.bytes) + 1 + rng.Intn(3)
					if int64(n) == avoid {
						n++ // a length that makes an inconsistent descriptor look right would need a padded body
					}
					m = respMutation{"clen", fmt.Sprint(n)}
					corrupt = fmt.Sprintf("clen=%d", n)
				case 4:
					m = respMutation{"clen", ""}
					corrupt = "clen=none"
				case 5:
					if !isMan {
						return
					}
					t := []string{"img", "idx", "dman"}[rng.Intn(3)]
					m = respMutation{"ctype", c13MT[t]}
					corrupt = "ctype=" + t
				case 6:
					if !isMan {
						return
					}
					m = respMutation{"ctype", ""}
					corrupt = "ctype=none"
				default:
					return
				}
				reg.mu.Lock()
				reg.mutate = &m
				reg.mu.Unlock()
				sc.Def("rm corrupt %s", corrupt)
				sc.Count("corrupt:" + strings.SplitN(corrupt, "=", 2)[0])
			}
			r := rng.Intn(100)
			switch {
			case r < 24: // push
				content := b
				if rng.Intn(8) == 0 {
					content = pick() // content that does not match the descriptor
				}
				mt, size := mkDesc(b)
				d := c.desc(mt, b, size)
				mk := c.mark()
				if c.isManifest(mt) && rng.Intn(3) == 0 {
					t := tags[rng.Intn(len(tags))]
					err := repo.PushReference(ctx, d, bytes.NewReader(content.bytes), fq(t))
					c.finish(mk, resOK(c, err), "rm push repo=%s mt=%s dig=%d size=%d body=%d ref=%s", repoName, mt, b.id, size, content.id, t)
				} else {
					var rd io.Reader = bytes.NewReader(content.bytes)
					if content == b && size == int64(len(b.bytes)) && rng.Intn(3) == 0 {
						rd = io.MultiReader(rd) // a reader whose length the client cannot see
						sc.Count("push:opaque-reader")
					}
					err := repo.Push(ctx, d, rd)
					c.finish(mk, resOK(c, err), "rm push repo=%s mt=%s dig=%d size=%d body=%d", repoName, mt, b.id, size, content.id)
				}
				sc.Count("op:push")
			case r < 40: // fetch
				if rng.Intn(2) == 0 {
					// content the registry holds, read back through a response with one field off
					reg.mu.Lock()
					rr := reg.repo(repoName)
					var held []*c13Body
					for _, x := range c.bodies {
						if _, ok := rr.blobs[x.dg]; ok {
							held = append(held, x)
						} else if _, ok := rr.manifests[x.dg]; ok {
							held = append(held, x)
						}
					}
					reg.mu.Unlock()
					if len(held) > 0 {
						b = held[rng.Intn(len(held))]
						armDen = 2
						sc.Count("fetch:held-content")
					}
				}
				mt, size := mkDesc(b)
				arm(c.isManifest(mt), size)
				mk := c.mark()
				rc, err := repo.Fetch(ctx, c.desc(mt, b, size))
				res := ""
				if err != nil {
					res = c.errStr(err)
				} else {
					data, rerr := io.ReadAll(rc)
					_, seek := rc.(io.Seeker)
					rc.Close()
					if rerr != nil {
						res = "err"
					} else {
						res = fmt.Sprintf("ok:%s:%d", c.bodyID(data), b2i(seek))
					}
				}
				c.finish(mk, res, "rm fetch repo=%s mt=%s dig=%d size=%d", repoName, mt, b.id, size)
				sc.Count("op:fetch")
			case r < 50: // exists
				mt, size := mkDesc(b)
				arm(c.isManifest(mt), size)
				mk := c.mark()
				ok, err := repo.Exists(ctx, c.desc(mt, b, size))
				res := fmt.Sprint(ok)
				if err != nil {
					res = c.errStr(err)
				}
				c.finish(mk, res, "rm exists repo=%s mt=%s dig=%d size=%d", repoName, mt, b.id, size)
				sc.Count("op:exists")
			case r < 62: // resolve
				store, ref, refStr := "man", "", ""
				if rng.Intn(2) == 0 {
					ref = tags[rng.Intn(len(tags))]
					refStr = ref
				} else {
					ref = fmt.Sprintf("d%d", b.id)
					refStr = b.dg.String()
					if rng.Intn(3) == 0 {
						store = "blob"
					}
				}
				arm(store == "man", -1)
				mk := c.mark()
				var d ocispec.Descriptor
				var err error
				if store == "man" {
					d, err = repo.Resolve(ctx, fq(refStr))
				} else {
					d, err = repo.Blobs().Resolve(ctx, refStr)
				}
				res := ""
				if err != nil {
					res = c.errStr(err)
				} else {
					res = "ok:" + c.descStr(d)
				}
				c.finish(mk, res, "rm resolve repo=%s store=%s ref=%s", repoName, store, ref)
				sc.Count("op:resolve")
			case r < 72: // fetchref
				store, ref, refStr := "man", "", ""
				if rng.Intn(2) == 0 {
					ref = tags[rng.Intn(len(tags))]
					refStr = ref
				} else {
					ref = fmt.Sprintf("d%d", b.id)
					refStr = b.dg.String()
					if rng.Intn(3) == 0 {
						store = "blob"
					}
				}
				arm(store == "man", -2)
				mk := c.mark()
				var d ocispec.Descriptor
				var rc io.ReadCloser
				var err error
				if store == "man" {
					d, rc, err = repo.FetchReference(ctx, fq(refStr))
				} else {
					d, rc, err = repo.Blobs().FetchReference(ctx, refStr)
				}
				res := ""
				if err != nil {
					res = c.errStr(err)
				} else {
					data, rerr := io.ReadAll(rc)
					_, seek := rc.(io.Seeker)
					rc.Close()
					if rerr != nil {
						res = "err"
					} else {
						res = fmt.Sprintf("ok:%s:%s:%d", c.descStr(d), c.bodyID(data), b2i(seek))
					}
				}
				c.finish(mk, res, "rm fetchref repo=%s store=%s ref=%s", repoName, store, ref)
				sc.Count("op:fetchref")
			case r < 80: // tag
				if !c.isManifest(b.mt) {
					continue
				}
				mt, size := mkDesc(b)
				if !c.isManifest(mt) {
					continue
				}
				t := tags[rng.Intn(len(tags))]
				arm(true, size)
				mk := c.mark()
				err := repo.Tag(ctx, c.desc(mt, b, size), fq(t))
				c.finish(mk, resOK(c, err), "rm tag repo=%s mt=%s dig=%d size=%d ref=%s", repoName, mt, b.id, size, t)
				sc.Count("op:tag")
			case r < 88: // delete
				mt, size := mkDesc(b)
				arm(c.isManifest(mt), size)
				mk := c.mark()
				err := repo.Delete(ctx, c.desc(mt, b, size))
				c.finish(mk, resOK(c, err), "rm delete repo=%s mt=%s dig=%d size=%d", repoName, mt, b.id, size)
				sc.Count("op:delete")
			case r < 94: // mount
				if c.isManifest(b.mt) {
					continue
				}
				from := "c/d"
				if repoName == "c/d" {
					from = "a/b"
				}
				size := int64(len(b.bytes))
				mk := c.mark()
				err := repo.Mount(ctx, c.desc(b.mt, b, size), from, nil)
				c.finish(mk, resOK(c, err), "rm mount repo=%s mt=%s dig=%d size=%d from=%s", repoName, b.mt, b.id, size, from)
				sc.Count("op:mount")
			default: // predecessors
				if !c.isManifest(b.mt) {
					continue
				}
				mk := c.mark()
				ps, err := repo.Predecessors(ctx, c.desc(b.mt, b, int64(len(b.bytes))))
				res := ""
				if err != nil {
					res = c.errStr(err)
				} else {
					var ids []int
					for _, p := range ps {
						if id, ok := c.byDg[p.Digest]; ok {
							ids = append(ids, id)
						} else {
							ids = append(ids, 9999)
						}
					}
					sort.Ints(ids)
					res = fmtInts(ids)
				}
				_ = mk
				c.reg.mu.Lock()
				c.reg.badReq = nil
				c.reg.mu.Unlock()
				sc.Op(res+" | -", "rm preds repo=%s dig=%d", repoName, b.id)
				sc.Count("op:preds")
			}
		}
		reg.Close()
	}
	// referrers of a subject through the Referrers API, listed in pages - some of them empty,
	// some without a single entry of the artifact type asked for: Predecessors and Referrers
	// still return every referrer the registry holds
	refCases := 12
	if tier == "thorough" {
		refCases = 200
	}
	for ci := 0; ci < refCases; ci++ {
		prof := regProfile{ReferrersAPI: true, DigestHeaders: true, PageLimit: 1 + rng.Intn(2), EmptyPages: ci%2 == 0, ServerFilter: ci%4 >= 2, LinkStyle: rng.Intn(2)}
		sc.Case(fmt.Sprintf("referrers-pages limit=%d empty=%v serverfilter=%v", prof.PageLimit, prof.EmptyPages, prof.ServerFilter))
		sc.NonTrivial()
		reg := newFakeRegistry(prof)
		repo, _ := remote.NewRepository(reg.Host() + "/a/b")
		repo.PlainHTTP = true
		sb := []byte(fmt.Sprintf(`{"schemaVersion":2,"mediaType":%q,"config":{"mediaType":"application/vnd.oci.empty.v1+json","digest":"sha256:44136fa355b3678a1146ad16f7e8649e94fb4fc21fe77e8310c060f61caaff8a","size":2},"layers":[],"annotations":{"rp":"%d"}}`, ocispec.MediaTypeImageManifest, ci))
		sub := ocispec.Descriptor{MediaType: ocispec.MediaTypeImageManifest, Digest: digest.FromBytes(sb), Size: int64(len(sb))}
		if err := repo.Push(ctx, sub, bytes.NewReader(sb)); err != nil {
			panic(err)
		}
		n := 2 + rng.Intn(5)
		var all, typed []string
		for i := 0; i < n; i++ {
			at := []string{"application/vnd.verif.sig", "application/vnd.verif.sbom+json"}[rng.Intn(2)]
			b := []byte(fmt.Sprintf(`{"schemaVersion":2,"mediaType":%q,"artifactType":%q,"config":{"mediaType":"application/vnd.oci.empty.v1+json","digest":"sha256:44136fa355b3678a1146ad16f7e8649e94fb4fc21fe77e8310c060f61caaff8a","size":2},"layers":[],"subject":{"mediaType":%q,"digest":%q,"size":%d},"annotations":{"i":"r%02d"}}`,
				ocispec.MediaTypeImageManifest, at, sub.MediaType, sub.Digest, sub.Size, i))
			d := ocispec.Descriptor{MediaType: ocispec.MediaTypeImageManifest, Digest: digest.FromBytes(b), Size: int64(len(b))}
			if err := repo.Push(ctx, d, bytes.NewReader(b)); err != nil {
				panic(err)
			}
			all = append(all, fmt.Sprintf("r%02d", i))
			if at == "application/vnd.verif.sbom+json" {
				typed = append(typed, fmt.Sprintf("r%02d", i))
			}
		}
		show := func(ds []ocispec.Descriptor, err error) string {
			if err != nil {
				return "err:" + strings.ReplaceAll(err.Error(), " ", "_")
			}
			var names []string
			for _, d := range ds {
				names = append(names, d.Annotations["i"])
			}
			sort.Strings(names)
			if len(names) == 0 {
				return "-"
			}
			return strings.Join(names, ",")
		}
		want := func(l []string) string {
			if len(l) == 0 {
				return "-"
			}
			return strings.Join(l, ",")
		}
		ps, err := repo.Predecessors(ctx, sub)
		sc.Op(show(ps, err), "rm reflist how=predecessors want=%s", want(all))
		var got []ocispec.Descriptor
		err = repo.Referrers(ctx, sub, "application/vnd.verif.sbom+json", func(rs []ocispec.Descriptor) error {
			got = append(got, rs...)
			return nil
		})
		sc.Op(show(got, err), "rm reflist how=referrers-of-type want=%s", want(typed))
		evals += 2
		reg.Close()
	}
	// a cross-repository mount that the registry answers with 201 Created: a Docker-Content-Digest
	// header naming other content (or no digest at all) means something else was mounted
	for _, hdr := range []string{"none", "same", "other", "invalid", "empty"} {
		sc.Case("mount-created-digest")
		sc.NonTrivial()
		reg := newFakeRegistry(regProfile{DigestHeaders: true, Mount: true})
		src, _ := remote.NewRepository(reg.Host() + "/c/d")
		src.PlainHTTP = true
		dstR, _ := remote.NewRepository(reg.Host() + "/a/b")
		dstR.PlainHTTP = true
		data := []byte("mounted-blob-" + hdr)
		bd := ocispec.Descriptor{MediaType: "application/octet-stream", Digest: digest.FromBytes(data), Size: int64(len(data))}
		if err := src.Push(ctx, bd, bytes.NewReader(data)); err != nil {
			panic(err)
		}
		reg.mu.Lock()
		switch hdr {
		case "same":
			reg.mutate = &respMutation{"dcd", bd.Digest.String()}
		case "other":
			reg.mutate = &respMutation{"dcd", digest.FromString("something else").String()}
		case "invalid":
			reg.mutate = &respMutation{"dcd", "sha256:zz"}
		case "empty":
			reg.mutate = &respMutation{"dcd", ""}
		}
		reg.mu.Unlock()
		err := dstR.Mount(ctx, bd, "c/d", nil)
		ans := "ok"
		if err != nil {
			ans = "err"
		}
		sc.Op(ans, "rm mountdcd header=%s", hdr)
		evals++
		reg.Close()
	}
	// a manifest fetched by digest from a registry that sends no Docker-Content-Digest header:
	// the body is what names the content, and a body that is not the requested one is refused
	// (a body that is something else under a header that agrees with the request is outside the
	// property - the reader handed out is for a verifying caller; observed: delivered as is)
	for _, variant := range []string{"right-body", "other-body", "right-body-head"} {
		sc.Case("fetchref-by-digest-without-header")
		sc.NonTrivial()
		right := []byte(`{"schemaVersion":2,"mediaType":"application/vnd.oci.image.manifest.v1+json","config":{"mediaType":"application/vnd.oci.empty.v1+json","digest":"sha256:44136fa355b3678a1146ad16f7e8649e94fb4fc21fe77e8310c060f61caaff8a","size":2},"layers":[],"annotations":{"v":"right"}}`)
		other := bytes.Replace(right, []byte("right"), []byte("wrong"), 1)
		want := digest.FromBytes(right)
		repo, _ := remote.NewRepository("registry.invalid/a/b")
		repo.Client = &http.Client{Transport: rtFunc(func(req *http.Request) (*http.Response, error) {
			body := right
			if strings.HasPrefix(variant, "other-body") {
				body = other
			}
			h := http.Header{}
			h.Set("Content-Type", ocispec.MediaTypeImageManifest)
			if variant == "other-body-with-matching-header" {
				h.Set("Docker-Content-Digest", want.String()) // the header agrees with the request; the body does not
			}
			resp := &http.Response{StatusCode: 200, Status: "200 OK", Header: h, ContentLength: int64(len(body)), Request: req}
			if req.Method == http.MethodHead {
				resp.Body = io.NopCloser(bytes.NewReader(nil))
			} else {
				resp.Body = io.NopCloser(bytes.NewReader(body))
			}
			return resp, nil
		})}
		for _, form := range []string{"digest", "tag@digest", "qualified"} {
			ref := want.String()
			switch form {
			case "tag@digest":
				ref = "v1@" + want.String()
			case "qualified":
				ref = "registry.invalid/a/b@" + want.String()
			}
			d, rc, err := repo.FetchReference(ctx, ref)
			ans := "err"
			if err == nil {
				b, rerr := io.ReadAll(rc)
				rc.Close()
				switch {
				case rerr != nil:
					ans = "err-on-read"
				case d.Digest != want:
					ans = "descriptor-of-other-content"
				case !bytes.Equal(b, right):
					ans = "other-bytes-delivered"
				default:
					ans = "ok"
				}
			}
			sc.Op(ans, "rm fetchrefnohdr variant=%s form=%s", variant, form)
			evals++
		}
	}
	// tags at the length limit: 128 characters are a tag, 129 are not - the call is refused
	// before anything is sent, in every operation that takes a reference
	for _, n := range []int{127, 128, 129, 130, 200} {
		sc.Case("tag-length")
		sc.NonTrivial()
		reg := newFakeRegistry(regProfile{DigestHeaders: true})
		repo, _ := remote.NewRepository(reg.Host() + "/a/b")
		repo.PlainHTTP = true
		mb := []byte(`{"schemaVersion":2,"mediaType":"application/vnd.oci.image.manifest.v1+json","config":{"mediaType":"application/vnd.oci.empty.v1+json","digest":"sha256:44136fa355b3678a1146ad16f7e8649e94fb4fc21fe77e8310c060f61caaff8a","size":2},"layers":[]}`)
		md := ocispec.Descriptor{MediaType: ocispec.MediaTypeImageManifest, Digest: digest.FromBytes(mb), Size: int64(len(mb))}
		if err := repo.Push(ctx, md, bytes.NewReader(mb)); err != nil {
			panic(err)
		}
		tag := strings.Repeat("t", n)
		for _, kind := range []string{"tag", "pushref", "resolve", "fetchref"} {
			for _, form := range []string{"short", "qualified"} {
				ref := tag
				if form == "qualified" {
					ref = reg.Host() + "/a/b:" + tag
				}
				reg.mu.Lock()
				before := len(reg.log)
				reg.badReq = nil
				reg.mu.Unlock()
				var err error
				switch kind {
				case "tag":
					err = repo.Tag(ctx, md, ref)
				case "pushref":
					err = repo.PushReference(ctx, md, bytes.NewReader(mb), ref)
				case "resolve":
					_, err = repo.Resolve(ctx, ref)
				default:
					var rc io.ReadCloser
					_, rc, err = repo.FetchReference(ctx, ref)
					if err == nil {
						rc.Close()
					}
				}
				reg.mu.Lock()
				sent := len(reg.log) - before
				bad := len(reg.badReq)
				reg.mu.Unlock()
				ans := "sent"
				switch {
				case bad > 0:
					ans = "request-outside-the-specification"
				case sent == 0 && errors.Is(err, errdef.ErrInvalidReference):
					ans = "refused-nothing-sent"
				case sent == 0:
					ans = "nothing-sent"
				}
				sc.Op(ans, "rm longtag len=%d kind=%s form=%s", n, kind, form)
				evals++
			}
		}
		reg.Close()
	}
	// Read/Seek sequences on blob readers
	seekCases := 30
	if tier == "thorough" {
		seekCases = 800
	}
	for ci := 0; ci < seekCases; ci++ {
		prof := regProfile{DigestHeaders: rng.Intn(2) == 0, Ranges: true}
		sc.Case("seek")
		sc.NonTrivial()
		reg := newFakeRegistry(prof)
		repo, _ := remote.NewRepository(reg.Host() + "/a/b")
		repo.PlainHTTP = true
		n := rng.Intn(60)
		data := make([]byte, n)
		for i := range data {
			data[i] = byte(i)
		}
		d := ocispec.Descriptor{MediaType: "application/octet-stream", Digest: digest.FromBytes(data), Size: int64(n)}
		if err := repo.Push(ctx, d, bytes.NewReader(data)); err != nil {
			panic(err)
		}
		var rc io.ReadCloser
		var err error
		if rng.Intn(2) == 0 {
			rc, err = repo.Fetch(ctx, d)
		} else {
			_, rc, err = repo.Blobs().FetchReference(ctx, d.Digest.String())
		}
		if err != nil {
			panic(err)
		}
		rs, ok := rc.(io.ReadSeeker)
		if !ok {
			sc.Op("NOT-SEEKABLE", "sk open len=%d", n)
			continue
		}
		sc.Op("ok", "sk open len=%d", n)
		for step := 0; step < 12; step++ {
			evals++
			switch r := rng.Intn(10); {
			case r < 5:
				k := 1 + rng.Intn(n+2)
				buf := make([]byte, k)
				got, err := io.ReadFull(rs, buf)
				res := ""
				if err != nil && err != io.EOF && err != io.ErrUnexpectedEOF {
					res = "err"
				} else {
					ids := make([]int, got)
					for i := 0; i < got; i++ {
						ids[i] = int(buf[i])
					}
					res = fmt.Sprintf("data:%s:%d", fmtInts(ids), b2iC13(got < k))
				}
				sc.Op(res, "sk read n=%d", k)
				sc.Count("sk:read")
			case r < 9:
				whence := rng.Intn(3)
				if rng.Intn(12) == 0 {
					whence = 3
				}
				off := rng.Intn(n+4) - 2
				if whence == 2 {
					off = -rng.Intn(n+3) + 1
				}
				if whence == 1 {
					off = rng.Intn(n+2) - n/2
				}
				pos, err := rs.Seek(int64(off), whence)
				res := fmt.Sprintf("pos:%d", pos)
				if err != nil {
					res = "err"
				}
				sc.Op(res, "sk seek off=%d whence=%d", off, whence)
				sc.Count(fmt.Sprintf("sk:seek%d", whence))
			default:
				rc.Close()
				sc.Op("closed", "sk close")
				sc.Count("sk:close")
			}
		}
		rc.Close()
		reg.mu.Lock()
		bad := reg.badReq
		reg.mu.Unlock()
		if len(bad) > 0 {
			sc.Op("BADREQ:"+strings.ReplaceAll(bad[0], " ", "_"), "sk close")
		}
		reg.Close()
	}
	sc.Extra["evaluations"] = evals
	return nil
}

func b2iC13(b bool) int {
	if b {
		return 1
	}
	return 0
}

func resOK(c *c13Case, err error) string {
	if err != nil {
		return c.errStr(err)
	}
	return "ok"
}

// rtFunc adapts a function to http.RoundTripper.
type rtFunc func(*http.Request) (*http.Response, error)

func (f rtFunc) RoundTrip(r *http.Request) (*http.Response, error) { return f(r) }
