//go:build verif

package main

// Race monitors on one OCI layout store (domains C06c and C08r): Push racing Delete of the
// same manifest, Tag racing Delete with the directory validated afterwards, and many
// concurrent pushes followed by a reopen.

import (
	"bytes"
	"context"
	"encoding/json"
	"fmt"
	"io"
	"os"
	"path/filepath"
	"sort"
	"strings"
	"sync"
	"time"

	"github.com/opencontainers/image-spec/specs-go"
	ocispec "github.com/opencontainers/image-spec/specs-go/v1"
	"oras.land/oras-go/v2/content/oci"
)

func init() { domains["C08r"] = runC08r }

// gatedReader signals its first Read and then waits to be released.
type gatedReader struct {
	r       io.Reader
	started chan struct{}
	release chan struct{}
	once    sync.Once
}

func (g *gatedReader) Read(p []byte) (int, error) {
	g.once.Do(func() { close(g.started); <-g.release })
	return g.r.Read(p)
}

// pushDeleteRace: Delete(M) is issued while Push(M) is reading its content; when both have
// returned, results and state must be those of one of the two sequential orders.
func pushDeleteRace(ctx context.Context, tmp string, rounds int) string {
	for ri := 0; ri < rounds; ri++ {
		dir := filepath.Join(tmp, fmt.Sprintf("pd%d", ri))
		o, err := oci.New(dir)
		if err != nil {
			panic(err)
		}
		o.AutoGC = false
		cfg := []byte(fmt.Sprintf("{\"pd\":%d}", ri))
		cd := descOf(ocispec.MediaTypeImageConfig, cfg)
		m := ocispec.Manifest{Versioned: specs.Versioned{SchemaVersion: 2}, MediaType: ocispec.MediaTypeImageManifest, Config: cd,
			Layers: []ocispec.Descriptor{}, Annotations: map[string]string{"pd": fmt.Sprint(ri)}}
		mb, _ := json.Marshal(m)
		md := descOf(ocispec.MediaTypeImageManifest, mb)
		if err := o.Push(ctx, cd, bytes.NewReader(cfg)); err != nil {
			panic(err)
		}
		gr := &gatedReader{r: bytes.NewReader(mb), started: make(chan struct{}), release: make(chan struct{})}
		var perr, derr error
		var wg sync.WaitGroup
		wg.Add(2)
		go func() { defer wg.Done(); perr = o.Push(ctx, md, gr) }()
		go func() { defer wg.Done(); <-gr.started; derr = o.Delete(ctx, md) }()
		<-gr.started
		time.Sleep(time.Duration(200+ri%5*300) * time.Microsecond) // the Delete is queued by now
		close(gr.release)
		wg.Wait()
		exists, _ := o.Exists(ctx, md)
		_, rerr := o.Resolve(ctx, md.Digest.String())
		preds, _ := o.Predecessors(ctx, cd)
		state := fmt.Sprintf("push=%v,delete=%v,exists=%v,resolves=%v,preds=%d", perr == nil, derr == nil, exists, rerr == nil, len(preds))
		// Push then Delete / Delete (not found) then Push
		if state != "push=true,delete=true,exists=false,resolves=false,preds=0" && state != "push=true,delete=false,exists=true,resolves=true,preds=1" {
			os.RemoveAll(dir)
			return fmt.Sprintf("round-%d:no-sequential-order-gives(%s)", ri, state)
		}
		os.RemoveAll(dir)
	}
	return "linearizable"
}

// pushReopen: many goroutines push distinct manifests over one layer; when all have returned,
// a store opened on the directory knows every one of them as a predecessor of the layer.
func pushReopen(ctx context.Context, tmp string, rounds, pushers int) string {
	for ri := 0; ri < rounds; ri++ {
		dir := filepath.Join(tmp, fmt.Sprintf("pr%d", ri))
		o, err := oci.New(dir)
		if err != nil {
			panic(err)
		}
		cfg := []byte("{}")
		cd := descOf(ocispec.MediaTypeImageConfig, cfg)
		layer := []byte(fmt.Sprintf("shared-layer-%d", ri))
		ld := descOf(ocispec.MediaTypeImageLayer, layer)
		o.Push(ctx, cd, bytes.NewReader(cfg))
		o.Push(ctx, ld, bytes.NewReader(layer))
		start := make(chan struct{})
		var wg sync.WaitGroup
		want := make([]string, pushers)
		for k := 0; k < pushers; k++ {
			m := ocispec.Manifest{Versioned: specs.Versioned{SchemaVersion: 2}, MediaType: ocispec.MediaTypeImageManifest, Config: cd,
				Layers: []ocispec.Descriptor{ld}, Annotations: map[string]string{"k": fmt.Sprint(k), "r": fmt.Sprint(ri)}}
			mb, _ := json.Marshal(m)
			md := descOf(ocispec.MediaTypeImageManifest, mb)
			want[k] = md.Digest.String()
			wg.Add(1)
			go func() {
				defer wg.Done()
				<-start
				if err := o.Push(ctx, md, bytes.NewReader(mb)); err != nil {
					panic(err)
				}
			}()
		}
		close(start)
		wg.Wait()
		sort.Strings(want)
		for _, how := range []string{"dir", "fs"} {
			var ps []ocispec.Descriptor
			if how == "dir" {
				s2, err := oci.New(dir)
				if err != nil {
					return fmt.Sprintf("round-%d:reopen-failed", ri)
				}
				ps, _ = s2.Predecessors(ctx, ld)
			} else {
				s2, err := oci.NewFromFS(ctx, os.DirFS(dir))
				if err != nil {
					return fmt.Sprintf("round-%d:reopen-failed", ri)
				}
				ps, _ = s2.Predecessors(ctx, ld)
			}
			var got []string
			for _, p := range ps {
				got = append(got, p.Digest.String())
			}
			sort.Strings(got)
			if strings.Join(got, ",") != strings.Join(want, ",") {
				os.RemoveAll(dir)
				return fmt.Sprintf("round-%d:reopened-%s-knows-%d-of-%d-pushed-manifests", ri, how, len(got), len(want))
			}
		}
		if v := validateLayout(dir); v != "ok" {
			os.RemoveAll(dir)
			return fmt.Sprintf("round-%d:%s", ri, v)
		}
		os.RemoveAll(dir)
	}
	return "complete"
}

// junkPush: a Push that is refused (manifest media type, bytes that match digest and size but
// are no JSON document) leaves index.json as it was, and the directory still opens.
func junkPush(ctx context.Context, tmp string, n int) string {
	for ri := 0; ri < n; ri++ {
		dir := filepath.Join(tmp, fmt.Sprintf("jp%d", ri))
		o, err := oci.New(dir)
		if err != nil {
			panic(err)
		}
		cfg := []byte("{}")
		cd := descOf(ocispec.MediaTypeImageConfig, cfg)
		m := ocispec.Manifest{Versioned: specs.Versioned{SchemaVersion: 2}, MediaType: ocispec.MediaTypeImageManifest, Config: cd,
			Layers: []ocispec.Descriptor{}, Annotations: map[string]string{"jp": fmt.Sprint(ri)}}
		mb, _ := json.Marshal(m)
		md := descOf(ocispec.MediaTypeImageManifest, mb)
		o.Push(ctx, cd, bytes.NewReader(cfg))
		if err := o.Push(ctx, md, bytes.NewReader(mb)); err != nil {
			panic(err)
		}
		o.Tag(ctx, md, "v1")
		before, _ := os.ReadFile(filepath.Join(dir, "index.json"))
		junk := [][]byte{[]byte("this is not json"), []byte("{\"schemaVersion\":2,"), []byte(""), []byte("[1,2,3]"), []byte("\x00\x01\x02")}[ri%5]
		mt := []string{ocispec.MediaTypeImageManifest, ocispec.MediaTypeImageIndex, "application/vnd.docker.distribution.manifest.v2+json"}[ri%3]
		jd := descOf(mt, junk)
		perr := o.Push(ctx, jd, bytes.NewReader(junk))
		after, _ := os.ReadFile(filepath.Join(dir, "index.json"))
		if perr != nil && !bytes.Equal(before, after) {
			os.RemoveAll(dir)
			return fmt.Sprintf("case-%d:refused-push-rewrote-index.json", ri)
		}
		// (the refused bytes stay behind as an unreferenced blob; malformed manifests are outside
		// the quantifier of C06, so that is not judged - the index and the directory are)
		for _, how := range []string{"dir", "fs"} {
			var rerr error
			var d ocispec.Descriptor
			if how == "dir" {
				var s2 *oci.Store
				if s2, rerr = oci.New(dir); rerr == nil {
					d, rerr = s2.Resolve(ctx, "v1")
				}
			} else {
				var s2 *oci.ReadOnlyStore
				if s2, rerr = oci.NewFromFS(ctx, os.DirFS(dir)); rerr == nil {
					d, rerr = s2.Resolve(ctx, "v1")
				}
			}
			if rerr != nil || d.Digest != md.Digest {
				os.RemoveAll(dir)
				return fmt.Sprintf("case-%d:directory-does-not-open-as-before(%s,push-refused=%v)", ri, how, perr != nil)
			}
		}
		os.RemoveAll(dir)
	}
	return "intact"
}

// tagReopen: goroutines tag one manifest under many names at once; when all calls have
// returned, a store opened on the directory resolves every one of the names.
func tagReopen(ctx context.Context, tmp string, rounds int) string {
	for ri := 0; ri < rounds; ri++ {
		dir := filepath.Join(tmp, fmt.Sprintf("tr%d", ri))
		o, err := oci.New(dir)
		if err != nil {
			panic(err)
		}
		cfg := []byte("{}")
		cd := descOf(ocispec.MediaTypeImageConfig, cfg)
		m := ocispec.Manifest{Versioned: specs.Versioned{SchemaVersion: 2}, MediaType: ocispec.MediaTypeImageManifest, Config: cd,
			Layers: []ocispec.Descriptor{}, Annotations: map[string]string{"tr": fmt.Sprint(ri)}}
		mb, _ := json.Marshal(m)
		md := descOf(ocispec.MediaTypeImageManifest, mb)
		o.Push(ctx, cd, bytes.NewReader(cfg))
		if err := o.Push(ctx, md, bytes.NewReader(mb)); err != nil {
			panic(err)
		}
		start := make(chan struct{})
		var wg sync.WaitGroup
		for g := 0; g < 4; g++ {
			wg.Add(1)
			go func(g int) {
				defer wg.Done()
				<-start
				for k := 0; k < 4; k++ {
					if err := o.Tag(ctx, md, fmt.Sprintf("tag%d-%d", g, k)); err != nil {
						panic(err)
					}
				}
			}(g)
		}
		close(start)
		wg.Wait()
		s2, err := oci.New(dir)
		if err != nil {
			os.RemoveAll(dir)
			return fmt.Sprintf("round-%d:reopen-failed", ri)
		}
		for g := 0; g < 4; g++ {
			for k := 0; k < 4; k++ {
				if _, err := s2.Resolve(ctx, fmt.Sprintf("tag%d-%d", g, k)); err != nil {
					os.RemoveAll(dir)
					return fmt.Sprintf("round-%d:acknowledged-name-tag%d-%d-unknown-after-reopen", ri, g, k)
				}
			}
		}
		os.RemoveAll(dir)
	}
	return "complete"
}

func runC08r(seed int64, tier string, sc *Script) map[string]any {
	ctx := context.Background()
	tmp, err := os.MkdirTemp("", "verif-c08r-")
	if err != nil {
		panic(err)
	}
	defer os.RemoveAll(tmp)
	races, rounds := 300, 40
	if tier == "thorough" {
		races, rounds = 3000, 400
	}
	sc.Case("tag-races-delete oci (directory validated)")
	sc.NonTrivial()
	sc.Op(tagDeleteRace(ctx, tmp, seed, races, true), "s tagrace rounds=%d disk=1", races)
	sc.Case("concurrent-pushes-then-reopen oci")
	sc.NonTrivial()
	sc.Op(pushReopen(ctx, tmp, rounds, 24), "s pushreopen rounds=%d pushers=24", rounds)
	sc.Case("refused-manifest-push oci")
	sc.NonTrivial()
	sc.Op(junkPush(ctx, tmp, 15), "s junkpush cases=15")
	sc.Case("concurrent-tags-then-reopen oci")
	sc.NonTrivial()
	sc.Op(tagReopen(ctx, tmp, rounds*3), "s tagreopen rounds=%d", rounds*3)
	sc.Extra["evaluations"] = races + rounds*4 + 15
	return nil
}
