//go:build verif

package main

// OCI-layout store histories: C06 (content map + tag map), C08 (reopen equivalence,
// layout validity), C09 (Delete / auto-GC / GC).

import (
	"bytes"
	"context"
	"encoding/json"
	"errors"
	"fmt"
	"io"
	"math/rand"
	"os"
	"path/filepath"
	"sort"
	"strings"
	"sync"
	"time"

	"github.com/opencontainers/go-digest"
	ocispec "github.com/opencontainers/image-spec/specs-go/v1"
	"oras.land/oras-go/v2/content"
	"oras.land/oras-go/v2/content/oci"
	"oras.land/oras-go/v2/errdef"
)

func init() {
	domains["C06"] = func(seed int64, tier string, sc *Script) map[string]any { return runOci("C06", seed, tier, sc) }
	domains["C08"] = func(seed int64, tier string, sc *Script) map[string]any { return runOci("C08", seed, tier, sc) }
	domains["C09"] = func(seed int64, tier string, sc *Script) map[string]any { return runOci("C09", seed, tier, sc) }
	domains["C07o"] = func(seed int64, tier string, sc *Script) map[string]any { return runOci("C07", seed, tier, sc) }
}

func ociErr(err error) string {
	switch {
	case err == nil:
		return "ok"
	case errors.Is(err, errdef.ErrAlreadyExists):
		return "err:alreadyExists"
	case errors.Is(err, errdef.ErrNotFound):
		return "err:notFound"
	case errors.Is(err, errdef.ErrMissingReference):
		return "err:missingRef"
	case errors.Is(err, errdef.ErrInvalidReference):
		return "err:invalidRef"
	}
	return "err:other(" + strings.ReplaceAll(err.Error(), " ", "_") + ")"
}

type ociHandle interface {
	content.ReadOnlyGraphStorage
	Resolve(ctx context.Context, ref string) (ocispec.Descriptor, error)
	Tags(ctx context.Context, last string, fn func(tags []string) error) error
}

type ociCase struct {
	u     *Universe
	sc    *Script
	ctx   context.Context
	store *oci.Store
	dir   string
}

func (c *ociCase) refString(r string) string {
	switch {
	case r == "-":
		return ""
	case strings.HasPrefix(r, "t"):
		return "tag" + r[1:]
	case strings.HasPrefix(r, "d"):
		var n int
		fmt.Sscanf(r[1:], "%d", &n)
		return c.u.Nodes[n].Desc.Digest.String()
	}
	panic("bad ref " + r)
}

func annClassOf(d ocispec.Descriptor) int {
	v := d.Annotations["verif.ann"]
	if v == "" {
		return 0
	}
	var k int
	fmt.Sscanf(v, "a%d", &k)
	return k
}

// runQuery performs one query on a handle and returns the canonical answer.
func (c *ociCase) runQuery(h ociHandle, q []string) string {
	ctx := c.ctx
	switch q[0] {
	case "exists":
		var n int
		fmt.Sscanf(q[1], "%d", &n)
		ok, err := h.Exists(ctx, c.u.Nodes[n].Desc)
		if err != nil {
			return ociErr(err)
		}
		if ok {
			return "1"
		}
		return "0"
	case "fetch":
		var n int
		fmt.Sscanf(q[1], "%d", &n)
		rc, err := h.Fetch(ctx, c.u.Nodes[n].Desc)
		if err != nil {
			return ociErr(err)
		}
		defer rc.Close()
		b, err := io.ReadAll(rc)
		if err != nil {
			return "err:read"
		}
		if bytes.Equal(b, c.u.Nodes[n].Bytes) {
			return fmt.Sprintf("ok:%d", n)
		}
		return "WRONG-BYTES"
	case "preds":
		var n int
		fmt.Sscanf(q[1], "%d", &n)
		ds, err := h.Predecessors(ctx, c.u.Nodes[n].Desc)
		return predIDs(c.u, ds, err)
	case "resolve":
		r := strings.TrimPrefix(q[1], "ref=")
		d, err := h.Resolve(ctx, c.refString(r))
		if err != nil {
			return ociErr(err)
		}
		plain := ocispec.Descriptor{MediaType: d.MediaType, Digest: d.Digest, Size: d.Size}
		id := c.u.IDOf(plain)
		if id < 0 {
			// resolveBlob: octet-stream descriptor of a file on disk
			for _, n := range c.u.Nodes {
				if n.Desc.Digest == d.Digest && n.Desc.Size == d.Size && d.MediaType == "application/octet-stream" {
					return fmt.Sprintf("blob %d", n.ID)
				}
			}
			return "unknown-descriptor"
		}
		if strings.HasPrefix(r, "d") {
			if len(d.Annotations) != 0 || d.ArtifactType != "" {
				return fmt.Sprintf("not-plain %d", id)
			}
			return fmt.Sprintf("plain %d", id)
		}
		return fmt.Sprintf("full %d ann=%d", id, annClassOf(d))
	case "tags":
		l := strings.TrimPrefix(q[1], "last=")
		last := ""
		if l != "-" {
			last = "tag" + l
		}
		var got []string
		err := h.Tags(ctx, last, func(ts []string) error { got = append(got, ts...); return nil })
		if err != nil {
			return ociErr(err)
		}
		if !sort.StringsAreSorted(got) {
			return "UNSORTED"
		}
		var ids []int
		for _, t := range got {
			var k int
			if _, err := fmt.Sscanf(t, "tag%d", &k); err != nil {
				return "unknown-tag:" + t
			}
			ids = append(ids, k)
		}
		return fmtInts(ids)
	}
	panic("bad query " + q[0])
}

func (c *ociCase) blobsOnDisk() (string, string) {
	var present []int
	known := map[string]bool{}
	for _, n := range c.u.Nodes {
		known[n.Desc.Digest.Encoded()] = true
		if _, err := os.Stat(filepath.Join(c.dir, "blobs", n.Desc.Digest.Algorithm().String(), n.Desc.Digest.Encoded())); err == nil {
			present = append(present, n.ID)
		}
	}
	return fmtSet(present), ""
}

// validateLayout walks the directory independently of the store.
func validateLayout(dir string) string {
	b, err := os.ReadFile(filepath.Join(dir, "oci-layout"))
	if err != nil {
		return "no-oci-layout"
	}
	var layout ocispec.ImageLayout
	if err := json.Unmarshal(b, &layout); err != nil || layout.Version != ocispec.ImageLayoutVersion {
		return "bad-oci-layout"
	}
	b, err = os.ReadFile(filepath.Join(dir, "index.json"))
	if err != nil {
		return "no-index"
	}
	var idx ocispec.Index
	if err := json.Unmarshal(b, &idx); err != nil {
		return "bad-index"
	}
	verdict := "ok"
	filepath.WalkDir(filepath.Join(dir, "blobs"), func(p string, d os.DirEntry, err error) error {
		if err != nil || d.IsDir() {
			return nil
		}
		alg := filepath.Base(filepath.Dir(p))
		data, err := os.ReadFile(p)
		if err != nil {
			verdict = "unreadable-blob"
			return nil
		}
		if string(digest.Algorithm(alg).FromBytes(data)) != alg+":"+d.Name() {
			if !strings.HasPrefix(string(data), "stray") {
				verdict = "blob-name-mismatch:" + d.Name()
			}
		}
		return nil
	})
	for _, m := range idx.Manifests {
		if m.Annotations[ocispec.AnnotationRefName] == "" {
			continue
		}
		fi, err := os.Stat(filepath.Join(dir, "blobs", m.Digest.Algorithm().String(), m.Digest.Encoded()))
		if err != nil {
			verdict = "named-entry-without-blob:" + m.Annotations[ocispec.AnnotationRefName]
		} else if fi.Size() != m.Size {
			verdict = "named-entry-size-mismatch"
		}
	}
	return verdict
}

func runOci(mode string, seed int64, tier string, sc *Script) map[string]any {
	rng := rand.New(rand.NewSource(seed))
	ctx := context.Background()
	tmp, err := os.MkdirTemp("", "verif-oci-")
	if err != nil {
		panic(err)
	}
	defer os.RemoveAll(tmp)
	cases, steps := 160, 30
	if tier == "thorough" {
		cases, steps = 2500, 60
	}
	ops := 0
	corpus := ociCorpus()
	if mode == "C06" {
		corpus = nil // (GC and the cascade are not part of the C06 histories)
	}
	for ci := 0; ci < cases; ci++ {
		u := GenDAG(rng, GenCfg{Blobs: 2 + rng.Intn(3), Manifests: 2 + rng.Intn(6), Subjects: true, Indexes: true,
			NoOctet: true, EmptyBlob: rng.Intn(3) == 0, MixedAlgs: ci%3 == 2})
		var forced []forcedOp
		if ci < len(corpus) {
			u, forced = corpus[ci].u, corpus[ci].ops
		}
		autosave, autogc := 1, 0
		switch mode {
		case "C08":
			autosave = rng.Intn(2)
			autogc = rng.Intn(2)
		case "C09":
			autogc = 1
			if rng.Intn(5) == 0 {
				autogc = 0
			}
		case "C07":
			autogc = rng.Intn(2)
		}
		if forced != nil {
			autosave, autogc = 1, 1
		}
		// operation mix: C08/C09/C07 lean towards tags, GC and reopening
		gcLo, reopenLo := 90, 95
		if mode == "C09" || mode == "C07" {
			gcLo, reopenLo = 88, 94
		}
		// callers commonly keep one descriptor value (and hence one annotations map) per
		// manifest and tag it under several names
		annMaps := map[[2]int]map[string]string{}
		annOf := func(n, ann int) map[string]string {
			if ann == 0 {
				return nil
			}
			k := [2]int{n, ann}
			if annMaps[k] == nil {
				annMaps[k] = map[string]string{"verif.ann": fmt.Sprintf("a%d", ann)}
				if ann == 2 {
					// a descriptor obtained from another layout still carries the name it was
					// resolved by there; the name it is tagged with here is what counts
					annMaps[k][ocispec.AnnotationRefName] = "name-in-another-layout"
				}
			}
			return annMaps[k]
		}
		sc.Case(fmt.Sprintf("oci-history autosave=%d autogc=%d", autosave, autogc))
		sc.NonTrivial()
		dir := filepath.Join(tmp, fmt.Sprintf("o%d", ci))
		store, err := oci.New(dir)
		if err != nil {
			panic(err)
		}
		store.AutoSaveIndex = autosave == 1
		store.AutoGC = autogc == 1
		c := &ociCase{u: u, sc: sc, ctx: ctx, store: store, dir: dir}
		sc.Def("o new autosave=%d autogc=%d mode=%s", autosave, autogc, mode)
		for _, n := range u.Nodes {
			k := "b"
			if n.Kind.IsManifest() {
				k = "m"
			}
			subj := "-"
			if n.Subject >= 0 {
				subj = fmt.Sprint(n.Subject)
			}
			sc.Def("o node %d kind=%s succ=%s subject=%s", n.ID, k, fmtInts(n.Succ), subj)
		}
		randRef := func() string {
			switch r := rng.Intn(10); {
			case r < 6:
				return fmt.Sprintf("t%d", rng.Intn(4))
			case r < 9:
				return fmt.Sprintf("d%d", rng.Intn(len(u.Nodes)))
			}
			return "-"
		}
		queries := func(prefix string, h ociHandle) {
			for _, n := range u.Nodes {
				for _, q := range []string{"exists", "fetch", "preds"} {
					sc.Op(c.runQuery(h, []string{q, fmt.Sprint(n.ID)}), "%s%s %d", prefix, q, n.ID)
				}
				sc.Op(c.runQuery(h, []string{"resolve", fmt.Sprintf("ref=d%d", n.ID)}), "%sresolve ref=d%d", prefix, n.ID)
			}
			for t := 0; t < 4; t++ {
				sc.Op(c.runQuery(h, []string{"resolve", fmt.Sprintf("ref=t%d", t)}), "%sresolve ref=t%d", prefix, t)
			}
			sc.Op(c.runQuery(h, []string{"tags", "last=-"}), "%stags last=-", prefix)
			sc.Op(c.runQuery(h, []string{"tags", "last=1"}), "%stags last=1", prefix)
		}
		aborted := false
		strayFiles := map[int]string{}
		for step := 0; step < steps && !aborted; step++ {
			ops++
			n := rng.Intn(len(u.Nodes))
			node := u.Nodes[n]
			r := rng.Intn(100)
			forcedRef, forcedAnn, plainGC := "", 0, false
			var scriptedForeign *forcedOp
			if step < len(forced) {
				f := forced[step]
				n, node = f.n, u.Nodes[f.n]
				switch f.op {
				case "foreign":
					r, scriptedForeign = 75, &forced[step]
				case "push":
					r = 0
				case "tag":
					r, forcedRef, forcedAnn = 30, f.ref, f.ann
				case "untag":
					r, forcedRef = 45, f.ref
				case "delete":
					r = 74
				case "gc":
					r, plainGC = gcLo, true
				}
			}
			switch {
			case r < 30:
				err := c.store.Push(ctx, node.Desc, bytes.NewReader(node.Bytes))
				sc.Op(ociErr(err), "o push %d", n)
				sc.Count("op:push")
			case r < 45:
				ann := rng.Intn(3)
				ref := randRef()
				if strings.HasPrefix(ref, "d") && ref != fmt.Sprintf("d%d", n) {
					ref = fmt.Sprintf("t%d", rng.Intn(4)) // a reference is never another node's digest
				}
				if forcedRef != "" {
					ref, ann = forcedRef, forcedAnn
				}
				d := node.Desc
				d.Annotations = annOf(n, ann)
				err := c.store.Tag(ctx, d, c.refString(ref))
				sc.Op(ociErr(err), "o tag %d ann=%d ref=%s", n, ann, ref)
				sc.Count("op:tag")
				if err == nil && forcedRef == "" && rng.Intn(4) == 0 {
					// the same content under the same name again, with other annotations
					ann2 := (ann + 1 + rng.Intn(2)) % 3
					d2 := node.Desc
					d2.Annotations = annOf(n, ann2)
					err := c.store.Tag(ctx, d2, c.refString(ref))
					sc.Op(ociErr(err), "o tag %d ann=%d ref=%s", n, ann2, ref)
					sc.Count("op:retag-other-annotations")
				}
				// the same descriptor value under further names
				for forcedRef == "" && rng.Intn(3) == 0 {
					ref2 := fmt.Sprintf("t%d", rng.Intn(4))
					err := c.store.Tag(ctx, d, c.refString(ref2))
					sc.Op(ociErr(err), "o tag %d ann=%d ref=%s", n, ann, ref2)
					sc.Count("op:tag-again")
				}
			case r < 52:
				ref := randRef()
				if forcedRef != "" {
					ref = forcedRef
				}
				before := c.runQuery(c.store, []string{"resolve", "ref=" + ref})
				err := c.store.Untag(ctx, c.refString(ref))
				sc.Op(ociErr(err), "o untag ref=%s", ref)
				sc.Count("op:untag")
				if err != nil {
					// a refused operation changes nothing: the reference resolves as before
					v := "same"
					if after := c.runQuery(c.store, []string{"resolve", "ref=" + ref}); after != before {
						v = "changed(" + strings.ReplaceAll(before+"->"+after, " ", "_") + ")"
					}
					sc.Op(v, "o refusednoop op=untag ref=%s", ref)
				}
			case r < 62:
				ref := randRef()
				sc.Op(c.runQuery(c.store, []string{"resolve", "ref=" + ref}), "o resolve ref=%s", ref)
			case r < 70:
				q := []string{"exists", "fetch", "preds"}[rng.Intn(3)]
				sc.Op(c.runQuery(c.store, []string{q, fmt.Sprint(n)}), "o %s %d", q, n)
			case r < 74:
				l := []string{"-", "0", "1", "2"}[rng.Intn(4)]
				sc.Op(c.runQuery(c.store, []string{"tags", "last=" + l}), "o tags last=%s", l)
			case r >= 74 && r < 77 && mode != "C06" && (mode != "C09" || scriptedForeign != nil):
				// an external tool rewrites the layout: it keeps a link-closed part of the
				// content and lists only the roots it chose in index.json
				if !c.foreignRewrite(rng, annOf, autosave == 1, autogc == 1, scriptedForeign) {
					continue
				}
				queries("o ", c.store)
			case r < 86:
				if mode == "C06" && rng.Intn(2) == 0 {
					continue
				}
				err := c.store.Delete(ctx, node.Desc)
				sc.Op(ociErr(err), "o delete %d", n)
				sc.Count("op:delete")
				if mode == "C09" {
					b, _ := c.blobsOnDisk()
					sc.Op(b, "o blobs")
				}
				queries("o ", c.store)
			case r < gcLo:
				if mode == "C06" {
					continue
				}
				// a stray file with a well-formed name that the store never heard of
				id := 1000 + step
				data := []byte(fmt.Sprintf("stray-%d-%d", ci, step))
				dg := digest.FromBytes(data)
				if step%2 == 1 {
					dg = digest.SHA512.FromBytes(data)
				}
				p := filepath.Join(dir, "blobs", dg.Algorithm().String(), dg.Encoded())
				os.MkdirAll(filepath.Dir(p), 0o777)
				if err := os.WriteFile(p, data, 0o444); err == nil {
					sc.Def("o stray %d", id)
					strayFiles[id] = p
				}
			case r < reopenLo:
				if mode == "C06" {
					continue
				}
				if autosave == 0 {
					if err := c.store.SaveIndex(); err != nil {
						panic(err)
					}
					sc.Op("ok", "o saveindex")
				}
				if !plainGC && rng.Intn(4) == 0 {
					// a GC that fails must change nothing: either its context is already
					// cancelled, or a named manifest cannot be read while the index is rebuilt
					cctx, cancel := context.WithCancel(ctx)
					var restore func()
					if rng.Intn(2) == 0 {
						cancel()
					} else {
						for _, n := range rng.Perm(len(u.Nodes)) {
							nd := u.Nodes[n]
							if !nd.Kind.IsManifest() {
								continue
							}
							named := false
							for t := 0; t < 4 && !named; t++ {
								if d, err := c.store.Resolve(ctx, fmt.Sprintf("tag%d", t)); err == nil && d.Digest == nd.Desc.Digest {
									named = true
								}
							}
							p := filepath.Join(dir, "blobs", nd.Desc.Digest.Algorithm().String(), nd.Desc.Digest.Encoded())
							if fi, err := os.Stat(p); named && err == nil {
								os.Chmod(p, 0o644)
								os.WriteFile(p, nd.Bytes[:len(nd.Bytes)/2], 0o644)
								restore = func() { os.WriteFile(p, nd.Bytes, 0o644); os.Chmod(p, fi.Mode()) }
								break
							}
						}
						if restore == nil {
							cancel() // nothing named to damage: fall back to the cancelled context
						}
					}
					err := c.store.GC(cctx)
					cancel()
					if restore != nil {
						restore()
					}
					if err != nil {
						sc.Op("err", "o gcfail")
						if restore != nil {
							sc.Count("op:gc-unreadable-manifest")
						} else {
							sc.Count("op:gc-cancelled")
						}
						queries("o ", c.store)
						continue
					}
					// it ran to completion all the same: an ordinary GC
					sc.Op("ok", "o gc")
					sc.Count("op:gc")
					queries("o ", c.store)
					continue
				}
				compare := func() string {
					verdict := "consistent"
					s2, err := oci.New(dir)
					if err != nil {
						return "cannot-reopen"
					}
					for _, q := range [][]string{{"tags", "last=-"}} {
						if a, b := c.runQuery(c.store, q), c.runQuery(s2, q); a != b {
							verdict = fmt.Sprintf("tags:live=%s,reopened=%s", a, b)
						}
					}
					for _, n := range u.Nodes {
						for _, q := range [][]string{{"resolve", fmt.Sprintf("ref=d%d", n.ID)}, {"preds", fmt.Sprint(n.ID)}} {
							if a, b := c.runQuery(c.store, q), c.runQuery(s2, q); a != b {
								verdict = fmt.Sprintf("%s-%d:live=%s,reopened=%s", q[0], n.ID, a, b)
							}
						}
					}
					return verdict
				}
				if autosave == 1 && rng.Intn(4) == 0 {
					// a GC that fails half-way through the blob sweep (an entry it cannot remove):
					// whatever it did, the live handle and a store opened on the directory now
					// must tell the same story about tags, digests and predecessors
					bd := digest.FromString(fmt.Sprintf("blocker-%d-%d", ci, step))
					bp := filepath.Join(dir, "blobs", bd.Algorithm().String(), bd.Encoded())
					os.MkdirAll(filepath.Join(bp, "x"), 0o755)
					gerr := c.store.GC(ctx)
					verdict := "consistent"
					if gerr == nil {
						verdict = "gc-did-not-fail"
					} else if s2, err := oci.New(dir); err != nil {
						verdict = "cannot-reopen"
					} else {
						for _, q := range [][]string{{"tags", "last=-"}} {
							if a, b := c.runQuery(c.store, q), c.runQuery(s2, q); a != b {
								verdict = fmt.Sprintf("tags:live=%s,reopened=%s", a, b)
							}
						}
						for t := 0; t < 4; t++ {
							q := []string{"resolve", fmt.Sprintf("ref=t%d", t)}
							if a, b := c.runQuery(c.store, q), c.runQuery(s2, q); a != b {
								verdict = fmt.Sprintf("resolve-t%d:live=%s,reopened=%s", t, a, b)
							}
						}
						for _, n := range u.Nodes {
							for _, q := range [][]string{{"resolve", fmt.Sprintf("ref=d%d", n.ID)}, {"preds", fmt.Sprint(n.ID)}} {
								if a, b := c.runQuery(c.store, q), c.runQuery(s2, q); a != b {
									verdict = fmt.Sprintf("%s-%d:live=%s,reopened=%s", q[0], n.ID, a, b)
								}
							}
						}
					}
					os.RemoveAll(bp)
					sc.Op(strings.ReplaceAll(verdict, " ", "_"), "o gcpartial")
					sc.Count("op:gc-partial")
					// fall through to an ordinary GC, which finishes the sweep
				}
				if autosave == 1 {
					// a GC whose context turns cancelled at the k-th time anything looks at it
					// (after the entry check, while the graph is rebuilt, during the sweep), for
					// every small k: whether it reports failure or not, the live handle and a
					// store opened on the directory still tell the same story
					for k := 1; k <= 5; k++ {
						cd := &countdownCtx{Context: ctx, left: k, done: make(chan struct{})}
						cerr := c.store.GC(cd)
						sc.Op(strings.ReplaceAll(compare(), " ", "_"), "o gcpartial")
						if cerr != nil {
							sc.Count("op:gc-cancelled-midway")
						}
					}
				}
				// stray files next to the blobs (an interrupted download, a README): not blobs, and
				// no reason to leave garbage behind
				var strays []string
				if rng.Intn(2) == 0 {
					for _, nm := range []string{".partial-download", "00-README.txt", "zz-notes"} {
						p := filepath.Join(dir, "blobs", "sha256", nm)
						if os.WriteFile(p, []byte("stray"), 0o644) == nil {
							strays = append(strays, p)
						}
					}
					sc.Count("op:gc-with-stray-files")
				}
				done := make(chan error, 1)
				go func() { done <- c.store.GC(ctx) }()
				select {
				case err := <-done:
					for _, p := range strays {
						os.Remove(p)
					}
					sc.Op(ociErr(err), "o gc")
				case <-time.After(5 * time.Second):
					sc.Op("err:hang", "o gc")
					aborted = true // the store is spinning under its write lock
				}
				sc.Count("op:gc")
				if !aborted {
					if mode == "C09" {
						b, _ := c.blobsOnDisk()
						sc.Op(b, "o blobs")
					}
					if mode != "C06" {
						var left []int
						for id, p := range strayFiles {
							if _, err := os.Stat(p); err == nil {
								left = append(left, id)
							}
						}
						sc.Op(fmtSet(left), "o strays")
					}
					queries("o ", c.store)
				}
			default:
				if mode == "C06" {
					continue
				}
				if autosave == 0 {
					if err := c.store.SaveIndex(); err != nil {
						panic(err)
					}
					sc.Op("ok", "o saveindex")
				}
				sc.Op(validateLayout(dir), "o layout")
				how := rng.Intn(3)
				sc.Count(fmt.Sprintf("reopen:%d", how))
				switch how {
				case 0:
					s2, err := oci.New(dir)
					if err != nil {
						sc.Op("err:"+strings.ReplaceAll(err.Error(), " ", "_"), "o view")
						aborted = true
						continue
					}
					sc.Op("ok", "o view")
					queries("o vq ", s2)
					s2.AutoSaveIndex = autosave == 1
					s2.AutoGC = autogc == 1
					c.store = s2
					sc.Op("ok", "o reopen")
				case 1:
					s2, err := oci.NewFromFS(ctx, os.DirFS(dir))
					if err != nil {
						sc.Op("err:"+strings.ReplaceAll(err.Error(), " ", "_"), "o view")
						aborted = true
						continue
					}
					sc.Op("ok", "o view")
					queries("o vq ", s2)
				case 2:
					tarAppended = rng.Intn(2) == 0
					tarPAX = nextTarPAX()
					if err := tarDir(dir, dir+".tar"); err != nil {
						panic(err)
					}
					s2, err := oci.NewFromTar(ctx, dir+".tar")
					if err != nil {
						sc.Op("err:"+strings.ReplaceAll(err.Error(), " ", "_"), "o view")
						aborted = true
						continue
					}
					sc.Op("ok", "o view")
					queries("o vq ", s2)
					os.Remove(dir + ".tar")
				}
			}
		}
		if !aborted {
			queries("o ", c.store)
			if mode != "C06" {
				if autosave == 0 {
					c.store.SaveIndex()
					sc.Op("ok", "o saveindex")
				}
				sc.Op(validateLayout(dir), "o layout")
			}
		}
		os.RemoveAll(dir)
	}
	sc.Extra["evaluations"] = ops
	return nil
}

// foreignRewrite simulates another tool (or an operator) rewriting the layout on disk: a
// link-closed subset of the stored content is kept, index.json lists only chosen roots
// (with or without reference names), and the directory is opened afresh.
func (c *ociCase) foreignRewrite(rng *rand.Rand, annOf func(n, ann int) map[string]string, autosave, autogc bool, scripted *forcedOp) bool {
	onDisk := map[int]bool{}
	var cands []int
	for _, n := range c.u.Nodes {
		if _, err := os.Stat(filepath.Join(c.dir, "blobs", n.Desc.Digest.Algorithm().String(), n.Desc.Digest.Encoded())); err == nil {
			onDisk[n.ID] = true
			if n.Kind.IsManifest() || rng.Intn(4) == 0 {
				cands = append(cands, n.ID)
			}
		}
	}
	if len(cands) == 0 {
		return false
	}
	rng.Shuffle(len(cands), func(i, j int) { cands[i], cands[j] = cands[j], cands[i] })
	roots := cands[:1+rng.Intn(min(3, len(cands)))]
	if scripted != nil {
		roots = scripted.roots
	}
	keep := map[int]bool{}
	var walk func(int)
	walk = func(n int) {
		if keep[n] || !onDisk[n] {
			return
		}
		keep[n] = true
		for _, k := range c.u.Nodes[n].Succ {
			walk(k)
		}
	}
	for _, r := range roots {
		walk(r)
	}
	// everything else in blobs/ goes (including files the store never knew)
	filepath.WalkDir(filepath.Join(c.dir, "blobs"), func(p string, d os.DirEntry, err error) error {
		if err != nil || d.IsDir() {
			return nil
		}
		for id := range keep {
			if c.u.Nodes[id].Desc.Digest.Encoded() == d.Name() {
				return nil
			}
		}
		os.Remove(p)
		return nil
	})
	idx := ocispec.Index{MediaType: ocispec.MediaTypeImageIndex, Manifests: []ocispec.Descriptor{}}
	idx.SchemaVersion = 2
	var entries []string
	for ri, r := range roots {
		ann := rng.Intn(3)
		names := []string{"-"}
		switch rng.Intn(4) {
		case 0, 1:
			names = []string{fmt.Sprint(rng.Intn(4))}
		case 2:
			names = []string{fmt.Sprint(rng.Intn(4)), fmt.Sprint(rng.Intn(4))}
		}
		if scripted != nil {
			ann, names = 0, []string{scripted.names[ri]}
		}
		for _, nm := range names {
			d := c.u.Nodes[r].Desc
			d.Annotations = map[string]string{}
			for k, v := range annOf(r, ann) {
				if k != ocispec.AnnotationRefName { // (what the rewriting tool lists is decided below)
					d.Annotations[k] = v
				}
			}
			if nm != "-" {
				d.Annotations[ocispec.AnnotationRefName] = "tag" + nm
			}
			if len(d.Annotations) == 0 {
				d.Annotations = nil
			}
			idx.Manifests = append(idx.Manifests, d)
			entries = append(entries, fmt.Sprintf("%d:%s:%d", r, nm, ann))
		}
	}
	b, err := json.Marshal(idx)
	if err != nil {
		panic(err)
	}
	if err := os.WriteFile(filepath.Join(c.dir, "index.json"), b, 0o644); err != nil {
		panic(err)
	}
	s2, err := oci.New(c.dir)
	if err != nil {
		panic(err)
	}
	s2.AutoSaveIndex = autosave
	s2.AutoGC = autogc
	c.store = s2
	var ks []int
	for id := range keep {
		ks = append(ks, id)
	}
	c.sc.Op("ok", "o foreign keep=%s entries=%s", fmtSet(ks), strings.Join(entries, ","))
	c.sc.Count("op:foreign-index")
	return true
}

// forcedOp is one scripted step at the head of a history.
type forcedOp struct {
	op    string // push | tag | delete | gc | foreign
	n     int
	ref   string
	ann   int
	roots []int    // foreign: the nodes index.json lists
	names []string // foreign: the reference name of each ("-": none)
}

type ociCorpusCase struct {
	u   *Universe
	ops []forcedOp
}

// ociCorpus: histories that every run starts with (shapes the random generator reaches only
// now and then): a referrer chain through the deprecated artifact-manifest kind kept by GC,
// and a delete whose cascade reaches one node along two paths.
func ociCorpus() []ociCorpusCase {
	var out []ociCorpusCase
	pushAllOps := func(u *Universe) []forcedOp {
		var ops []forcedOp
		for _, n := range u.Nodes {
			ops = append(ops, forcedOp{op: "push", n: n.ID})
		}
		return ops
	}
	{
		u := NewUniverse()
		cfg := u.AddBlob(ocispec.MediaTypeImageConfig, []byte(`{"corpus":"artifact-chain"}`))
		layer := u.AddBlob(ocispec.MediaTypeImageLayer, []byte("corpus-layer"))
		img := u.AddImage(KOCIManifest, cfg.ID, []int{layer.ID}, -1, "", map[string]string{"k": "img"})
		sb := u.AddBlob("application/vnd.verif.sbom", []byte("corpus-sbom"))
		art := u.AddArtifact([]int{sb.ID}, img.ID, "application/vnd.verif.sbom", map[string]string{"k": "art"})
		sigb := u.AddBlob("application/vnd.verif.sig", []byte("corpus-sig"))
		u.AddImage(KOCIManifest, cfg.ID, []int{sigb.ID}, art.ID, "application/vnd.verif.sig", map[string]string{"k": "sig"})
		u.AddBlob("application/vnd.verif.data", []byte("corpus-garbage"))
		ops := append(pushAllOps(u), forcedOp{op: "tag", n: img.ID, ref: "t0"}, forcedOp{op: "gc"}, forcedOp{op: "gc"})
		out = append(out, ociCorpusCase{u, ops})
	}
	{
		u := NewUniverse()
		cfg := u.AddBlob(ocispec.MediaTypeImageConfig, []byte(`{"corpus":"diamond-cascade"}`))
		la := u.AddBlob(ocispec.MediaTypeImageLayer, []byte("corpus-la"))
		g := u.AddImage(KOCIManifest, cfg.ID, []int{la.ID}, -1, "", map[string]string{"k": "g"})
		lb := u.AddBlob(ocispec.MediaTypeImageLayer, []byte("corpus-lb"))
		h := u.AddImage(KOCIManifest, cfg.ID, []int{lb.ID}, g.ID, "application/vnd.verif.h", map[string]string{"k": "h"})
		lx := u.AddBlob(ocispec.MediaTypeImageLayer, []byte("corpus-lx"))
		x := u.AddImage(KOCIManifest, cfg.ID, []int{lx.ID}, h.ID, "application/vnd.verif.x", map[string]string{"k": "x"})
		u.AddIndex(KOCIIndex, []int{x.ID}, g.ID, "application/vnd.verif.y", map[string]string{"k": "y"})
		lk := u.AddBlob(ocispec.MediaTypeImageLayer, []byte("corpus-lk"))
		k := u.AddImage(KOCIManifest, cfg.ID, []int{lk.ID}, -1, "", map[string]string{"k": "keep"})
		ops := append(pushAllOps(u), forcedOp{op: "tag", n: g.ID, ref: "t0"}, forcedOp{op: "tag", n: k.ID, ref: "t1"}, forcedOp{op: "delete", n: g.ID})
		out = append(out, ociCorpusCase{u, ops})
	}
	{
		// a referrer under two names loses one of them, then its subject is deleted: it still
		// has a name, so the cascade keeps it (and everything it needs)
		u := NewUniverse()
		cfg := u.AddBlob(ocispec.MediaTypeImageConfig, []byte(`{"corpus":"untag-one-of-two"}`))
		layer := u.AddBlob(ocispec.MediaTypeImageLayer, []byte("corpus-u2-layer"))
		img := u.AddImage(KOCIManifest, cfg.ID, []int{layer.ID}, -1, "", map[string]string{"k": "img"})
		sb := u.AddBlob("application/vnd.verif.sig", []byte("corpus-u2-sig"))
		sig := u.AddImage(KOCIManifest, cfg.ID, []int{sb.ID}, img.ID, "application/vnd.verif.sig", map[string]string{"k": "sig"})
		ops := append(pushAllOps(u), forcedOp{op: "tag", n: img.ID, ref: "t0"}, forcedOp{op: "tag", n: sig.ID, ref: "t1"}, forcedOp{op: "tag", n: sig.ID, ref: "t2"},
			forcedOp{op: "untag", ref: "t1"}, forcedOp{op: "delete", n: img.ID})
		out = append(out, ociCorpusCase{u, ops})
	}
	{
		// another tool trimmed index.json to a tagged image and the head of a referrer chain
		// of three; the referrers in between are stored but not listed.  A collection keeps
		// the whole chain: every link leads, subject by subject, to the tagged image
		u := NewUniverse()
		cfg := u.AddBlob(ocispec.MediaTypeImageConfig, []byte(`{"corpus":"trimmed-chain"}`))
		layer := u.AddBlob(ocispec.MediaTypeImageLayer, []byte("corpus-tc-layer"))
		img := u.AddImage(KOCIManifest, cfg.ID, []int{layer.ID}, -1, "", map[string]string{"k": "img"})
		prev := img
		for k := 1; k <= 3; k++ {
			b := u.AddBlob("application/vnd.verif.link", []byte(fmt.Sprintf("corpus-tc-link-%d", k)))
			prev = u.AddImage(KOCIManifest, cfg.ID, []int{b.ID}, prev.ID, "application/vnd.verif.link", map[string]string{"k": fmt.Sprint("r", k)})
		}
		u.AddBlob("application/vnd.verif.data", []byte("corpus-tc-garbage"))
		ops := append(pushAllOps(u), forcedOp{op: "foreign", roots: []int{img.ID, prev.ID}, names: []string{"0", "-"}}, forcedOp{op: "gc"}, forcedOp{op: "gc"})
		out = append(out, ociCorpusCase{u, ops})
	}
	return out
}

// countdownCtx turns cancelled at the left-th time its Err or Done is looked at.
type countdownCtx struct {
	context.Context
	mu   sync.Mutex
	left int
	done chan struct{}
}

func (c *countdownCtx) look() bool {
	c.mu.Lock()
	defer c.mu.Unlock()
	if c.left > 0 {
		c.left--
		if c.left == 0 {
			close(c.done)
		}
	}
	return c.left == 0
}

func (c *countdownCtx) Err() error {
	if c.look() {
		return context.Canceled
	}
	return nil
}

func (c *countdownCtx) Done() <-chan struct{} {
	c.look()
	return c.done
}
