//go:build verif

package main

// C10: crash enumeration for the OCI layout.  The victim operation runs in a child
// process (`harness crashchild`) under strace; the child is killed (SIGKILL injected at
// syscall entry) before its k-th mutating system call on the layout, for every k; a fresh
// process then opens the directory and validates it.

import (
	"bufio"
	"bytes"
	"context"
	"encoding/json"
	"fmt"
	"math/rand"
	"os"
	"os/exec"
	"path/filepath"
	"regexp"
	"sort"
	"strings"

	"github.com/opencontainers/go-digest"
	ocispec "github.com/opencontainers/image-spec/specs-go/v1"
	"oras.land/oras-go/v2/content/oci"
)

func init() { domains["C10"] = runC10 }

const straceSet = "openat,write,renameat,renameat2,rename,unlinkat,unlink,fchmodat,fchmod,chmod,mkdirat,mkdir,linkat,symlinkat,truncate,ftruncate"

type layoutObs struct {
	Tags  map[string]string // reference name -> digest
	Blobs []string
	Err   string
}

func observeLayout(dir string) layoutObs {
	ctx := context.Background()
	o := layoutObs{Tags: map[string]string{}}
	if v := validateLayout(dir); v != "ok" {
		o.Err = v
		return o
	}
	s, err := oci.New(dir)
	if err != nil {
		o.Err = "open:" + strings.ReplaceAll(err.Error(), " ", "_")
		return o
	}
	var tags []string
	if err := s.Tags(ctx, "", func(ts []string) error { tags = append(tags, ts...); return nil }); err != nil {
		o.Err = "tags:" + err.Error()
		return o
	}
	for _, t := range tags {
		d, err := s.Resolve(ctx, t)
		if err != nil {
			o.Err = "resolve:" + t
			return o
		}
		o.Tags[t] = d.Digest.String() + "#" + d.Annotations["verif.ann"]
		if ok, _ := s.Exists(ctx, d); !ok {
			o.Err = "tag-without-blob:" + t
			return o
		}
	}
	// every index entry (named or not) must have its blob: read index.json raw
	b, _ := os.ReadFile(filepath.Join(dir, "index.json"))
	var idx ocispec.Index
	json.Unmarshal(b, &idx)
	for _, m := range idx.Manifests {
		if _, err := os.Stat(filepath.Join(dir, "blobs", m.Digest.Algorithm().String(), m.Digest.Encoded())); err != nil {
			o.Err = "index-entry-without-blob:" + m.Digest.Encoded()[:8]
			return o
		}
	}
	filepath.WalkDir(filepath.Join(dir, "blobs"), func(p string, d os.DirEntry, err error) error {
		if err == nil && !d.IsDir() {
			o.Blobs = append(o.Blobs, d.Name())
		}
		return nil
	})
	sort.Strings(o.Blobs)
	return o
}

func sameTags(a, b map[string]string) bool {
	if len(a) != len(b) {
		return false
	}
	for k, v := range a {
		if b[k] != v {
			return false
		}
	}
	return true
}

func copyDir(src, dst string) {
	os.RemoveAll(dst)
	if out, err := exec.Command("cp", "-a", src, dst).CombinedOutput(); err != nil {
		panic(fmt.Sprintf("cp: %v %s", err, out))
	}
}

type killPoint struct {
	sys  string
	ord  int    // ordinal of this syscall name in the main thread of the un-injected run
	norm string // normalised form
}

var straceLine = regexp.MustCompile(`^(\d+)\s+([a-z0-9_]+)\((.*)$`)

// parseTrace returns the kill points (mutating calls on the layout) of the main thread.
func parseTrace(logPath, dir string) ([]killPoint, []string) {
	f, err := os.Open(logPath)
	if err != nil {
		panic(err)
	}
	defer f.Close()
	counts := map[string]int{}
	fds := map[string]string{} // fd -> normalised file kind
	var pts []killPoint
	var norm []string
	mainPid := ""
	sc := bufio.NewScanner(f)
	sc.Buffer(make([]byte, 1<<20), 1<<20)
	kind := func(p string) string {
		rel := strings.TrimPrefix(p, dir+"/")
		switch {
		case rel == "index.json":
			return "index"
		case strings.HasPrefix(rel, "index.json"):
			return "indexTmp"
		case rel == "oci-layout":
			return "ociLayout"
		case strings.HasPrefix(rel, "ingest/"):
			return "temp"
		case strings.HasPrefix(rel, "blobs/") && strings.Count(rel, "/") == 2:
			return "blob"
		case rel == "ingest" || strings.HasPrefix(rel, "blobs"):
			return "dir:" + rel
		}
		return "other:" + rel
	}
	// strace splits a call that is pre-empted into "... <unfinished ...>" and
	// "<... name resumed> ...": stitch the two halves together per thread first
	pending := map[string]string{}
	resumed := regexp.MustCompile(`^(\d+)\s+<\.\.\. ([a-z0-9_]+) resumed>(.*)$`)
	for sc.Scan() {
		line := sc.Text()
		if strings.HasSuffix(line, "<unfinished ...>") {
			if mm := straceLine.FindStringSubmatch(line); mm != nil {
				pending[mm[1]] = strings.TrimSuffix(line, "<unfinished ...>")
			}
			continue
		}
		if rm := resumed.FindStringSubmatch(line); rm != nil {
			if head, ok := pending[rm[1]]; ok {
				delete(pending, rm[1])
				line = head + rm[3]
			} else {
				continue
			}
		}
		m := straceLine.FindStringSubmatch(line)
		if m == nil {
			continue
		}
		if mainPid == "" {
			mainPid = m[1]
		}
		if m[1] != mainPid {
			continue
		}
		name, rest := m[2], m[3]
		counts[name]++
		ord := counts[name]
		paths := regexp.MustCompile(`"([^"]*)"`).FindAllStringSubmatch(rest, -1)
		inLayout := false
		for _, p := range paths {
			if strings.HasPrefix(p[1], dir+"/") || p[1] == dir {
				inLayout = true
			}
		}
		switch name {
		case "openat":
			if !inLayout {
				continue
			}
			k := kind(paths[0][1])
			ret := rest[strings.LastIndex(rest, "=")+1:]
			fd := strings.Fields(ret)
			if strings.Contains(rest, "O_WRONLY") || strings.Contains(rest, "O_RDWR") {
				if len(fd) > 0 {
					fds[fd[0]] = k
				}
				n := "open:" + k
				if strings.Contains(rest, "O_TRUNC") {
					n = "trunc:" + k
				}
				if strings.Contains(rest, "O_EXCL") {
					n = "create:" + k
				}
				pts = append(pts, killPoint{name, ord, n})
				norm = append(norm, n)
			}
		case "write", "fchmod", "ftruncate":
			fd := strings.SplitN(rest, ",", 2)[0]
			if k, ok := fds[fd]; ok {
				pts = append(pts, killPoint{name, ord, name + ":" + k})
				norm = append(norm, name+":"+k)
			}
		default:
			if !inLayout {
				continue
			}
			n := name
			switch {
			case strings.HasPrefix(name, "rename") && len(paths) >= 2:
				n = "rename:" + kind(paths[0][1]) + ">" + kind(paths[1][1])
			case strings.HasPrefix(name, "unlink"):
				n = "remove:" + kind(paths[0][1])
			case strings.Contains(name, "chmod"):
				n = "chmod:" + kind(paths[0][1])
			case strings.HasPrefix(name, "mkdir"):
				n = "mkdir:" + kind(paths[0][1])
			}
			pts = append(pts, killPoint{name, ord, n})
			norm = append(norm, n)
		}
	}
	return pts, norm
}

func runC10(seed int64, tier string, sc *Script) map[string]any {
	rng := rand.New(rand.NewSource(seed))
	tmp, err := os.MkdirTemp("", "verif-c10-")
	if err != nil {
		panic(err)
	}
	defer os.RemoveAll(tmp)
	self, _ := os.Executable()
	scenarios := 18
	if tier == "thorough" {
		scenarios = 120
	}
	kills, informative := 0, 0
	for si := 0; si < scenarios; si++ {
		u := GenDAG(rng, GenCfg{Blobs: 2, Manifests: 2 + rng.Intn(3), Subjects: true, Indexes: true, NoOctet: true})
		custom := si%9 == 5 && (si/9)%2 == 0
		if custom {
			// delete with auto-GC of a tagged image that has an untagged referrer (and a referrer
			// of that referrer): the cascade removes manifests that index.json lists by digest
			u = NewUniverse()
			cfg := u.AddBlob(ocispec.MediaTypeImageConfig, []byte(fmt.Sprintf("{\"c10\":%d}", si)))
			l1 := u.AddBlob(ocispec.MediaTypeImageLayer, []byte(fmt.Sprintf("layer-%d", si)))
			img := u.AddImage(KOCIManifest, cfg.ID, []int{l1.ID}, -1, "", map[string]string{"k": "img"})
			sb := u.AddBlob(ocispec.MediaTypeImageLayer, []byte(fmt.Sprintf("sig-%d", si)))
			sig := u.AddImage(KOCIManifest, cfg.ID, []int{sb.ID}, img.ID, "application/vnd.verif.sig", map[string]string{"k": "sig"})
			u.AddImage(KOCIManifest, cfg.ID, []int{sb.ID}, sig.ID, "application/vnd.verif.att", map[string]string{"k": "att"})
			u.AddBlob("application/vnd.verif.data", []byte("unused-last"))
		}
		mk := func(op string, n *Node, ref string, autosave, autogc bool) crashOp {
			o := crashOp{Op: op, Ref: ref, AutoSave: autosave, AutoGC: autogc}
			if n != nil {
				o.MediaType, o.Data = n.Desc.MediaType, n.Bytes
			}
			return o
		}
		// preparation: push everything but the last manifest, tag some
		var prep []crashOp
		last := len(u.Nodes) - 1
		for _, n := range u.Nodes[:last] {
			prep = append(prep, mk("push", n, "", true, true))
		}
		var manifests []*Node
		for _, n := range u.Nodes[:last] {
			if n.Kind.IsManifest() {
				manifests = append(manifests, n)
			}
		}
		if !custom && len(manifests) > 0 && si%3 == 0 {
			// one annotated descriptor value tagged under two names before anything else
			m := manifests[len(manifests)-1]
			a, b := mk("tag", m, "pair-a", true, true), mk("tag", m, "pair-b", true, true)
			a.Ann, b.Ann = "pair", "pair"
			prep = append(prep, a, b)
			sc.Count("prep:one-annotated-descriptor-under-two-names")
		}
		if custom {
			prep = append(prep, mk("tag", manifests[0], "v1", true, true)) // only the image is tagged
		} else if len(manifests) > 0 {
			prep = append(prep, mk("tag", manifests[rng.Intn(len(manifests))], "v1", true, true))
			if rng.Intn(2) == 0 {
				prep = append(prep, mk("tag", manifests[rng.Intn(len(manifests))], "v2", true, true))
			}
		}
		var victim crashOp
		vkind := []string{"push-blob", "push-manifest", "tag", "untag", "delete", "delete-gc", "saveindex", "gc", "retag"}[si%9]
		switch vkind {
		case "push-blob":
			b := u.AddBlob("application/vnd.verif.data", []byte(fmt.Sprintf("late-blob-%d", si)))
			victim = mk("push", b, "", true, true)
		case "push-manifest":
			victim = mk("push", u.Nodes[last], "", true, true)
		case "tag":
			victim = mk("tag", u.Nodes[rng.Intn(last)], "v3", true, true)
		case "retag":
			victim = mk("tag", u.Nodes[rng.Intn(last)], "v1", true, true)
			victim.Ann = "second"
			if len(manifests) > 0 && si%2 == 0 {
				// the same content under the same name, with other annotations
				m := manifests[rng.Intn(len(manifests))]
				first := mk("tag", m, "v1", true, true)
				first.Ann = "first"
				prep = append(prep, first)
				victim = mk("tag", m, "v1", true, true)
				victim.Ann = "second"
			}
		case "untag":
			victim = mk("untag", nil, "v1", true, true)
		case "delete":
			victim = mk("delete", u.Nodes[rng.Intn(last)], "", true, false)
		case "delete-gc":
			if len(manifests) > 0 {
				// prefer a manifest whose removal cascades to other *manifests* (a referrer of it,
				// or a manifest only it lists): those are entries of index.json too
				var cascading []*Node
				for _, m := range manifests {
					for _, o := range manifests {
						if o.ID == m.ID {
							continue
						}
						if o.Subject == m.ID {
							cascading = append(cascading, m)
						}
						for _, k := range m.Succ {
							if k == o.ID {
								cascading = append(cascading, m)
							}
						}
					}
				}
				pool := manifests
				if len(cascading) > 0 {
					pool = cascading
					sc.Count("delete-gc:cascades-to-a-manifest")
				}
				victim = mk("delete", pool[rng.Intn(len(pool))], "", true, true)
				if custom {
					victim = mk("delete", manifests[0], "", true, true)
				}
			} else {
				victim = mk("delete", u.Nodes[0], "", true, true)
			}
		case "saveindex":
			// (the name is set, unsaved, by the victim process itself: see victimOps)
			victim = mk("saveindex", nil, "", false, true)
		case "gc":
			// one manifest under several names: a collection keeps every name
			if len(manifests) > 0 && si%2 == 1 {
				m := manifests[rng.Intn(len(manifests))]
				a, b := mk("tag", m, "also-a", true, true), mk("tag", m, "also-b", true, true)
				if si%4 == 1 {
					a.Ann, b.Ann = "kept", "kept" // one annotated descriptor value under both names
				}
				prep = append(prep, a, b)
				sc.Count("gc:one-manifest-under-several-names")
			}
			victim = mk("gc", nil, "", true, true)
		}
		sc.Case("crash-" + vkind)
		base := filepath.Join(tmp, fmt.Sprintf("base%d", si))
		if err := applyCrashOps(base, prep); err != nil {
			// e.g. untag of a name that was never set: not a scenario
			sc.Def("cr skip %s", strings.ReplaceAll(err.Error(), " ", "_"))
			os.RemoveAll(base)
			continue
		}
		if si%3 == 2 {
			// index.json is a symbolic link to the real file (a layout assembled from a shared
			// or versioned index): the same guarantees hold
			ip := filepath.Join(base, "index.json")
			if err := os.Rename(ip, filepath.Join(base, "index.v1.json")); err == nil {
				if err := os.Symlink("index.v1.json", ip); err != nil {
					panic(err)
				}
				sc.Count("layout:index-json-is-a-symlink")
			}
		}
		probe := filepath.Join(tmp, "probe")
		copyDir(base, probe)
		before := observeLayout(probe)
		if before.Err != "" {
			panic("prepared layout invalid: " + before.Err)
		}
		opsFile := filepath.Join(tmp, "victim.json")
		victimOps := []crashOp{victim}
		if vkind == "saveindex" {
			// a name the handle holds in memory only (no system call), then the save under test
			victimOps = []crashOp{mk("tag", u.Nodes[0], "unsaved", false, true), victim}
			if (si/9)%2 == 1 {
				// a batch without automatic saving, then the option switched back on and an
				// explicit SaveIndex: it writes the index like any other
				victimOps[1].AutoSave = true
				victim.AutoSave = true
				sc.Count("saveindex:after-switching-autosave-back-on")
			}
		}
		b, _ := json.Marshal(victimOps)
		os.WriteFile(opsFile, b, 0o644)
		// un-injected run, traced
		run := filepath.Join(tmp, "run")
		copyDir(base, run)
		logPath := filepath.Join(tmp, "trace.log")
		cmd := exec.Command("strace", "-f", "-o", logPath, "-e", "trace="+straceSet, self, "crashchild", run, opsFile)
		cmd.Env = append(os.Environ(), "GOMAXPROCS=1", "VERIF_LIVE_VIEW=1")
		out, err := cmd.CombinedOutput()
		if err != nil {
			sc.Def("cr skip victim-failed:%s", strings.ReplaceAll(strings.TrimSpace(string(out)), " ", "_"))
			os.RemoveAll(base)
			continue
		}
		after := observeLayout(run)
		// durability: everything the live handle said when the operation had returned is what
		// a process that opens the directory afterwards sees
		durable := "ok"
		var live map[string]string
		var lb []byte
		for _, l := range strings.Split(string(out), "\n") {
			if strings.HasPrefix(l, "LIVE ") {
				lb = []byte(strings.TrimPrefix(l, "LIVE "))
			}
		}
		if lb == nil || json.Unmarshal(lb, &live) != nil {
			durable = "no-live-view"
		} else if after.Err == "" && !sameTags(live, after.Tags) {
			durable = fmt.Sprintf("returned-effect-not-on-disk:live=%v,disk=%v", live, after.Tags)
			durable = strings.ReplaceAll(durable, " ", ",")
		}
		pts, norm := parseTrace(logPath, run)
		refs := 1
		if (vkind == "delete" || vkind == "delete-gc") && !strings.Contains(victim.MediaType, "manifest") && !strings.Contains(victim.MediaType, "index") {
			// a blob has a reference only if it was tagged in the preparation
			refs = 0
			for _, p := range prep {
				if p.Op == "tag" && bytes.Equal(p.Data, victim.Data) {
					refs = 1
				}
			}
		}
		seqStr := "-"
		if len(norm) > 0 {
			seqStr = strings.Join(norm, ",")
		}
		sc.Op("ok", "cr seq op=%s refs=%d seq=%s", vkind, refs, seqStr)
		afterVerdict := "ok"
		if after.Err != "" {
			afterVerdict = after.Err
		}
		sc.Op(afterVerdict, "cr after op=%s", vkind)
		// the name mapping before and after, computed from the operations themselves (not from
		// what the implementation left): every name set in the preparation is there before;
		// afterwards exactly the victim's own effect has been applied
		want := map[string]string{}
		for _, p := range prep {
			if p.Op == "tag" && p.AutoSave {
				want[p.Ref] = digest.FromBytes(p.Data).String() + "#" + p.Ann
			}
		}
		showTags := func(m map[string]string) string {
			var ks []string
			for k, v := range m {
				ks = append(ks, k+"="+v[7:15]+v[strings.IndexByte(v, '#'):])
			}
			sort.Strings(ks)
			return strings.Join(ks, ",")
		}
		tv := "ok"
		if !sameTags(before.Tags, want) {
			tv = "names-before:" + showTags(before.Tags) + ",want:" + showTags(want)
		}
		sc.Op(tv, "cr beforetags op=%s", vkind)
		for _, p := range victimOps[:len(victimOps)-1] {
			want[p.Ref] = digest.FromBytes(p.Data).String() + "#" + p.Ann // written by the SaveIndex under test
		}
		switch victim.Op {
		case "tag":
			want[victim.Ref] = digest.FromBytes(victim.Data).String() + "#" + victim.Ann
		case "untag":
			delete(want, victim.Ref)
		case "delete":
			for k, v := range want {
				if strings.HasPrefix(v, digest.FromBytes(victim.Data).String()+"#") {
					delete(want, k)
				}
			}
		}
		tv = "ok"
		if after.Err == "" && !sameTags(after.Tags, want) {
			tv = "names-after:" + showTags(after.Tags) + ",want:" + showTags(want)
		}
		sc.Op(tv, "cr aftertags op=%s", vkind)
		sc.Op(durable, "cr durable op=%s", vkind)
		sc.Count("victim:" + vkind)
		if len(pts) > 0 {
			sc.NonTrivial()
		}
		for pi, kp := range pts {
			copyDir(base, run)
			cmd := exec.Command("strace", "-f", "-o", "/dev/null", "-e", "trace="+straceSet,
				"-e", fmt.Sprintf("inject=%s:signal=SIGKILL:when=%d", kp.sys, kp.ord), self, "crashchild", run, opsFile)
			cmd.Env = append(os.Environ(), "GOMAXPROCS=1")
			err := cmd.Run()
			verdict := "ok"
			if err == nil {
				verdict = "child-not-killed"
			}
			obs := observeLayout(run)
			switch {
			case obs.Err != "":
				verdict = obs.Err
			case !sameTags(obs.Tags, before.Tags) && !sameTags(obs.Tags, after.Tags):
				verdict = fmt.Sprintf("tags-neither-before-nor-after:%v", obs.Tags)
			default:
				// content present both before and after must not have vanished
				have := map[string]bool{}
				for _, x := range obs.Blobs {
					have[x] = true
				}
				inAfter := map[string]bool{}
				for _, x := range after.Blobs {
					inAfter[x] = true
				}
				for _, x := range before.Blobs {
					if inAfter[x] && !have[x] {
						verdict = "lost-blob:" + x[:8]
					}
				}
			}
			sc.Op(verdict, "cr kill op=%s point=%d/%d at=%s", vkind, pi+1, len(pts), kp.norm)
			kills++
			if pi > 0 {
				informative++
			}
		}
		os.RemoveAll(base)
	}
	sc.Extra["evaluations"] = kills
	sc.Nontriv += informative
	return nil
}

func btoi(b bool) int {
	if b {
		return 1
	}
	return 0
}
