//go:build verif

package main

// C01 / C02 / C04: trace-validated copy runs.

import (
	"bytes"
	"context"
	"encoding/json"
	"errors"
	"fmt"
	"github.com/opencontainers/go-digest"
	"io"
	"math/rand"
	"os"
	"path/filepath"
	"regexp"
	"sort"
	"strings"
	"sync/atomic"
	"time"

	ocispec "github.com/opencontainers/image-spec/specs-go/v1"
	oras "oras.land/oras-go/v2"
	"oras.land/oras-go/v2/content"
	"oras.land/oras-go/v2/content/file"
	"oras.land/oras-go/v2/content/memory"
	"oras.land/oras-go/v2/content/oci"
	"oras.land/oras-go/v2/errdef"
	"oras.land/oras-go/v2/internal/docker"
	"oras.land/oras-go/v2/registry/remote"
)

func init() {
	domains["C01"] = func(seed int64, tier string, sc *Script) map[string]any { return runCopy("C01", seed, tier, sc) }
	domains["C02"] = func(seed int64, tier string, sc *Script) map[string]any { return runCopy("C02", seed, tier, sc) }
	domains["C04"] = func(seed int64, tier string, sc *Script) map[string]any { return runCopy("C04", seed, tier, sc) }
}

// f10Universe: an index listing the same bytes once as octet-stream and once as an image
// manifest (finding F10).
func f10Universe() (*Universe, int) {
	u := NewUniverse()
	cfg := u.AddBlob(ocispec.MediaTypeImageConfig, []byte("{}"))
	layer := u.AddBlob(ocispec.MediaTypeImageLayer, []byte("layer-bytes"))
	m := u.AddImage(KOCIManifest, cfg.ID, []int{layer.ID}, -1, "", map[string]string{"verif.id": "f10"})
	a := u.AddAlias(m.ID)
	idx := u.AddIndex(KOCIIndex, []int{a.ID, m.ID}, -1, "", map[string]string{"verif.id": "f10-index"})
	return u, idx.ID
}

type copyCase struct {
	u       *Universe
	roots   []int
	dst     dstKind
	conc    int
	pre     []int // ids pre-populated (link-closed)
	faults  []fault
	delay   time.Duration
	hold    map[int]time.Duration
	useCopy bool // oras.Copy with references instead of CopyGraph
	dstRef  string
	cancel  bool
	label   string
	mount   bool // the destination is a registry.Mounter and MountFrom names one or two repositories for every blob
	fsFault int  // >0: while this node (id+1) is read from the source, its blob path in an OCI destination becomes a directory
}

func genCopyCase(rng *rand.Rand, mode string, big bool) copyCase {
	nb, nm := 1+rng.Intn(5), 1+rng.Intn(8)
	if big {
		nb, nm = 3+rng.Intn(20), 5+rng.Intn(40)
	}
	kind := []dstKind{"memory", "oci", "file"}[rng.Intn(3)]
	alias := mode == "C01" && rng.Intn(4) == 0
	u := GenDAG(rng, GenCfg{Blobs: nb, Manifests: nm, Subjects: true, Indexes: true, Foreign: rng.Intn(2) == 0,
		Alias: alias, EmptyBlob: rng.Intn(2) == 0})
	// root: prefer a manifest with a large graph
	root := len(u.Nodes) - 1
	for tries := 0; tries < 3; tries++ {
		c := rng.Intn(len(u.Nodes))
		if u.Nodes[c].Kind.IsManifest() && len(downClosure(u, []int{c})) > len(downClosure(u, []int{root})) {
			root = c
		}
	}
	if u.Nodes[root].Kind == KForeign {
		root = 0
	}
	cc := copyCase{u: u, roots: []int{root}, dst: kind, conc: 1 + rng.Intn(4), label: "copygraph-" + string(kind)}
	if alias && kind != "memory" {
		// two nodes share one key of a digest-keyed destination: with several workers the
		// recorded order of "push of one finished" and "the other was looked up" need not be
		// the order in which the destination saw them (the look-up is logged when it returns),
		// so these graphs are copied by one worker
		cc.conc = 1
	}
	// pre-populate the down-closure of a few random nodes
	if rng.Intn(2) == 0 {
		var seeds []int
		for i := 0; i < 1+rng.Intn(3); i++ {
			seeds = append(seeds, rng.Intn(len(u.Nodes)))
		}
		cc.pre = downClosure(u, seeds)
	}
	if rng.Intn(2) == 0 {
		cc.delay = time.Duration(50+rng.Intn(300)) * time.Microsecond
	}
	return cc
}

func runCopy(mode string, seed int64, tier string, sc *Script) map[string]any {
	rng := rand.New(rand.NewSource(seed))
	ctx := context.Background()
	tmp, err := os.MkdirTemp("", "verif-copy-")
	if err != nil {
		panic(err)
	}
	defer os.RemoveAll(tmp)
	runs, traces := 0, 0
	var maxSrc, maxDst int32
	maxRatio := 0.0

	if mode == "C02" || mode == "C04" {
		// a waiter for the only slot is cancelled (or its group fails) while it waits: forced
		// schedule, in a child process
		sc.Case("slot-waiter-cancelled")
		sc.NonTrivial()
		for i := 0; i < 2; i++ {
			sc.Op(slotCancelVerdict("CANCEL"), "cp slotcancel kind=cancel")
			sc.Op(slotCancelVerdict("FAIL"), "cp slotcancel kind=fail")
		}
	}
	exec := func(cc copyCase, caseNo int) {
		sc.Case(cc.label)
		sc.NonTrivial()
		declareCopyGraph(sc, cc.u, cc.dst)
		dir := filepath.Join(tmp, fmt.Sprintf("d%d", caseNo))
		dstT, cleanup := newDst(cc.dst, dir)
		defer cleanup()
		src := memory.New()
		all := make([]int, len(cc.u.Nodes))
		for i := range all {
			all[i] = i
		}
		pushAll(ctx, src, cc.u, all)
		pushAll(ctx, dstT, cc.u, cc.pre)
		doRun := func(faults []fault, pre string, cancelPlan bool) {
			r := newCopyRun(cc.u, seed+int64(caseNo))
			r.faults = faults
			r.maxDelay = cc.delay
			r.hold = cc.hold
			if cc.fsFault > 0 && cc.dst == "oci" && faults == nil && pre != "keep" {
				nd := cc.u.Nodes[cc.fsFault-1]
				p := filepath.Join(dir, "blobs", nd.Desc.Digest.Algorithm().String(), nd.Desc.Digest.Encoded())
				r.onFetch[nd.ID] = func() {
					// the final rename of the verified ingest file will fail
					os.MkdirAll(filepath.Join(p, "blocker"), 0o755)
					atomic.AddInt32(&r.fired, 1)
				}
				defer os.RemoveAll(p)
			}
			runCtx, cancel := context.WithCancel(ctx)
			r.cancel = cancel
			defer cancel()
			opts := r.options(cc.conc)
			isrc := &instrSrc{inner: src, r: r}
			idst := &instrTarget{instrDst: instrDst{inner: dstT, r: r}, t: dstT}
			var dstArg oras.Target = idst
			if cc.mount {
				dstArg = &mountTarget{instrTarget: idst, seed: seed + int64(caseNo)}
				opts.MountFrom = func(ctx context.Context, d ocispec.Descriptor) ([]string, error) {
					if cc.u.IDOf(d)%2 == 0 {
						return []string{"test/repo1"}, nil
					}
					return []string{"test/repo1", "test/repo2"}, nil
				}
			}
			sc.Def("cp begin roots=%s pre=%s", fmtInts(cc.roots), pre)
			sc.Count(fmt.Sprintf("conc:%d", cc.conc))
			sc.Count(fmt.Sprintf("nodes:%d", (len(cc.u.Nodes)/5)*5))
			var runErr error
			done := make(chan struct{})
			go func() {
				defer close(done)
				if cc.useCopy {
					srcT := &srcTarget{instrSrc: *isrc, t: src}
					_ = src.Tag(ctx, cc.u.Nodes[cc.roots[0]].Desc, "srcref")
					_, runErr = oras.Copy(runCtx, srcT, "srcref", dstArg, cc.dstRef, oras.CopyOptions{CopyGraphOptions: opts})
				} else if len(cc.roots) == 1 {
					runErr = oras.CopyGraph(runCtx, isrc, dstArg, cc.u.Nodes[cc.roots[0]].Desc, opts)
				}
			}()
			select {
			case <-done:
			case <-time.After(60 * time.Second):
				// watchdog: the call neither returned nor failed
				sc.Op("HANG", "cp end res=hang fired=%d cancel=0", atomic.LoadInt32(&r.fired))
				panic("copy did not return within 60s; event log: " + fmt.Sprint(r.events))
			}
			emitRun(ctx, sc, r, runErr, dstT, cancelPlan)
			if cc.useCopy && runErr == nil {
				want := cc.dstRef
				if want == "" {
					want = "srcref"
				}
				got, rerr := dstT.Resolve(ctx, want)
				ans := "unresolved"
				if rerr == nil {
					ans = fmt.Sprint(cc.u.IDOf(got))
				}
				sc.Op(ans, "cp tagged root=%d", cc.roots[0])
			}
			runs++
			traces++
			if r.maxSrcInFlight > maxSrc {
				maxSrc = r.maxSrcInFlight
			}
			if r.maxDstInFl > maxDst {
				maxDst = r.maxDstInFl
			}
			if mode == "C04" && len(faults) > 0 && atomic.LoadInt32(&r.fired) > 0 {
				v := "that-error"
				if runErr == nil {
					v = "nil"
				} else if !errors.Is(runErr, errInjected) {
					v = "another-error"
				}
				sc.Op(v, "cp cberr op=%s", faults[0].op)
				sc.Count("callback-error:" + faults[0].op)
			}
			if mode == "C04" {
				over := "ok"
				if int(r.maxSrcInFlight) > cc.conc || int(r.maxDstInFl) > cc.conc {
					over = fmt.Sprintf("over(src=%d,dst=%d,conc=%d)", r.maxSrcInFlight, r.maxDstInFl, cc.conc)
				}
				sc.Op(over, "cp gauge conc=%d", cc.conc)
				dup := "ok"
				for n, c := range r.pushes {
					if c > 1 {
						dup = fmt.Sprintf("push-twice(%d)", n)
					}
				}
				for n, c := range r.fetches {
					if c > 1 {
						dup = fmt.Sprintf("fetch-twice(%d)", n)
					}
				}
				sc.Op(dup, "cp once")
				ratio := float64(max(r.maxSrcInFlight, r.maxDstInFl)) / float64(cc.conc)
				if ratio > maxRatio {
					maxRatio = ratio
				}
			}
		}
		doRun(cc.faults, fmtInts(cc.pre), cc.cancel)
		if len(cc.faults) > 0 {
			// retry without faults on what was left behind
			doRun(nil, "keep", false)
		}
	}

	// removeForeignLayers against the Lean compaction loop: every list over {foreign, ordinary}
	// up to length 6, and longer random ones
	if mode == "C01" {
		sc.Case("remove-foreign-layers")
		sc.NonTrivial()
		foreignMT := []string{ocispec.MediaTypeImageLayerNonDistributable, ocispec.MediaTypeImageLayerNonDistributableGzip, ocispec.MediaTypeImageLayerNonDistributableZstd, docker.MediaTypeForeignLayer}
		emit := func(flags []bool) {
			var ds []ocispec.Descriptor
			var items []string
			for k, f := range flags {
				d := descOf(ocispec.MediaTypeImageLayer, []byte(fmt.Sprintf("rfl-%d", k)))
				c := "L"
				if f {
					d.MediaType = foreignMT[k%len(foreignMT)]
					c = "f"
				}
				d.Annotations = map[string]string{"id": fmt.Sprint(k + 1)}
				ds = append(ds, d)
				items = append(items, fmt.Sprintf("%d%s", k+1, c))
			}
			var kept []string
			for _, d := range oras.VerifRemoveForeignLayers(ds) {
				kept = append(kept, d.Annotations["id"])
			}
			l, a := "-", "-"
			if len(items) > 0 {
				l = strings.Join(items, ",")
			}
			if len(kept) > 0 {
				a = strings.Join(kept, ",")
			}
			sc.Op(a, "cm foreign l=%s", l)
			runs++
		}
		for n := 0; n <= 6; n++ {
			for bits := 0; bits < 1<<n; bits++ {
				flags := make([]bool, n)
				for k := range flags {
					flags[k] = bits>>k&1 == 1
				}
				emit(flags)
			}
		}
		for k := 0; k < 60; k++ {
			flags := make([]bool, 7+rng.Intn(20))
			for i := range flags {
				flags[i] = rng.Intn(3) == 0
			}
			emit(flags)
		}
	}
	caseNo := 0
	// corpus first: the F10 witness
	if mode == "C01" {
		u, root := f10Universe()
		exec(copyCase{u: u, roots: []int{root}, dst: "oci", conc: 1, label: "corpus-F10-two-media-types"}, caseNo)
		caseNo++
		exec(copyCase{u: u, roots: []int{root}, dst: "memory", conc: 1, label: "corpus-F10-memory-dst"}, caseNo)
		caseNo++
		// several foreign (non-distributable) layers interleaved with ordinary ones: the ordinary
		// ones are all copied, whatever their position
		for vi, pattern := range []string{"fLfL", "LfLfL", "ffL", "fLLf", "LffLfL", "ff"} {
			u := NewUniverse()
			cfgB := u.AddBlob(ocispec.MediaTypeImageConfig, []byte(fmt.Sprintf("{\"fl\":%d}", vi)))
			var layers []int
			for k, ch := range pattern {
				if ch == 'f' {
					mt := []string{ocispec.MediaTypeImageLayerNonDistributable, ocispec.MediaTypeImageLayerNonDistributableGzip, docker.MediaTypeForeignLayer}[k%3]
					layers = append(layers, u.AddBlob(mt, []byte(fmt.Sprintf("foreign-%d-%d", vi, k))).ID)
				} else {
					layers = append(layers, u.AddBlob(ocispec.MediaTypeImageLayer, []byte(fmt.Sprintf("ordinary-%d-%d", vi, k))).ID)
				}
			}
			m := u.AddImage(KOCIManifest, cfgB.ID, layers, -1, "", map[string]string{"fl": pattern})
			for _, dk := range []dstKind{"memory", "oci"} {
				exec(copyCase{u: u, roots: []int{m.ID}, dst: dk, conc: 1 + vi%3, label: "corpus-foreign-interleaved"}, caseNo)
				caseNo++
			}
		}
	}
	if mode == "C02" || mode == "C04" {
		// the same bytes under two media types (a config and a layer that are both "{}", a
		// manifest also listed as an opaque blob) into a destination that tells them apart:
		// they are two nodes, each copied, each waited for
		for vi := 0; vi < 4; vi++ {
			u := NewUniverse()
			var root int
			if vi%2 == 0 {
				cfgB := u.AddBlob(ocispec.MediaTypeEmptyJSON, []byte("{}"))
				alias := u.AddBlob("application/vnd.verif.attestation+json", []byte("{}"))
				other := u.AddBlob(ocispec.MediaTypeImageLayer, []byte(fmt.Sprintf("alias-other-%d", vi)))
				root = u.AddImage(KOCIManifest, cfgB.ID, []int{other.ID, alias.ID}, -1, "", map[string]string{"alias": fmt.Sprint(vi)}).ID
			} else {
				u, root = f10Universe()
			}
			exec(copyCase{u: u, roots: []int{root}, dst: "memory", conc: 1 + vi, label: "corpus-same-bytes-two-media-types"}, caseNo)
			caseNo++
		}
	}
	n := 150
	if tier == "thorough" {
		n = 3000
	}
	for i := 0; i < n; i++ {
		cc := genCopyCase(rng, mode, tier == "thorough" && i%10 == 0)
		switch mode {
		case "C01":
			if i%5 == 4 {
				// the destination can mount blobs from other repositories and MountFrom names one
				// or two of them for every blob; whether a mount succeeds varies with the blob
				// (when none does, the last candidate falls back to a plain copy)
				cc.mount = true
				cc.label = "copygraph-mount-" + string(cc.dst)
			}
			if cc.dst == "oci" && i%4 == 1 {
				// a file-system fault inside the destination's Push of one not yet present blob
				var cands []int
				pre := map[int]bool{}
				for _, p := range cc.pre {
					pre[p] = true
				}
				for _, k := range downClosure(cc.u, cc.roots) {
					nd := cc.u.Nodes[k]
					shared := false
					for _, m := range cc.u.Nodes {
						if m.ID != k && m.Desc.Digest == nd.Desc.Digest {
							shared = true
						}
					}
					if !nd.Kind.IsManifest() && nd.Kind != KForeign && !pre[k] && !shared && len(nd.Bytes) > 0 {
						cands = append(cands, k)
					}
				}
				// (universes with the same bytes under two media types are finding F10's
				// territory on a digest-keyed destination: no further fault there)
				seen := map[string]bool{}
				for _, m := range cc.u.Nodes {
					if seen[string(m.Desc.Digest)] {
						cands = nil
					}
					seen[string(m.Desc.Digest)] = true
				}
				if len(cands) > 0 {
					cc.fsFault = cands[rng.Intn(len(cands))] + 1
					cc.label = "fsfault-oci"
				}
			}
			if i%3 == 0 {
				cc.useCopy = true
				cc.label = "copy-" + string(cc.dst)
				if rng.Intn(2) == 0 {
					cc.dstRef = "dst-tag"
				}
				if rng.Intn(3) == 0 {
					cc.pre = downClosure(cc.u, cc.roots) // root already present: tag through OnCopySkipped
				}
			}
		case "C02":
			// a fault on a node that the run will need: (op,node) over the root's closure
			needed := downClosure(cc.u, cc.roots)
			ops := []string{"exists", "fetch", "push", "succs", "preCopy", "postCopy", "skipped"}
			nf := 1
			if rng.Intn(4) == 0 {
				nf = 2
			}
			for k := 0; k < nf; k++ {
				f := fault{op: ops[rng.Intn(len(ops))], node: needed[rng.Intn(len(needed))], mode: "before"}
				if f.op == "push" && rng.Intn(2) == 0 {
					f.mode = "after"
				}
				if rng.Intn(6) == 0 {
					f.mode = "cancel"
					cc.cancel = true
				}
				cc.faults = append(cc.faults, f)
			}
			cc.label = "faulty-" + string(cc.dst)
			if i%3 == 2 {
				cc.mount = true
				cc.label = "faulty-mount-" + string(cc.dst)
				// callbacks of blobs are where the mount path differs
				needed := downClosure(cc.u, cc.roots)
				var blobs []int
				for _, k := range needed {
					if !cc.u.Nodes[k].Kind.IsManifest() {
						blobs = append(blobs, k)
					}
				}
				if len(blobs) > 0 {
					cc.faults = []fault{{op: []string{"postCopy", "preCopy", "mounted", "push", "fetch", "mount", "mount"}[rng.Intn(7)], node: blobs[rng.Intn(len(blobs))], mode: "before"}}
					cc.cancel = false
				}
			}
		case "C04":
			cc.mount = i%3 == 1
			if i%2 == 1 {
				// a callback returns an error: the copy must abort with that error
				needed := downClosure(cc.u, cc.roots)
				nd := needed[rng.Intn(len(needed))]
				ops := []string{"preCopy", "postCopy", "skipped"}
				if cc.mount {
					// prefer a blob, and the callback its mount outcome will reach
					var blobs []int
					for _, k := range needed {
						if !cc.u.Nodes[k].Kind.IsManifest() && cc.u.Nodes[k].Kind != KForeign {
							blobs = append(blobs, k)
						}
					}
					if len(blobs) > 0 {
						nd = blobs[rng.Intn(len(blobs))]
						if (int64(nd)*7+seed+int64(caseNo))%3 == 0 {
							ops = []string{"mounted"}
						} else {
							ops = []string{"postCopy", "preCopy"}
						}
					}
				}
				cc.pre = nil // nothing pre-populated: the callback is reached
				cc.faults = []fault{{op: ops[rng.Intn(len(ops))], node: nd, mode: "before"}}
			}
			cc.delay = time.Duration(100+rng.Intn(400)) * time.Microsecond
			cc.label = "gauged-" + string(cc.dst)
		}
		// hold-and-observe: keep one child's Push open for a while
		if rng.Intn(3) == 0 {
			cl := downClosure(cc.u, cc.roots)
			cc.hold = map[int]time.Duration{cl[rng.Intn(len(cl))]: 3 * time.Millisecond}
		}
		exec(cc, caseNo)
		caseNo++
	}
	// C02: a failing node shared by several parents that sit in different errgroups: the
	// other parents must not proceed as if the shared node had completed.  Whether a
	// defective wake-up wins the race against the cancellation is a matter of scheduling,
	// so the scenario is repeated many times.
	if mode == "C02" {
		reps := 300
		if tier == "thorough" {
			reps = 6000
		}
		for i := 0; i < reps; i++ {
			u := NewUniverse()
			cfgB := u.AddBlob(ocispec.MediaTypeImageConfig, []byte(fmt.Sprintf("{\"i\":%d}", i)))
			shared := u.AddBlob(ocispec.MediaTypeImageLayer, []byte(fmt.Sprintf("shared-%d", i)))
			var parents []int
			np := 2 + rng.Intn(4)
			for k := 0; k < np; k++ {
				own := u.AddBlob(ocispec.MediaTypeImageLayer, []byte(fmt.Sprintf("own-%d-%d", i, k)))
				m := u.AddImage(KOCIManifest, cfgB.ID, []int{own.ID, shared.ID}, -1, "", map[string]string{"k": fmt.Sprint(k)})
				parents = append(parents, m.ID)
			}
			// nest half of the parents one level deeper so that they sit in another group
			var top []int
			for k, pid := range parents {
				if k%2 == 1 {
					top = append(top, u.AddIndex(KOCIIndex, []int{pid}, -1, "", map[string]string{"w": fmt.Sprint(k)}).ID)
				} else {
					top = append(top, pid)
				}
			}
			root := u.AddIndex(KOCIIndex, top, -1, "", map[string]string{"root": fmt.Sprint(i)})
			op := []string{"push", "fetch", "preCopy", "postCopy", "exists"}[rng.Intn(5)]
			cc := copyCase{u: u, roots: []int{root.ID}, dst: []dstKind{"memory", "oci"}[rng.Intn(2)], conc: 2 + rng.Intn(4),
				faults: []fault{{op: op, node: shared.ID, mode: "before"}}, label: "shared-failing-kid"}
			exec(cc, caseNo)
			caseNo++
		}
	}
	// C04: a media type of the caller's own as non-leaf node (custom FindSuccessors reading
	// through the fetcher it is given): such nodes too are fetched from the source once
	if mode == "C04" {
		for vi := 0; vi < 6; vi++ {
			u := NewUniverse()
			var leaves []int
			for k := 0; k < 3+vi%3; k++ {
				leaves = append(leaves, u.AddBlob(ocispec.MediaTypeImageLayer, []byte(fmt.Sprintf("bundle-leaf-%d-%d", vi, k))).ID)
			}
			inner := u.AddBundle(leaves[:2], fmt.Sprintf("inner-%d", vi))
			other := u.AddBundle(leaves[1:], fmt.Sprintf("other-%d", vi))
			root := u.AddBundle([]int{inner.ID, other.ID, leaves[0]}, fmt.Sprintf("root-%d", vi))
			cc := copyCase{u: u, roots: []int{root.ID}, dst: []dstKind{"memory", "oci"}[vi%2], conc: 1 + vi%3, useCopy: vi >= 3, label: "custom-non-leaf-type"}
			exec(cc, caseNo)
			caseNo++
		}
	}
	// C04: Copy (by reference) of a root that the destination already holds, with the
	// OnCopySkipped callback failing for that root: the copy ends with that error, for every
	// kind of destination
	if mode == "C04" {
		for vi := 0; vi < 6; vi++ {
			u := GenDAG(rng, GenCfg{Blobs: 2, Manifests: 2 + vi%2, Indexes: vi%2 == 0})
			root := -1
			for k := len(u.Nodes) - 1; k >= 0; k-- {
				if u.Nodes[k].Kind.IsManifest() {
					root = k
					break
				}
			}
			if root < 0 {
				continue
			}
			cc := copyCase{u: u, roots: []int{root}, dst: []dstKind{"memory", "oci", "file"}[vi%3], conc: 1 + vi%2, useCopy: true,
				pre: downClosure(u, []int{root}), faults: []fault{{op: "skipped", node: root, mode: "before"}}, label: "present-root-skipped-callback-fails"}
			if vi >= 3 {
				cc.dstRef = "dst-tag"
			}
			exec(cc, caseNo)
			caseNo++
		}
	}
	// C04: the same shape with a callback of the shared node returning an error while the
	// parents' other children are still being pushed (held open): no parent may be announced
	// (PreCopy / PostCopy) as if the shared child had been settled
	if mode == "C04" {
		reps := 24
		if tier == "thorough" {
			reps = 600
		}
		for i := 0; i < reps; i++ {
			u := NewUniverse()
			cfgB := u.AddBlob(ocispec.MediaTypeImageConfig, []byte(fmt.Sprintf("{\"c4\":%d}", i)))
			shared := u.AddBlob(ocispec.MediaTypeImageLayer, []byte(fmt.Sprintf("c4-shared-%d", i)))
			hold := map[int]time.Duration{}
			var parents []int
			np := 2 + rng.Intn(3)
			for k := 0; k < np; k++ {
				own := u.AddBlob(ocispec.MediaTypeImageLayer, []byte(fmt.Sprintf("c4-own-%d-%d", i, k)))
				hold[own.ID] = 4 * time.Millisecond
				m := u.AddImage(KOCIManifest, cfgB.ID, []int{shared.ID, own.ID}, -1, "", map[string]string{"k": fmt.Sprint(k)})
				parents = append(parents, m.ID)
			}
			var top []int
			for k, pid := range parents {
				if k%2 == 1 {
					top = append(top, u.AddIndex(KOCIIndex, []int{pid}, -1, "", map[string]string{"w": fmt.Sprint(k)}).ID)
				} else {
					top = append(top, pid)
				}
			}
			root := u.AddIndex(KOCIIndex, top, -1, "", map[string]string{"c4root": fmt.Sprint(i)})
			op := []string{"preCopy", "postCopy", "push"}[i%3]
			cc := copyCase{u: u, roots: []int{root.ID}, dst: []dstKind{"memory", "oci"}[i%2], conc: 3 + rng.Intn(4),
				faults: []fault{{op: op, node: shared.ID, mode: "before"}}, hold: hold, label: "shared-failing-kid-held"}
			exec(cc, caseNo)
			caseNo++
		}
	}
	// C02: the mount of a blob fails at the first of two candidate repositories, before any
	// side effect: the copy reports the error, the destination stays closed, a retry completes
	if mode == "C02" {
		reps := 8
		if tier == "thorough" {
			reps = 120
		}
		for i := 0; i < reps; i++ {
			u := NewUniverse()
			cfgB := u.AddBlob(ocispec.MediaTypeImageConfig, []byte(fmt.Sprintf("{\"mf\":%d}", i))) // id 0: one candidate
			l1 := u.AddBlob(ocispec.MediaTypeImageLayer, []byte(fmt.Sprintf("mf-l1-%d", i)))       // id 1: two candidates
			l2 := u.AddBlob(ocispec.MediaTypeImageLayer, []byte(fmt.Sprintf("mf-l2-%d", i)))       // id 2: one
			l3 := u.AddBlob(ocispec.MediaTypeImageLayer, []byte(fmt.Sprintf("mf-l3-%d", i)))       // id 3: two
			root := u.AddImage(KOCIManifest, cfgB.ID, []int{l1.ID, l2.ID, l3.ID}, -1, "", map[string]string{"mf": fmt.Sprint(i)})
			victim := []int{l1.ID, l3.ID, cfgB.ID, l2.ID}[i%4]
			cc := copyCase{u: u, roots: []int{root.ID}, dst: []dstKind{"memory", "oci"}[i%2], conc: 1 + rng.Intn(3), mount: true,
				faults: []fault{{op: "mount", node: victim, mode: "before"}}, label: "mount-fault-first-candidate"}
			exec(cc, caseNo)
			caseNo++
		}
	}
	// C02: ExtendedCopyGraph from a node shared by several roots, with a fault on that node:
	// the roots are copied by sibling tasks; the failure of one must end the others (no hang),
	// surface as an error, leave the destination link-closed, and a retry completes
	if mode == "C02" {
		reps := 40
		if tier == "thorough" {
			reps = 800
		}
		for i := 0; i < reps; i++ {
			u := NewUniverse()
			cfgB := u.AddBlob(ocispec.MediaTypeImageConfig, []byte(fmt.Sprintf("{\"xi\":%d}", i)))
			shared := u.AddBlob(ocispec.MediaTypeImageLayer, []byte(fmt.Sprintf("xshared-%d", i)))
			nroots := 2 + rng.Intn(3)
			for k := 0; k < nroots; k++ {
				own := u.AddBlob(ocispec.MediaTypeImageLayer, []byte(fmt.Sprintf("xown-%d-%d", i, k)))
				u.AddImage(KOCIManifest, cfgB.ID, []int{own.ID, shared.ID}, -1, "", map[string]string{"k": fmt.Sprint(k)})
			}
			sc.Case("extended-shared-fault")
			sc.NonTrivial()
			src := memory.New()
			all := make([]int, len(u.Nodes))
			for j := range all {
				all[j] = j
			}
			pushAll(ctx, src, u, all)
			dstT := memory.New()
			op := []string{"push", "fetch", "exists", "preCopy", "preds"}[rng.Intn(5)]
			if i%4 != 0 {
				op = "preds"
			}
			run := func(faults []fault) (string, *copyRun) {
				r := newCopyRun(u, seed+int64(i))
				r.faults = faults
				r.maxDelay = time.Duration(100+rng.Intn(300)) * time.Microsecond
				opts := oras.ExtendedCopyGraphOptions{CopyGraphOptions: r.options(2 + rng.Intn(3))}
				switch i % 4 {
				case 1:
					// filters that keep everything, chained in both orders: a failing predecessor
					// lookup beneath them is still a failure
					opts.FilterAnnotation("k", nil)
					opts.FilterArtifactType(regexp.MustCompile(".*"))
				case 3:
					opts.FilterArtifactType(regexp.MustCompile(".*"))
					opts.FilterAnnotation("k", regexp.MustCompile(".*"))
				}
				isrc := &instrGraphSrc{instrSrc: instrSrc{inner: src, r: r}, g: src}
				idst := &instrTarget{instrDst: instrDst{inner: dstT, r: r}, t: dstT}
				done := make(chan error, 1)
				var xsrc content.ReadOnlyGraphStorage = isrc
				if i%4 == 2 {
					// a source that lists referrers itself (as a remote repository does), with an
					// annotation filter on top: a failing listing is a failure of the copy
					xsrc = &listerSrc{isrc}
					opts.FilterAnnotation("k", nil)
				}
				go func() { done <- oras.ExtendedCopyGraph(ctx, xsrc, idst, shared.Desc, opts) }()
				select {
				case err := <-done:
					if err != nil {
						return "err", r
					}
					return "ok", r
				case <-time.After(15 * time.Second):
					return "HANG", r
				}
			}
			res, r1 := run([]fault{{op: op, node: shared.ID, mode: "before"}})
			fired := atomic.LoadInt32(&r1.fired) > 0
			sc.Op(res, "cp xend fired=%d", btoi(fired))
			sc.Op(closedTruth(ctx, dstT, u), "cp xclosed")
			if res != "HANG" {
				res2, _ := run(nil)
				sc.Op(res2, "cp xend fired=0")
				sc.Op(presentSet(ctx, dstT, u), "cp xpresent all=%s", fmtSet(all))
			}
			runs++
			sc.Count("extended-shared-fault:" + op)
		}
	}
	// C02: exhaustive single faults on small graphs
	if mode == "C02" {
		graphs := 2
		if tier == "thorough" {
			graphs = 25
		}
		plans := 0
		for g := 0; g < graphs; g++ {
			base := genCopyCase(rng, mode, false)
			needed := downClosure(base.u, base.roots)
			if len(needed) > 12 {
				continue
			}
			for _, nd := range needed {
				for _, op := range []string{"exists", "fetch", "push", "succs", "preCopy", "postCopy"} {
					for _, m := range []string{"before", "after", "cancel"} {
						if m == "after" && op != "push" {
							continue
						}
						cc := base
						cc.faults = []fault{{op: op, node: nd, mode: m}}
						cc.cancel = m == "cancel"
						cc.conc = 1 + plans%3
						cc.label = "single-fault-" + string(cc.dst)
						exec(cc, caseNo)
						caseNo++
						plans++
					}
				}
			}
		}
		sc.Extra["exhaustive_single_fault_plans"] = plans
	}
	// C01: what Copy does to the root (hooks, push, the one tagging call and its reference),
	// for destinations that tag and destinations that push by reference, root present or not
	if mode == "C01" {
		reps := 40
		if tier == "thorough" {
			reps = 800
		}
		for i := 0; i < reps; i++ {
			u := GenDAG(rng, GenCfg{Blobs: 1 + rng.Intn(3), Manifests: 1 + rng.Intn(4), Subjects: true, Indexes: true})
			root := len(u.Nodes) - 1
			for k := len(u.Nodes) - 1; k >= 0; k-- {
				if u.Nodes[k].Kind.IsManifest() {
					root = k
					break
				}
			}
			refPusher, present := i%2 == 1, (i/2)%2 == 1
			dstRef := []string{"", "dst-tag"}[(i/4)%2]
			sc.Case("copy-rootflow")
			sc.NonTrivial()
			src := memory.New()
			all := make([]int, len(u.Nodes))
			for j := range all {
				all[j] = j
			}
			pushAll(ctx, src, u, all)
			if err := src.Tag(ctx, u.Nodes[root].Desc, "srcref"); err != nil {
				panic(err)
			}
			dstT := memory.New()
			if present {
				pushAll(ctx, dstT, u, downClosure(u, []int{root}))
			}
			r := newCopyRun(u, seed+int64(i))
			it := &instrTarget{instrDst: instrDst{inner: dstT, r: r}, t: dstT}
			var dst oras.Target = it
			if refPusher {
				dst = &instrRefTarget{instrTarget: it}
			}
			opts := oras.CopyOptions{CopyGraphOptions: r.options(1 + rng.Intn(3))}
			got, err := oras.Copy(ctx, src, "srcref", dst, dstRef, opts)
			if err != nil {
				panic(fmt.Sprintf("Copy: %v", err))
			}
			want := dstRef
			if want == "" {
				want = "srcref"
			}
			var flow []string
			for _, e := range r.events {
				var name string
				var n int
				fmt.Sscanf(e, "%s %d", &name, &n)
				if n != root {
					continue
				}
				switch name {
				case "existsT", "existsF":
					flow = append(flow, "exists")
				case "pushOk":
					flow = append(flow, "push")
				case "skipped", "preCopy", "postCopy":
					flow = append(flow, name)
				}
				if strings.HasPrefix(name, "tag:") || strings.HasPrefix(name, "pushRef:") {
					flow = append(flow, name)
				}
			}
			sc.Op(strings.Join(flow, ","), "cp rootflow refpusher=%d present=%d ref=%s", btoi(refPusher), btoi(present), want)
			ans := "unresolved"
			if d, rerr := dstT.Resolve(ctx, want); rerr == nil {
				ans = fmt.Sprint(u.IDOf(d))
			}
			if u.IDOf(got) != root {
				ans = "returned-other-root"
			}
			sc.Op(ans, "cp tagged root=%d", root)
			runs++
			sc.Count(fmt.Sprintf("rootflow:refpusher=%v,present=%v", refPusher, present))
		}
	}
	// C01 end to end over every pairing of source and destination kinds - memory, OCI layout,
	// file store, and a real registry client against the in-process registry of C13 (resolveRoot
	// through FetchReference, the root pushed by reference, blobs through the two-step upload).
	// Judged on the end state only.
	if mode == "C01" {
		kinds := []string{"memory", "oci", "file", "remote"}
		reps := 32
		if tier == "thorough" {
			reps = 480
		}
		for i := 0; i < reps; i++ {
			u := GenDAG(rng, GenCfg{Blobs: 1 + rng.Intn(4), Manifests: 1 + rng.Intn(5), Subjects: true, Indexes: true, EmptyBlob: rng.Intn(2) == 0})
			root := -1
			for k := len(u.Nodes) - 1; k >= 0; k-- {
				if u.Nodes[k].Kind.IsManifest() {
					root = k
					break
				}
			}
			if root < 0 {
				continue
			}
			srcKind, dstKind := kinds[i%4], kinds[(i/4)%4]
			if srcKind == "memory" && dstKind != "remote" {
				srcKind = "remote" // memory sources against local destinations are what the traced runs cover
			}
			sc.Case("copy-pairing")
			sc.NonTrivial()
			reg := newFakeRegistry(regProfile{ReferrersAPI: i%2 == 0, DigestHeaders: true, Ranges: true, Mount: true})
			mkRepo := func(name string) *remote.Repository {
				r, err := remote.NewRepository(reg.Host() + "/" + name)
				if err != nil {
					panic(err)
				}
				r.PlainHTTP = true
				return r
			}
			closure := downClosure(u, []int{root})
			var cleanups []func()
			mkStore := func(kind, name string) oras.Target {
				dir := filepath.Join(tmp, fmt.Sprintf("pair%d-%s", i, name))
				switch kind {
				case "memory":
					return memory.New()
				case "oci":
					o, err := oci.New(dir)
					if err != nil {
						panic(err)
					}
					cleanups = append(cleanups, func() { os.RemoveAll(dir) })
					return o
				case "file":
					f, err := file.New(dir)
					if err != nil {
						panic(err)
					}
					cleanups = append(cleanups, func() { f.Close(); os.RemoveAll(dir) })
					return f
				}
				return mkRepo(name + "/repo")
			}
			src := mkStore(srcKind, "src")
			// children first
			order := append([]int(nil), closure...)
			sort.Ints(order)
			for _, k := range order {
				n := u.Nodes[k]
				if n.Kind == KForeign {
					continue
				}
				if err := src.Push(ctx, n.Desc, bytes.NewReader(n.Bytes)); err != nil && !errors.Is(err, errdef.ErrAlreadyExists) {
					panic(fmt.Sprintf("seed push %d into %s: %v", k, srcKind, err))
				}
			}
			if err := src.Tag(ctx, u.Nodes[root].Desc, "srcref"); err != nil {
				panic(err)
			}
			dst := mkStore(dstKind, "dst")
			dstRef := []string{"", "v2"}[(i/3)%2]
			got, err := oras.Copy(ctx, src, "srcref", dst, dstRef, oras.CopyOptions{CopyGraphOptions: oras.CopyGraphOptions{Concurrency: 1 + rng.Intn(3)}})
			res := "ok"
			if err != nil {
				res = "err:" + strings.ReplaceAll(err.Error(), " ", "_")
			} else if got.Digest != u.Nodes[root].Desc.Digest || got.MediaType != u.Nodes[root].Desc.MediaType {
				res = "returned-other-root"
			}
			// what must be there: by digest for the digest-keyed destinations
			var want []int
			for _, k := range closure {
				if u.Nodes[k].Kind != KForeign {
					want = append(want, k)
				}
			}
			sc.Op(res, "cp remote res src=%s dst=%s", srcKind, dstKind)
			sc.Op(presentByDigest(ctx, dst, u, want), "cp xpresent all=%s", fmtSet(want))
			ref := dstRef
			if ref == "" {
				ref = "srcref"
			}
			tagged := "unresolved"
			if d, rerr := dst.Resolve(ctx, ref); rerr == nil && d.Digest == u.Nodes[root].Desc.Digest {
				tagged = fmt.Sprint(root)
			} else if rerr == nil {
				tagged = "other:" + d.Digest.Encoded()[:8]
			}
			sc.Op(tagged, "cp tagged root=%d", root)
			runs++
			sc.Count(fmt.Sprintf("copy-pairing:src=%s,dst=%s", srcKind, dstKind))
			for _, f := range cleanups {
				f()
			}
			reg.Close()
		}
	}
	// C02 with no callbacks at all: a Copy that fails on one push, then the same Copy again with
	// nothing in its way (default options, no OnCopySkipped): the retry completes and tags
	if mode == "C02" {
		reps := 20
		if tier == "thorough" {
			reps = 400
		}
		for i := 0; i < reps; i++ {
			u := GenDAG(rng, GenCfg{Blobs: 2 + rng.Intn(3), Manifests: 1 + rng.Intn(4), Indexes: true})
			root := -1
			for k := len(u.Nodes) - 1; k >= 0; k-- {
				if u.Nodes[k].Kind.IsManifest() {
					root = k
					break
				}
			}
			if root < 0 {
				continue
			}
			closure := downClosure(u, []int{root})
			var stored []int
			for _, k := range closure {
				if u.Nodes[k].Kind != KForeign {
					stored = append(stored, k)
				}
			}
			if len(stored) < 2 {
				continue
			}
			sc.Case("bare-retry")
			sc.NonTrivial()
			src := memory.New()
			pushAll(ctx, src, u, closure)
			src.Tag(ctx, u.Nodes[root].Desc, "srcref")
			dstT := memory.New()
			// the fault: the push of one node other than the first one copied
			victim := stored[rng.Intn(len(stored))]
			fd := &failOnceDst{Target: dstT, dig: u.Nodes[victim].Desc.Digest}
			conc := 1 + rng.Intn(3)
			opts := oras.CopyOptions{CopyGraphOptions: oras.CopyGraphOptions{Concurrency: conc}}
			_, err1 := oras.Copy(ctx, src, "srcref", fd, "v", opts)
			first := "err"
			if err1 == nil {
				first = "ok"
			}
			_, err2 := oras.Copy(ctx, src, "srcref", dstT, "v", opts)
			res := "ok"
			if err2 != nil {
				res = "retry-failed:" + strings.ReplaceAll(err2.Error(), " ", "_")
			} else if got := presentSet(ctx, dstT, u); got != fmtSet(stored) {
				res = "retry-incomplete(" + got + ")"
			} else if d, rerr := dstT.Resolve(ctx, "v"); rerr != nil || u.IDOf(ocispec.Descriptor{MediaType: d.MediaType, Digest: d.Digest, Size: d.Size}) != root {
				res = "retry-untagged"
			}
			verdict := "fails-or-complete"
			if first != "err" || res != "ok" {
				verdict = "first=" + first + ",retry=" + res
			}
			sc.Op(verdict, "cp cancelled at=bare-retry first=%s retry=%s", first, strings.SplitN(res, ":", 2)[0])
			runs++
			sc.Count("bare-retry:" + strings.SplitN(res, ":", 2)[0])
		}
		// the same over the three local destinations, with the fault inside the transfer: the
		// source hands out a reader that breaks off half way (once), or the pushed bytes are
		// not the described ones (once).  The first Copy fails; the same Copy again, with
		// nothing in its way and into the same destination, completes and tags.
		for vi := 0; vi < 12; vi++ {
			dstKind := []string{"file", "memory", "oci"}[vi%3]
			fault := []string{"read-breaks-off", "other-bytes"}[(vi/3)%2]
			sc.Case("transfer-fault-retry")
			sc.NonTrivial()
			src := memory.New()
			cfg := []byte(fmt.Sprintf("{\"tfr\":%d}", vi))
			cd := descOf(ocispec.MediaTypeImageConfig, cfg)
			m := ocispec.Manifest{MediaType: ocispec.MediaTypeImageManifest, Config: cd}
			m.SchemaVersion = 2
			bodies := map[digest.Digest][]byte{cd.Digest: cfg}
			src.Push(ctx, cd, bytes.NewReader(cfg))
			nl := 1 + vi%3
			for k := 0; k < nl; k++ {
				data := bytes.Repeat([]byte(fmt.Sprintf("layer-%d-%d;", vi, k)), 400)
				ld := descOf(ocispec.MediaTypeImageLayer, data)
				src.Push(ctx, ld, bytes.NewReader(data))
				if k != 1 {
					ld.Annotations = map[string]string{ocispec.AnnotationTitle: fmt.Sprintf("file-%d.bin", k)}
				}
				m.Layers = append(m.Layers, ld)
				bodies[ld.Digest] = data
			}
			mb, _ := json.Marshal(m)
			md := descOf(ocispec.MediaTypeImageManifest, mb)
			bodies[md.Digest] = mb
			if err := src.Push(ctx, md, bytes.NewReader(mb)); err != nil {
				panic(err)
			}
			src.Tag(ctx, md, "srcref")
			dir := filepath.Join(tmp, fmt.Sprintf("tfr%d", vi))
			var dstT oras.Target
			switch dstKind {
			case "file":
				fsd, err := file.New(dir)
				if err != nil {
					panic(err)
				}
				defer fsd.Close()
				dstT = fsd
			case "oci":
				od, err := oci.New(dir)
				if err != nil {
					panic(err)
				}
				dstT = od
			default:
				dstT = memory.New()
			}
			victim := m.Layers[vi%nl]
			fs := &breakingSrc{Target: src, dig: victim.Digest, how: fault}
			conc := 1 + vi%3
			opts := oras.CopyOptions{CopyGraphOptions: oras.CopyGraphOptions{Concurrency: conc}}
			_, err1 := oras.Copy(ctx, fs, "srcref", dstT, "v", opts)
			first := "err"
			if err1 == nil {
				first = "ok"
			}
			_, err2 := oras.Copy(ctx, src, "srcref", dstT, "v", opts)
			res := "ok"
			if err2 != nil {
				res = "retry-failed:" + strings.ReplaceAll(err2.Error(), " ", "_")
			} else {
				for _, d := range append([]ocispec.Descriptor{md, cd}, m.Layers...) {
					rc, ferr := dstT.Fetch(ctx, d)
					if ferr != nil {
						res = "retry-incomplete(" + d.MediaType + ")"
						break
					}
					b, _ := io.ReadAll(rc)
					rc.Close()
					if !bytes.Equal(b, bodies[d.Digest]) {
						res = "retry-other-bytes(" + d.MediaType + ")"
						break
					}
				}
				if _, rerr := dstT.Resolve(ctx, "v"); rerr != nil && res == "ok" {
					res = "retry-untagged"
				}
			}
			verdict := "fails-or-complete"
			if first != "err" || res != "ok" {
				verdict = "first=" + first + ",retry=" + res
			}
			sc.Op(verdict, "cp cancelled at=transfer-fault dst=%s fault=%s conc=%d first=%s retry=%s", dstKind, fault, conc, first, strings.SplitN(res, ":", 2)[0])
			os.RemoveAll(dir)
			runs++
			sc.Count("transfer-fault-retry:" + dstKind + ":" + fault)
		}
	}
	// C01 under cancellation: the context is cancelled before the call, or while the k-th
	// source fetch is under way.  Whatever happens, a nil error means the whole graph is there
	// and the reference is tagged.
	if mode == "C01" {
		reps := 30
		if tier == "thorough" {
			reps = 600
		}
		for i := 0; i < reps; i++ {
			u := GenDAG(rng, GenCfg{Blobs: 1 + rng.Intn(4), Manifests: 1 + rng.Intn(4), Indexes: true})
			root := -1
			for k := len(u.Nodes) - 1; k >= 0; k-- {
				if u.Nodes[k].Kind.IsManifest() {
					root = k
					break
				}
			}
			if root < 0 {
				continue
			}
			sc.Case("copy-cancelled")
			sc.NonTrivial()
			closure := downClosure(u, []int{root})
			src := memory.New()
			pushAll(ctx, src, u, closure)
			src.Tag(ctx, u.Nodes[root].Desc, "srcref")
			dstT := memory.New()
			cctx, cancel := context.WithCancel(ctx)
			at := rng.Intn(4) - 1 // -1: before the call
			if i%3 == 0 {
				at = -1
			}
			r := newCopyRun(u, seed+int64(i))
			var fetchNo int32
			r.onAnyFetch = func() {
				if int(atomic.AddInt32(&fetchNo, 1))-1 == at {
					cancel()
				}
			}
			if at < 0 {
				cancel()
			}
			isrc := &srcTarget{instrSrc: instrSrc{inner: src, r: r}, t: src}
			var err error
			if i%2 == 0 {
				_, err = oras.Copy(cctx, isrc, "srcref", dstT, "v", oras.CopyOptions{CopyGraphOptions: oras.CopyGraphOptions{Concurrency: 1 + rng.Intn(3)}})
			} else {
				err = oras.CopyGraph(cctx, isrc, dstT, u.Nodes[root].Desc, oras.CopyGraphOptions{Concurrency: 1 + rng.Intn(3)})
				if err == nil {
					dstT.Tag(ctx, u.Nodes[root].Desc, "v")
				}
			}
			cancel()
			res := "err"
			if err == nil {
				res = "ok"
				var want []int
				for _, k := range closure {
					if u.Nodes[k].Kind != KForeign {
						want = append(want, k)
					}
				}
				if got := presentSet(ctx, dstT, u); got != fmtSet(want) {
					res = "ok-but-incomplete(" + got + ")"
				} else if d, rerr := dstT.Resolve(ctx, "v"); rerr != nil || u.IDOf(ocispec.Descriptor{MediaType: d.MediaType, Digest: d.Digest, Size: d.Size}) != root {
					res = "ok-but-untagged"
				}
			}
			verdict := "fails-or-complete"
			if res != "ok" && res != "err" {
				verdict = res
			}
			sc.Op(verdict, "cp cancelled at=%d res=%s", at, res)
			runs++
			sc.Count("copy-cancelled:" + res)
		}
	}
	// C01 into a file store whose names are already taken: a second image whose layer reuses a
	// title for other bytes, for the same bytes, or uses a fresh title.  A nil error means the
	// whole graph can be fetched back byte for byte.
	if mode == "C01" {
		reps := 9
		if tier == "thorough" {
			reps = 90
		}
		for i := 0; i < reps; i++ {
			sc.Case("copy-file-titles")
			sc.NonTrivial()
			variant := []string{"same-title-other-bytes", "same-title-same-bytes", "fresh-title"}[i%3]
			mk := func(tag, title string, data []byte) (ocispec.Descriptor, *memory.Store, []ocispec.Descriptor, [][]byte) {
				src := memory.New()
				cfg := []byte(fmt.Sprintf("{\"img\":\"%s-%d\"}", tag, i))
				cd := descOf(ocispec.MediaTypeImageConfig, cfg)
				ld := descOf(ocispec.MediaTypeImageLayer, data)
				ld.Annotations = map[string]string{ocispec.AnnotationTitle: title}
				m := ocispec.Manifest{MediaType: ocispec.MediaTypeImageManifest, Config: cd, Layers: []ocispec.Descriptor{ld}}
				m.SchemaVersion = 2
				mb, _ := json.Marshal(m)
				md := descOf(ocispec.MediaTypeImageManifest, mb)
				for _, p := range []struct {
					d ocispec.Descriptor
					b []byte
				}{{cd, cfg}, {ld, data}, {md, mb}} {
					if err := src.Push(ctx, p.d, bytes.NewReader(p.b)); err != nil {
						panic(err)
					}
				}
				src.Tag(ctx, md, tag)
				return md, src, []ocispec.Descriptor{cd, ld, md}, [][]byte{cfg, data, mb}
			}
			dir := filepath.Join(tmp, fmt.Sprintf("ft%d", i))
			dst, err := file.New(dir)
			if err != nil {
				panic(err)
			}
			d1 := []byte(fmt.Sprintf("first-%d", i))
			_, src1, _, _ := mk("v1", "data.txt", d1)
			if _, err := oras.Copy(ctx, src1, "v1", dst, "", oras.DefaultCopyOptions); err != nil {
				panic(fmt.Sprintf("first copy: %v", err))
			}
			title2, d2 := "data.txt", []byte(fmt.Sprintf("second-%d", i))
			switch variant {
			case "same-title-same-bytes":
				d2 = d1
			case "fresh-title":
				title2 = "other.txt"
			}
			_, src2, descs, bodies := mk("v2", title2, d2)
			_, err = oras.Copy(ctx, src2, "v2", dst, "", oras.DefaultCopyOptions)
			res := "err"
			if err == nil {
				res = "ok"
				for k, d := range descs {
					rc, ferr := dst.Fetch(ctx, d)
					if ferr != nil {
						res = fmt.Sprintf("ok-but-missing(%s)", d.MediaType)
						break
					}
					b, _ := io.ReadAll(rc)
					rc.Close()
					if !bytes.Equal(b, bodies[k]) {
						res = fmt.Sprintf("ok-but-other-bytes(%s)", d.MediaType)
						break
					}
				}
				if _, rerr := dst.Resolve(ctx, "v2"); rerr != nil && res == "ok" {
					res = "ok-but-untagged"
				}
			}
			verdict := "fails-or-complete"
			if res != "ok" && res != "err" {
				verdict = res
			}
			if variant != "same-title-other-bytes" && res == "err" {
				verdict = "refused:" + strings.ReplaceAll(err.Error(), " ", "_") // nothing stands in the way of these
			}
			sc.Op(verdict, "cp cancelled at=filetitles variant=%s res=%s", variant, res)
			dst.Close()
			os.RemoveAll(dir)
			runs++
			sc.Count("copy-file-titles:" + variant + ":" + res)
		}
		// Copy from an OCI layout opened from disk (its descriptors carry the reference name they
		// were resolved by) into another layout under a new name: the new name is what the
		// destination records - also for a process that opens the directory afterwards
		for vi := 0; vi < 4; vi++ {
			sc.Case("copy-renamed-into-oci-layout")
			sc.NonTrivial()
			u := GenDAG(rng, GenCfg{Blobs: 2, Manifests: 1 + vi%3, Indexes: vi%2 == 1})
			root := -1
			for k := len(u.Nodes) - 1; k >= 0; k-- {
				if u.Nodes[k].Kind.IsManifest() {
					root = k
					break
				}
			}
			if root < 0 {
				continue
			}
			srcDir, dstDir := filepath.Join(tmp, fmt.Sprintf("rn-src%d", vi)), filepath.Join(tmp, fmt.Sprintf("rn-dst%d", vi))
			s0, err := oci.New(srcDir)
			if err != nil {
				panic(err)
			}
			pushAll(ctx, s0, u, downClosure(u, []int{root}))
			if err := s0.Tag(ctx, u.Nodes[root].Desc, "v1"); err != nil {
				panic(err)
			}
			src, err := oci.New(srcDir) // opened afresh from disk
			if err != nil {
				panic(err)
			}
			dst, err := oci.New(dstDir)
			if err != nil {
				panic(err)
			}
			dstRef := []string{"v2", "v1", "release", "v2"}[vi]
			_, cerr := oras.Copy(ctx, src, "v1", dst, dstRef, oras.DefaultCopyOptions)
			verdict := "fails-or-complete"
			if cerr != nil {
				verdict = "refused:" + strings.ReplaceAll(cerr.Error(), " ", "_")
			} else {
				for _, how := range []string{"live", "dir", "fs"} {
					var st oras.ReadOnlyTarget = dst
					switch how {
					case "dir":
						st, err = oci.New(dstDir)
					case "fs":
						st, err = oci.NewFromFS(ctx, os.DirFS(dstDir))
					}
					if err != nil {
						verdict = "reopen-failed(" + how + ")"
						break
					}
					d, rerr := st.Resolve(ctx, dstRef)
					if rerr != nil || d.Digest != u.Nodes[root].Desc.Digest {
						verdict = fmt.Sprintf("ok-but-%s-does-not-resolve-%s", how, dstRef)
						break
					}
					if dstRef != "v1" {
						if _, rerr := st.Resolve(ctx, "v1"); rerr == nil {
							verdict = fmt.Sprintf("ok-but-%s-resolves-the-source-name", how)
							break
						}
					}
				}
			}
			sc.Op(verdict, "cp cancelled at=oci-renamed dstref=%s", dstRef)
			os.RemoveAll(srcDir)
			os.RemoveAll(dstDir)
			runs++
		}
		// one blob listed several times in a manifest, with and without titles, into a fresh
		// file store: the copy moves the bytes once; every listed occurrence is there afterwards
		// (untitled ones by digest, titled ones as files of that name)
		for vi, titles := range [][]string{{"", "hello.txt"}, {"hello.txt", ""}, {"a.txt", "b.txt"}, {"", "a.txt", "b.txt"}, {"a.txt", "", "a.txt"}, {"", ""}} {
			for _, conc := range []int{1, 0} {
				sc.Case("copy-file-duplicates")
				sc.NonTrivial()
				src := memory.New()
				cfg := []byte(fmt.Sprintf("{\"dups\":%d}", vi))
				data := []byte(fmt.Sprintf("shared-bytes-%d", vi))
				cd := descOf(ocispec.MediaTypeImageConfig, cfg)
				m := ocispec.Manifest{MediaType: ocispec.MediaTypeImageManifest, Config: cd}
				m.SchemaVersion = 2
				for _, t := range titles {
					ld := descOf(ocispec.MediaTypeImageLayer, data)
					if t != "" {
						ld.Annotations = map[string]string{ocispec.AnnotationTitle: t}
					}
					m.Layers = append(m.Layers, ld)
				}
				mb, _ := json.Marshal(m)
				md := descOf(ocispec.MediaTypeImageManifest, mb)
				src.Push(ctx, cd, bytes.NewReader(cfg))
				src.Push(ctx, descOf(ocispec.MediaTypeImageLayer, data), bytes.NewReader(data))
				if err := src.Push(ctx, md, bytes.NewReader(mb)); err != nil {
					panic(err)
				}
				src.Tag(ctx, md, "v")
				dir := filepath.Join(tmp, fmt.Sprintf("fd%d-%d", vi, conc))
				dst, err := file.New(dir)
				if err != nil {
					panic(err)
				}
				opts := oras.DefaultCopyOptions
				opts.Concurrency = conc
				_, err = oras.Copy(ctx, src, "v", dst, "", opts)
				verdict, res := "fails-or-complete", "ok"
				if err != nil {
					res = "err"
					verdict = "refused:" + strings.ReplaceAll(err.Error(), " ", "_")
				} else {
					for _, ld := range m.Layers {
						t := ld.Annotations[ocispec.AnnotationTitle]
						if ok, _ := dst.Exists(ctx, ld); !ok {
							verdict = "ok-but-missing(title=" + t + ")"
							break
						}
						rc, ferr := dst.Fetch(ctx, ld)
						if ferr != nil {
							verdict = "ok-but-unfetchable(title=" + t + ")"
							break
						}
						b, _ := io.ReadAll(rc)
						rc.Close()
						if !bytes.Equal(b, data) {
							verdict = "ok-but-other-bytes(title=" + t + ")"
							break
						}
						if t != "" {
							if fb, rerr := os.ReadFile(filepath.Join(dir, t)); rerr != nil || !bytes.Equal(fb, data) {
								verdict = "ok-but-no-such-file(title=" + t + ")"
								break
							}
						}
					}
				}
				sc.Op(verdict, "cp cancelled at=fileduplicates titles=%s conc=%d res=%s", strings.Join(titles, "|"), conc, res)
				dst.Close()
				os.RemoveAll(dir)
				runs++
			}
		}
	}
	// C04: the same accounting over ExtendedCopyGraph with several roots (a subject with
	// several referrers, each with blobs of its own): one shared budget of Concurrency
	if mode == "C04" {
		reps := 25
		if tier == "thorough" {
			reps = 400
		}
		for i := 0; i < reps; i++ {
			u := NewUniverse()
			cfgB := u.AddBlob(ocispec.MediaTypeImageConfig, []byte(fmt.Sprintf("{\"x\":%d}", i)))
			base := u.AddBlob(ocispec.MediaTypeImageLayer, []byte(fmt.Sprintf("base-%d", i)))
			subj := u.AddImage(KOCIManifest, cfgB.ID, []int{base.ID}, -1, "", map[string]string{"s": fmt.Sprint(i)})
			nref := 2 + rng.Intn(4)
			for k := 0; k < nref; k++ {
				var layers []int
				for b := 0; b < 2+rng.Intn(5); b++ {
					layers = append(layers, u.AddBlob(ocispec.MediaTypeImageLayer, []byte(fmt.Sprintf("ref-%d-%d-%d", i, k, b))).ID)
				}
				u.AddImage(KOCIManifest, cfgB.ID, layers, subj.ID, "application/vnd.verif.ref", map[string]string{"k": fmt.Sprint(k)})
			}
			conc := 1 + rng.Intn(3)
			sc.Case("gauged-extendedcopy")
			sc.NonTrivial()
			src := memory.New()
			all := make([]int, len(u.Nodes))
			for j := range all {
				all[j] = j
			}
			pushAll(ctx, src, u, all)
			dstT := memory.New()
			r := newCopyRun(u, seed+int64(i))
			r.maxDelay = time.Duration(300+rng.Intn(700)) * time.Microsecond
			opts := oras.ExtendedCopyGraphOptions{CopyGraphOptions: r.options(conc)}
			isrc := &instrGraphSrc{instrSrc: instrSrc{inner: src, r: r}, g: src}
			idst := &instrTarget{instrDst: instrDst{inner: dstT, r: r}, t: dstT}
			if err := oras.ExtendedCopyGraph(ctx, isrc, idst, subj.Desc, opts); err != nil {
				panic(fmt.Sprintf("ExtendedCopyGraph: %v", err))
			}
			over := "ok"
			if int(r.maxSrcInFlight) > conc || int(r.maxDstInFl) > conc {
				over = fmt.Sprintf("over(src=%d,dst=%d,conc=%d)", r.maxSrcInFlight, r.maxDstInFl, conc)
			}
			sc.Op(over, "cp gauge conc=%d roots=%d", conc, nref)
			dup := "ok"
			for n, c := range r.pushes {
				if c > 1 {
					dup = fmt.Sprintf("push-twice(%d)", n)
				}
			}
			for n, c := range r.fetches {
				if c > 1 {
					dup = fmt.Sprintf("fetch-twice(%d)", n)
				}
			}
			sc.Op(dup, "cp once")
			runs++
			sc.Count("extendedcopy-gauged")
			if r.maxSrcInFlight > maxSrc {
				maxSrc = r.maxSrcInFlight
			}
			if r.maxDstInFl > maxDst {
				maxDst = r.maxDstInFl
			}
		}
	}
	// C04: Copy with a MapRoot that reads the root through the storage it is handed and selects
	// one of the manifests an index lists: every node of the selected graph still crosses once
	if mode == "C04" {
		reps := 12
		if tier == "thorough" {
			reps = 200
		}
		for i := 0; i < reps; i++ {
			u := NewUniverse()
			var mans []int
			for k := 0; k < 2+rng.Intn(2); k++ {
				cfgB := u.AddBlob(ocispec.MediaTypeImageConfig, []byte(fmt.Sprintf("{\"maproot\":\"%d-%d\"}", i, k)))
				var layers []int
				for b := 0; b < 1+rng.Intn(3); b++ {
					layers = append(layers, u.AddBlob(ocispec.MediaTypeImageLayer, []byte(fmt.Sprintf("mr-%d-%d-%d", i, k, b))).ID)
				}
				mans = append(mans, u.AddImage(KOCIManifest, cfgB.ID, layers, -1, "", map[string]string{"k": fmt.Sprint(k)}).ID)
			}
			idx := u.AddIndex(KOCIIndex, mans, -1, "", map[string]string{"i": fmt.Sprint(i)})
			pick := rng.Intn(len(mans))
			wantRoot := func(p int) int {
				if p < 0 {
					return idx.ID
				}
				return mans[p]
			}
			conc := 1 + rng.Intn(3)
			sc.Case("maproot-copy")
			sc.NonTrivial()
			src := memory.New()
			all := make([]int, len(u.Nodes))
			for j := range all {
				all[j] = j
			}
			pushAll(ctx, src, u, all)
			src.Tag(ctx, idx.Desc, "srcref")
			dstT := memory.New()
			r := newCopyRun(u, seed+int64(i))
			opts := oras.CopyOptions{CopyGraphOptions: r.options(conc)}
			opts.MapRoot = func(ctx context.Context, s content.ReadOnlyStorage, root ocispec.Descriptor) (ocispec.Descriptor, error) {
				b, err := content.FetchAll(ctx, s, root)
				if err != nil {
					return ocispec.Descriptor{}, err
				}
				var ix ocispec.Index
				if err := json.Unmarshal(b, &ix); err != nil {
					return ocispec.Descriptor{}, err
				}
				return ix.Manifests[pick], nil
			}
			isrc := &srcTarget{instrSrc: instrSrc{inner: src, r: r}, t: src}
			it := &instrTarget{instrDst: instrDst{inner: dstT, r: r}, t: dstT}
			var idst oras.Target = it
			if i%2 == 1 {
				// a destination that takes the root by reference (like a remote repository)
				idst = &instrRefTarget{instrTarget: it}
			}
			// any subset of the callbacks may be set
			switch (i / 2) % 4 {
			case 1:
				opts.PostCopy = nil
			case 2:
				opts.PreCopy = nil
			case 3:
				opts.PreCopy, opts.PostCopy, opts.OnCopySkipped = nil, nil, nil
			}
			if i%3 == 0 {
				opts.MapRoot = nil
				pick = -1
			}
			got, err := oras.Copy(ctx, isrc, "srcref", idst, "picked", opts)
			res := "ok"
			if err != nil {
				res = "err:" + strings.ReplaceAll(err.Error(), " ", "_")
			} else if u.IDOf(ocispec.Descriptor{MediaType: got.MediaType, Digest: got.Digest, Size: got.Size}) != wantRoot(pick) {
				res = "returned-other-root"
			}
			sc.Op(res, "cp remote res src=maproot dst=memory")
			dup := "ok"
			for n, c := range r.pushes {
				if c > 1 {
					dup = fmt.Sprintf("push-twice(%d)", n)
				}
			}
			for n, c := range r.fetches {
				if c > 1 {
					dup = fmt.Sprintf("fetch-twice(%d)", n)
				}
			}
			sc.Op(dup, "cp once")
			sc.Op(presentSet(ctx, dstT, u), "cp xpresent all=%s", fmtSet(downClosure(u, []int{wantRoot(pick)})))
			runs++
			sc.Count("copy-maproot")
		}
	}
	sc.Extra["evaluations"] = runs
	sc.Extra["traces_validated"] = traces
	sc.Extra["max_src_in_flight"] = maxSrc
	sc.Extra["max_dst_in_flight"] = maxDst
	return nil
}

// srcTarget adds Resolve to the instrumented source for oras.Copy.
type srcTarget struct {
	instrSrc
	t oras.ReadOnlyTarget
}

func (s *srcTarget) Resolve(ctx context.Context, ref string) (ocispec.Descriptor, error) {
	return s.t.Resolve(ctx, ref)
}

// instrGraphSrc adds Predecessors to the instrumented source for ExtendedCopyGraph.
type instrGraphSrc struct {
	instrSrc
	g content.ReadOnlyGraphStorage
}

func (s *instrGraphSrc) Predecessors(ctx context.Context, d ocispec.Descriptor) ([]ocispec.Descriptor, error) {
	if f := s.r.faultFor("preds", s.r.u.IDOf(d)); f != nil {
		if err := s.r.fire(f, s.r.u.IDOf(d)); err != nil {
			return nil, err
		}
	}
	return s.g.Predecessors(ctx, d)
}

// listerSrc makes the instrumented graph source a registry.ReferrerLister: what it lists are
// the predecessors, with the annotations their manifests carry; the same faults apply.
type listerSrc struct {
	*instrGraphSrc
}

func (l *listerSrc) Referrers(ctx context.Context, d ocispec.Descriptor, artifactType string, fn func([]ocispec.Descriptor) error) error {
	ps, err := l.instrGraphSrc.Predecessors(ctx, d)
	if err != nil {
		return err
	}
	var page []ocispec.Descriptor
	for _, p := range ps {
		n := l.r.u.Nodes[l.r.u.IDOf(p)]
		p.Annotations = n.Annotations
		p.ArtifactType = n.ArtifactType
		if artifactType == "" || artifactType == n.ArtifactType {
			page = append(page, p)
		}
	}
	// two pages, so that a fault can also land after some referrers were delivered
	if len(page) > 1 {
		if err := fn(page[:1]); err != nil {
			return err
		}
		page = page[1:]
	}
	return fn(page)
}

// instrRefTarget makes the instrumented target a registry.ReferencePusher.
type instrRefTarget struct {
	*instrTarget
}

func (s *instrRefTarget) PushReference(ctx context.Context, d ocispec.Descriptor, rd io.Reader, ref string) error {
	n := s.r.u.IDOf(d)
	s.r.mu.Lock()
	s.r.pushes[n]++ // a push by reference is a push of the manifest
	s.r.mu.Unlock()
	if err := s.instrDst.inner.Push(ctx, d, rd); err != nil && !errors.Is(err, errdef.ErrAlreadyExists) {
		return err
	}
	if err := s.t.Tag(ctx, d, ref); err != nil {
		return err
	}
	s.r.log("pushRef:"+ref, n)
	return nil
}

// failOnceDst fails the first Push of one digest (before storing anything).
type failOnceDst struct {
	oras.Target
	dig   digest.Digest
	fired int32
}

func (f *failOnceDst) Push(ctx context.Context, d ocispec.Descriptor, r io.Reader) error {
	if d.Digest == f.dig && atomic.CompareAndSwapInt32(&f.fired, 0, 1) {
		return errInjected
	}
	return f.Target.Push(ctx, d, r)
}

// breakingSrc: the content of one blob arrives damaged, once - the reader breaks off half way,
// or delivers bytes of the right length that are not the described ones.
type breakingSrc struct {
	oras.Target
	dig   digest.Digest
	how   string
	fired int32
}

type breakingReader struct {
	r    io.Reader
	left int64
}

func (b *breakingReader) Read(p []byte) (int, error) {
	if b.left <= 0 {
		return 0, errInjected
	}
	if int64(len(p)) > b.left {
		p = p[:b.left]
	}
	n, err := b.r.Read(p)
	b.left -= int64(n)
	return n, err
}

func (f *breakingSrc) Fetch(ctx context.Context, d ocispec.Descriptor) (io.ReadCloser, error) {
	rc, err := f.Target.Fetch(ctx, d)
	if err != nil || d.Digest != f.dig || !atomic.CompareAndSwapInt32(&f.fired, 0, 1) {
		return rc, err
	}
	if f.how == "other-bytes" {
		b, _ := io.ReadAll(rc)
		rc.Close()
		for i := range b {
			b[i] ^= 0x20
		}
		return io.NopCloser(bytes.NewReader(b)), nil
	}
	return struct {
		io.Reader
		io.Closer
	}{&breakingReader{r: rc, left: d.Size / 2}, rc}, nil
}

// presentByDigest: which of the wanted nodes can be fetched back from the store byte for byte
// (nodes that share a digest count together), as a set of node ids.
func presentByDigest(ctx context.Context, st oras.Target, u *Universe, want []int) string {
	var have []int
	for _, k := range want {
		n := u.Nodes[k]
		rc, err := st.Fetch(ctx, n.Desc)
		if err != nil {
			continue
		}
		b, rerr := io.ReadAll(rc)
		rc.Close()
		if rerr == nil && bytes.Equal(b, n.Bytes) {
			have = append(have, k)
		}
	}
	return fmtSet(have)
}
