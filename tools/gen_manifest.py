#!/usr/bin/env python3
"""Regenerate /verif/MANIFEST.json from tools/registry.py (keeps the two in step)."""
import json, sys
sys.path.insert(0, '/verif/tools')
from registry import PROPS

ALL = [f'C{i:02d}' for i in range(1, 21)]
NA_REASONS = {}

def main():
    checks = []
    for pid in ALL:
        if pid not in PROPS:
            continue
        p = PROPS[pid]
        checks.append(dict(
            property_id=pid,
            quick_cmd=f'./check {pid} --tier quick',
            thorough_cmd=f'./check {pid} --tier thorough',
            evidence_file=f'/verif/evidence/{pid}.json',
            replay_cmd_template='./check ' + pid + ' --replay {path}',
            engine='lean-model',
            level_claimed=dict(category='proof', text=p.get('level_text', ''), design_ref=f'DESIGN.md section 5, {pid}'),
            level_note=p.get('level_note', ''),
            technique=p.get('technique', 'Lean 4 theorems over an executable model; model tied to /repo by regenerated tables (go/ast extractor) and a differential correspondence check (Go harness vs Lean driver)'),
        ))
    na = [dict(property_id=pid, reason=NA_REASONS.get(pid, 'check not built yet in this round; no claim is made (see DESIGN.md section 5 for the planned model)'))
          for pid in ALL if pid not in PROPS]
    m = dict(
        version=1,
        setup_cmd='/verif/tools/setup.sh',
        hooks=dict(
            guard='verif',
            enable='cd /repo && go build -tags verif -overlay /verif/build/overlay.json -o /verif/build/bin/harness ./verifharness   (overlay only: harness sources and export shims live under /verif/go and are never written to /repo)',
            baseline_off_cmd='cd /repo && GOFLAGS=-mod=mod GOPROXY=off GOSUMDB=off go test -json -vet=off -count=1 -timeout 25m ./...',
            source_commits=[],
            add_only=True,
        ),
        engines=[
            dict(name='lean-model', path='/verif/lean', serves_properties=[c['property_id'] for c in checks],
                 kind_free_text='Lean 4 models + theorems (Props/Cxx.lean), line-protocol driver executable'),
            dict(name='go-extract', path='/verif/go/extract', serves_properties=[c['property_id'] for c in checks],
                 kind_free_text='go/ast translator regenerating lean/OrasModel/Gen/*.lean on every run'),
            dict(name='go-harness', path='/verif/go/harness', serves_properties=[c['property_id'] for c in checks],
                 kind_free_text='in-module Go harness (overlay build) producing operation scripts and implementation answers'),
        ],
        checks=checks,
        not_applicable=na,
        notes='Every check: regenerate Gen from /repo, lake build + axiom audit of Oras.Props.Cxx, overlay-build the harness from /repo, differential run against the Lean driver. See DESIGN.md.',
    )
    json.dump(m, open('/verif/MANIFEST.json', 'w'), indent=1)

if __name__ == '__main__':
    main()
