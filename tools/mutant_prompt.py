#!/usr/bin/env python3
"""Prints the brief given to a fresh sub-agent that seeds a property-breaking change (development aid)."""
import json, sys
pid = sys.argv[1]; wt = sys.argv[2]
variant = sys.argv[3] if len(sys.argv) > 3 else ""
for l in open('/verif/properties.jsonl'):
    d = json.loads(l)
    if d['id'] == pid:
        break
print(f"""You are helping to evaluate a verification effort for the Go library oras-project/oras-go (module oras.land/oras-go/v2).
You have your own scratch git worktree of the library at {wt} (work ONLY there; never touch /repo or /verif, do not read /verif).

Here is one semantic property the library is supposed to satisfy:

TITLE: {d['title']}

STATEMENT: {d['statement']}

QUANTIFIED OVER: {d['quantifier']['text']}

Your task: make ONE small, realistic change to the library's non-test source code in {wt} (the kind of slip a maintainer could make in a refactor or "optimisation": an off-by-one, a dropped check, a reordered step, a wrong variable, a missing lock/wait, a loosened comparison) such that
  1. the library still compiles (`go build ./...`) and `go vet` is not required;
  2. the library's EXISTING test suite still passes unchanged: run `cd {wt} && go test -vet=off -count=1 ./...` (a test named TestStore_Dir_OverwriteSymlink_RemovalFailed fails on the original too when run as root; ignore it). Do not edit, delete or add any *_test.go file in the patch;
  3. the property above is now FALSE for some input/configuration/schedule/history, but the change needs something specific to manifest: it must not break the common path that every caller hits, only particular inputs, sizes, orders, configurations, fault placements or interleavings;
  4. you can demonstrate the break: write a standalone Go test file (package-external where possible, named verif_demo_test.go, placed where it compiles in the worktree) that PASSES on the original code and FAILS on the changed code, because the property is violated (not because of an unrelated API change). Run it both ways to confirm: save your change with `git diff > /tmp/wt/<your-id>.patch`, revert with `git apply -R`, re-apply with `git apply`. NEVER use `git stash` (the stash is shared between all worktrees of the repository and other agents are working in sibling worktrees).
{variant}
Environment: no network. Before every go command export: GOFLAGS=-mod=mod GOPROXY=off GOSUMDB=off GOTOOLCHAIN=local . Go module cache is populated; nothing can be downloaded.

Deliverables, all written into the directory {wt}/.mutant/ (create it):
  - patch.diff : `git -C {wt} diff -- . ':(exclude).mutant' ':(exclude)**/verif_demo_test.go'` of the source change ONLY (no demo, no tests)
  - verif_demo_test.go : the demonstration (a copy), with a header comment saying in which package directory it must be placed and the exact `go test -run` command
  - meta.json : {{"property": "{pid}", "files": [...], "summary": "<one paragraph: what was changed>", "trigger": "<what specific input/config/schedule is needed for the break to show>", "why_tests_pass": "<why the existing suite does not notice>", "demo_cmd": "<command>", "demo_dir": "<package dir relative to repo root>", "demo_original": "pass", "demo_mutated": "fail", "suite_passes": true}}
Leave the worktree WITH the change applied (and the demo test in place) when you finish. In your final message, summarise the change, the trigger and the demo results in a few lines. Be economical: read only the code you need.""")
