#!/bin/bash
# run_all.sh [tier] [seed]: every registered check on the current tree (development aid)
T=${1:-quick}; S=${2:-1}
cd "${VERIF_ROOT:-$(cd "$(dirname "${BASH_SOURCE[0]}")/.." && pwd)}"
for i in 01 02 03 04 05 06 07 08 09 10 11 12 13 14 15 16 17 18 19 20; do
  s=$(date +%s); out=$(./check C$i --tier $T --seed $S 2>&1); rc=$?
  echo "C$i rc=$rc $(( $(date +%s)-s ))s :: $(echo "$out" | grep -E '^(VIOLATION|KNOWN-FINDING|OK|INTERNAL)' | cut -c1-120 | tr '\n' ';')"
done
