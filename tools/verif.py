#!/usr/bin/env python3
"""
Entry point of the verification machinery:   ./check Cxx [--tier quick|thorough] [--seed N] [--replay file]

For one property it
  1. regenerates lean/OrasModel/Gen/*.lean from /repo's working tree (go/extract),
  2. builds the property's Lean modules and the driver (lake), and audits every theorem
     in namespace Oras.Props.Cxx (axioms, sorry, forbidden tokens),
  3. rebuilds the Go harness from /repo's working tree (overlay build) and runs the
     correspondence check: harness script -> Lean driver -> three-stream diff,
  4. writes evidence/Cxx.json and prints VIOLATION / KNOWN-FINDING lines.
"""
import argparse, fcntl, hashlib, json, os, re, subprocess, sys, time, glob, shutil

V = os.environ.get('VERIF_ROOT') or os.path.dirname(os.path.dirname(os.path.abspath(__file__)))
REPO = os.environ.get('VERIF_REPO') or '/repo'
LEAN = V + '/lean'
BUILD = V + '/build'
ALLOWED_AXIOMS = {'propext', 'Classical.choice', 'Quot.sound'}
FORBIDDEN = re.compile(r'\bsorry\b|\badmit\b|^axiom |native_decide|bv_decide|implemented_by|\bunsafe |maxHeartbeats 0')

GOENV = dict(os.environ, GOFLAGS='-mod=mod', GOPROXY='off', GOSUMDB='off', GOTOOLCHAIN='local')

sys.path.insert(0, V + '/tools')
from registry import PROPS  # noqa: E402


def sh(cmd, **kw):
    return subprocess.run(cmd, shell=isinstance(cmd, str), capture_output=True, text=True, **kw)


class Result:
    def __init__(self, pid, tier, seed):
        self.pid, self.tier, self.seed = pid, tier, seed
        self.violations = []      # (replay_path, suffix)
        self.known = []           # text
        self.notes = []
        self.cov = {}
        self.internal_error = None


def strip_comments(src):
    # remove /- ... -/ block comments (nested not needed) and -- line comments
    src = re.sub(r'/-.*?-/', '', src, flags=re.S)
    src = re.sub(r'--.*', '', src)
    return src


def write_replay(pid, payload):
    os.makedirs(V + '/replays', exist_ok=True)
    h = hashlib.sha1(json.dumps(payload, sort_keys=True).encode()).hexdigest()[:12]
    path = f'{V}/replays/{pid}-{h}.json'
    with open(path, 'w') as f:
        json.dump(payload, f, indent=1)
    return path


# ---------------------------------------------------------------------------------------
# step 1+2: Gen, lake build, audit
# ---------------------------------------------------------------------------------------

def regenerate_gen(res):
    """Run the extractor; returns list of anchors it could not find."""
    ex = BUILD + '/bin/extract'
    r = sh(f'cd {V}/go/extract && go build -o {ex} .', env=GOENV)
    if r.returncode != 0:
        res.internal_error = 'extractor build failed: ' + r.stderr[-2000:]
        return None
    r = sh([ex, '-repo', REPO, '-out', LEAN + '/OrasModel/Gen', '-harness', V + '/go/harness'], env=GOENV)
    if r.returncode != 0:
        res.internal_error = 'extractor failed: ' + r.stderr[-2000:]
        return None
    try:
        info = json.loads(r.stdout)
    except Exception:
        res.internal_error = 'extractor output unparsable: ' + r.stdout[-500:]
        return None
    return info


def lake_build(targets):
    r = sh(['lake', 'build'] + targets, cwd=LEAN)
    return r.returncode == 0, (r.stdout + r.stderr)


def audit(prop):
    """Returns (theorems: list of {theorem, axioms}), error text or None."""
    ns = f'Oras.Props.{prop["id"]}'
    mods = prop['lean_modules']
    os.makedirs(BUILD + '/audit', exist_ok=True)
    f = f'{BUILD}/audit/Audit{prop["id"]}.lean'
    with open(f, 'w') as fh:
        fh.write('import OrasModel.Audit\n')
        for m in mods:
            fh.write(f'import {m}\n')
        fh.write(f'#audit_ns {ns}\n')
    r = sh(['lake', 'env', 'lean', f], cwd=LEAN)
    if r.returncode != 0:
        return None, r.stdout + r.stderr
    th = []
    for line in r.stdout.splitlines():
        if line.startswith('AUDIT '):
            th.append(json.loads(line[6:]))
    return th, None


def forbidden_tokens():
    hits = []
    for path in glob.glob(LEAN + '/**/*.lean', recursive=True):
        if '/.lake/' in path or path.endswith('/Audit.lean'):
            continue
        src = strip_comments(open(path).read())
        for i, line in enumerate(src.splitlines()):
            if FORBIDDEN.search(line):
                hits.append(f'{path}: {line.strip()}')
    return hits


# ---------------------------------------------------------------------------------------
# step 3: harness + driver + diff
# ---------------------------------------------------------------------------------------

def build_harness():
    r = sh([V + '/tools/build_harness.sh'], env=dict(GOENV, VERIF_ROOT=V, VERIF_REPO=REPO))
    return r.returncode == 0, r.stdout + r.stderr


def run_domain(pid, domain, seed, tier, tag=''):
    """Run the harness for one domain and the driver on its script.
    Returns dict(script_lines, answers, stats, crash)"""
    os.makedirs(BUILD + '/run', exist_ok=True)
    base = f'{BUILD}/run/{pid}-{domain}-{tier}-{seed}{tag}'
    script, stats = base + '.script', base + '.stats'
    for p in (script, stats):
        if os.path.exists(p):
            os.remove(p)
    timeout = 3000 if tier == 'thorough' else 600
    try:
        r = subprocess.run([BUILD + '/bin/harness', domain, '-seed', str(seed), '-tier', tier,
                            '-out', script, '-stats', stats], capture_output=True, text=True,
                           timeout=timeout, env=dict(GOENV, GOMEMLIMIT='8GiB'), cwd=BUILD)
    except subprocess.TimeoutExpired as e:
        return dict(crash=f'harness timeout after {timeout}s', stderr=(e.stderr or b'')[-3000:] if e.stderr else '', script=script)
    if r.returncode != 0:
        return dict(crash=f'harness exit {r.returncode}', stderr=r.stderr[-6000:], script=script)
    with open(script) as fh:
        lines = fh.read().splitlines()
    d = subprocess.run([LEAN + '/.lake/build/bin/driver'], stdin=open(script), capture_output=True, text=True)
    if d.returncode != 0:
        return dict(crash=f'driver exit {d.returncode}', stderr=d.stderr[-3000:], script=script)
    answers = d.stdout.splitlines()
    st = json.load(open(stats))
    return dict(lines=lines, answers=answers, stats=st, script=script)


def diff_streams(lines, answers, per_op_kind=False):
    """Yield failures: dict(kind, line_no, case_start, op, impl, model, spec)."""
    fails = []
    if len(lines) != len(answers):
        fails.append(dict(kind='protocol', line_no=min(len(lines), len(answers)), case_start=0,
                          op='<stream length mismatch>', impl=str(len(lines)), model=str(len(answers)), spec=''))
        return fails
    case_start = 0
    failed_cases = set()
    violated_cases = set()
    for i, (l, a) in enumerate(zip(lines, answers)):
        if l.startswith('case '):
            case_start = i
        if a == 'skip':
            continue
        if a == 'bad-op':
            fails.append(dict(kind='protocol', line_no=i, case_start=case_start, op=l, impl='', model='bad-op', spec=''))
            continue
        why = ''
        mw = re.match(r'^(.*) w=(\S+)$', a)
        if mw:
            a, why = mw.group(1), mw.group(2)
        m = re.match(r'^m=(.*?) s=(.*)$', a)
        if not m:
            fails.append(dict(kind='protocol', line_no=i, case_start=case_start, op=l, impl='', model=a, spec=''))
            continue
        model, spec = m.group(1), m.group(2)
        if ' => ' not in l:
            continue
        op, impl = l.split(' => ', 1)
        # "<result> | <request trace>": the specification speaks about the result only; a request
        # the registry's validator refused (BADREQ) violates the property whatever the result
        impl_res = impl.split(' | ')[0] if (' | ' in impl and ' | ' not in spec) else impl
        if impl.startswith('BADREQ') or (spec != '*' and norm_err(impl_res) != norm_err(spec)):
            # one violation per case (later ones may be consequences of the first); for domains whose
            # known findings are read-only calls, one per case and call kind, so that a known finding
            # does not hide a different violation later in the same history
            vkey = (case_start, ' '.join(op.split()[:2])) if per_op_kind else case_start
            if vkey in violated_cases:
                continue
            violated_cases.add(vkey)
            violated_cases.add(case_start)
            # a property-level violation supersedes an earlier drift in the same case
            fails[:] = [f for f in fails if not (f['kind'] == 'drift' and f['case_start'] == case_start)]
            fails.append(dict(kind='violation', line_no=i, case_start=case_start, op=op, impl=impl, model=model, spec=spec, why=why))
        elif impl != model:
            if case_start in failed_cases or case_start in violated_cases:  # (case_start is added on any violation)
                continue
            failed_cases.add(case_start)
            fails.append(dict(kind='drift', line_no=i, case_start=case_start, op=op, impl=impl, model=model, spec=spec, why=why))
    return fails


def norm_err(a):
    # the specification says *that* an operation fails, the model says *how*
    return re.sub(r'\berr:\S+', 'err', a)


def case_text(lines, start, upto):
    return lines[start:upto + 1]


def match_known(pid, fail, case_lines, known):
    """A failure matches a known finding when every regex of its signature matches."""
    for k in known:
        if k.get('property') != pid or k.get('status') != 'known':
            continue
        sig = k.get('signature', {})
        txt = '\n'.join(case_lines)
        ok = True
        if 'op' in sig and not re.search(sig['op'], fail['op']):
            ok = False
        if 'impl' in sig and not re.search(sig['impl'], fail['impl']):
            ok = False
        if 'spec' in sig and not re.search(sig['spec'], fail['spec']):
            ok = False
        if 'why' in sig and sig['why'] != fail.get('why', ''):
            ok = False
        for rq in sig.get('requires', []):
            if not re.search(rq, txt, flags=re.M):
                ok = False
        for fb in sig.get('forbids', []):
            if re.search(fb, txt, flags=re.M):
                ok = False
        if ok:
            return k
    return None


def load_known():
    p = V + '/known-findings.json'
    if os.path.exists(p):
        return json.load(open(p)).get('findings', [])
    return []


# ---------------------------------------------------------------------------------------

def check(pid, tier, seed, replay=None):
    t0 = time.time()
    prop = PROPS[pid]
    res = Result(pid, tier, seed)
    os.makedirs(BUILD, exist_ok=True)
    os.makedirs(V + '/evidence', exist_ok=True)
    lock = open(BUILD + '/.lock', 'w')
    fcntl.flock(lock, fcntl.LOCK_EX)
    known = load_known()
    proof_breaks = []   # (name, text)
    try:
        # 1. Gen
        gen_info = regenerate_gen(res)
        if gen_info is None:
            return finish(res, prop, t0, [], None)
        missing = list(gen_info.get('missing_anchors') or [])
        # 2. build + audit
        # the driver (model + spec oracle) is built first and on its own: it must follow the
        # regenerated tables even when a property theorem no longer checks
        dok, dout = lake_build(['driver'])
        ok, out = lake_build(prop['lean_modules'])
        if not dok and ok:
            ok, out = False, dout
        theorems = []
        if not ok:
            # which module failed?  report as a broken proof obligation
            errs = [l for l in out.splitlines() if 'error' in l.lower()][:20]
            proof_breaks.append(('lake build', '\n'.join(errs) or out[-3000:]))
        else:
            theorems, aerr = audit(prop)
            if theorems is None:
                proof_breaks.append(('audit', aerr[-3000:]))
                theorems = []
            for t in theorems:
                bad = [a for a in t['axioms'] if a not in ALLOWED_AXIOMS]
                if bad:
                    proof_breaks.append((t['theorem'], 'depends on axioms ' + ', '.join(bad)))
            for hit in forbidden_tokens():
                proof_breaks.append(('forbidden token', hit))
            required = prop.get('required_theorems', [])
            names = {t['theorem'].split('.')[-1] for t in theorems}
            for rq in required:
                if rq not in names:
                    proof_breaks.append((rq, 'required theorem is missing from the compiled environment'))
            if tier == 'thorough' and not proof_breaks:
                for m in prop['lean_modules']:
                    r = sh(['lake', 'env', 'leanchecker', m], cwd=LEAN)
                    if r.returncode != 0:
                        proof_breaks.append(('leanchecker ' + m, (r.stdout + r.stderr)[-2000:]))
        res.cov['obligations'] = len(theorems) + len([b for b in proof_breaks if b[0] not in ('lake build', 'audit')])
        res.cov['discharged'] = len(theorems) if not proof_breaks else max(0, len(theorems) - len(proof_breaks))
        res.cov['theorems'] = [t['theorem'] for t in theorems]
        res.cov['axioms_used'] = sorted({a for t in theorems for a in t['axioms']})
        res.cov['gen'] = {k: gen_info.get(k) for k in ('facts', 'gen_hash', 'missing_anchors')}
        if missing:
            res.notes.append('extractor anchors missing: ' + ', '.join(missing))
        # 3. harness
        ok, out = build_harness()
        if not ok:
            # The harness is compiled against /repo's current API.  A compile failure means
            # the tie is broken (not that the property fails); report without a failing input.
            path = write_replay(pid, dict(kind='harness-build', output=out[-4000:], note='correspondence harness no longer compiles against /repo'))
            res.violations.append((path, ' no-failing-input-found'))
            return finish(res, prop, t0, theorems, gen_info)
        driver_ok = dok and os.path.exists(LEAN + '/.lake/build/bin/driver')
        total_eval = 0
        total_nt = 0
        samples = []
        dist = {}
        extra = {}
        traces = 0
        found_concrete = False
        seeds = [seed]
        if proof_breaks and tier != 'thorough':
            seeds = [seed, seed + 1, seed + 2]   # widen the search for a concrete failing input
        if tier == 'thorough':
            seeds = [seed + i for i in range(prop.get('thorough_seeds', 4))]
        for domain in prop['domains']:
            if not driver_ok:
                break
            runs = []
            if tier == 'thorough' and len(seeds) > 1:
                from concurrent.futures import ThreadPoolExecutor
                with ThreadPoolExecutor(max_workers=min(8, len(seeds))) as ex:
                    runs = list(ex.map(lambda s: (s, run_domain(pid, domain, s, tier)), seeds))
            else:
                runs = [(s, run_domain(pid, domain, s, tier)) for s in seeds]
            for s, out in runs:
                if 'crash' in out:
                    path = write_replay(pid, dict(kind='harness-crash', domain=domain, seed=s, tier=tier,
                                                  crash=out['crash'], stderr=out.get('stderr', ''),
                                                  replay=f'build/bin/harness {domain} -seed {s} -tier {tier}'))
                    kf = None
                    for k in known:
                        if k.get('property') == pid and k.get('status') == 'known' and 'crash' in k.get('signature', {}) \
                                and re.search(k['signature']['crash'], out.get('stderr', '') + out['crash']):
                            kf = k
                    if kf:
                        res.known.append(kf['what'])
                    else:
                        res.violations.append((path, ''))
                        found_concrete = True
                    continue
                st = out['stats']
                total_eval += st.get('evaluations', st.get('cases', 0))
                total_nt += st.get('distinct_nontrivial', 0)
                traces += st.get('traces_validated', 0)
                for smp in (st.get('samples') or []):
                    if len(samples) < 3:
                        samples.append(smp)
                for k, v in (st.get('distribution') or {}).items():
                    dist[k] = dist.get(k, 0) + v
                for k, v in st.items():
                    if k not in ('cases', 'lines', 'distinct_nontrivial', 'distribution', 'samples', 'evaluations', 'traces_validated'):
                        extra[k] = v
                fails = diff_streams(out['lines'], out['answers'], per_op_kind=prop.get('per_op_kind', False))
                fails.sort(key=lambda f: 0 if f['kind'] == 'protocol' else 1 if f['kind'] == 'violation' else 2)
                reported = 0
                for f in fails:
                    cl = case_text(out['lines'], f['case_start'], f['line_no'])
                    if f['kind'] == 'protocol':
                        res.internal_error = f'protocol error at line {f["line_no"]}: {f["op"]} -> {f["model"]}'
                        break
                    kf = match_known(pid, f, cl, known)
                    if kf:
                        msg = kf['what']
                        if msg not in res.known:
                            res.known.append(msg)
                        continue
                    if reported >= 3:
                        continue
                    reported += 1
                    payload = dict(kind=f['kind'], property=pid, domain=domain, seed=s, tier=tier,
                                   failing_op=f['op'], impl=f['impl'], model=f['model'], spec=f['spec'], why=f.get('why', ''),
                                   case=cl, replay=f'./check {pid} --tier {tier} --seed {s}')
                    path = write_replay(pid, payload)
                    if f['kind'] == 'violation':
                        res.violations.append((path, ''))
                        found_concrete = True
                    else:
                        # model drift: implementation agrees with the spec on this line but not
                        # with the model the theorems are about
                        payload['note'] = 'correspondence broken: model and implementation differ where the specification is silent or agrees'
                        res.violations.append((path, ' no-failing-input-found'))
        res.cov['evaluations'] = total_eval
        res.cov['distinct_nontrivial'] = total_nt
        res.cov['samples'] = samples
        res.cov['distribution'] = dist
        res.cov['traces_validated_against_impl'] = traces
        res.cov.update(extra)
        # proof breaks: the property is no longer shown; if the search above did not find a
        # concrete failing input, say so.
        for name, text in proof_breaks:
            payload = dict(kind='proof-break', property=pid, theorem=name, lean_output=text,
                           note='proof obligation no longer checks against the model/tables regenerated from /repo')
            path = write_replay(pid, payload)
            res.violations.append((path, '' if found_concrete else ' no-failing-input-found'))
        return finish(res, prop, t0, theorems, gen_info)
    finally:
        fcntl.flock(lock, fcntl.LOCK_UN)


def finish(res, prop, t0, theorems, gen_info):
    pid = res.pid
    wall = time.time() - t0
    cov = res.cov
    cov.setdefault('obligations', len(theorems))
    cov.setdefault('discharged', len(theorems))
    cov['checker_cmd'] = f'cd {LEAN} && lake build {" ".join(prop["lean_modules"])} && lake env lean {BUILD}/audit/Audit{pid}.lean' + \
        (' && lake env leanchecker <module>' if res.tier == 'thorough' else '')
    cov['trusted_base'] = prop.get('trusted_base', []) + [
        'Lean 4.33.0 kernel; axioms propext, Classical.choice, Quot.sound only',
        'go/extract translator (go/ast) and the Go harness + Python diff (correspondence check)']
    cov['rule'] = prop.get('rule', '')
    cov.setdefault('evaluations', 0)
    cov.setdefault('distinct_nontrivial', 0)
    cov.setdefault('samples', [])
    cov['stated_not_proved'] = prop.get('stated_not_proved', [])
    ev = dict(property_id=pid, tier=res.tier, seed=res.seed, level='proof', coverage=cov,
              assumptions=prop.get('assumptions', []), wall_s=round(wall, 2),
              violations=len(res.violations), known_findings=res.known, notes=res.notes)
    tmp = f'{V}/evidence/{pid}.json.tmp'
    with open(tmp, 'w') as f:
        json.dump(ev, f, indent=1)
    os.replace(tmp, f'{V}/evidence/{pid}.json')
    for k in res.known:
        print(f'KNOWN-FINDING: property={pid} {k}')
    if res.internal_error:
        print(f'INTERNAL-ERROR property={pid} {res.internal_error}', file=sys.stderr)
        print(f'INTERNAL-ERROR property={pid} {res.internal_error}')
        return 2
    if res.violations:
        for path, suffix in res.violations:
            print(f'VIOLATION property={pid} replay={path}{suffix}')
        return 1
    print(f'OK property={pid} tier={res.tier} seed={res.seed} theorems={len(theorems)} '
          f'evaluations={cov.get("evaluations")} wall={wall:.1f}s')
    return 0


def main():
    ap = argparse.ArgumentParser()
    ap.add_argument('pid')
    ap.add_argument('--tier', default=os.environ.get('VERIF_TIER', 'quick'))
    ap.add_argument('--seed', type=int, default=int(os.environ.get('VERIF_SEED', '1')))
    ap.add_argument('--replay')
    a = ap.parse_args()
    if a.pid not in PROPS:
        print('unknown property', a.pid, file=sys.stderr)
        sys.exit(2)
    if a.replay:
        rp = json.load(open(a.replay))
        a.seed = rp.get('seed', a.seed)
        a.tier = rp.get('tier', a.tier)
    sys.exit(check(a.pid, a.tier, a.seed, a.replay))


if __name__ == '__main__':
    main()
