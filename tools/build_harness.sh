#!/bin/bash
# Build the Go harness inside the oras-go module through an overlay; /repo is not touched.
set -euo pipefail
export GOFLAGS=-mod=mod GOPROXY=off GOSUMDB=off GOTOOLCHAIN=local
V=${VERIF_ROOT:-$(cd "$(dirname "${BASH_SOURCE[0]}")/.." && pwd)}
export V
R=${VERIF_REPO:-/repo}
export R
mkdir -p $V/build/bin
python3 - <<'PY'
import json, os, glob
V=os.environ['V']
rep={}
for f in sorted(glob.glob(V+'/go/harness/*.go')):
    rep[os.environ['R']+'/verifharness/'+os.path.basename(f)]=f
# shims: file name encodes the package dir: a__b__name.go -> /repo/a/b/verif_name.go ; ROOT__x.go -> /repo/verif_x.go
for f in sorted(glob.glob(V+'/go/shims/*.go')):
    parts=os.path.basename(f).split('__')
    d=[p for p in parts[:-1] if p!='ROOT']
    rep[os.path.join(os.environ['R'],*d,'verif_'+parts[-1])]=f
json.dump({'Replace':rep}, open(V+'/build/overlay.json','w'), indent=1)
PY
cd $R
go build -tags verif -overlay $V/build/overlay.json -o $V/build/bin/harness ./verifharness
