#!/bin/bash
# One-time setup after a fresh restore (offline): build the Lean project, the extractor
# and the harness.  Everything is rebuilt from files on disk.
set -euo pipefail
export GOFLAGS=-mod=mod GOPROXY=off GOSUMDB=off GOTOOLCHAIN=local
V=${VERIF_ROOT:-$(cd "$(dirname "${BASH_SOURCE[0]}")/.." && pwd)}
export VERIF_ROOT=$V
mkdir -p $V/build/bin $V/evidence $V/replays
(cd $V/go/extract && go build -o $V/build/bin/extract .)
$V/build/bin/extract -repo ${VERIF_REPO:-/repo} -out $V/lean/OrasModel/Gen -harness $V/go/harness >/dev/null
(cd $V/lean && lake build OrasModel OrasModel.Audit driver)
$V/tools/build_harness.sh
echo setup-ok
