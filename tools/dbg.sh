#!/bin/bash
# dbg.sh <domain> [seed] [tier]: run harness + driver and show the first failures (development aid)
D=$1; S=${2:-1}; T=${3:-quick}
V=${VERIF_ROOT:-$(cd "$(dirname "${BASH_SOURCE[0]}")/.." && pwd)}; export V; cd $V
timeout 600 build/bin/harness $D -seed $S -tier $T -out build/$D.script -stats build/$D.stats || { echo HARNESS-CRASH; exit 1; }
lean/.lake/build/bin/driver < build/$D.script > build/$D.model
python3 - "$D" <<'PY'
import sys
import os; V=os.environ['V']; sys.path.insert(0,V+'/tools')
import verif
m=sys.argv[1]
lines=open(V+f'/build/{m}.script').read().splitlines()
ans=open(V+f'/build/{m}.model').read().splitlines()
fails=verif.diff_streams(lines,ans)
fails.sort(key=lambda f: 0 if f['kind']=='protocol' else 1 if f['kind']=='violation' else 2)
print(m,'lines',len(lines),'fails',len(fails), {k:sum(1 for f in fails if f['kind']==k) for k in ('protocol','violation','drift')})
for f in fails[:int(sys.argv[2]) if len(sys.argv)>2 else 8]:
    print('  ',f['kind'],'L%d'%f['line_no'],'why='+f.get('why',''),f['op'][:160],'| impl',f['impl'][:200],'| model',f['model'][:80],'| spec',f['spec'][:80], '|', lines[f['case_start']])
PY
