#!/usr/bin/env python3
"""Development aid: confirm a seeded change delivered by a sub-agent in a scratch worktree, store it under
/verif/seeded/<id>/, and run the registered checks against it (applied to /repo, then undone).
usage: seeded.py confirm <prop> <worktree> [name]     seeded.py run <prop>/<name> [check ids...]"""
import json, os, subprocess, sys, shutil, time
V = os.environ.get('VERIF_ROOT') or os.path.dirname(os.path.dirname(os.path.abspath(__file__)))
R = os.environ.get('VERIF_REPO', '/repo')
ENV = dict(os.environ, GOFLAGS='-mod=mod', GOPROXY='off', GOSUMDB='off', GOTOOLCHAIN='local')
def sh(cmd, cwd=None, timeout=3000):
    p = subprocess.run(cmd, shell=True, cwd=cwd, env=ENV, capture_output=True, text=True, timeout=timeout)
    return p.returncode, p.stdout + p.stderr
def confirm(prop, wt, name):
    m = os.path.join(wt, '.mutant')
    meta = json.load(open(os.path.join(m, 'meta.json')))
    dst = f'{V}/seeded/{prop}/{name}'
    os.makedirs(dst, exist_ok=True)
    # regenerate the patch from the worktree ourselves
    rc, diff = sh("git diff -- . ':(exclude).mutant' ':(exclude)**/verif_demo_test.go' ':(exclude)verif_demo_test.go'", cwd=wt)
    open(os.path.join(dst, 'patch.diff'), 'w').write(diff)
    touched = [l[6:] for l in diff.splitlines() if l.startswith('+++ b/')]
    assert touched and not any(t.endswith('_test.go') for t in touched), touched
    demo_dir = meta.get('demo_dir', '.')
    demo_src = os.path.join(wt, demo_dir, 'verif_demo_test.go')
    if not os.path.exists(demo_src):
        demo_src = os.path.join(m, 'verif_demo_test.go')
        shutil.copy(demo_src, os.path.join(wt, demo_dir, 'verif_demo_test.go'))
    shutil.copy(demo_src, os.path.join(dst, 'verif_demo_test.go'))
    demo_cmd = f"go test -vet=off -count=1 -run VerifDemo ./{demo_dir}/" if 'demo_run' not in meta else meta['demo_run']
    res = {}
    rc, out = sh(demo_cmd, cwd=wt); res['demo_mutated'] = 'fail' if rc else 'pass'; res['demo_mutated_tail'] = out[-600:]
    rc, out = sh('go build ./... ', cwd=wt); res['builds'] = rc == 0
    os.rename(os.path.join(wt, demo_dir, 'verif_demo_test.go'), '/tmp/wt/_demo_hold.go')
    rc, out = sh('go test -vet=off -count=1 ./... 2>&1 | grep -E "^(FAIL|---|ok|panic)" | grep -v "^ok" ', cwd=wt)
    os.rename('/tmp/wt/_demo_hold.go', os.path.join(wt, demo_dir, 'verif_demo_test.go'))
    fails = [l for l in out.splitlines() if l.startswith('--- FAIL')]
    res['suite_fail_lines'] = fails
    res['suite_passes'] = all('RemovalFailed' in l for l in fails)
    sh(f'git apply -R {dst}/patch.diff', cwd=wt)
    rc, out = sh(demo_cmd, cwd=wt); res['demo_original'] = 'fail' if rc else 'pass'; res['demo_original_tail'] = out[-300:]
    sh(f'git apply {dst}/patch.diff', cwd=wt)
    meta.update(confirmed=res, demo_cmd_used=demo_cmd, confirmed_at=time.strftime('%Y-%m-%dT%H:%M:%SZ', time.gmtime()))
    json.dump(meta, open(os.path.join(dst, 'meta.json'), 'w'), indent=1)
    ok = res['builds'] and res['suite_passes'] and res['demo_mutated'] == 'fail' and res['demo_original'] == 'pass'
    print('CONFIRMED' if ok else 'NOT-CONFIRMED', json.dumps({k: v for k, v in res.items() if not k.endswith('tail')}))
    if not ok:
        print(res['demo_mutated_tail']); print(res['demo_original_tail'])
def run(spec, ids):
    prop = spec.split('/')[0]
    dst = f'{V}/seeded/{spec}'
    ids = ids or [prop]
    rc, out = sh('git status --porcelain', cwd=R); assert out.strip() == '', 'repo dirty: ' + out
    rc, out = sh(f'git apply {dst}/patch.diff', cwd=R); assert rc == 0, out
    results = {}
    # evidence files describe the unchanged tree: keep them out of reach of runs on a changed tree
    saved = {i: open(f'{V}/evidence/{i}.json').read() for i in ids if os.path.exists(f'{V}/evidence/{i}.json')}
    try:
        for i in ids:
            for tier in ['quick']:
                t = time.time()
                rc, out = sh(f'{V}/check {i} --tier {tier} --seed ' + os.environ.get('VERIF_MATRIX_SEED', '1'), cwd=V)
                lines = sorted([l for l in out.splitlines() if l.startswith(('VIOLATION', 'KNOWN-FINDING', 'OK ', 'INTERNAL'))], key=lambda l: 0 if l.startswith('VIOLATION') else 1)
                results[f'{i}:{tier}'] = dict(exit=rc, lines=lines[:6], wall=round(time.time() - t, 1))
                print(i, tier, rc, lines[:4])
    finally:
        for i, txt in saved.items():
            open(f'{V}/evidence/{i}.json', 'w').write(txt)
        sh('git checkout -- .', cwd=R)
        rc, out = sh('git status --porcelain', cwd=R); assert out.strip() == '', out
        sh(f'{V}/tools/build_harness.sh')   # the binary must not outlive the change it was built from
        sh(f'{V}/build/bin/extract -repo {R} -out {V}/lean/OrasModel/Gen -harness {V}/go/harness')   # nor the generated tables
    meta = json.load(open(f'{dst}/meta.json'))
    meta.setdefault('check_results', {}).update(results)
    meta['caught_by'] = sorted({k.split(':')[0] for k, v in meta['check_results'].items() if v['exit'] == 1 and any(l.startswith('VIOLATION') for l in v['lines'])})
    json.dump(meta, open(f'{dst}/meta.json', 'w'), indent=1)
def matrix():
    """Run every stored seeded change against its own property's quick check; write seeded/MATRIX.md."""
    import glob
    rows = []
    for d in sorted(glob.glob(f'{V}/seeded/*/*/meta.json')):
        spec = '/'.join(d.split('/')[-3:-1])
        run(spec, [])
        m = json.load(open(d))
        r = m['check_results'].get(spec.split('/')[0] + ':quick', {})
        own = spec.split('/')[0]
        kinds = 'concrete input' if any(l.startswith('VIOLATION') and 'no-failing-input-found' not in l for l in r.get('lines', [])) else \
            ('no-failing-input-found' if any(l.startswith('VIOLATION') for l in r.get('lines', [])) else ('caught by a sibling check only' if m.get('caught_by') else 'MISSED'))
        rows.append((spec, ', '.join(m.get('files', [])), ', '.join(m.get('caught_by', [])) or '-', kinds, r.get('wall')))
    with open(f'{V}/seeded/MATRIX.md', 'w') as f:
        f.write('| seeded change | files | caught by (quick) | how | wall s |\n|---|---|---|---|---|\n')
        for r in rows:
            f.write('| ' + ' | '.join(str(x) for x in r) + ' |\n')
    print(open(f'{V}/seeded/MATRIX.md').read())
def table():
    """Write seeded/MATRIX.md from the results already recorded in the meta.json files (no run)."""
    import glob
    rows = []
    for d in sorted(glob.glob(f'{V}/seeded/*/*/meta.json'), key=lambda p: (p.split('/')[-3], int(p.split('/')[-2][1:]))):
        spec = '/'.join(d.split('/')[-3:-1])
        m = json.load(open(d))
        r = m.get('check_results', {}).get(spec.split('/')[0] + ':quick', {})
        kinds = 'concrete input' if any(l.startswith('VIOLATION') and 'no-failing-input-found' not in l for l in r.get('lines', [])) else \
            ('no-failing-input-found' if any(l.startswith('VIOLATION') for l in r.get('lines', [])) else ('caught by a sibling check only' if m.get('caught_by') else 'MISSED'))
        rows.append((spec, ', '.join(m.get('files', [])), ', '.join(m.get('caught_by', [])) or '-', kinds, r.get('wall')))
    with open(f'{V}/seeded/MATRIX.md', 'w') as f:
        f.write('| seeded change | files | caught by (quick) | how | wall s |\n|---|---|---|---|---|\n')
        for r in rows:
            f.write('| ' + ' | '.join(str(x) for x in r) + ' |\n')
    print(len(rows), 'rows;', sum(1 for r in rows if r[3] == 'MISSED'), 'missed;', sum(1 for r in rows if r[3] == 'concrete input'), 'concrete')
if sys.argv[1] == 'table':
    table()
elif sys.argv[1] == 'matrix':
    matrix()
elif sys.argv[1] == 'confirm':
    confirm(sys.argv[2], sys.argv[3], sys.argv[4] if len(sys.argv) > 4 else 'm1')
else:
    run(sys.argv[2], sys.argv[3:])
