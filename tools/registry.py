"""Per-property configuration of the check (Lean modules, harness domains, evidence text)."""

COMMON_TB = [
    'Go runtime, OS/file system, encoding/json, archive/tar, net/http are modelled, not verified (DESIGN.md section 3)',
]

PROPS = {
    'C07': dict(
        id='C07',
        lean_modules=['OrasModel.Props.C07'],
        domains=['C07'],
        required_theorems=['c07_exact', 'c07_nodup', 'c07_statement_holds', 'c07_order_independent',
                           'c07_danglings', 'c07_remove_undoes_index', 'c07_every_manifest_type_has_links'],
        level_text='Theorems (for every successor function, every index/Remove history, every queried key): Predecessors is exactly the stored nodes linking to the key, duplicate-free, order-independent; Remove reports exactly the orphaned successors. Proved in Lean about the model of internal/graph/memory.go.',
        level_note='Model tied to the code by the regenerated content.Successors case table and by differential runs of graph.Memory and the three stores against the Lean driver. Locking (RWMutex) and JSON decoding are assumed. IndexAll completeness on reload is correspondence-checked, not proved.',
        thorough_seeds=8,
        rule='cases: all push orders of a generated graph into graph.Memory, random index/remove histories, and '
             'push/delete/reopen histories on the memory, file and OCI stores; a case is non-trivial when it indexes at '
             'least one manifest and queries every node; distinct = distinct script text',
        trusted_base=COMMON_TB + ['content addressing: one key names one byte string (same key => same successors)'],
        assumptions=['sync.RWMutex serialises index/Remove (concurrent pushes are covered by order independence)',
                     'JSON decoding of manifests returns the descriptors that were encoded'],
        stated_not_proved=['completeness of IndexAll on reload (every stored manifest reachable from index.json is indexed) is checked by correspondence only'],
    ),
}
