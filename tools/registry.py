"""Per-property configuration of the check (Lean modules, harness domains, evidence text)."""

COMMON_TB = [
    'Go runtime, OS/file system, encoding/json, archive/tar, net/http are modelled, not verified (DESIGN.md section 3)',
]

PROPS = {
    'C20': dict(
        id='C20',
        lean_modules=['OrasModel.Props.C20'],
        domains=['C20'],
        required_theorems=['c20_accept_iff', 'c20_decomposition_unique', 'c20_roundtrip', 'c20_url_slot',
                           'c20_gen_cfg_ok', 'c20_gen_url_chars', 'c20_current_source', 'c20_repo_forms'],
        level_text='Theorems (for every string and every registry validator): ParseReference accepts s and returns r iff s decomposes per the documented grammar into r\'s parts (decomposition grammar, not a re-statement of the search); the decomposition is unique; parse(format(r)) = r; accepted repository/reference contain none of ? # % and the reference no /, so the URL path has exactly the intended segments; Repository.ParseReference maps tag, digest, tag@digest and fully-qualified forms to one reference. The recognisers are the regex trees regenerated from registry/reference.go and go-digest; their character exclusions are decided on those trees.',
        level_note='Registry validation (net/url) is a parameter of the model, fed per string from the real ValidateRegistry by the harness; Go regexp is re-implemented as a derivative matcher and differentially tested; lenient bare-colon/at forms are part of the model grammar but not judged. URL assembly is checked by the harness through net/url.',
        thorough_seeds=2,
        rule='strings: exhaustive over a 12-character delimiter/class alphabet up to the length bound, registry/path products, digest and tag boundary forms, seeded mutations of valid references; non-trivial = accepted by the implementation (every component recogniser ran), distinct strings',
        trusted_base=COMMON_TB + ['net/url ParseRequestURI (registry validator) is a parameter; regexp/syntax parse of the literals'],
        assumptions=['sha256/384/512 are the registered digest algorithms (crypto packages linked)'],
        stated_not_proved=[],
    ),
    'C05': dict(
        id='C05',
        lean_modules=['OrasModel.Props.C05'],
        domains=['C05'],
        required_theorems=['c05_readAll_iff', 'c05_readAll_trailing', 'c05_copyBuffer_sound', 'c05_copyBuffer_eq_readAll', 'c05_negative_size_rejected',
                           'c05_memPush_visible', 'c05_ociPush_visible', 'c05_pushes_good', 'c05_limitedPush_sound'],
        level_text='Theorems (for every byte string, descriptor, chunking, zero-length read and error position): ReadAll succeeds iff size>=0, digest valid, the reader delivers exactly Size bytes hashing to Digest then a clean EOF; CopyBuffer is sound and equals ReadAll for size>=0; Push of the memory/limited/OCI store models changes the visible map only on success and only by key -> verified bytes; any sequence of pushes keeps every blob named by its hash.',
        level_note='Hash is an abstract injective-on-use function H; buffers are at least as large as scripted chunks; model tied to content/reader.go, internal/ioutil, cas.Memory, LimitedStorage, oci.Storage and file.Store by an exhaustive reader x descriptor grid run through the real code and the Lean driver. Goroutine races on one digest are observed, not proved.',
        thorough_seeds=4,
        rule='grid: contents x delivered variants x 6-9 reader plans x 25 descriptors through ReadAll and CopyBuffer (exhaustive over the grid), then random sub-sequences pushed into six store flavours; non-trivial = descriptor passes the up-front checks (valid digest, size >= 0) so that the read loop runs; distinct by construction of the grid / distinct push scripts',
        trusted_base=COMMON_TB + ['SHA-256/512 modelled as an abstract function; equality of digests = equality of bytes in the driver'],
        assumptions=['io.LimitedReader / io.TeeReader / io.ReadFull / io.CopyBuffer behave as documented', 'os.Rename is atomic; CreateTemp names are unique'],
        stated_not_proved=['atomicity of concurrent OCI pushes under one digest is observed by the race stream only'],
    ),
    'C07': dict(
        id='C07',
        lean_modules=['OrasModel.Props.C07'],
        domains=['C07'],
        required_theorems=['c07_exact', 'c07_nodup', 'c07_statement_holds', 'c07_order_independent',
                           'c07_danglings', 'c07_remove_undoes_index', 'c07_every_manifest_type_has_links'],
        level_text='Theorems (for every successor function, every index/Remove history, every queried key): Predecessors is exactly the stored nodes linking to the key, duplicate-free, order-independent; Remove reports exactly the orphaned successors. Proved in Lean about the model of internal/graph/memory.go.',
        level_note='Model tied to the code by the regenerated content.Successors case table and by differential runs of graph.Memory and the three stores against the Lean driver. Locking (RWMutex) and JSON decoding are assumed. IndexAll completeness on reload is correspondence-checked, not proved.',
        thorough_seeds=8,
        rule='cases: all push orders of a generated graph into graph.Memory, random index/remove histories, and '
             'push/delete/reopen histories on the memory, file and OCI stores; a case is non-trivial when it indexes at '
             'least one manifest and queries every node; distinct = distinct script text',
        trusted_base=COMMON_TB + ['content addressing: one key names one byte string (same key => same successors)'],
        assumptions=['sync.RWMutex serialises index/Remove (concurrent pushes are covered by order independence)',
                     'JSON decoding of manifests returns the descriptors that were encoded'],
        stated_not_proved=['completeness of IndexAll on reload (every stored manifest reachable from index.json is indexed) is checked by correspondence only'],
    ),
}
