import OrasModel.Driver.G
import OrasModel.Driver.V
import OrasModel.Driver.R
import OrasModel.Driver.Cp
import OrasModel.Driver.Fr
import OrasModel.Driver.O
import OrasModel.Driver.Cr
import OrasModel.Driver.Pf
import OrasModel.Driver.Tr
import OrasModel.Driver.Rt
import OrasModel.Driver.Pk
import OrasModel.Driver.Cd
import OrasModel.Driver.Au
import OrasModel.Driver.Sc
import OrasModel.Driver.Rf
import OrasModel.Driver.Rl
import OrasModel.Driver.Tf
import OrasModel.Driver.Cm
import OrasModel.Driver.Lf
import OrasModel.Driver.Ch
import OrasModel.Driver.Pg
import OrasModel.Driver.Rm
import OrasModel.Driver.S
open Oras.Driver

structure DState where
  g : G.St := {}
  v : V.St := {}
  cp : Cp.St := {}
  fr : Fr.St := {}
  o : O.St := {}
  cd : Cd.St := {}
  au : Au.St := {}
  rm : Rm.St := {}
  s : S.St := {}
  rl : Rl.St := {}

def answer (r : Option (α × String × String)) (st : DState) (upd : α → DState) : DState × String :=
  match r with
  | some (a, m, s) => (upd a, s!"m={m} s={s}")
  | none => (st, "bad-op")

def handle (st : DState) (line : String) : DState × String :=
  -- strip comment and the implementation's answer (" => ...")
  let line := (line.splitOn " => ").head!
  match splitWs line with
  | "case" :: _ => ({}, "m=ok s=ok")
  | "g" :: rest => answer (G.step st.g rest) st (fun g => { st with g := g })
  | "cr" :: rest => (match Cr.step rest with
      | some (m, s) => (st, s!"m={m} s={s}")
      | none => (st, "bad-op"))
  | "pf" :: rest => (match Pf.step rest with
      | some (m, s) => (st, s!"m={m} s={s}")
      | none => (st, "bad-op"))
  | "tr" :: rest => (match Tr.step rest with
      | some (m, s) => (st, s!"m={m} s={s}")
      | none => (st, "bad-op"))
  | "rt" :: rest => (match Rt.step rest with
      | some (m, s) => (st, s!"m={m} s={s}")
      | none => (st, "bad-op"))
  | "pk" :: rest => (match Pk.step rest with
      | some (m, s) => (st, s!"m={m} s={s}")
      | none => (st, "bad-op"))
  | "sc" :: rest => (match Sc.step rest with
      | some (m, s) => (st, s!"m={m} s={s}")
      | none => (st, "bad-op"))
  | "ch" :: rest => (match Ch.step rest with
      | some (m, s) => (st, s!"m={m} s={s}")
      | none => (st, "bad-op"))
  | "lf" :: rest => (match Lf.step' rest with
      | some (m, s) => (st, s!"m={m} s={s}")
      | none => (st, "bad-op"))
  | "cm" :: rest => (match Cm.step rest with
      | some (m, s) => (st, s!"m={m} s={s}")
      | none => (st, "bad-op"))
  | "tf" :: rest => (match Tf.step rest with
      | some (m, s) => (st, s!"m={m} s={s}")
      | none => (st, "bad-op"))
  | "rf" :: rest => (match Rf.step rest with
      | some (m, s) => (st, s!"m={m} s={s}")
      | none => (st, "bad-op"))
  | "pg" :: rest => (match Pg.step rest with
      | some (m, s) => (st, s!"m={m} s={s}")
      | none => (st, "bad-op"))
  | "ref" :: rest => (match R.step rest with
      | some (m, s) => (st, s!"m={m} s={s}")
      | none => (st, "bad-op"))
  | "rl" :: rest => answer (Rl.step st.rl rest) st (fun c => { st with rl := c })
  | "cp" :: rest => answer (Cp.step st.cp rest) st (fun c => { st with cp := c })
  | "fr" :: rest => answer (Fr.step st.fr rest) st (fun c => { st with fr := c })
  | "o" :: rest =>
      (match O.step { st.o with why := "" } rest with
        | some (o', m, s) =>
          let w := if o'.why.isEmpty then "" else " w=" ++ o'.why
          ({ st with o := o' }, s!"m={m} s={s}{w}")
        | none => (st, "bad-op"))
  | "s" :: rest => answer (S.step st.s rest) st (fun c => { st with s := c })
  | "rm" :: rest => answer (Rm.step st.rm rest) st (fun c => { st with rm := c })
  | "sk" :: rest => answer (Rm.stepSk st.rm rest) st (fun c => { st with rm := c })
  | "cd" :: rest => answer (Cd.step st.cd rest) st (fun c => { st with cd := c })
  | "au" :: rest => answer (Au.step st.au rest) st (fun c => { st with au := c })
  | "v" :: rest => answer (V.step st.v rest) st (fun v => { st with v := v })
  | _ => (st, "bad-op")

partial def loop (h : IO.FS.Stream) (out : IO.FS.Stream) (st : DState) : IO Unit := do
  let line ← h.getLine
  if line.isEmpty then return ()
  let l := line.trimAscii.toString
  if l.isEmpty || l.startsWith "#" then
    out.putStrLn "skip"
    loop h out st
  else
    let (st', ans) := handle st l
    out.putStrLn ans
    loop h out st'

def main : IO Unit := do
  let stdin ← IO.getStdin
  let stdout ← IO.getStdout
  loop stdin stdout {}
