/-
  Audit: enumerate every theorem in a `Oras.Props.Cxx` namespace together with the
  axioms its proof depends on, as one JSON line per theorem.  Used by `./check` to
  count obligations and to reject `sorryAx` or any axiom beyond
  `propext`, `Classical.choice`, `Quot.sound`.
-/
import Lean
open Lean Elab Command

namespace Oras.Audit

def auditNS (ns : Name) : CommandElabM Unit := do
  let env ← getEnv
  let mut names : Array Name := #[]
  for (n, ci) in env.constants.toList do
    if ns.isPrefixOf n && !n.isInternal then
      match ci with
      | .thmInfo _ => names := names.push n
      | _ => pure ()
  let sorted := names.qsort (fun a b => a.toString < b.toString)
  for n in sorted do
    let axs ← Lean.collectAxioms n
    let axStrs := axs.toList.map (fun a => "\"" ++ a.toString ++ "\"")
    IO.println s!"AUDIT \{\"theorem\": \"{n}\", \"axioms\": [{", ".intercalate axStrs}]}"

elab "#audit_ns " id:ident : command => auditNS id.getId

end Oras.Audit
