/-
  Driver domain `v`: verifying readers and store pushes (C05).
    v readall mt=.. size=.. dig=<of:b|of512:b|bad|unsup> reader=<evs>
    v copy    (same)
    v store <cas|lim|oci|ocistore|file|filefb>
    v push  (same fields)        -> <res> exists=.. fetch=.. [blobs=.. ingest=..]
    v race pushers=n             -> ok     (runtime observation only)
-/
import OrasModel.Model.Verify
import OrasModel.Driver.Util
namespace Oras.Driver.V
open Oras Oras.Driver

def parseBytes (s : String) : Option Bytes :=
  if s = "" then some [] else (s.splitOn ".").mapM (fun t => t.toNat?)

def showBytes (b : Bytes) : String := ".".intercalate (b.map toString)

def parseEv (s : String) : Option RdEv :=
  if s = "E" then some .eof
  else if s = "X" then some .fail
  else match s.splitOn ":" with
    | ["d", b] => (parseBytes b).map .data
    | ["e", b] => (parseBytes b).map .dataEof
    | ["x", b] => (parseBytes b).map .dataErr
    | ["y", b] => (parseBytes b).map .dataErrOnce
    | _ => none

def parseReader (s : String) : Option Reader :=
  if s = "-" then some [] else (s.splitOn ";").mapM parseEv

structure PDesc where
  mt : Nat
  size : Int
  alg : String          -- "of" / "of512"
  digTok : String       -- the whole token, used as store key
  digBytes : Option Bytes   -- none: fails Validate

def parseDesc (toks : List String) : Option PDesc := do
  let mt ← (← kv toks "mt").toNat?
  let size ← (← kv toks "size").toInt?
  let dig ← kv toks "dig"
  match dig.splitOn ":" with
  | ["of", b] => some ⟨mt, size, "of", dig, ← parseBytes b⟩
  | ["of512", b] => some ⟨mt, size, "of512", dig, ← parseBytes b⟩
  | ["bad"] => some ⟨mt, size, "bad", dig, none⟩
  | ["unsup"] => some ⟨mt, size, "unsup", dig, none⟩
  | _ => none

def showErr : VErr → String
  | .invalidSize => "invalidSize" | .invalidDigest => "invalidDigest"
  | .unexpectedEOF => "unexpectedEOF" | .readerErr => "readerErr"
  | .trailingData => "trailingData" | .mismatchedDigest => "mismatchedDigest"
  | .alreadyExists => "alreadyExists" | .sizeLimit => "sizeLimit" | .notFound => "notFound"

def showRes : Except VErr Bytes → String
  | .ok b => "ok:" ++ showBytes b
  | .error e => "err:" ++ showErr e

def showUnit : Except VErr Unit → String
  | .ok _ => "ok"
  | .error e => "err:" ++ showErr e

/-- The digest function as seen by one descriptor's verifier: injective on bytes. -/
def Hs (alg : String) (b : Bytes) : String := alg ++ ":" ++ showBytes b

def PDesc.v (d : PDesc) : VDesc String := ⟨d.digBytes.map (Hs d.alg), d.size⟩

/-- The property's acceptance condition, written independently of the read loop. -/
def specExact (d : PDesc) (r : Reader) : Option Bytes :=
  match d.digBytes with
  | none => none
  | some db =>
    let (b, clean) := delivered r
    if d.size ≥ 0 && clean && (b.length : Int) == d.size && b == db then some b else none

/-- Push may (but need not) accept when the first `Size` bytes match and more follow. -/
def specPrefixOk (d : PDesc) (r : Reader) : Bool :=
  match d.digBytes with
  | none => false
  | some db =>
    let (b, _) := delivered r
    d.size ≥ 0 && (b.length : Int) ≥ d.size && b.take d.size.toNat == db

structure St where
  kind : String := ""
  mem : CMap (Nat × String × Int) := []     -- cas / lim / filefb
  blobs : CMap String := []                 -- oci / ocistore / file (digest keyed)
  ingestLeft : Nat := 0                     -- ingest files left behind by failed pushes (observation O5)

def step (s : St) (toks : List String) : Option (St × String × String) :=
  match toks with
  | "readall" :: rest => do
      let d ← parseDesc rest
      let r ← parseReader (← kv rest "reader")
      let m := readAll (Hs d.alg) d.v r
      let sp := match specExact d r with | some b => "ok:" ++ showBytes b | none => "err"
      some (s, showRes m, sp)
  | "fetchall" :: rest => do   -- content.FetchAll over a fetcher that hands out the reader: ReadAll's verdict
      let d ← parseDesc rest
      let r ← parseReader (← kv rest "reader")
      let m := readAll (Hs d.alg) d.v r
      let sp := match specExact d r with | some b => "ok:" ++ showBytes b | none => "err"
      some (s, showRes m, sp)
  | "copy" :: rest => do
      let d ← parseDesc rest
      let r ← parseReader (← kv rest "reader")
      let m := copyBuffer (Hs d.alg) d.v r
      let sp := match specExact d r with | some b => "ok:" ++ showBytes b | none => "err"
      some (s, showRes m, sp)
  | ["store", k] => some ({ kind := k }, "ok", "ok")
  | "push" :: rest => do
      let d ← parseDesc rest
      let r ← parseReader (← kv rest "reader")
      let key := (d.mt, d.digTok, d.size)
      -- model
      let (s', res, ex, fetch) : St × Except VErr Unit × String × String :=
        match s.kind with
        | "cas" | "lim" | "filefb" =>
          let limit : Int := if s.kind == "lim" then 3 else 4 * 1024 * 1024
          let (m', res) := if s.kind == "cas" then memPush (Hs d.alg) s.mem key d.v r
                           else limitedPush (Hs d.alg) limit s.mem key d.v r
          ({ s with mem := m' }, res,
            (if (m'.get key).isSome then "1" else "0"),
            (match m'.get key with | some b => "ok:" ++ showBytes b | none => "err"))
        | "oci" | "ocistore" =>
          let (m', res) := ociPush (Hs d.alg) s.blobs d.v r
          -- `ingest` returns `"", err`, which clears the named result `path` before the
          -- deferred `os.Remove(path)` runs: a failed CopyBuffer leaves its ingest file.
          let leaked := match res with
            | .error .alreadyExists | .error .invalidDigest | .ok _ => 0
            | .error _ => 1
          ({ s with blobs := m', ingestLeft := s.ingestLeft + leaked }, res,
            (match d.digBytes with
              | none => "err"
              | some _ => if (m'.get d.digTok).isSome then "1" else "0"),
            (match m'.get d.digTok with | some b => "ok:" ++ showBytes b | none => "err"))
        | _ => -- "file": named file with a fresh name, digestToPath overwritten on success
          match copyBuffer (Hs d.alg) d.v r with
          | .ok b => ({ s with blobs := (d.digTok, b) :: s.blobs }, .ok (), "1", "ok:" ++ showBytes b)
          | .error e => (s, .error e, "0", "err")
      -- file store: the plain descriptor (no title) goes through digestToPath only
      let plainOf (b : CMap String) : String :=
        match b.get d.digTok with
        | some x => s!" pexists=1 pfetch=ok:{showBytes x}"
        | none => " pexists=0 pfetch=err"
      let tail := if s.kind == "oci" || s.kind == "ocistore" then s!" blobs={s'.blobs.length}"
                  else if s.kind == "file" then plainOf s'.blobs else ""
      let m := s!"{showUnit res} exists={ex} fetch={fetch}{tail}"
      -- spec: decided by the property where it has an opinion
      let already := match s.kind with
        | "cas" | "lim" | "filefb" => (s.mem.get key).isSome
        | "oci" | "ocistore" => (s.blobs.get d.digTok).isSome
        | _ => false
      let oversize := (s.kind == "lim" && d.size > 3)
      let sp :=
        if already || oversize then m     -- refusal of present/oversize content: C06's business; model decides
        else match specExact d r with
          | some b =>
            let n := if s.kind == "oci" || s.kind == "ocistore" then s!" blobs={s.blobs.length + 1}"
                     else if s.kind == "file" then s!" pexists=1 pfetch=ok:{showBytes b}" else ""
            s!"ok exists=1 fetch=ok:{showBytes b}{n}"
          | none =>
            if specPrefixOk d r then "*"
            else
              let n := if s.kind == "oci" || s.kind == "ocistore" then s!" blobs={s.blobs.length}"
                       else if s.kind == "file" then plainOf s.blobs else ""   -- a failed push changes nothing
              let ex0 := if (s.kind == "oci" || s.kind == "ocistore") && d.digBytes.isNone then "err" else "0"
              s!"err exists={ex0} fetch=err{n}"
      some (s', m, sp)
  | ["ingestcount"] => some (s, toString s.ingestLeft, "*")
  | "race" :: _ => some (s, "ok", "ok")
  | _ => none

end Oras.Driver.V
