/-
  Driver domain `pk`: PackManifest decision table (C19).
    pk run ver=<10|11> at=<empty|valid|invalid> cfg=<none|valid|invalid|emptytype> layers=<0|n>
           subject=<0|1> created=<absent|valid|malformed|empty> target=<ros-present|ros-absent|pusher>
    pk mt s=<string>        media-type regex
-/
import OrasModel.Spec.Grammar
import OrasModel.Model.Pack
import OrasModel.Model.Re
import OrasModel.Gen.Regex
import OrasModel.Driver.Util
namespace Oras.Driver.Pk
open Oras Oras.Driver

def showEv : PackEv → String
  | .existsConfig => "existsConfig" | .pushConfig => "pushConfig"
  | .existsLayer => "existsLayer" | .pushLayer => "pushLayer" | .pushManifest => "pushManifest"

def showErr : PackErr → String
  | .unsupportedSubject => "unsupported" | .invalidMediaType => "invalidMediaType"
  | .missingArtifactType => "missingArtifactType" | .invalidDateTime => "invalidDateTime"

def step (toks : List String) : Option (String × String) :=
  match toks with
  | kind :: rest => if kind != "run" && kind != "result" then
      (match toks with
       | "mt" :: rest => do
           let s ← kv rest "s"
           some (toString (Gen.mediaTypeRe.accepts s.toList), toString (Spec.Grammar.mediaType.accepts s.toList))
       | "det" :: _ => some ("same", "same")
       | "again" :: _ => some ("same", "same")   -- identical inputs into a target that already holds the result
       | _ => none)
    else do
      let ver ← match ← kv rest "ver" with | "10" => some PackVer.v10 | "11" => some .v11 | _ => none
      let at_ ← match ← kv rest "at" with
        | "empty" => some MTc.empty | "valid" => some .valid | "invalid" => some .invalid | _ => none
      let cfg ← match ← kv rest "cfg" with
        | "none" => some (none : Option CfgIn)
        | "valid" => some (some ⟨.valid, false⟩)
        | "validempty" => some (some ⟨.valid, false⟩)
        | "invalid" => some (some ⟨.invalid, false⟩)
        | "emptytype" => some (some ⟨.valid, true⟩)
        | _ => none
      let layersEmpty := (← kv rest "layers") == "0"
      let subject := (← kv rest "subject") == "1"
      let created ← match ← kv rest "created" with
        | "absent" => some Created.absent | "valid" => some .valid | "malformed" => some .malformed
        | "empty" => some .malformed  -- the key is present with the empty string: not an RFC 3339 time
        | "validfrac" => some .valid | "validoffset" => some .valid   -- valid RFC 3339 in another spelling: kept as given
        | _ => none
      let (canCheck, present) ← match ← kv rest "target" with
        | "ros-present" => some (true, true) | "ros-absent" => some (true, false) | "pusher" => some (false, false)
        | _ => none
      let (evs, res) := pack ⟨ver, at_, cfg, layersEmpty, subject, created, canCheck, present⟩
      let evStr := if evs.isEmpty then "-" else ",".intercalate (evs.map showEv)
      let m := match res with
        | .ok _ => s!"{evStr} res=ok fields=ok"
        | .error e => s!"{evStr} res=err:{showErr e}"
      -- specification: the documented rejections happen before any push; a malformed date
      -- never pushes a manifest; otherwise success with correct fields
      -- (version 1.0 uses artifactType only as the media type of the config it invents)
      let rejectEarly := (ver == .v10 && subject) || (at_ == .invalid && (ver == .v11 || cfg.isNone)) ||
        (match cfg with | some c => c.mt == .invalid | none => false) ||
        (ver == .v11 && at_ == .empty && (match cfg with | none => true | some c => c.isEmptyJSONType))
      if kind == "result" then
        -- the outcome the property fixes: documented rejections and a malformed date fail;
        -- everything else succeeds with the requested fields and every invented blob present
        let mres := match res with | .ok _ => "res=ok fields=ok" | .error e => s!"res=err:{showErr e}"
        let sp := if rejectEarly || created == .malformed then "res=err" else "res=ok fields=ok"
        some (mres, sp)
      else
        let sp := if rejectEarly then "- res=err" else "*"
        some (m, sp)
  | [] => none

end Oras.Driver.Pk
