/-
  Driver domain `rl`: the flow around one referrers tag, fault by fault (C14,
  `Model/RefFlow.lean`).
    rl new skipgc=<0|1>
    rl push k=<n> fault=<none|idxget|idxput|idxdel>      -> out=<ok|err|cleanup> listed=<set> live=<set>
    rl delete k=<n> fault=<…>                            -> the same
    rl dangling                                          -> <n>   (superseded index manifests still stored)
  model: the flow with the two error paths as the regenerated source facts describe them;
  specification: the flow the theorems of `Props/C14d.lean` are about (both repairs in place).
-/
import OrasModel.Model.RefFlow
import OrasModel.Gen.Facts
import OrasModel.Driver.Util
namespace Oras.Driver.Rl
open Oras Oras.Driver Oras.RefFlow

structure St where
  skipGC : Bool := false
  mod : Reg := Reg.empty
  spec : Reg := Reg.empty

/-- from the source: on the clean-up error `Delete` deletes the manifest all the same -/
def completes : Bool := Gen.refDeleteTestsCleanupError && Gen.refDeleteOnIndexError.contains "delete"
/-- from the source: when the old index cannot be deleted, an index is pushed then -/
def emptyOnFail : Bool := Gen.refUpdateOnDeleteError.contains "pushIndex"

def parseFault : String → Option Fault
  | "none" => some .none | "idxget" => some .idxGet | "idxput" => some .idxPut | "idxdel" => some .idxDel
  | _ => none

def showOut : Out → String
  | .ok => "ok" | .err => "err" | .cleanup => "cleanup"

def showReg (r : Reg) (o : Out) : String :=
  s!"out={showOut o} listed={showSet r.listed} live={showSet r.live}"

def step (s : St) (toks : List String) : Option (St × String × String) :=
  match toks with
  | "new" :: rest => do
      let g := (← kv rest "skipgc") == "1"
      some ({ skipGC := g }, "ok", "ok")
  | "push" :: rest => do
      let k ← (← kv rest "k").toNat?
      let f ← parseFault (← kv rest "fault")
      let (m, mo) := push s.skipGC emptyOnFail f s.mod k
      let (sp, so) := push s.skipGC true f s.spec k
      some ({ s with mod := m, spec := sp }, showReg m mo, showReg sp so)
  | "delete" :: rest => do
      let k ← (← kv rest "k").toNat?
      let f ← parseFault (← kv rest "fault")
      let (m, mo) := delete s.skipGC emptyOnFail completes f s.mod k
      let (sp, so) := delete s.skipGC true true f s.spec k
      some ({ s with mod := m, spec := sp }, showReg m mo, showReg sp so)
  | ["dangling"] => some (s, toString s.mod.dangling, toString s.spec.dangling)
  | _ => none

end Oras.Driver.Rl
