/-
  Driver domain `pf`: lexical path functions and the file store's outside-write check (C11).
    pf clean s=<path>
    pf writepath wd=<clean absolute dir> name=<title>
    pf tar ents=.. named=.. res=.. outside=<clean|OUTSIDE(...)> why=..
-/
import OrasModel.Model.PathLex
import OrasModel.Driver.Util
namespace Oras.Driver.Pf
open Oras Oras.Driver

def step (toks : List String) : Option (String × String) :=
  match toks with
  | "clean" :: rest => do
      let s ← kv rest "s"
      some (String.ofList (cleanPath s.toList), "*")
  | "writepath" :: rest => do
      let wd ← kv rest "wd"
      let name ← kv rest "name"
      let wdSegs := cleanSegs true (splitSlash wd.toList)
      -- specification = the model: its accepted paths are proved to lie under the working
      -- directory (c11_name_contained), so an implementation that accepts a title the
      -- model refuses, or resolves it elsewhere, writes outside
      match resolveWritePath wdSegs name.toList with
      | some p => some ("ok:/" ++ String.ofList (joinSlash p), "ok:/" ++ String.ofList (joinSlash p))
      | none => some ("err", "err")
  | "tar" :: rest => do
      let out ← kv rest "outside"
      some ("ok", if out == "clean" then "ok" else "OUTSIDE-WRITE")
  | _ => none

end Oras.Driver.Pf
