/-
  Driver domain `tf`: positions of tar entries (C08, `Model/TarOff.lean`).
    tf index raw=<header offsets found by a raw block walk> ents=<x1+x2:size;…>   -> recorded positions
    tf read                                                                       -> ok
  model: `recorded` (reader position after Next, minus one block) - or the arithmetic offsets
  if the source no longer takes the reader's position; specification: the raw offsets.
-/
import OrasModel.Model.TarOff
import OrasModel.Gen.Facts
import OrasModel.Driver.Util
namespace Oras.Driver.Tf
open Oras Oras.Driver Oras.TarOff

def parseEnt (s : String) : Option TEnt :=
  match s.splitOn ":" with
  | [x, sz] => do
      let size ← sz.toNat?
      let ext ← if x == "-" then some [] else (x.splitOn "+").mapM (·.toNat?)
      some ⟨ext, size⟩
  | _ => none

def showL (l : List Nat) : String := ",".intercalate (l.map toString)

def step (toks : List String) : Option (String × String) :=
  match toks with
  | "index" :: rest => do
      let es ← ((← kv rest "ents").splitOn ";").mapM parseEnt
      let raw ← kv rest "raw"
      let usesReader := Gen.tarfsIndexPos.any (fun s => (s.splitOn "Seek").length > 1)
      let m := if usesReader then recorded 0 es else arithOffs 0 es
      -- the raw walk and the model's header offsets must agree as well (the harness's own
      -- parser is checked against the model here)
      let sp := if showL (headerOffs 0 es) == raw then raw else "RAW-WALK-DISAGREES(" ++ showL (headerOffs 0 es) ++ ")"
      some (showL m, sp)
  | ["read"] => some ("ok", "ok")
  | _ => none

end Oras.Driver.Tf
