/-
  Driver domain `au`: auth client request flow (C16).
    au new
    au do host=<h> hint=<k> pw=.. rt=.. at=.. oauth=.. r1=<reply> r2=<reply> fetch=<id|fail>
    au dob body=<none|replay|oneshot> <same fields>     (C17: with the body each registry send carries)
  reply: final | basic | unknown | bearer:<realmHost>:<key>
-/
import OrasModel.Model.Auth
import OrasModel.Model.AuthBody
import OrasModel.Model.AuthFb
import OrasModel.Driver.Util
namespace Oras.Driver.Au
open Oras Oras.Driver

structure St where
  cache : ACache := []

def parseReply (s : String) : Option Reply :=
  match s.splitOn ":" with
  | ["final"] => some .final
  | ["basic"] => some .basic
  | ["unknown"] => some .unknown
  | ["bearer", r, k] => do some (.bearer (← r.toNat?) (← k.toNat?))
  | _ => none

def showSec : Option Sec → String
  | none => "-"
  | some (.pw h) => s!"pw{h}"
  | some (.rt h) => s!"rt{h}"
  | some (.at_ h) => s!"at{h}"
  | some (.tok _ id) => s!"tok{id}"

def showOut (o : Out) : String :=
  s!"to={o.to}:{showSec o.sec}" ++ (if o.kind == .tokenFetch then ":F" else "")

/-- The property, evaluated on one emitted request. -/
def outOk (i : DoIn) (o : Out) : Bool :=
  match o.sec with
  | none => true
  | some s =>
    s.host == i.host &&
    (match o.kind with
      | .registry => o.to == i.host
      | .tokenFetch => (s == .pw i.host || s == .rt i.host) &&
          (match i.r1 with | .bearer r _ => r == o.to | _ => false))

def step (st : St) (toks : List String) : Option (St × String × String) :=
  match toks with
  | ["new"] => some ({}, "ok", "ok")
  | "do" :: rest => do
      let b (k : String) : Option Bool := (kv rest k).map (· == "1")
      let f ← kv rest "fetch"
      let i : DoIn := {
        host := ← (← kv rest "host").toNat?, hintKey := ← (← kv rest "hint").toNat?,
        cred := ⟨← b "pw", ← b "rt", ← b "at"⟩, forceOAuth2 := ← b "oauth",
        r1 := ← parseReply (← kv rest "r1"), r2 := ← parseReply (← kv rest "r2"),
        fetchOk := if f == "fail" then none else f.toNat? }
      -- `fb=1`: the single-context cache (per-registry fallback entry)
      let (outs, c') := if (kv rest "fb") == some "1" then authFlowF st.cache i else authFlow st.cache i
      let m := if outs.isEmpty then "-" else " ".intercalate (outs.map showOut)
      let sp := if outs.all (outOk i) && (outs.filter (·.kind == .registry)).length ≤ 3 &&
                   (outs.filter (·.kind == .tokenFetch)).length ≤ 1 then m else "SPEC-VIOLATED"
      some ({ cache := c' }, m, sp)
  | "dob" :: rest => do
      let b (k : String) : Option Bool := (kv rest k).map (· == "1")
      let f ← kv rest "fetch"
      let body ← match (← kv rest "body") with
        | "none" => some BodyKind.none | "replay" => some .replay | "oneshot" => some .oneshot
        | "replay0" => some .replay   -- replayable (GetBody set), length not announced: rewound like any other
        | _ => none
      let i : DoIn := {
        host := ← (← kv rest "host").toNat?, hintKey := ← (← kv rest "hint").toNat?,
        cred := ⟨← b "pw", ← b "rt", ← b "at"⟩, forceOAuth2 := ← b "oauth",
        r1 := ← parseReply (← kv rest "r1"), r2 := ← parseReply (← kv rest "r2"),
        fetchOk := if f == "fail" then none else f.toNat? }
      let (outs, c') := authFlowB st.cache i body
      let showR : Recv → String | .none => "none" | .full => "full" | .truncated => "trunc"
      let showOB (x : Out × Recv) : String :=
        if x.1.kind == .tokenFetch then showOut x.1 else showOut x.1 ++ "/" ++ showR x.2
      let m := " ".intercalate (outs.map showOB)
      -- the property: the whole body on every send, a one-shot body sent once
      let regs := outs.filter (·.1.kind == .registry)
      let ok := outs.all (·.2 != .truncated) && (body != .oneshot || regs.length ≤ 1)
      some ({ cache := c' }, m, if ok then m else "SPEC-VIOLATED")
  | "once" :: _ => some (st, "ok", "ok")        -- runtime monitor of syncutil.Once (Props/C16b)
  | "scan" :: _ => some (st, "clean", "clean")
  | "bound" :: _ => some (st, "within", "within")   -- at most three sends and one token fetch (single-context cache)
  | _ => none

end Oras.Driver.Au
