/-
  Driver domain `g`: graph.Memory (C07).
    g new
    g node <n> <m|b> <succs>      declare a node: manifest (fetched for successors) or blob
    g have <n> <0|1>              whether n's bytes are fetchable (for indexAll)
    g index <n>
    g indexall <n>                Memory.IndexAll from n (every node fetchable)
    g remove <n>                  -> dang=<set>
    g preds <k>                   -> <set>      (model)  /  spec from storedSpec
    g exists <k>
    g reopen                      rebuild by IndexAll from every stored manifest
-/
import OrasModel.Model.GraphMem
import OrasModel.Driver.Util
namespace Oras.Driver.G
open Oras Oras.Driver

structure St where
  g : GMem := GMem.empty
  succ : List (Nat × List Nat) := []
  isMan : List (Nat × Bool) := []
  univ : List Nat := []
  hist : List GOp := []          -- history for the spec (storedSpec)

def St.succF (s : St) : Key → List Key := fun n => lookupD s.succ n []

def specPreds (s : St) (k : Key) : List Key :=
  s.univ.filter (fun p => storedSpec s.hist p && (s.succF p).contains k)

/-- Spec side of `indexall`: what is reachable from the frontier, expanding manifests only. -/
def reachFrom (s : St) : Nat → List Nat → List Nat → List Nat
  | 0, _, acc => acc
  | fuel + 1, frontier, acc =>
    let fresh := dedup (frontier.filter (fun k => !acc.contains k))
    if fresh.isEmpty then acc
    else reachFrom s fuel (fresh.flatMap (fun k => if lookupD s.isMan k false then s.succF k else [])) (acc ++ fresh)

def step (s : St) (toks : List String) : Option (St × String × String) :=
  match toks with
  | ["new"] => some ({}, "ok", "ok")
  | ["node", n, kind, ss] => do
      let n ← n.toNat?
      let ss ← parseNats ss
      some ({ s with succ := (n, ss) :: s.succ, isMan := (n, kind == "m") :: s.isMan,
                     univ := s.univ ++ [n] }, "ok", "ok")
  | ["index", n] => do
      let n ← n.toNat?
      some ({ s with g := s.g.index n (s.succF n), hist := s.hist ++ [.index n] }, "ok", "ok")
  | ["indexall", n] => do   -- Memory.IndexAll from n, everything fetchable
      let n ← n.toNat?
      let succOf : Key → Option (List Key) := fun k =>
        if lookupD s.isMan k false then some (s.succF k) else some []
      let g' := GMem.indexAll succOf (s.univ.length + 1) s.g n
      let reach := reachFrom s (s.univ.length + 1) [n] []
      some ({ s with g := g', hist := s.hist ++ reach.map GOp.index }, "ok", "ok")
  | ["remove", n] => do
      let n ← n.toNat?
      let (g', dang) := s.g.remove n
      let specDang := (dedup (s.succF n)).filter (fun c =>
        storedSpec s.hist c && storedSpec s.hist n &&
          (s.univ.filter (fun p => p ≠ n && storedSpec s.hist p && (s.succF p).contains c)).isEmpty)
      some ({ s with g := g', hist := s.hist ++ [.remove n] },
        "dang=" ++ showSet dang, "dang=" ++ showSet specDang)
  | ["removeq", n] => do   -- Remove through a store's Delete: danglings are not observable
      let n ← n.toNat?
      some ({ s with g := (s.g.remove n).1, hist := s.hist ++ [.remove n] }, "ok", "ok")
  | ["preds", k] => do
      let k ← k.toNat?
      some (s, showSet (s.g.predecessors k), showSet (specPreds s k))
  | ["exists", k] => do
      let k ← k.toNat?
      some (s, toString (s.g.exists_ k), toString (storedSpec s.hist k))
  | ["reopen"] =>
      -- a fresh graph, IndexAll from every stored manifest (what loadIndex does for the
      -- entries of index.json; every stored manifest is an entry or reachable from one)
      let stored := s.univ.filter (fun p => storedSpec s.hist p)
      let succOf : Key → Option (List Key) := fun n =>
        if lookupD s.isMan n false then
          (if storedSpec s.hist n then some (s.succF n) else none)
        else some []
      let roots := stored.filter (fun p => lookupD s.isMan p false)
      let g' := roots.foldl (fun g r => GMem.indexAll succOf (s.univ.length + 1) g r) GMem.empty
      -- after reopen, the spec history is: exactly the nodes indexAll can reach are indexed.
      -- blobs reachable from stored manifests are entered into `nodes` whether or not
      -- they are stored; the spec (`storedSpec`) is about *manifests* for predecessors.
      let hist' := (s.univ.filter (fun p => g'.nodes p)).map GOp.index
      some ({ s with g := g', hist := hist' }, "ok", "ok")
  | _ => none

end Oras.Driver.G
