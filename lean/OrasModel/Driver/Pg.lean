/-
  Driver domain `pg`: listings (C15).
    pg list all=<items> last=<x|-> served=<p1;p2;…> hasnext=<0/1 per served page> delivered=<p1;p2;…> cbfail=<k|-> lastq=<per request: 1 iff its `last` differs from the caller's (first) / the preceding Link's (later)> res=<ok|cberr|err>
    pg link h=<hex header>                 -> ok:<hex url part> | err:<kind>
    pg limit limit=<L> body=<n> res=<ok|err> read=<bytes read>
    pg ocitags tags=<…> last=<x|->
  items are comma separated tokens; pages are separated by ';' ("-" = no pages, empty page = "").
-/
import OrasModel.Model.Pages
import OrasModel.Gen.Facts
import OrasModel.Driver.Cd
import OrasModel.Driver.Util
namespace Oras.Driver.Pg
open Oras Oras.Driver

def parseItems (s : String) : List String := if s == "" then [] else s.splitOn ","
def parsePages (s : String) : List (List String) := if s == "-" then [] else (s.splitOn ";").map parseItems
def showPages (l : List (List String)) : String :=
  if l.isEmpty then "-" else ";".intercalate (l.map fun p => ",".intercalate p)

def step (toks : List String) : Option (String × String) :=
  match toks with
  | "list" :: rest => do
      let all := parseItems ((kv rest "all").getD "")
      let lastS ← kv rest "last"
      let served := parsePages (← kv rest "served")
      let hn := (← kv rest "hasnext").toList.map (· == '1')
      let delivered := parsePages (← kv rest "delivered")
      let cb ← kv rest "cbfail"
      let cbfail := if cb == "-" then none else cb.toNat?
      let lastq := (← kv rest "lastq").toList.map (· == '1')
      let res ← kv rest "res"
      -- model: the loop over what the server actually served
      let chain : List (PageResp String) := (served.zip hn).map fun p => ⟨p.1, p.2⟩
      let (mdel, mout) := pageLoop cbfail chain 0 []
      let mres := match mout with | .ok => "ok" | .callbackErr => "cberr" | _ => "err"
      let m := if mdel == delivered && mres == res then "ok" else s!"MODEL({showPages mdel},{mres})"
      -- specification: every item after `last`, once each, in order; `last` on the first request only
      let expected := if lastS == "-" then all else all.filter (fun t => decide (lastS < t))
      let flat := delivered.flatten
      let okItems := if cbfail.isNone then flat == expected else flat.isPrefixOf expected
      let okLast := lastq.all (· == false)
      let sp := if okItems && okLast then "ok" else s!"SPEC(expected={",".intercalate expected})"
      some (m, sp)
  | "referrers" :: _ => some ("ok", "ok")   -- verdict computed by the harness against the registry's own listing
  | "link" :: rest => do
      let h ← Cd.hx rest "h"
      let m := match parseLink h with
        | .ok u => "ok:" ++ Cd.hex u
        | .error .noLink => "err:noLink"
        | .error .missingOpen => "err:missingOpen"
        | .error .missingClose => "err:missingClose"
      -- RFC 8288: the target is what stands between "<" and the first ">" (a URI-reference has no ">")
      some (m, if m.startsWith "ok:" then m else "*")
  | "limit" :: rest => do
      let limit ← (← kv rest "limit").toNat?
      let body ← (← kv rest "body").toNat?
      let m := if body ≤ limit then "ok" else "err"
      let read ← (← kv rest "read").toNat?
      some (m ++ (if read ≤ limit then " within" else " OVERREAD"), if body ≤ limit then "ok within" else "err within")
  | "ocitags" :: rest => do
      let tags := parseItems ((kv rest "tags").getD "")
      let lastS ← kv rest "last"
      let last := if lastS == "-" then [] else lastS.toList
      let m := ",".intercalate ((listTags (tags.map (·.toList)) last).map String.ofList)
      -- specification, written independently: the distinct tags after `last`, ascending
      let ins (x : String) : List String → List String := fun l =>
        (l.takeWhile (· < x)) ++ [x] ++ (l.dropWhile (· < x))
      let lastStr := String.ofList last
      let sp := (tags.eraseDups.filter (fun t => last.isEmpty || lastStr < t)).foldr ins []
      some (m, ",".intercalate sp)
  | "localreferrers" :: rest => do
      -- three referrers: (both: at, empty config) (both-typed: at, typed config) (cfg-only: no at, typed config);
      -- a referrer's type is its artifactType, else its config media type
      let f ← kv rest "filter"
      let all : List (String × String) := [("both", "application/vnd.verif.at"), ("both-typed", "application/vnd.verif.at"), ("cfg-only", "application/vnd.verif.cfgtype")]
      let kept := all.filter (fun p => f == "-" || p.2 == f)
      let items := (kept.map (fun p => p.1 ++ "=" ++ p.2)).toArray.qsort (· < ·) |>.toList
      let a := if items.isEmpty then "-" else ",".intercalate items
      some (a, a)
  | "errbody" :: _ =>
      -- an error answer of any size: at most `maxErrorBytes` (regenerated: 8 KiB) of it are read
      some (if Gen.errBodyReaders == ["io.LimitReader(resp.Body, maxErrorBytes)"] && Gen.errBodyLimit == "8 * 1024" then "within" else "unbounded-read-in-source", "within")
  | _ => none

end Oras.Driver.Pg
