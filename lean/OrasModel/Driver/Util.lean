/- Parsing / printing helpers for the line-protocol driver (core only). -/
import OrasModel.Model.Basic
namespace Oras.Driver

def splitWs (s : String) : List String :=
  (s.splitOn " ").filter (fun t => t ≠ "")

/-- "-" or "" is the empty list; otherwise comma separated naturals.  `none` on junk. -/
def parseNats (s : String) : Option (List Nat) :=
  if s = "-" || s = "" then some []
  else (s.splitOn ",").mapM (fun t => t.toNat?)

def showNats (l : List Nat) : String :=
  if l.isEmpty then "-" else ",".intercalate (l.map toString)

def showSet (l : List Nat) : String := showNats (Oras.sortNat l)

def lookupD {α : Type} (l : List (Nat × α)) (k : Nat) (d : α) : α :=
  match l.find? (fun p => p.1 == k) with
  | some p => p.2
  | none => d

/-- `key=value` token lookup. -/
def kv (toks : List String) (key : String) : Option String :=
  toks.findSome? (fun t =>
    match t.splitOn "=" with
    | k :: rest => if k = key && !rest.isEmpty then some ("=".intercalate rest) else none
    | _ => none)

end Oras.Driver
