/-
  Driver domain `rf`: referrers index maintenance (C14).
    rf apply old=<k:p,…|-> changes=<+k:p,-k:p,…|->      -> none | k:p,…  ("-" = empty list)
    rf stress …                                         -> ok   (end-to-end monitor)
-/
import OrasModel.Model.Referrers
import OrasModel.Model.Capability
import OrasModel.Driver.Util
namespace Oras.Driver.Rf
open Oras Oras.Driver

def parseDesc (s : String) : Option RDesc :=
  match s.splitOn ":" with
  | [k, p] => do some ⟨← k.toNat?, ← p.toNat?⟩
  | _ => none

def parseOld (s : String) : Option (List RDesc) :=
  if s == "-" then some [] else (s.splitOn ",").mapM parseDesc

def parseChanges (s : String) : Option (List RChange) :=
  if s == "-" then some [] else (s.splitOn ",").mapM fun t =>
    if t.startsWith "+" then (parseDesc (t.drop 1).toString).map .add
    else if t.startsWith "-" then (parseDesc (t.drop 1).toString).map .remove
    else none

def showList (l : List RDesc) : String :=
  if l.isEmpty then "-" else ",".intercalate (l.map fun d => s!"{d.key}:{d.payload}")

/-- Specification, written on key sets: the resulting keys are the old distinct non-empty
    keys with the changes folded over them. -/
def specKeys (old : List RDesc) (changes : List RChange) : List Nat :=
  let base := (old.map (·.key)).filter (· ≠ 0) |>.eraseDups
  changes.foldl (fun ks c => match c with
    | .add d => if ks.contains d.key then ks else ks ++ [d.key]
    | .remove d => ks.filter (· ≠ d.key)) base

def step (toks : List String) : Option (String × String) :=
  match toks with
  | "apply" :: rest => do
      let old ← parseOld (← kv rest "old")
      let ch ← parseChanges (← kv rest "changes")
      let m := match applyReferrerChanges old ch with
        | none => "none"
        | some l => showList l
      some (m, "*")
  | "keys" :: rest => do
      let old ← parseOld (← kv rest "old")
      let ch ← parseChanges (← kv rest "changes")
      let ks := specKeys old ch
      let s := showSet ks
      some (s, s)
  | "outcome" :: rest => do
      -- specification: the update may be skipped only when the old index is clean (no empty
      -- entry, no duplicate) and the changes leave its key set as it is; otherwise the new
      -- index lists exactly the folded key set, each key once
      let old ← parseOld (← kv rest "old")
      let ch ← parseChanges (← kv rest "changes")
      let oldKeys := old.map (·.key)
      let clean := !oldKeys.contains 0 && oldKeys.eraseDups.length == oldKeys.length
      let ks := specKeys old ch
      let same := ks.length == oldKeys.length && oldKeys.all ks.contains
      let sp := if clean && same then "none" else "keys=" ++ showSet ks
      let m := match applyReferrerChanges old ch with
        | none => "none"
        | some l => "keys=" ++ showSet (l.map (·.key))
      some (m, sp)
  | "setcap" :: rest => do
      -- SetReferrersCapability sequences (Model/Capability.lean); the specification: a call is
      -- refused iff the capability is settled to the other value, and it is settled by the
      -- first call (or by what the ping found)
      let start ← match ← kv rest "start" with
        | "fresh" => some Capability.State.unknown
        | "pinged-supported" => some .supported
        | "pinged-unsupported" => some .unsupported
        | _ => none
      let calls ← ((← kv rest "calls").splitOn ",").mapM (fun t => if t == "1" then some true else if t == "0" then some false else none)
      let (_, outs) := calls.foldl (fun (acc : Capability.State × List String) c =>
        let (s', refused) := Capability.setCap acc.1 c
        (s', acc.2 ++ [if refused then "refused" else "ok"])) (start, [])
      let settled : Option Bool := match start with
        | .unknown => calls.head?
        | .supported => some true
        | .unsupported => some false
      let sp := calls.map (fun c => if settled == some c then "ok" else "refused")
      some (",".intercalate outs, ",".intercalate sp)
  | "fault" :: _ => some ("ok", "ok")      -- index-maintenance faults: delete error after the update, failed push keeps the old index
  | "merge" :: _ => some ("ok", "ok")      -- runtime monitor of syncutil.Merge (C14)
  | "stress" :: _ => some ("ok", "ok")
  | "capability" :: _ => some ("stable", "stable")
  | _ => none

end Oras.Driver.Rf
