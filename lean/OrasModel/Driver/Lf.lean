/-
  Driver domain `lf`: one archive of regular, directory and symbolic-link entries unpacked into
  a directory that already holds directories, files and links (C11, `Model/LinkFS.lean`).
    lf run preserve=<0|1> pre=<path>:<d|f|lo|li>path>,…  ents=<r|d>:<path>,s:<path>><path>,…
       -> res=<ok|err> fs=<path>=<d|f|l>,…
    lf outside <the same>  -> clean | touched
  Paths are components 1..3 joined by "."; "-" is the empty list of items, "" the empty path.
  model: the steps of `LinkFS.step` with the removal of a link at the entry's own path as the
  regenerated source shows it, plus the lexical validation of a link entry's target
  (`ensureLinkPath`); specification: nothing outside is touched (the listing is not judged).
-/
import OrasModel.Model.LinkFS
import OrasModel.Gen.Facts
import OrasModel.Driver.Util
namespace Oras.Driver.Lf
open Oras Oras.Driver Oras.LinkFS

def parsePath (s : String) : Option Path :=
  if s.isEmpty then some [] else (s.splitOn ".").mapM (·.toNat?)

def showPath (p : Path) : String := ".".intercalate (p.map toString)

/-- does the source remove a link at the entry's own path before `fn`? -/
def dropsBefore (case_ fn : String) : Bool :=
  match Gen.extractCases.lookup case_ with
  | some calls => calls.takeWhile (· != fn) |>.contains "os.Remove"
  | none => false

def parsePre (s : String) : Option (List (Path × Kind)) :=
  if s == "-" then some [] else (s.splitOn ",").mapM fun t =>
    match t.splitOn ":" with
    | [p, "d"] => (parsePath p).map (·, Kind.dir)
    | [p, "f"] => (parsePath p).map (·, Kind.file)
    | [p, "lo"] => (parsePath p).map (·, Kind.sym .outside)
    | [p, k] =>
      match k.splitOn ">" with
      | ["li", q] => do some (← parsePath p, Kind.sym (.inside (← parsePath q)))
      | _ => none
    | _ => none

def parseEnts (s : String) : Option (List Ent) :=
  if s == "-" then some [] else (s.splitOn ",").mapM fun t =>
    match t.splitOn ":" with
    | ["r", p] => (parsePath p).map Ent.reg
    | ["d", p] => (parsePath p).map Ent.dir
    | ["s", pq] =>
      match pq.splitOn ">" with
      | [p, q] => do some (Ent.sym (← parsePath p) (.inside (← parsePath q)))
      | _ => none
    | _ => none

/-- every location the vocabulary can name -/
def allPaths : List Path :=
  let c := [1, 2, 3]
  let l1 := c.map ([·])
  let l2 := l1.flatMap fun p => c.map (p ++ [·])
  let l3 := l2.flatMap fun p => c.map (p ++ [·])
  let l4 := l3.flatMap fun p => c.map (p ++ [·])
  l1 ++ l2 ++ l3 ++ l4

/-- the walk of `resolveRelToBase` over a link target: an existing proper ancestor that is a
    link is refused, and so is one below a regular file (`ENOTDIR` is not "does not exist") -/
def targetOk (fs : FS) (q : Path) : Bool :=
  (List.range (q.length - 1)).all fun k =>
    !isLink (fs (q.take (k + 1))) && (k + 2 ≥ q.length || fs (q.take (k + 1)) != some .file)

def hasChild (fs : FS) (p : Path) : Bool := [1, 2, 3].any fun c => (fs (p ++ [c])).isSome

/-- the code's step: `LinkFS.step` behind the checks the model leaves out -/
def stepCode (dropReg dropDir preserve : Bool) (st : St) (e : Ent) : Option St :=
  match e with
  | .reg _ => step dropReg preserve st e
  | .dir _ => step dropDir preserve st e
  | .sym p (.inside q) =>
    if !targetOk st.fs q then none
    -- `os.Remove` of a directory in the way succeeds only when it is empty
    else if st.fs p = some .dir && hasChild st.fs p then none
    else step true preserve st e
  | .sym _ .outside => none

def runCode (dropReg dropDir preserve : Bool) (st : St) : List Ent → St × Bool
  | [] => (st, true)
  | e :: es =>
    match stepCode dropReg dropDir preserve st e with
    | none => (st, false)
    | some st' => runCode dropReg dropDir preserve st' es

def listing (fs : FS) : String :=
  let items := allPaths.filterMap fun p =>
    match fs p with
    | some .dir => some s!"{showPath p}=d"
    | some .file => some s!"{showPath p}=f"
    | some (.sym _) => some s!"{showPath p}=l"
    | none => none
  if items.isEmpty then "-" else ",".intercalate items

def render (r : St × Bool) : String :=
  s!"res={if r.2 then "ok" else "err"} fs={listing r.1.fs}"

def renderOutside (r : St × Bool) : String :=
  if r.1.touched.contains .outside then "touched" else "clean"

def step' (toks : List String) : Option (String × String) :=
  match toks with
  | kind :: rest => do
      let preserve := (← kv rest "preserve") == "1"
      let pre ← parsePre (← kv rest "pre")
      let ents ← parseEnts (← kv rest "ents")
      let fs : FS := fun q => pre.lookup q
      let m := runCode (dropsBefore "tar.TypeReg" "writeFile") (dropsBefore "tar.TypeDir" "os.MkdirAll") preserve ⟨fs, []⟩ ents
      -- what the unpack directory holds afterwards is the model's business (a difference is
      -- drift); the specification judges only whether anything outside was touched
      if kind == "run" then some (render m, "*")
      else if kind == "outside" then some (renderOutside m, "clean")
      else none
  | _ => none

end Oras.Driver.Lf
