/-
  Driver domain `cr`: crash enumeration of the OCI layout (C10).
    cr seq op=<kind> refs=<0|1> seq=<normalised mutating calls of the victim op>
    cr after op=..       the un-injected run left a valid layout
    cr beforetags / aftertags op=..   the name mapping on disk is the one the operations define
    cr kill op=.. point=i/n at=<call>     verdict of the validator after the kill
-/
import OrasModel.Model.CrashFS
import OrasModel.Gen.Facts
import OrasModel.Driver.Util
namespace Oras.Driver.Cr
open Oras Oras.Driver

def callsOf (fn : String) : List String := (Gen.ociCalls.lookup fn).getD []

/-- Does `writeIndexFile` rename a temporary file into place? (from the source) -/
def indexAtomic : Bool :=
  let cs := callsOf "Store.writeIndexFile"
  cs.contains "os.Rename"

def showSys : Sys → String
  | .createTemp => "create:temp" | .writeTemp => "write:temp" | .chmodTemp => "chmod:temp"
  | .renameBlob _ => "rename:temp>blob" | .removeBlob _ => "remove:blob"
  | .truncIndex => "trunc:index" | .writeIndex _ => "write:index"
  | .truncIndexTmp => "trunc:indexTmp" | .writeIndexTmp _ => "write:indexTmp"
  | .renameIndex => "rename:indexTmp>index"

def save : List String := (compileSave indexAtomic []).map showSys
def pushBlob : List String := (compilePushBlob 0).map showSys

/-- Strip any number of leading `(SAVE)? remove:blob` groups. -/
def stripDeletes : Nat → List String → List String
  | 0, l => l
  | fuel + 1, l =>
    let l1 := if save.isPrefixOf l then l.drop save.length else l
    match l1 with
    | "remove:blob" :: rest => stripDeletes fuel rest
    | _ => l

def matchesShape (kind : String) (refs : Bool) (seq : List String) : Bool :=
  match kind with
  | "push-blob" => seq == pushBlob
  | "push-manifest" => seq == pushBlob ++ save
  | "tag" | "retag" | "untag" | "saveindex" => seq == save
  | "delete" => seq == (if refs then save else []) ++ ["remove:blob"]
  | "delete-gc" => !seq.isEmpty && (stripDeletes (seq.length + 1) seq).isEmpty
  | "gc" => save.isPrefixOf seq && (seq.drop save.length).all (· == "remove:blob")
  | _ => false

def step (toks : List String) : Option (String × String) :=
  match toks with
  | "skip" :: _ => some ("ok", "ok")
  | "seq" :: rest => do
      let kind ← kv rest "op"
      let refs := (kv rest "refs").getD "1" == "1"
      let s ← kv rest "seq"
      let seq := if s == "-" then [] else s.splitOn ","
      some (if matchesShape kind refs seq then "ok" else "SHAPE-MISMATCH(save=" ++ ",".intercalate save ++ ")", "*")
  | "after" :: _ => some ("ok", "ok")
  | "beforetags" :: _ => some ("ok", "ok")  -- the names the preparation set are the names on disk
  | "aftertags" :: _ => some ("ok", "ok")   -- afterwards: those names with the operation's own effect applied
  | "durable" :: _ => some ("ok", "ok")    -- the live view at return = the view after reopening
  | "kill" :: _ => some ("ok", "ok")
  | _ => none

end Oras.Driver.Cr
