/-
  Driver domain `sc`: CleanScopes (C16).   sc clean l=<scope|scope|…>   ("-" = empty list)
  model: the string-level function as written; spec: the abstract canonical form of the
  granted (type, name, action) set, for well-formed inputs.
-/
import OrasModel.Model.Scopes
import OrasModel.Driver.Util
namespace Oras.Driver.Sc
open Oras Oras.Driver

def render (l : List Str) : String :=
  if l.isEmpty then "-" else "|".intercalate (l.map String.ofList)

/-- well-formed: exactly `type:name:actions`, type and name non-empty, no colon in type or
    actions, at least one non-empty action -/
def parseWF (s : Str) : Option (List Grant) :=
  match splitFirst ':' s with
  | none => none
  | some (t, rest) =>
    match splitLast ':' rest with
    | none => none
    | some (n, acts) =>
      let as := (splitOnChar ',' acts).filter (· ≠ [])
      if t.isEmpty || n.isEmpty || as.isEmpty then none else some (as.map fun a => (t, n, a))

def insertStrLt (x : Str) : List Str → List Str
  | [] => [x]
  | y :: ys => if strLt y x then y :: insertStrLt x ys else x :: y :: ys

def specClean (scopes : List Str) : Option (List Str) := do
  let gs ← scopes.mapM parseWF
  let cg := cleanGrants gs.flatten
  let keys := (cg.map fun g => (g.1, g.2.1)).eraseDups
  let strs := keys.map fun k =>
    let acts := (cg.filter fun g => g.1 = k.1 ∧ g.2.1 = k.2).map (·.2.2)
    k.1 ++ ':' :: k.2 ++ ':' :: joinWith ',' acts
  some (strs.foldr insertStrLt [])

def step (toks : List String) : Option (String × String) :=
  match toks with
  | "clean" :: rest => do
      let l ← kv rest "l"
      let scopes := if l == "-" then [] else (l.splitOn "|").map (·.toList)
      let m := render (cleanScopes scopes)
      let sp := match specClean scopes with | some r => render r | none => "*"
      some (m, sp)
  | _ => none

end Oras.Driver.Sc
