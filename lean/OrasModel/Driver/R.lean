/-
  Driver domain `ref` (C20):
    ref parse regok=<0|1> s=<string>                 -> ok <reg>|<repo>|<ref>  /  err
    ref round regok=.. s=..                          -> parse(format(parse s))
    ref repo regok=.. base=<reg>|<repo> s=<input>    -> Repository.ParseReference
    ref url kind=<manifests|blobs> regok=.. base=.. s=..  -> path of the URL built
  `regok` is what the real `ValidateRegistry` (net/url) said about the text before the
  first '/', which the model takes as its `validReg` parameter.
-/
import OrasModel.Model.Ref
import OrasModel.Gen.Regex
import OrasModel.Spec.Grammar
import OrasModel.Driver.Util
namespace Oras.Driver.R
open Oras Oras.Driver

def cfgOf (regok : Bool) : RefCfg :=
  { validReg := fun _ => regok, repoRe := Gen.repositoryRe, tagRe := Gen.tagRe, algs := Gen.digestAlgs }

/-- the documented grammar (specification side) -/
def specCfgOf (regok : Bool) : RefCfg :=
  -- the registry is a URL authority without user-info (and an authority never holds a query
  -- or a fragment); what else makes a valid authority is net/url's business (`regok`)
  { validReg := fun reg => regok && !(reg.any fun ch => ch == '@' || ch == '?' || ch == '#'), repoRe := Spec.Grammar.repository, tagRe := Spec.Grammar.tag, algs := Spec.Grammar.digestAlgs }

def showRef (r : Ref) : String :=
  "ok " ++ String.ofList r.registry ++ "|" ++ String.ofList r.repository ++ "|" ++ String.ofList r.reference

def showOpt : Option Ref → String
  | some r => showRef r
  | none => "err"

/-- All ways of cutting a list in two. -/
def splits : Str → List (Str × Str)
  | [] => [([], [])]
  | x :: xs => ([], x :: xs) :: (splits xs).map (fun p => (x :: p.1, p.2))

/-- Brute-force recogniser of the documented grammar: enumerate every decomposition
    `repo ++ suffix` of the path and every placement of `@` in the suffix; no
    first-occurrence searching.  Returns every reading. -/
def specParse (cfg : RefCfg) (s : Str) : List Ref :=
  match splitFirst '/' s with
  | none => []
  | some (reg, path) =>
    if !cfg.validReg reg then [] else
    (splits path).flatMap fun (repo, suf) =>
      if !repoOk cfg repo then [] else
      match suf with
      | [] => [⟨reg, repo, []⟩]
      | ':' :: rest =>
        (if rest.isEmpty then [⟨reg, repo, []⟩] else []) ++
        (if !rest.isEmpty && tagOk cfg rest then [⟨reg, repo, rest⟩] else []) ++
        ((splits rest).flatMap fun (t, d') =>
          match d' with
          | '@' :: d =>
            if t.contains '@' then []
            else if d.isEmpty then [⟨reg, repo, []⟩]
            else if digestOk cfg d then [⟨reg, repo, d⟩] else []
          | _ => [])
      | '@' :: d =>
        if d.isEmpty then [⟨reg, repo, []⟩]
        else if digestOk cfg d then [⟨reg, repo, d⟩] else []
      | _ => []

def showSpec (l : List Ref) : String :=
  match l.eraseDups with
  | [] => "err"
  | [r] => showRef r
  | _ => "ambiguous"

def parseBase (s : String) : Option Ref :=
  match s.splitOn "|" with
  | [a, b] => some ⟨a.toList, b.toList, []⟩
  | _ => none

def step (toks : List String) : Option (String × String) := do
  match toks with
  | "parse" :: rest =>
    let regok := (← kv rest "regok") == "1"
    let s := (← kv rest "s").toList
    let cfg := cfgOf regok
    some (showOpt (parseRef cfg s), showSpec (specParse (specCfgOf regok) s))
  | "round" :: rest =>
    let regok := (← kv rest "regok") == "1"
    let s := (← kv rest "s").toList
    let cfg := cfgOf regok
    let m := match parseRef cfg s with
      | some r => showOpt (parseRef cfg (r.format cfg))
      | none => "err"
    -- spec: whenever the string is accepted, the round trip returns the same reference
    let sp := match specParse (specCfgOf regok) s |>.eraseDups with
      | [r] => showRef r
      | _ => "err"
    some (m, sp)
  | "regrepo" :: rest =>
    -- Registry.Repository(name): the name must be a repository of the grammar
    let nm := (← kv rest "name")
    let ans := fun (re : Re) => if re.accepts nm.toList then "ok:h:5|" ++ nm else "err"
    some (ans Gen.repositoryRe, ans Spec.Grammar.repository)
  | "repo" :: rest =>
    let regok := (← kv rest "regok") == "1"
    let base ← parseBase (← kv rest "base")
    let s := (← kv rest "s").toList
    some (showOpt (repoParseRef (cfgOf regok) base s), showOpt (repoParseRef (specCfgOf regok) base s))
  | "url" :: rest =>
    let regok := (← kv rest "regok") == "1"
    let base ← parseBase (← kv rest "base")
    let kind := (← kv rest "kind").toList
    let s := (← kv rest "s").toList
    match repoParseRef (cfgOf regok) base s with
    | some r =>
      let p := String.ofList (urlPath kind r)
      some (s!"path={p} query= frag=", s!"path=/v2/{String.ofList base.repository}/{String.ofList kind}/{String.ofList r.reference} query= frag=")
    | none => some ("err", "err")
  | "req" :: rest =>
    -- the requests an operation taking a reference string sends: every path is exactly
    -- /v2/<repository>/manifests/<reference of the parsed form>
    let regok := (← kv rest "regok") == "1"
    let base ← parseBase (← kv rest "base")
    let kind ← kv rest "kind"
    let dg ← kv rest "dg"
    let s := (← kv rest "s").toList
    match repoParseRef (cfgOf regok) base s with
    | some r =>
      let slot := s!"/v2/{String.ofList base.repository}/manifests/{String.ofList r.reference}"
      let byDigest := s!"/v2/{String.ofList base.repository}/manifests/{dg}"
      let m := match kind with
        | "resolve" => s!"HEAD:{slot}"
        | "fetchref" => s!"GET:{slot}"
        | "pushref" => s!"PUT:{slot}"
        | _ => s!"GET:{byDigest} PUT:{slot}"
      some (m, m)
    | none => some ("err", "err")
  | _ => none

end Oras.Driver.R
