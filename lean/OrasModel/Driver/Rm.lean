/-
  Driver domains `rm` (remote Repository histories) and `sk` (Seek on blob readers), C13.
    rm new api=<0|1> dh=<0|1> rg=<0|1> mt=<0|1> mtypes=<default|tok,tok,…>
    rm body <id> len=<n> subj=<id|->                   content ids; the digest of body k is k
    rm corrupt dcd=<id|invalid|absent> | clen=<n|none> | ctype=<tok|none>     arms the next call
    rm push repo= mt=<tok> dig= size= body= [ref=<tK>]
    rm fetch|exists|delete repo= mt= dig= size=
    rm fetchref|resolve repo= store=<man|blob> ref=<tK|dN>
    rm tag repo= mt= dig= size= ref=<tK>
    rm mount repo= mt= dig= size= from=<repo>
    rm preds repo= dig=
  answers: `<result> | <request trace>`
    sk open len=<n> ; sk read n=<k> ; sk seek off=<i> whence=<w> ; sk close
-/
import OrasModel.Model.Remote
import OrasModel.Model.Seek
import OrasModel.Driver.Util
namespace Oras.Driver.Rm
open Oras Oras.Driver Oras.Remote

abbrev B := Nat
abbrev D := Nat

def mtOf : String → String
  | "blob" => octet
  | "layer" => "application/vnd.oci.image.layer.v1.tar+gzip"
  | "img" => "application/vnd.oci.image.manifest.v1+json"
  | "idx" => "application/vnd.oci.image.index.v1+json"
  | "art" => "application/vnd.oci.artifact.manifest.v1+json"
  | "dman" => "application/vnd.docker.distribution.manifest.v2+json"
  | "dlist" => "application/vnd.docker.distribution.manifest.list.v2+json"
  | "custom" => "application/vnd.verif.custom+json"
  | s => s

def tokOf (s : String) : String :=
  match ["blob", "layer", "img", "idx", "art", "dman", "dlist", "custom"].find? (fun t => mtOf t == s) with
  | some t => t
  | none => s

def defaultManifestTypes : List String := ["dman", "dlist", "img", "idx", "art"].map mtOf

structure St where
  lens : List (Nat × Nat) := []
  subjs : List (Nat × Nat) := []
  prof : Prof := ⟨true, true, true, true⟩
  mtypes : List String := defaultManifestTypes
  reg : Reg B D := Reg.empty
  rss : List (String × RState) := []      -- referrersState of each Repository object
  corrupt : Option (Corrupt D) := none
  -- seek
  content : List Nat := []
  rsc : Seek.Rsc Nat := ⟨0, 0, [], false⟩
  cur : Seek.Cur := ⟨0, false⟩

def St.cx (s : St) : Ctx B D :=
  { H := id, len := fun b => lookupD s.lens b 0, subj := fun b => (s.subjs.find? (·.1 == b)).map (·.2) }

def showRef : Ref D → String
  | .tag t => t
  | .dig d => s!"d{d}"

def showReq : Req B D → String
  | .headBlob r d => s!"HEAD:blobs:{r}:d{d}"
  | .getBlob r d => s!"GET:blobs:{r}:d{d}"
  | .deleteBlob r d => s!"DELETE:blobs:{r}:d{d}"
  | .postUpload r => s!"POST:uploads:{r}"
  | .postMount r d src => s!"POST:mount:{r}:d{d}:from={src}"
  | .putUpload r _ d clen _ => s!"PUT:upload:{r}:d{d}:len={clen}"
  | .headMan r ref => s!"HEAD:manifests:{r}:{showRef ref}"
  | .getMan r ref => s!"GET:manifests:{r}:{showRef ref}"
  | .putMan r ref ct clen _ => s!"PUT:manifests:{r}:{showRef ref}:ct={tokOf ct}:len={clen}"
  | .deleteMan r d => s!"DELETE:manifests:{r}:d{d}"

def showTrace (l : List (Req B D)) : String :=
  if l.isEmpty then "-" else " ".intercalate (l.map showReq)

def showDesc (d : Desc D) : String := s!"{tokOf d.mt},{d.dig},{d.size}"

def b01 (b : Bool) : String := if b then "1" else "0"

def showErr : RErr → String
  | .notFound => "err:notfound"
  | _ => "err"

def showRes : Res B D → String
  | .ok => "ok"
  | .body b sk => s!"ok:{b}:{b01 sk}"
  | .desc d => s!"ok:{showDesc d}"
  | .descBody d b sk => s!"ok:{showDesc d}:{b}:{b01 sk}"
  | .bool b => if b then "true" else "false"
  | .err e => showErr e

def whyRes : Res B D → String
  | .err e => (reprStr e).replace "Oras.Remote.RErr." ""
  | _ => ""

def parseRef (s : String) : Option (Ref D) :=
  if s.startsWith "d" then ((s.drop 1).toString.toNat?).map Ref.dig else some (.tag s)

def parseDesc (toks : List String) : Option (Desc D) := do
  let mt ← kv toks "mt"
  let dig ← (← kv toks "dig").toNat?
  let size ← (← kv toks "size").toNat?
  some ⟨mtOf mt, dig, size⟩

def St.rs (s : St) (repo : String) : RState := ((s.rss.find? (·.1 == repo)).map (·.2)).getD .unknown

def St.setRs (s : St) (repo : String) (r : RState) : St :=
  { s with rss := (repo, r) :: s.rss.filter (·.1 != repo) }

def finish (s : St) (repo : String) (o : Out B D) (spec : String) : St × String × String :=
  let m := showRes o.res ++ " | " ++ showTrace o.trace
  ({ (s.setRs repo o.rs) with reg := o.reg, corrupt := none }, m, spec)

/-- Specification answers from the registry state (the abstract content store with tags). -/
def specStored (s : St) (repo : String) (t : Desc D) : Option B :=
  let r := s.reg.repos repo
  if isManifest s.mtypes t.mt then
    match alookup r.mans t.dig with
    | some (mt, b) => if mt = t.mt ∧ s.cx.len b = t.size then some b else none
    | none => none
  else
    match alookup r.blobs t.dig with
    | some b => if s.cx.len b = t.size then some b else none
    | none => none

def specPresent (s : St) (repo : String) (t : Desc D) : Bool :=
  let r := s.reg.repos repo
  if isManifest s.mtypes t.mt then (alookup r.mans t.dig).isSome else (alookup r.blobs t.dig).isSome

def step (s : St) (toks : List String) : Option (St × String × String) :=
  match toks with
  | "new" :: rest => do
      let f := fun k => (kv rest k).map (· == "1")
      let mts ← kv rest "mtypes"
      let mtypes := if mts == "default" then defaultManifestTypes else (mts.splitOn ",").map mtOf
      some ({ prof := ⟨← f "api", ← f "dh", ← f "rg", ← f "mt"⟩, mtypes := mtypes }, "ok", "ok")
  | "body" :: id :: rest => do
      let id ← id.toNat?
      let len ← (← kv rest "len").toNat?
      let sj ← kv rest "subj"
      let subjs := if sj == "-" then s.subjs else match sj.toNat? with | some k => (id, k) :: s.subjs | none => s.subjs
      some ({ s with lens := (id, len) :: s.lens, subjs := subjs }, "ok", "ok")
  | "corrupt" :: rest => do
      let c : Option (Corrupt D) :=
        match kv rest "dcd", kv rest "clen", kv rest "ctype" with
        | some v, _, _ => some (.dcd (if v == "invalid" then .invalid else if v == "absent" then .absent
                                     else match v.toNat? with | some k => .valid k | none => .invalid))
        | _, some v, _ => some (.clen (if v == "none" then none else v.toNat?))
        | _, _, some v => some (.ctype (if v == "none" then none else some (mtOf v)))
        | _, _, _ => none
      some ({ s with corrupt := ← c }, "ok", "ok")
  | "fetchrefnohdr" :: rest => do
      -- FetchReference by digest: whatever headers come or do not come, only the requested
      -- content is delivered; a body that is something else ends in an error (at the call, or
      -- when the verified reader is drained)
      let v ← kv rest "variant"
      if v.startsWith "right-body" then some (s, "ok", "ok")
      else some (s, "err", "err")
  | "mountdcd" :: rest => do
      -- Mount answered 201: the digest the registry names, if it names one, is the one asked for
      let h ← kv rest "header"
      let a := if h == "other" || h == "invalid" then "err" else "ok"
      some (s, a, a)
  | "longtag" :: rest => do
      -- a tag has at most 128 characters (the spec side of `Spec/Grammar`): longer strings are
      -- refused before anything is sent
      let n ← (← kv rest "len").toNat?
      let a := if n ≤ 128 then "sent" else "refused-nothing-sent"
      some (s, a, a)
  | "push" :: rest => do
      let repo ← kv rest "repo"
      let d ← parseDesc rest
      let b ← (← kv rest "body").toNat?
      let good := s.cx.H b = d.dig ∧ s.cx.len b = d.size
      if isManifest s.mtypes d.mt then
        let ref := match kv rest "ref" with | some t => Ref.tag t | none => Ref.dig d.dig
        let o := pushManifest s.cx s.prof s.reg (s.rs repo) repo d b ref
        finish s repo o (if good then "ok" else "*")
      else
        let o := pushBlob s.cx s.prof s.reg (s.rs repo) repo d b
        finish s repo o (if good then "ok" else "err")
  | "fetch" :: rest => do
      let repo ← kv rest "repo"
      let d ← parseDesc rest
      let isMan := isManifest s.mtypes d.mt
      let o := repoFetch s.cx s.mtypes s.prof s.corrupt s.reg (s.rs repo) repo d
      let spec := match (if specPresent s repo d then s.corrupt else none) with
        | some c => if contradicts c (some d.dig) (some d.size) (if isMan then some d.mt else none) then "err" else "*"
        | none => match specStored s repo d with
          | some b => s!"ok:{b}:{b01 (!isMan && s.prof.rg)}"
          | none => if specPresent s repo d then "err" else "err:notfound"
      finish s repo o spec
  | "exists" :: rest => do
      let repo ← kv rest "repo"
      let d ← parseDesc rest
      let isMan := isManifest s.mtypes d.mt
      let o := repoExists s.cx s.mtypes s.prof s.corrupt s.reg (s.rs repo) repo d
      let spec := match (if specPresent s repo d then s.corrupt else none) with
        | some c => if contradicts c (some d.dig) none none then "err" else "*"
        | none => if specPresent s repo d then "true" else "false"
      finish s repo o spec
  | "resolve" :: rest => do
      let repo ← kv rest "repo"
      let ref ← parseRef (← kv rest "ref")
      let isMan := (← kv rest "store") == "man"
      let r := s.reg.repos repo
      match isMan, ref with
      | true, _ =>
        let o := resolveManifest s.cx s.prof s.corrupt s.reg (s.rs repo) repo ref
        let there := ((resolveRef r ref).bind (fun d => alookup r.mans d)).isSome
        let spec := match (if there then s.corrupt else none) with
          | some c => if contradicts c (refDigest? ref) none none then "err" else "*"
          | none => match (resolveRef r ref).bind (fun d => (alookup r.mans d).map (fun m => (d, m))) with
            | some (d, (mt, b)) => s!"ok:{showDesc ⟨mt, d, s.cx.len b⟩}"
            | none => "err:notfound"
        finish s repo o spec
      | false, .dig d =>
        let o := resolveBlob s.cx s.prof s.corrupt s.reg (s.rs repo) repo d
        let spec := match (if (alookup r.blobs d).isSome then s.corrupt else none) with
          | some c => if contradicts c (some d) none none then "err" else "*"
          | none => match alookup r.blobs d with
            | some b => s!"ok:{showDesc ⟨octet, d, s.cx.len b⟩}"
            | none => "err:notfound"
        finish s repo o spec
      | false, .tag _ => none
  | "fetchref" :: rest => do
      let repo ← kv rest "repo"
      let ref ← parseRef (← kv rest "ref")
      let isMan := (← kv rest "store") == "man"
      let r := s.reg.repos repo
      match isMan, ref with
      | true, _ =>
        let o := fetchRefManifest s.cx s.prof s.corrupt s.reg (s.rs repo) repo ref
        let there := ((resolveRef r ref).bind (fun d => alookup r.mans d)).isSome
        let spec := match (if there then s.corrupt else none) with
          | some c => if contradicts c (refDigest? ref) none none then "err" else "*"
          | none => match (resolveRef r ref).bind (fun d => (alookup r.mans d).map (fun m => (d, m))) with
            | some (d, (mt, b)) => s!"ok:{showDesc ⟨mt, d, s.cx.len b⟩}:{b}:0"
            | none => "err:notfound"
        finish s repo o spec
      | false, .dig d =>
        let o := fetchRefBlob s.cx s.prof s.corrupt s.reg (s.rs repo) repo d
        let spec := match (if (alookup r.blobs d).isSome then s.corrupt else none) with
          | some c => if contradicts c (some d) none none then "err" else "*"
          | none => match alookup r.blobs d with
            | some b => s!"ok:{showDesc ⟨octet, d, s.cx.len b⟩}:{b}:{b01 s.prof.rg}"
            | none => "err:notfound"
        finish s repo o spec
      | false, .tag _ => none
  | "tag" :: rest => do
      let repo ← kv rest "repo"
      let d ← parseDesc rest
      let t ← kv rest "ref"
      let o := tagManifest s.cx s.prof s.corrupt s.reg (s.rs repo) repo d t
      let spec := match (if specPresent s repo d then s.corrupt else none) with
        | some c => if contradicts c (some d.dig) (some d.size) (some d.mt) then "err" else "*"
        | none => match specStored s repo d with
          | some _ => "ok"
          | none => if specPresent s repo d then "err" else "err:notfound"
      finish s repo o spec
  | "delete" :: rest => do
      let repo ← kv rest "repo"
      let d ← parseDesc rest
      let isMan := isManifest s.mtypes d.mt
      let o := repoDelete s.cx s.mtypes s.prof s.corrupt s.reg (s.rs repo) repo d
      let spec := match s.corrupt with
        | some _ => "*"
        | none => if specPresent s repo d then "*" else "err:notfound"
      finish s repo o spec
  | "mount" :: rest => do
      let repo ← kv rest "repo"
      let d ← parseDesc rest
      let src ← kv rest "from"
      let o := mountBlob s.cx s.prof s.reg (s.rs repo) repo d src
      let spec := match alookup (s.reg.repos src).blobs d.dig with
        | some b => if s.cx.len b = d.size then "ok" else "*"
        | none => "err"
      finish s repo o spec
  | "reflist" :: rest => do
      -- every referrer the registry holds (ground truth kept by the harness), whatever the paging
      let w ← kv rest "want"
      some (s, w, w)
  | "preds" :: rest => do
      let repo ← kv rest "repo"
      let dg ← (← kv rest "dig").toNat?
      let r := s.reg.repos repo
      let refs := r.mans.filterMap (fun e => if s.cx.subj e.2.2 == some dg then some e.1 else none)
      let ans := showSet refs
      some (s.setRs repo (pinged s.prof (s.rs repo)), ans ++ " | -", ans ++ " | -")
  | _ => none

/-! ### seek -/

def showAns : Seek.Ans Nat → String
  | .data bs eof => s!"data:{showNats bs}:{b01 eof}"
  | .pos n => s!"pos:{n}"
  | .err => "err"
  | .closed => "closed"

def stepSk (s : St) (toks : List String) : Option (St × String × String) :=
  let go (op : Seek.Op) : Option (St × String × String) :=
    let (r', a) := Seek.step (Seek.goodSrv s.content) s.rsc op
    let (c', b) := Seek.specStep s.content s.cur op
    some ({ s with rsc := r', cur := c' }, showAns a, showAns b)
  match toks with
  | "open" :: rest => do
      let n ← (← kv rest "len").toNat?
      let content := List.range n
      some ({ s with content := content, rsc := Seek.open_ content, cur := ⟨0, false⟩ }, "ok", "ok")
  | "read" :: rest => do go (.read (← (← kv rest "n").toNat?))
  | "seek" :: rest => do go (.seek (← (← kv rest "off").toInt?) (← (← kv rest "whence").toNat?))
  | ["close"] => go .close
  | _ => none

end Oras.Driver.Rm
