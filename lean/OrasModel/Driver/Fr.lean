/-
  Driver domain `fr`: findRoots / ExtendedCopyGraph (C03).
    fr new
    fr node <n> succ=<list> stored=<0|1> foreign=<0|1> at=<k> ann=<k>   ground truth (0 = none)
    fr check depth=D node=N filter=<none|at:k|ann:k> preds=<n:p.p;...> roots=<impl roots>
    fr copied depth=D node=N filter=.. present=<set in destination>
-/
import OrasModel.Model.FindRoots
import OrasModel.Driver.Util
namespace Oras.Driver.Fr
open Oras Oras.Driver

structure NodeInfo where
  id : Nat
  succ : List Nat
  stored : Bool
  foreign : Bool
  at_ : Nat      -- spec artifact type class (artifactType, else config media type), 0 = none
  ann : Nat      -- value class of the filter annotation, 0 = absent
  subj : Option Nat := Option.none

structure St where
  nodes : List NodeInfo := []
  /-- the source lists only referrers (a remote repository): `p` precedes `v` iff `v` is `p`'s subject -/
  subjOnly : Bool := false

def St.get (st : St) (n : Nat) : Option NodeInfo := st.nodes.find? (·.id == n)

inductive Filter | none | at_ (k : Nat) | ann (k : Nat)

def parseFilter (s : String) : Option Filter :=
  match s.splitOn ":" with
  | ["none"] => some .none
  | ["at", k] => k.toNat?.map .at_
  | ["ann", k] => k.toNat?.map .ann
  | _ => Option.none

def keeps (f : Filter) (p : NodeInfo) : Bool :=
  match f with
  | .none => true
  | .at_ k => p.at_ == k
  | .ann k => p.ann == k

/-- Ground-truth (filtered) predecessors: stored nodes that link to `v` and pass the filter. -/
def truthPreds (st : St) (f : Filter) (v : Nat) : List Nat :=
  (st.nodes.filter fun p => p.stored && (if st.subjOnly then p.subj == some v else p.succ.contains v) && keeps f p).map (·.id)

/-- Breadth-first distances upward from `n0` (fuel = number of nodes). -/
def upDist (st : St) (f : Filter) (n0 : Nat) : List (Nat × Nat) :=
  let rec go (fuel : Nat) (frontier : List Nat) (d : Nat) (acc : List (Nat × Nat)) : List (Nat × Nat) :=
    match fuel with
    | 0 => acc
    | fuel + 1 =>
      if frontier.isEmpty then acc else
      let next := (frontier.flatMap (truthPreds st f)).eraseDups.filter (fun p => !(acc.any (·.1 == p)))
      go fuel next (d + 1) (acc ++ next.map (fun p => (p, d + 1)))
  go (st.nodes.length + 1) [n0] 0 [(n0, 0)]

/-- Truth down-closure (foreign layers excluded). -/
def downSet (st : St) (roots : List Nat) : List Nat :=
  let rec go (fuel : Nat) (work : List Nat) (acc : List Nat) : List Nat :=
    match fuel with
    | 0 => acc
    | fuel + 1 =>
      match work with
      | [] => acc
      | n :: rest =>
        if acc.contains n then go fuel rest acc
        else match st.get n with
          | some ni => if ni.foreign then go fuel rest acc else go fuel (ni.succ ++ rest) (n :: acc)
          | Option.none => go fuel rest acc
  go (st.nodes.length * st.nodes.length + st.nodes.length + 5) roots []

def parsePreds (s : String) : Option (List (Nat × List Nat)) :=
  if s == "-" then some [] else
  (s.splitOn ";").mapM fun ent =>
    match ent.splitOn ":" with
    | [n, ps] => do
      let n ← n.toNat?
      let ps ← if ps == "" then some [] else (ps.splitOn ".").mapM (·.toNat?)
      some (n, ps)
    | _ => Option.none

def sameSet (a b : List Nat) : Bool := sortNat a.eraseDups == sortNat b.eraseDups
def subset (a b : List Nat) : Bool := a.all b.contains

def step (st : St) (toks : List String) : Option (St × String × String) :=
  match toks with
  | ["new"] => some ({}, "ok", "ok")
  | ["new", "rel=subject"] => some ({ subjOnly := true }, "ok", "ok")
  | "node" :: n :: rest => do
      let n ← n.toNat?
      let succ ← parseNats (← kv rest "succ")
      let stored := (← kv rest "stored") == "1"
      let foreign := (← kv rest "foreign") == "1"
      let at_ ← (← kv rest "at").toNat?
      let ann ← (← kv rest "ann").toNat?
      let subj := (kv rest "subj").bind (·.toNat?)
      some ({ st with nodes := st.nodes ++ [⟨n, succ, stored, foreign, at_, ann, subj⟩] }, "ok", "ok")
  | "check" :: rest => do
      let depth ← (← kv rest "depth").toNat?
      let n0 ← (← kv rest "node").toNat?
      let f ← parseFilter (← kv rest "filter")
      let rec_ ← parsePreds (← kv rest "preds")
      let roots ← parseNats (← kv rest "roots")
      -- model: the loop replayed on the predecessor lists exactly as the implementation saw them
      -- (a node the implementation never asked about gets its ground-truth predecessors:
      -- a correct run never asks the model about such a node either)
      let predsF : Node → List Node := fun v =>
        match rec_.find? (·.1 == v) with
        | some p => p.2
        | Option.none => truthPreds st f v
      let fuel := 4 * (st.nodes.length + 1) * (st.nodes.length + 1) + 10
      let m := match findRoots predsF depth fuel n0 with
        | some rs => if sameSet rs roots then "ok" else "DIFF(model=" ++ showSet rs ++ ")"
        | Option.none => "OUT-OF-FUEL"
      -- spec: from the ground-truth edges
      let dist := upDist st f n0
      let up := dist.map (·.1)
      let sp :=
        if depth == 0 then
          let want := up.filter (fun a => (truthPreds st f a).isEmpty)
          if sameSet want roots then "ok" else "VIOL(want=" ++ showSet want ++ ")"
        else
          let within := (dist.filter (fun p => p.2 ≤ depth)).map (·.1)
          if !subset roots within then "VIOL(root-beyond-depth)"
          else if !(downSet st roots).contains n0 then "VIOL(own-graph-not-covered)"
          else "ok"
      some (st, m, sp)
  | "copied" :: rest => do
      let depth ← (← kv rest "depth").toNat?
      let n0 ← (← kv rest "node").toNat?
      let f ← parseFilter (← kv rest "filter")
      let present ← parseNats (← kv rest "present")
      let dist := upDist st f n0
      let sp :=
        if depth == 0 then
          let want := downSet st (dist.map (·.1))
          if sameSet want present then "ok" else "VIOL(want=" ++ showSet want ++ ")"
        else
          let lower := downSet st [n0]
          let upper := downSet st ((dist.filter (fun p => p.2 ≤ depth)).map (·.1))
          if !subset lower present then "VIOL(own-graph-missing)"
          else if !subset present upper then "VIOL(outside-depth-bound)"
          else "ok"
      some (st, "ok", sp)
  | "freshlayout" :: _ => some (st, "complete", "complete")   -- runtime monitor: concurrent write, reopen, copy again
  | "literalfilter" :: rest => do
      -- a plain-string pattern is a regular expression all the same: the referrers whose type
      -- contains it are the ones followed (the harness lists them from the types it pushed)
      let w ← kv rest "want"
      some (st, w, w)
  | _ => none

end Oras.Driver.Fr
