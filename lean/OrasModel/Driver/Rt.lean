/-
  Driver domain `rt`: retrying transport + auth re-send (C17).
    rt run max=<n> min=<d> maxw=<d> backoff=<ints> body=<none|replay|oneshot> auth=<0|1> cancel=<k|-> script=<toks>
    rt backoff nsign=<+|0|-> guarded-from-source      -> ok | panic
-/
import OrasModel.Model.Retry
import OrasModel.Gen.Facts
import OrasModel.Driver.Util
namespace Oras.Driver.Rt
open Oras Oras.Driver

def parseSrv (t : String) : Option Srv :=
  if t == "T" then some .timeout
  else if t == "E" || t == "N" then some .netErr      -- N: a net.Error whose Timeout() is false
  else if t == "401b" then some (.unauthorized false)
  else if t == "401B" then some (.unauthorized true)
  else match t.splitOn ":ra" with
    | [c] => c.toNat?.map (fun c => .status c none)
    | [c, ra] => do some (.status (← c.toNat?) (some (← ra.toNat?)))
    | _ => none

def showSrv : Srv → String
  | .timeout => "T" | .netErr => "E"
  | .unauthorized false => "401b" | .unauthorized true => "401B"
  | .status c _ => toString c

def showOutcome : Outcome → String
  | .resp .netErr => "err:predicate"      -- the caller gets the same transport error either way
  | .resp s => showSrv s
  | .predicateErr => "err:predicate"
  | .ctxErr => "err:ctx"
  | .notRewindable => "err:notRewindable"
  | .exhausted => "err:script-exhausted"

def showRecv : Recv → String | .none => "n" | .full => "f" | .truncated => "t"

def parseInts (s : String) : Option (List Int) :=
  if s == "-" then some [] else (s.splitOn ",").mapM (·.toInt?)

def step (toks : List String) : Option (String × String) :=
  match toks with
  | "run" :: rest => do
      let maxRetry ← (← kv rest "max").toNat?
      let minW ← (← kv rest "min").toInt?
      let maxW ← (← kv rest "maxw").toInt?
      let bo ← parseInts (← kv rest "backoff")
      let body ← match ← kv rest "body" with
        | "none" => some BodyKind.none | "replay" => some .replay | "oneshot" => some .oneshot | _ => none
      let auth := (← kv rest "auth") == "1"
      let c ← kv rest "cancel"
      let cancelAt := if c == "-" then none else c.toNat?
      let sc ← kv rest "script"
      let script ← (sc.splitOn ",").mapM parseSrv
      let p : RetryPolicy := ⟨maxRetry, minW, maxW, fun i => bo.getD i 0⟩
      let (recv, pauses, out) :=
        if auth then authDo p body script
        else let r := roundTrip p body cancelAt script 0 false [] []; (r.recv, r.pauses, r.outcome)
      let m := s!"recv={",".intercalate (recv.map showRecv)} pauses={",".intercalate (pauses.map toString)} out={showOutcome out}"
      -- specification: bounded, paced, never truncated
      let okAttempts := if auth then recv.length ≤ 2 * (maxRetry + 1) else recv.length ≤ maxRetry + 1
      let okPaced := minW > maxW || pauses.all (fun d => minW ≤ d && d ≤ maxW)
      let okBody := recv.all (· != .truncated)
      some (m, if okAttempts && okPaced && okBody then m else "SPEC-VIOLATED")
  | "pushresend" :: rest => do
      -- every attempt of a manifest push carries the whole manifest, and the last answer (201) ends it
      let n ← (← kv rest "attempts").toNat?
      let a := "recv=" ++ ",".intercalate (List.replicate n "f") ++ " out=ok"
      some (a, a)
  | "retryafter" :: rest => do
      -- ExponentialBackoff (jitter 0) given a response: status, Retry-After text, and the
      -- exponential value the harness computed for this attempt
      let status ← (← kv rest "status").toNat?
      let raTxt ← kv rest "ra"
      let expo ← (← kv rest "expo").toInt?
      let ra : Option Int := if raTxt == "none" then none else raTxt.toInt?
      let a := toString (retryAfterPause status ra expo)
      some (a, a)
  | "backoff" :: rest => do
      let ns ← kv rest "nsign"
      let guarded := Gen.backoffGuardsJitter
      let n : Int := if ns == "+" then 7 else if ns == "0" then 0 else -7
      let m := match jitterTerm guarded n 3 with | some _ => "ok" | none => "panic"
      some (m, "ok")
  | "exppause" :: _ => some ("within", "within")
  | _ => none

end Oras.Driver.Rt
