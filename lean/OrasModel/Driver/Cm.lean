/-
  Driver domain `cm`: the in-place compaction loops (C01 `removeForeignLayers`, C15
  `filterReferrers`; `Model/Compact.lean`).
    cm foreign l=<id><f|L>,…        -> ids kept ("-" = none)
    cm filter want=<t> l=<id><t>,…  -> ids kept
  model: the loop with the write position the regenerated source shows; specification: filter.
-/
import OrasModel.Model.Compact
import OrasModel.Gen.Facts
import OrasModel.Driver.Util
namespace Oras.Driver.Cm
open Oras Oras.Driver Oras.Compact

/-- the write position of a loop, from its first regenerated assignment (`xs[j] = x`) -/
def writeOf (fn : String) : Nat → Nat → Nat :=
  match (Gen.compactLoops.lookup fn).bind (·.head?) with
  | some a => if (a.splitOn "[j] =").length > 1 then atCursor else atPrev
  | none => atCursor

def parseItems (s : String) : Option (List (Nat × Char)) :=
  if s == "-" then some [] else (s.splitOn ",").mapM fun t =>
    match t.toList.reverse with
    | c :: rest => (String.ofList rest.reverse).toNat?.map (·, c)
    | [] => none

def showIds (l : List (Nat × Char)) : String :=
  if l.isEmpty then "-" else ",".intercalate (l.map (toString ·.1))

def step (toks : List String) : Option (String × String) :=
  match toks with
  | "foreign" :: rest => do
      let l ← parseItems (← kv rest "l")
      let keep : Nat × Char → Bool := fun x => x.2 != 'f'
      some (showIds (compact keep (writeOf "removeForeignLayers") l), showIds (l.filter keep))
  | "filter" :: rest => do
      let l ← parseItems (← kv rest "l")
      let w ← (← kv rest "want").toList.head?
      let keep : Nat × Char → Bool := fun x => x.2 == w
      some (showIds (compact keep (writeOf "filterReferrers") l), showIds (l.filter keep))
  | _ => none

end Oras.Driver.Cm
