/-
  Driver domain `s`: memory store and file store histories (C06).
    s new kind=<mem|file>
    s node <n> kind=<m|b> dig=<d> succ=<k:name|k:-,…|->
    s push <n> name=<k|-> good=<0|1>     -> ok | err:…
    s exists <n> name=<k|->              -> 0 | 1
    s fetch <n> name=<k|->               -> ok:<digest class> | garbage | err:…
    s tag <n> name=<k|-> ref=<k|->       -> ok | err:…
    s resolve ref=<k|->                  -> <n> name=<k|-> | err:…
    s preds <n>                          -> set
-/
import OrasModel.Model.Stores
import OrasModel.Model.PushRace
import OrasModel.Gen.Facts
import OrasModel.Driver.Util
namespace Oras.Driver.S
open Oras Oras.Driver

structure St where
  file : Bool := false
  cas : Bool := false                  -- file store with ForceCAS
  nov : Bool := false                  -- file store with DisableOverwrite
  inn : Bool := false                  -- file store with IgnoreNoName
  absDisk : List Nat := []             -- names of files that were on disk before the store was opened
  isMan : List (Nat × Bool) := []
  succD : List (Nat × List SDesc) := []
  dig : List (Nat × Nat) := []
  mem : MemSt := MemSt.empty
  fs : FileSt := FileSt.empty
  -- abstract specification state
  absContent : List Nat := []          -- mem: nodes present; file: nodes pushed unnamed (fallback)
  absNamed : List (Nat × Nat) := []    -- file: (name, node) pushed or restored under a name
  absMan : List Nat := []              -- manifests stored (for predecessors)
  absTags : List (Option Nat × SDesc) := []

def St.cfg (s : St) : StoreCfg :=
  { isMan := fun n => lookupD s.isMan n false, succD := fun n => lookupD s.succD n [], dig := fun n => lookupD s.dig n n }

def showSErr : SErr → String
  | .alreadyExists => "alreadyExists" | .notFound => "notFound" | .missingRef => "missingRef"
  | .duplicateName => "duplicateName" | .verify => "verify" | .overwrite => "overwrite"

def showU : Except SErr Unit → String
  | .ok _ => "ok" | .error e => "err:" ++ showSErr e

def parseName (s : String) : Option (Option Nat) :=
  if s == "-" then some none else s.toNat?.map some

def showName : Option Nat → String
  | none => "-" | some k => toString k

def parseSucc (s : String) : Option (List SDesc) :=
  if s == "-" then some [] else (s.splitOn ",").mapM fun t =>
    match t.splitOn ":" with
    | [k, nm] => do some ⟨← k.toNat?, ← parseName nm⟩
    | _ => none

/-- Specification: is the content of node `n` present (observably)? -/
def absPresent (s : St) (n : Nat) : Bool :=
  if s.file then
    s.absNamed.any (fun e => s.cfg.dig e.2 == s.cfg.dig n) || s.absContent.contains n
  else s.absContent.contains n

def absGate (s : St) (nm : Option Nat) : Bool :=
  match nm with
  | some k => !s.file || s.absNamed.any (·.1 == k)
  | none => true

def step (s : St) (toks : List String) : Option (St × String × String) :=
  let c := s.cfg
  match toks with
  | "new" :: rest => do
      let st0 : St := { file := (← kv rest "kind") == "file", cas := (kv rest "cas") == some "1",
                        nov := (kv rest "nov") == some "1", inn := (kv rest "inn") == some "1" }
      some (st0, "ok", "ok")
  | "disk" :: rest => do
      -- a file of unknown content already sits in the working directory under this name
      let k ← (← kv rest "name").toNat?
      some ({ s with fs := s.fs.writeFile k .garbage, absDisk := k :: s.absDisk }, "ok", "ok")
  | "node" :: n :: rest => do
      let n ← n.toNat?
      let ss ← parseSucc (← kv rest "succ")
      some ({ s with isMan := (n, (← kv rest "kind") == "m") :: s.isMan, succD := (n, ss) :: s.succD,
                     dig := (n, ← (← kv rest "dig").toNat?) :: s.dig }, "ok", "ok")
  | "push" :: n :: rest => do
      let n ← n.toNat?
      let nm ← parseName (← kv rest "name")
      let good := (← kv rest "good") == "1"
      -- specification
      let refused := if s.file then
          (match nm with
            | some k => s.absNamed.any (·.1 == k) || (s.nov && s.absDisk.contains k)   -- DisableOverwrite
            | none => s.absContent.contains n)
        else s.absContent.contains n
      -- IgnoreNoName: content without a title is discarded and the push reports success
      let discard := s.file && s.inn && nm.isNone
      let okSpec := discard || (!refused && good)
      let s1 : St := if !okSpec || discard then s else
        let s0 : St := if s.file then
            (match nm with
              | some k => { s with absNamed := (k, n) :: s.absNamed }
              | none => { s with absContent := n :: s.absContent })
          else { s with absContent := n :: s.absContent }
        -- duplicate restoration: names listed by a stored manifest materialise when the
        -- same content is present
        let s0 := if s.file && !s.cas && c.isMan n then
            (c.succD n).foldl (fun acc d => match d.name with
              | some k => if acc.absNamed.any (·.1 == k) || !absPresent acc d.node then acc
                          else { acc with absNamed := (k, d.node) :: acc.absNamed }
              | none => acc) s0
          else s0
        if c.isMan n then { s0 with absMan := n :: s0.absMan } else s0
      let sp := if okSpec then "ok" else "err"
      -- model
      if s.file then
        let (fs', r) := s.fs.push c (!Gen.fileRecordsPathAfterCopy) ⟨n, nm⟩ good s.cas s.nov Gen.fileRemovesPartialOnFailure s.inn
        some ({ s1 with fs := fs' }, showU r, sp)
      else
        let (m', r) := s.mem.push c n good
        some ({ s1 with mem := m' }, showU r, sp)
  | "exists" :: n :: rest => do
      let n ← n.toNat?
      let nm ← parseName (← kv rest "name")
      let m := if s.file then s.fs.exists_ c ⟨n, nm⟩ else s.mem.exists_ n
      let sp := absGate s nm && absPresent s n
      some (s, (if m then "1" else "0"), (if sp then "1" else "0"))
  | "fetch" :: n :: rest => do
      let n ← n.toNat?
      let nm ← parseName (← kv rest "name")
      let m := if s.file then
          (match s.fs.fetch c ⟨n, nm⟩ with
            | .ok (.ok d) => s!"ok:{d}" | .ok .garbage => "garbage" | .error e => "err:" ++ showSErr e)
        else (match s.mem.fetch n with | .ok k => s!"ok:{c.dig k}" | .error e => "err:" ++ showSErr e)
      let sp := if absGate s nm && absPresent s n then s!"ok:{c.dig n}" else "err"
      some (s, m, sp)
  | "tag" :: n :: rest => do
      let n ← n.toNat?
      let nm ← parseName (← kv rest "name")
      let ref ← parseName (← kv rest "ref")
      let okSpec := (ref.isSome || !s.file) && absGate s nm && absPresent s n
      let s1 := if okSpec then { s with absTags := (ref, ⟨n, nm⟩) :: s.absTags.filter (·.1 != ref) } else s
      -- the memory store has no rule for the empty reference: not judged
      let sp := if !s.file && ref.isNone then "*" else if okSpec then "ok" else "err"
      if s.file then
        let (fs', r) := s.fs.tag c ⟨n, nm⟩ ref
        some ({ s1 with fs := fs' }, showU r, sp)
      else
        let (m', r) := s.mem.tag ⟨n, nm⟩ ref
        some ({ s1 with mem := m' }, showU r, sp)
  | "resolve" :: rest => do
      let ref ← parseName (← kv rest "ref")
      let showD (d : SDesc) : String := s!"{d.node} name={showName d.name}"
      let r := if s.file then s.fs.resolve ref else s.mem.resolve ref
      let m := match r with | .ok d => showD d | .error e => "err:" ++ showSErr e
      let sp := if !s.file && ref.isNone then "*" else
        match s.absTags.find? (·.1 == ref) with
        | some e => if ref.isNone && s.file then "err" else showD e.2
        | none => "err"
      some (s, m, sp)
  | ["preds", n] => do
      let n ← n.toNat?
      let m := if s.file then s.fs.predecessors n else s.mem.predecessors n
      let sp := s.absMan.eraseDups.filter (fun p => (c.succ p).contains n)
      some (s, showSet m, showSet sp)
  | "tagrace" :: _ => some (s, "consistent", "consistent")   -- runtime monitor: Tag racing Delete
  | "pushdelrace" :: _ => some (s, "linearizable", "linearizable")   -- runtime monitor: Push racing Delete of one manifest
  | "tagreopen" :: _ => some (s, "complete", "complete")   -- runtime monitor: concurrent tags, then a reopened store knows every name
  | "junkpush" :: _ => some (s, "intact", "intact")      -- a refused manifest push leaves index.json and the directory as they were
  | "pushreopen" :: _ => some (s, "complete", "complete")   -- runtime monitor: concurrent pushes, then a reopened store knows them all
  | "overlap" :: rest => do
      -- two pushes of one descriptor that overlap in time.  Specification: in either
      -- sequential order of the two exactly one is accepted.  The code: the memory store
      -- commits with one atomic load-or-store and the file store serialises per name; the
      -- OCI layout commits with rename(2), which replaces an existing blob silently.
      let kind ← kv rest "kind"
      -- model: `Model/PushRace.lean` on the schedule the harness forces (the second push runs
      -- to completion while the first is still reading), with the commit primitive the
      -- regenerated call lists show
      let ociBlind := ((Gen.ociCalls.lookup "Storage.Push").getD []).contains "os.Rename"
      let memTAS := (Gen.casCalls.lookup "Memory.Push").getD [] |>.contains "m.content.LoadOrStore"
      let cm : PushRace.Commit :=
        if kind == "oci" then (if ociBlind then .blind else .testAndSet)
        else if kind == "memory" then (if memTAS then .testAndSet else .blind)
        else .testAndSet     -- the file store serialises pushes per name
      let fin := PushRace.run cm (PushRace.init (fun _ => true)) [0, 1, 1, 1, 0, 0]
      some (s, s!"accepted={PushRace.accepted fin 2}", "accepted=1")
  | _ => none

end Oras.Driver.S
