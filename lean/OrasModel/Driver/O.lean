/-
  Driver domain `o`: OCI-layout store histories (C06, C08, C09).
    o new autosave=<0|1> autogc=<0|1>
    o node <n> kind=<m|b> succ=<list> subject=<k|->
    o stray <id>                       a file in blobs/ that the store never heard of
    o push <n> | o tag <n> ann=<k> ref=<tK|dN|-> | o untag ref=.. | o resolve ref=..
    o exists <n> | o fetch <n> | o preds <n> | o tags last=<k|-> | o delete <n>
    o saveindex | o gc | o reopen | o view   (view: read-only reopen used for the next `vq` lines)
    o vq <query…>                      query against the view; spec = the original handle's answer
    o foreign keep=<set> entries=<n:name|-:ann,...>
                                       another tool rewrote the layout: blobs/ holds `keep`,
                                       index.json lists the entries; opened afresh
    o layout                           raw directory validation (harness side)
    o blobs                            which universe blobs have a file
-/
import OrasModel.Model.Oci
import OrasModel.Gen.Facts
import OrasModel.Driver.Util
namespace Oras.Driver.O
open Oras Oras.Driver Oras.OciSt

structure St where
  succ : List (Nat × List Nat) := []
  isMan : List (Nat × Bool) := []
  subject : List (Nat × Nat) := []
  univ : List Nat := []
  st : OciSt := OciSt.empty
  view : Option OciSt := none
  stray : List Nat := []
  strayLive : List Nat := []      -- specification: stray files written and not yet collected
  -- abstract specification state (C06): content set and tag map
  absContent : List Nat := []
  absTags : List (Nat × Nat × Nat) := []     -- name ↦ (node, ann)
  why : String := ""                        -- diagnosis of the last model/spec difference
  blobsWhy : String := ""
  judgeGC : Bool := true                     -- C09 mode: the removal sets of auto-GC / GC are judged

def St.cfg (s : St) : OciCfg :=
  { succ := fun n => lookupD s.succ n [], isMan := fun n => lookupD s.isMan n false,
    subject := fun n => (s.subject.find? (·.1 == n)).map (·.2) }

def St.fuel (s : St) : Nat := 4 * (s.univ.length + 2) * (s.univ.length + 2)

def showOErr : OErr → String
  | .alreadyExists => "alreadyExists" | .notFound => "notFound" | .missingRef => "missingRef"
  | .invalidRef => "invalidRef" | .hang => "hang"

def showU : Except OErr Unit → String
  | .ok _ => "ok" | .error e => "err:" ++ showOErr e

def parseRef (s : String) : Option (Option RefKey) :=
  if s == "-" then some none
  else if s.startsWith "t" then ((s.drop 1).toString.toNat?).map (fun k => some (.tag k))
  else if s.startsWith "d" then ((s.drop 1).toString.toNat?).map (fun k => some (.dig k))
  else none

def showResolved : Except OErr Resolved → String
  | .ok (.full n a) => s!"full {n} ann={a}"
  | .ok (.plain n) => s!"plain {n}"
  | .ok (.blob n) => s!"blob {n}"
  | .error e => "err:" ++ showOErr e

def tagsAfter (st : OciSt) (last : Option Nat) : List Nat :=
  let ts := sortNat st.tags.eraseDups
  match last with
  | none => ts
  | some l => ts.filter (· > l)

/-- One query against a store state. -/
def query (st : OciSt) (toks : List String) : Option String :=
  match toks with
  | ["exists", n] => do let n ← n.toNat?; some (if st.blobs.contains n then "1" else "0")
  | ["fetch", n] => do let n ← n.toNat?; some (if st.blobs.contains n then s!"ok:{n}" else "err:notFound")
  | ["preds", n] => do let n ← n.toNat?; some (showSet (st.graph.predecessors n))
  | ["resolve", r] => do
      let k ← parseRef (← kv [r] "ref")
      some (showResolved (st.resolve k))
  | ["tags", l] => do
      let l ← kv [l] "last"
      let last ← if l == "-" then some none else l.toNat?.map some
      some (showNats (tagsAfter st last))
  | _ => none

/-- Specification answers (C06) where the abstract store has an opinion. -/
def specQuery (s : St) (toks : List String) : String :=
  match toks with
  | ["exists", n] => match n.toNat? with
      | some n => if s.absContent.contains n then "1" else "0"
      | none => "*"
  | ["fetch", n] => match n.toNat? with
      | some n => if s.absContent.contains n then s!"ok:{n}" else "err"
      | none => "*"
  | ["resolve", r] =>
      match (kv [r] "ref").bind parseRef with
      | some (some (.tag k)) =>
        (match s.absTags.find? (·.1 == k) with
          | some (_, n, a) => s!"full {n} ann={a}"
          | none => "err")
      | some none => "err"
      | _ => "*"
  | ["preds", n] => match n.toNat? with
      -- C07: exactly the stored manifests that link to n (ground-truth edges)
      | some n => showSet (s.absContent.filter fun p => s.cfg.isMan p && (s.cfg.succ p).contains n)
      | none => "*"
  | ["tags", l] =>
      match kv [l] "last" with
      | some l =>
        let ts := sortNat (s.absTags.map (·.1)).eraseDups
        if l == "-" then showNats ts else match l.toNat? with
          | some k => showNats (ts.filter (· > k))
          | none => "*"
      | none => "*"
  | _ => "*"

/-! ### Specification of C09 (independent of the queue algorithm) -/

def absTagged (s : St) (n : Nat) : Bool := s.absTags.any (·.2.1 == n)

/-- Stored manifests that link to `n` (ground truth). -/
def absPreds (s : St) (content : List Nat) (n : Nat) : List Nat :=
  content.filter fun p => s.cfg.isMan p && (s.cfg.succ p).contains n

/-- Least removal set of `Delete target` with auto-GC: the target; untagged stored manifests
    whose subject is removed; untagged stored nodes all of whose (≥ 1) stored predecessors
    are removed. -/
def specRemoval (s : St) (target : Nat) : List Nat :=
  let content := s.absContent
  let rec go (fuel : Nat) (r : List Nat) : List Nat :=
    match fuel with
    | 0 => r
    | fuel + 1 =>
      let add := content.filter fun n =>
        !r.contains n && !absTagged s n &&
        ((s.cfg.isMan n && (match s.cfg.subject n with | some sb => r.contains sb && s.cfg.isMan sb | none => false)) ||
         (let ps := absPreds s content n; !ps.isEmpty && ps.all r.contains))
      if add.isEmpty then r else go fuel (r ++ add)
  go (content.length + 1) [target]

/-- Down-closure through links within the stored content. -/
def absDown (s : St) (content : List Nat) (roots : List Nat) : List Nat :=
  let rec go (fuel : Nat) (work acc : List Nat) : List Nat :=
    match fuel with
    | 0 => acc
    | fuel + 1 =>
      match work with
      | [] => acc
      | n :: rest =>
        if acc.contains n || !content.contains n then go fuel rest acc
        else go fuel (s.cfg.succ n ++ rest) (n :: acc)
  go (content.length * content.length + content.length + 5) roots []

/-- What GC keeps: everything reachable from a tagged node, plus (iteratively) every stored
    manifest whose subject chain reaches a kept manifest, with its own graph. -/
def specGCKeep (s : St) : List Nat :=
  let content := s.absContent
  let k0 := absDown s content (content.filter (absTagged s))
  let reaches (k : List Nat) (n : Nat) : Bool :=
    let rec walk (fuel : Nat) (cur : Nat) : Bool :=
      match fuel with
      | 0 => false
      | fuel + 1 =>
        match s.cfg.subject cur with
        | none => false
        | some sb => if k.contains sb then true else if content.contains sb then walk fuel sb else false
    walk (content.length + 1) n
  let rec go (fuel : Nat) (k : List Nat) : List Nat :=
    match fuel with
    | 0 => k
    | fuel + 1 =>
      let add := content.filter fun n => s.cfg.isMan n && !k.contains n && reaches k n
      if add.isEmpty then k else go fuel (absDown s content (k ++ add))
  go (content.length + 1) k0

def step (s : St) (toks : List String) : Option (St × String × String) :=
  let c := s.cfg
  match toks with
  | "new" :: rest => do
      let a := (← kv rest "autosave") == "1"
      let g := (← kv rest "autogc") == "1"
      let j := (kv rest "mode").getD "C09" == "C09"
      some ({ st := { OciSt.empty with autoSave := a, autoGC := g }, judgeGC := j }, "ok", "ok")
  | "node" :: n :: rest => do
      let n ← n.toNat?
      let ss ← parseNats (← kv rest "succ")
      let subj ← kv rest "subject"
      let sub := if subj == "-" then [] else match subj.toNat? with | some k => [(n, k)] | none => []
      some ({ s with succ := (n, ss) :: s.succ, isMan := (n, (← kv rest "kind") == "m") :: s.isMan,
                     subject := sub ++ s.subject, univ := s.univ ++ [n] }, "ok", "ok")
  | ["stray", i] => do
      let i ← i.toNat?
      some ({ s with stray := i :: s.stray, strayLive := i :: s.strayLive, st := { s.st with blobs := i :: s.st.blobs } }, "ok", "ok")
  | ["push", n] => do
      let n ← n.toNat?
      let (st', r) := s.st.push c n
      let sp := if s.absContent.contains n then "err" else "ok"
      let abs := if s.absContent.contains n then s.absContent else n :: s.absContent
      some ({ s with st := st', absContent := abs, view := none }, showU r, sp)
  | "tag" :: n :: rest => do
      let n ← n.toNat?
      let ann ← (← kv rest "ann").toNat?
      let k ← parseRef (← kv rest "ref")
      let (st', r) := s.st.tag n ann k
      let (sp, absT) := match k with
        | none => ("err", s.absTags)
        | some (.tag nm) =>
          if s.absContent.contains n then ("ok", (nm, n, ann) :: s.absTags.filter (·.1 != nm)) else ("err", s.absTags)
        | some (.dig _) => ("*", s.absTags)
      some ({ s with st := st', absTags := absT, view := none }, showU r, sp)
  | "refusednoop" :: _ => some (s, "same", "same")   -- a refused operation changes nothing (observed by the harness)
  | ["untag", r] => do
      let k ← parseRef (← kv [r] "ref")
      let (st', res) := s.st.untag k
      let (sp, absT) := match k with
        | some (.tag nm) =>
          if s.absTags.any (·.1 == nm) then ("ok", s.absTags.filter (·.1 != nm)) else ("err", s.absTags)
        | _ => ("err", s.absTags)
      some ({ s with st := st', absTags := absT, view := none }, showU res, sp)
  | ["delete", n] => do
      let n ← n.toNat?
      let (st', r, seen) := s.st.delete c (Gen.deleteIsTaggedCalls ≥ 2) Gen.deleteSkipsAbsent n s.fuel
      -- specification (C06 part): without auto-GC, exactly the content and the tags pointing
      -- at it disappear; with auto-GC the removal set is C09's business
      let present := s.absContent.contains n
      let sp := if present then "ok" else "err"
      let removed := if !present then [] else if s.st.autoGC then
          (if s.judgeGC then specRemoval s n else s.absContent.filter (fun x => !st'.blobs.contains x)) else [n]
      let abs := s.absContent.filter (!removed.contains ·)
      let absT := s.absTags.filter (fun t => !removed.contains t.2.1)
      -- diagnosis of a failing cascade (for known-finding signatures)
      let why := match r with
        | .error .notFound =>
          (match seen.reverse with
            | bad :: before =>
              if bad == n then "target-absent"
              else if before.contains bad then "requeued"
              else if !s.st.blobs.contains bad then "absent-successor-known-to-graph"
              else "other"
            | [] => "other")
        | _ => ""
      -- content the specification removes but the graph index has never heard of
      let leftover := removed.filter (fun x => st'.blobs.contains x)
      let bw := if !leftover.isEmpty && leftover.all (fun x => !s.st.graph.nodes x) then "orphan-unknown-to-graph" else ""
      some ({ s with st := st', absContent := abs, absTags := absT, view := none, why := why, blobsWhy := bw }, showU r, sp)
  | ["saveindex"] => some ({ s with st := s.st.saveIndex }, "ok", "ok")
  | ["gc"] =>
      let (st', r) := s.st.gc c Gen.gcWalkAdvances Gen.gcRepeatsReferrerPass Gen.gcSavesIndex s.fuel
      let keep := if s.judgeGC then specGCKeep s else st'.blobs
      let abs := s.absContent.filter (keep.contains ·)
      -- strays are garbage by definition: a collection that succeeds leaves none
      let strays' := match r with | .ok _ => [] | .error _ => s.strayLive
      some ({ s with st := st', absContent := abs, view := none, strayLive := strays' }, showU r, "ok")
  | ["gcpartial"] => some (s, "consistent", "consistent")   -- runtime comparison live vs reopened after an interrupted GC
  | ["gcfail"] => some (s, "err", "err")     -- a GC that returned an error: nothing changed
  | ["reopen"] =>
      let st' := { s.st.reopen c s.fuel with autoSave := s.st.autoSave, autoGC := s.st.autoGC }
      some ({ s with st := st', view := none }, "ok", "ok")
  | ["view"] => some ({ s with view := some (s.st.reopen c s.fuel) }, "ok", "ok")
  | "vq" :: q => do
      -- C08: the reopened view answers like the original handle
      let v ← s.view
      let m ← query v q
      let sp ← query s.st q
      -- diagnosis (for the known-finding signature F18): a stored manifest the live graph
      -- knows but no index.json entry reaches
      let orphans := s.st.blobs.filter fun n => c.isMan n && s.st.graph.nodes n && !v.graph.nodes n
      let why := if m != sp && !orphans.isEmpty then "orphan-manifest-not-in-index" else ""
      some ({ s with why := why }, m, sp)
  | "foreign" :: rest => do
      let keep ← parseNats (← kv rest "keep")
      let es ← ((← kv rest "entries").splitOn ",").mapM fun e =>
        match e.splitOn ":" with
        | [n, nm, a] => do
            let n ← n.toNat?
            let a ← a.toNat?
            let nm ← if nm == "-" then some none else nm.toNat?.map some
            some (n, nm, a)
        | _ => none
      let base : OciSt := { OciSt.empty with blobs := keep, indexFile := es }
      let st' := { base.loadIndex c s.fuel with autoSave := s.st.autoSave, autoGC := s.st.autoGC }
      let absT := es.foldl (fun acc e => match e.2.1 with
        | some nm => (nm, e.1, e.2.2) :: acc.filter (·.1 != nm)
        | none => acc) []
      some ({ s with st := st', stray := [], strayLive := [], absContent := keep, absTags := absT, view := none }, "ok", "ok")
  | ["layout"] => some (s, "ok", "ok")
  | ["blobs"] =>
      let present := s.univ.filter (s.st.blobs.contains ·)
      some ({ s with why := s.blobsWhy }, showSet present, showSet (s.univ.filter (s.absContent.contains ·)))
  | ["strays"] =>
      -- specification: the stray files written since the last collection are all still there
      -- (nothing but GC removes them), and a collection leaves none
      let present := s.stray.filter (s.st.blobs.contains ·)
      some (s, showSet present, showSet s.strayLive)
  | q => do
      let m ← query s.st q
      some (s, m, specQuery s q)

end Oras.Driver.O
