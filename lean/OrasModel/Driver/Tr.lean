/-
  Driver domain `tr`: file-store round trips (C12).  The expected outcomes are constants
  of the property; the Lean side of C12 is the naming / header model of `Props/C12.lean`.
-/
import OrasModel.Driver.Util
namespace Oras.Driver.Tr
open Oras.Driver

def step (toks : List String) : Option (String × String) :=
  match toks with
  | "descriptor" :: _ => some ("ok", "ok")
  | "roundtrip" :: _ => some ("same", "same")
  | ["duplicates-after-broken-push"] => some ("both", "both")   -- a broken first attempt under the second name changes nothing
  | "duplicates" :: rest => do
      let f ← kv rest "forcecas"
      let e := if f == "true" then "one" else "both"
      some (e, e)
  | "checksum" :: _ => some ("rejected", "rejected")
  | "skipunpack" :: _ => some ("blob", "blob")
  | "reproducible" :: _ => some ("equal", "equal")
  | _ => none

end Oras.Driver.Tr
