/-
  Driver domain `cd`: credentials file store (C18).  Strings travel as hex of their bytes.
-/
import OrasModel.Model.Cred
import OrasModel.Driver.Util
namespace Oras.Driver.Cd
open Oras Oras.Driver

def hexVal (c : Char) : Option Nat :=
  if '0' ≤ c ∧ c ≤ '9' then some (c.toNat - '0'.toNat)
  else if 'a' ≤ c ∧ c ≤ 'f' then some (c.toNat - 'a'.toNat + 10) else none

def unhex : List Char → Option Str
  | [] => some []
  | [_] => none
  | a :: b :: rest => do
    let x ← hexVal a
    let y ← hexVal b
    let r ← unhex rest
    some (Char.ofNat (16 * x + y) :: r)

def hexDigit (n : Nat) : Char := if n < 10 then Char.ofNat (48 + n) else Char.ofNat (87 + n)
def hex (s : Str) : String := String.ofList (s.flatMap fun c => [hexDigit (c.toNat / 16), hexDigit (c.toNat % 16)])

def hx (toks : List String) (k : String) : Option Str := do
  let v ← kv toks k
  unhex v.toList

structure St where
  cfg : CredCfg := ⟨[], []⟩

def showCred (c : Option Cred) : String :=
  match c with
  | some c => s!"cred {hex c.username}|{hex c.password}|{hex c.refreshToken}|{hex c.accessToken}"
  | none => "err:invalidFormat"

def showEntry (e : Str × AuthEntry) : String :=
  let a := match e.2.auth with | some s => hex s | none => "-"
  s!"{hex e.1}:[auth={a},idt={hex e.2.identityToken},rgt={hex e.2.registryToken},lu={hex e.2.legacyUser},lp={hex e.2.legacyPass},unk={e.2.unknown}]"

/-- sort strings (insertion sort on their text) -/
def insertStr (x : String) : List String → List String
  | [] => [x]
  | y :: ys => if x ≤ y then x :: y :: ys else y :: insertStr x ys
def sortStr (l : List String) : List String := l.foldr insertStr []

def dump (c : CredCfg) : String :=
  let es := sortStr (c.auths.map showEntry)
  let os := sortStr (c.others.map fun o => s!"{hex o.1}={o.2}")
  "auths{" ++ ";".intercalate es ++ "} others{" ++ ";".intercalate os ++ "}"

def step (s : St) (toks : List String) : Option (St × String × String) :=
  match toks with
  | ["new"] => some ({}, "ok", "ok")
  | "entry" :: rest => do
      let addr ← hx rest "addr"
      let a ← kv rest "auth"
      let auth ← if a == "-" then some none else (unhex a.toList).map some
      let e : AuthEntry := ⟨auth, ← hx rest "idt", ← hx rest "rgt", ← hx rest "lu", ← hx rest "lp", ← (← kv rest "unk").toNat?⟩
      some ({ cfg := { s.cfg with auths := s.cfg.auths ++ [(addr, e)] } }, "ok", "ok")
  | "other" :: rest => do
      let k ← hx rest "key"
      let t ← (← kv rest "tag").toNat?
      some ({ cfg := { s.cfg with others := s.cfg.others ++ [(k, t)] } }, "ok", "ok")
  | "put" :: rest => do
      let addr ← hx rest "addr"
      let cr : Cred := ⟨← hx rest "u", ← hx rest "p", ← hx rest "rt", ← hx rest "at"⟩
      let (c', r) := s.cfg.put addr cr
      let m := match r with | .ok _ => "ok" | .error _ => "err:badFormat"
      some ({ cfg := c' }, m, if cr.username.contains ':' then "err" else "ok")
  | "get" :: rest => do
      let addr ← hx rest "addr"
      -- `want`: what the harness's own bookkeeping of the document expects (docker's format)
      let sp := match kv rest "want" with | some w => "cred " ++ w | none => "*"
      some (s, showCred (s.cfg.get addr), sp)
  | "del" :: rest => do
      let addr ← hx rest "addr"
      some ({ cfg := s.cfg.delete addr }, "ok", "ok")
  | ["dump"] => some (s, dump s.cfg, "*")
  | "roundtrip" :: _ => some (s, "same", "same")       -- Get right after Put returned what was put
  | "mode" :: _ => some (s, "600", "600")
  | "others" :: _ => some (s, "preserved", "preserved") -- raw bytes of every other key / entry unchanged
  | "kill" :: _ => some (s, "ok", "ok")                 -- crash point: old or new complete file, mode 0600
  | "concurrent" :: _ => some (s, "serialisable", "serialisable")
  | "legacyrace" :: _ => some (s, "survived", "survived")   -- runtime monitor: legacy-key Get against concurrent writers
  | _ => none

end Oras.Driver.Cd
