/-
  Driver domain `cp`: trace validation of copyGraph runs (C01, C02, C04).
  The harness logs what the instrumented source, destination and callbacks saw; each
  event is mapped to labels of `Model/Copy.lean` and replayed through `step?`.  An event
  the model does not enable is answered `REJECT(...)`.

    cp new
    cp node <n> kids=<list> dkey=<k>
    cp begin roots=<list> pre=<nodes present initially>     (keeps the destination of a previous run when pre=keep)
    cp ev <existsT|existsF|skipped|preCopy|pushStart|pushOk|postCopy|mounted|fault|late> <n>
    cp instant <n>                      -> 1
    cp end res=<ok|err> fired=<0|1> cancel=<0|1>
    cp present                          -> nodes whose key is in the destination
    cp closed                           -> 1
-/
import OrasModel.Model.Copy
import OrasModel.Driver.Util
import OrasModel.Model.CopyRoot
namespace Oras.Driver.Cp
open Oras Oras.Driver

structure St where
  kids : List (Nat × List Nat) := []
  dkeys : List (Nat × Nat) := []
  univ : List Nat := []
  roots : List Nat := []
  s : CopySt := CopySt.init []
  dst0 : List Nat := []          -- destination keys at `begin`
  pushed : List Nat := []        -- nodes whose Push returned ok but PostCopy has not run yet
  counts : List (String × Nat) := []   -- (event ++ node) occurrence counts, for C04
  rejected : Bool := false

def St.cfg (st : St) : CopyCfg :=
  { kids := fun n => lookupD st.kids n [], dkey := fun n => lookupD st.dkeys n n, roots := st.roots }

def showSt : NSt → String
  | .idle => "idle" | .claimed => "claimed" | .waiting => "waiting"
  | .copying => "copying" | .done => "done" | .failed => "failed"

/-- Apply a list of labels; report the first one that is not enabled. -/
def applyLabels (c : CopyCfg) (s : CopySt) : List Label → Except String CopySt
  | [] => .ok s
  | l :: ls => match step? c s l with
    | some s' => applyLabels c s' ls
    | none => .error (reprStr l)

/-- Some other node with the same destination key is being copied right now: the
    destination's answer about this key is racing with that push. -/
def aliasInFlight (st : St) (n : Nat) : Bool :=
  st.univ.any fun m => m != n && st.cfg.dkey m == st.cfg.dkey n &&
    (st.s.st m == .copying || st.pushed.contains m)

def bump (st : St) (key : String) : St × Nat :=
  let cur := (st.counts.find? (·.1 == key)).map (·.2) |>.getD 0
  ({ st with counts := (key, cur + 1) :: st.counts.filter (·.1 != key) }, cur + 1)

def event (st : St) (name : String) (n : Nat) : St × String :=
  let c := st.cfg
  let go (labels : List Label) (st : St) : St × String :=
    match applyLabels c st.s labels with
    | .ok s' => ({ st with s := s' }, "ok")
    | .error l => ({ st with rejected := true }, s!"REJECT({l};st={showSt (st.s.st n)})")
  match name with
  | "existsT" =>
    if present c st.s n || aliasInFlight st n then go [.claim n] st
    else ({ st with rejected := true }, "REJECT(existsT-but-absent)")
  | "existsF" =>
    if !present c st.s n then go [.claim n, .existsF n] st
    else if aliasInFlight st n then go [.claim n] st   -- stale answer; node will find it present on push
    else ({ st with rejected := true }, "REJECT(existsF-but-present)")
  | "skipped" =>
    -- OnCopySkipped returned ok: the node is done
    if present c st.s n then go [.existsT n] st
    else if aliasInFlight st n && st.s.st n == .claimed then
      -- the destination answered "exists" because the same bytes are being pushed under
      -- another media type: the inner push has completed, its wrapper has not logged it yet
      ({ st with s := { st.s with st := fupd st.s.st n .done } }, "ok")
    else ({ st with rejected := true }, "REJECT(skipped-but-absent)")
  | "preCopy" =>
    -- every successor's completion must already be in the log
    if st.s.st n == .claimed then
      -- existsF was recorded as stale (alias race): the node proceeds to copy
      ({ st with s := { st.s with st := fupd st.s.st n .waiting } }, "ok") |> fun (st', _) => go [.ready n] st'
    else go [.ready n] st
  | "pushStart" =>
    if st.s.st n == .copying then (st, "ok")
    else ({ st with rejected := true }, s!"REJECT(pushStart;st={showSt (st.s.st n)})")
  | "pushOk" => ({ st with pushed := n :: st.pushed }, "ok")
  | "postCopy" =>
    if st.pushed.contains n then go [.push n] { st with pushed := st.pushed.filter (· != n) }
    else ({ st with rejected := true }, "REJECT(postCopy-without-push)")
  | "mounted" =>
    -- OnMounted: the registry made the blob present without a transfer; no PreCopy was seen
    let st := { st with pushed := st.pushed.filter (· != n) }
    if st.s.st n == .copying then go [.push n] st
    else if st.s.st n == .claimed then
      go [.ready n, .push n] { st with s := { st.s with st := fupd st.s.st n .waiting } }
    else go [.ready n, .push n] st
  | "late" =>   -- content stored, then an error
    go [.pushLate n] { st with pushed := st.pushed.filter (· != n) }
  | "fault" =>
    if st.pushed.contains n then
      -- content stored, then an error; on the mount path no PreCopy made the node "copying"
      let st1 := { st with pushed := st.pushed.filter (· != n) }
      if st.s.st n == .copying then go [.pushLate n] st1
      else if st.s.st n == .claimed then
        go [.ready n, .pushLate n] { st1 with s := { st1.s with st := fupd st1.s.st n .waiting } }
      else go [.ready n, .pushLate n] st1
    else if st.s.st n == .idle then go [.claim n, .fail n] st
    else go [.fail n] st
  | _ => (st, "bad-event")

def presentNodes (st : St) : List Nat := st.univ.filter (present st.cfg st.s)

def closedNow (st : St) : Bool :=
  st.univ.all fun n => !present st.cfg st.s n || (st.cfg.kids n).all (present st.cfg st.s)

def step (st : St) (toks : List String) : Option (St × String × String) :=
  match toks with
  | ["new"] => some ({}, "ok", "ok")
  | "node" :: n :: rest => do
      let n ← n.toNat?
      let ks ← parseNats (← kv rest "kids")
      let dk ← (← kv rest "dkey").toNat?
      some ({ st with kids := (n, ks) :: st.kids, dkeys := (n, dk) :: st.dkeys, univ := st.univ ++ [n] }, "ok", "ok")
  | "begin" :: rest => do
      let roots ← parseNats (← kv rest "roots")
      let pre ← kv rest "pre"
      let dst0 ← if pre == "keep" then some st.s.dst
                 else (parseNats pre).map (fun l => l.map (fun n => lookupD st.dkeys n n))
      some ({ st with roots := roots, s := CopySt.init dst0, dst0 := dst0, pushed := [], counts := [], rejected := false }, "ok", "ok")
  | ["ev", name, n] => do
      let n ← n.toNat?
      let (st1, cnt) := bump st (name ++ ":" ++ toString n)
      let (st', ans) := event st1 name n
      -- C04: at most one of each callback / transfer per node and run
      let once := ["preCopy", "postCopy", "skipped", "mounted", "pushStart", "existsT", "existsF"]
      let ans := if once.contains name && cnt > 1 then s!"REJECT(duplicate-{name})" else ans
      some (st', ans, "ok")
  | ["instant", _] => some (st, "1", "1")
  | "end" :: rest => do
      let res ← kv rest "res"
      let fired := (← kv rest "fired") == "1"
      let cancel := (← kv rest "cancel") == "1"
      -- whatever is still in flight was aborted
      let c := st.cfg
      let s' := st.univ.foldl (fun s n =>
        match step? c s (.fail n) with | some s1 => s1 | none => s) st.s
      let st' := { st with s := s', pushed := [] }
      -- a cancellation that fired makes `context.Cause` non-nil at the top-level `Go`
      let m := if cancel && fired then "err" else if retOk c s' st.univ then "ok" else "err"
      let sp := if fired then "err" else "ok"
      let _ := res
      some (st', m, sp)
  | ["present"] =>
      let ok := retOk st.cfg st.s st.univ
      -- specification (C01): on success, exactly the initial content plus everything
      -- reachable from the roots, as the destination's keying sees it
      let reach := reachList st.cfg (st.univ.length * st.univ.length + st.univ.length + 1) st.roots []
      let keys := st.dst0 ++ reach.map st.cfg.dkey
      let sp := if ok then showSet (st.univ.filter fun n => keys.contains (st.cfg.dkey n)) else "*"
      some (st, showSet (presentNodes st), sp)
  | ["reach"] =>
      let reach := reachList st.cfg (st.univ.length * st.univ.length + st.univ.length + 1) st.roots []
      some (st, showSet reach, showSet reach)
  | ["tagged", r] => do
      let root ← kv [r] "root"
      some (st, root, root)
  | "rootflow" :: rest => do
      -- what Copy does to the root: hooks, push, and the one tagging call with its reference
      let rp := (← kv rest "refpusher") == "1"
      let pr := (← kv rest "present") == "1"
      let ref ← kv rest "ref"
      let showEv : RootEv → String
        | .exists_ => "exists" | .userSkipped => "skipped" | .userPreCopy => "preCopy" | .push => "push"
        | .pushReference => s!"pushRef:{ref}" | .tag => s!"tag:{ref}" | .userPostCopy => "postCopy"
      let m := ",".intercalate ((rootFlow ⟨rp, pr⟩).map showEv)
      some (st, m, m)
  | "cancelled" :: _ =>
      -- a copy under cancellation either fails or did everything (which of the two depends
      -- on the schedule); the harness reports anything else
      some (st, "fails-or-complete", "fails-or-complete")
  | "remote" :: _ => some (st, "ok", "ok")      -- Copy with a registry client on one or both sides succeeds
  | "xend" :: rest => do       -- ExtendedCopyGraph with / without a fired fault: an error / success, never a hang
      let fired := (← kv rest "fired") == "1"
      let a := if fired then "err" else "ok"
      some (st, a, a)
  | ["xclosed"] => some (st, "1", "1")
  | "xpresent" :: rest => do   -- after the fault-free retry everything reachable is there
      let all ← kv rest "all"
      some (st, all, all)
  | "cberr" :: _ => some (st, "that-error", "that-error")   -- C04: a callback's error aborts the copy with that error
  | "slotcancel" :: _ => some (st, "ok", "ok")   -- runtime monitor (C02, C04): a waiter for the only slot is cancelled; error returned, closed, rerun completes, no crash
  | "gauge" :: _ => some (st, "ok", "ok")     -- runtime monitor (C04): in-flight ≤ Concurrency
  | ["once"] => some (st, "ok", "ok")         -- runtime monitor (C04): one fetch / one push per node
  | ["closed"] => some (st, if closedNow st then "1" else "0", "1")
  | _ => none

end Oras.Driver.Cp
