/-
  Driver domain `ch`: the WWW-Authenticate parser (C16, `Model/Challenge.lean`).
    ch parse h=<hex of the header>     -> <scheme> <key=hexvalue,…|->   (keys sorted)
-/
import OrasModel.Model.Challenge
import OrasModel.Driver.Util
namespace Oras.Driver.Ch
open Oras Oras.Driver Oras.Challenge

def hexDigit (c : Char) : Option Nat :=
  if '0' ≤ c ∧ c ≤ '9' then some (c.toNat - 48) else if 'a' ≤ c ∧ c ≤ 'f' then some (c.toNat - 87) else none

def unhexBytes : List Char → Option (List UInt8)
  | [] => some []
  | a :: b :: rest => do
      let x ← hexDigit a
      let y ← hexDigit b
      let r ← unhexBytes rest
      some (UInt8.ofNat (x * 16 + y) :: r)
  | _ => none

def hexOf (s : String) : String :=
  let hx := "0123456789abcdef".toList
  String.ofList (s.toUTF8.toList.flatMap fun b => [hx[b.toNat / 16]!, hx[b.toNat % 16]!])

def showScheme : Scheme → String
  | .basic => "Basic" | .bearer => "Bearer" | .unknown => "Unknown"

def step (toks : List String) : Option (String × String) :=
  match toks with
  | "parse" :: rest => do
      let hx ← kv rest "h"
      let bytes ← unhexBytes hx.toList
      let hdr ← String.fromUTF8? (ByteArray.mk bytes.toArray)
      let (sch, res) := parseChallenge hdr.toList
      match res with
      | .unsupported => some ("unsupported", "*")
      | .ok ps =>
        let keys := (ps.map (·.1)).eraseDups
        let sorted := (keys.map String.ofList).toArray.qsort (· < ·) |>.toList
        let items := sorted.map fun k => k ++ "=" ++ hexOf (String.ofList ((lookup ps k.toList).getD []))
        let a := showScheme sch ++ " " ++ (if items.isEmpty then "-" else ",".intercalate items)
        some (a, a)
  | _ => none

end Oras.Driver.Ch
