/-
  The abstract specification of a Target (C06): an immutable content map plus a
  reference ↦ descriptor map.  Short enough to read in a minute.
-/
import OrasModel.Model.Copy
namespace Oras

inductive AErr where | alreadyExists | notFound | missingRef
  deriving DecidableEq, Repr

structure Abs where
  content : Node → Bool
  tags : Nat → Option (Node × Nat)       -- reference name ↦ (node, annotation class)

namespace Abs

def empty : Abs := ⟨fun _ => false, fun _ => none⟩

def push (a : Abs) (n : Node) : Abs × Except AErr Unit :=
  if a.content n then (a, .error .alreadyExists)
  else ({ a with content := fun m => if m = n then true else a.content m }, .ok ())

def fetch (a : Abs) (n : Node) : Except AErr Node := if a.content n then .ok n else .error .notFound
def exists_ (a : Abs) (n : Node) : Bool := a.content n

def tag (a : Abs) (n : Node) (ann : Nat) (name : Option Nat) : Abs × Except AErr Unit :=
  match name with
  | none => (a, .error .missingRef)
  | some nm =>
    if a.content n then ({ a with tags := fun k => if k = nm then some (n, ann) else a.tags k }, .ok ())
    else (a, .error .notFound)

def resolve (a : Abs) (name : Option Nat) : Except AErr (Node × Nat) :=
  match name with
  | none => .error .missingRef
  | some nm => match a.tags nm with | some r => .ok r | none => .error .notFound

def untag (a : Abs) (name : Option Nat) : Abs × Except AErr Unit :=
  match name with
  | none => (a, .error .missingRef)
  | some nm => match a.tags nm with
    | some _ => ({ a with tags := fun k => if k = nm then none else a.tags k }, .ok ())
    | none => (a, .error .notFound)

end Abs
end Oras
