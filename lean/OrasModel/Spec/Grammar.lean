/-
  The documented grammars, written by hand from the specifications the library cites — not
  from its source: the distribution-spec repository name and tag rules, RFC 6838 restricted
  names for media types, and the registered digest algorithms of go-digest.  The
  specification side of the reference and pack drivers judges with these; the model side
  uses the expressions regenerated from `/repo` (`Gen/Regex.lean`).
-/
import OrasModel.Model.Re
namespace Oras.Spec.Grammar
open Oras

def lowerAlnum : Re := .cls [(48, 57), (97, 122)]
def lowerAlnums : Re := .cat lowerAlnum (.star lowerAlnum)
/-- `[._]`, `__`, or any number of dashes -/
def nameSep : Re := .alt (.cls [(46, 46), (95, 95)]) (.alt (.cat (.cls [(95, 95)]) (.cls [(95, 95)])) (.star (.cls [(45, 45)])))
/-- one path component of a repository name: `[a-z0-9]+((\.|_|__|-+)[a-z0-9]+)*` -/
def component : Re := .cat lowerAlnums (.star (.cat nameSep lowerAlnums))
/-- distribution-spec `<name>`: components separated by `/` -/
def repository : Re := .cat component (.star (.cat (.cls [(47, 47)]) component))

/-- distribution-spec `<reference>` as a tag: `[a-zA-Z0-9_][a-zA-Z0-9._-]{0,127}` -/
def tag : Re :=
  .cat (.cls [(48, 57), (65, 90), (95, 95), (97, 122)])
       (.rep (.cls [(45, 46), (48, 57), (65, 90), (95, 95), (97, 122)]) 0 127)

/-- RFC 6838 §4.2 restricted-name: first an alphanumeric, then up to 126 of
    alphanumerics and `! # $ & - ^ _ . +` -/
def restrictedName : Re :=
  .cat (.cls [(48, 57), (65, 90), (97, 122)])
       (.rep (.cls [(33, 33), (35, 36), (38, 38), (43, 43), (45, 46), (48, 57), (65, 90), (94, 95), (97, 122)]) 0 126)
def mediaType : Re := .cat restrictedName (.cat (.cls [(47, 47)]) restrictedName)

def hexLower : Re := .cls [(48, 57), (97, 102)]
/-- go-digest's registered algorithms and the length of their lower-case hex encodings -/
def digestAlgs : List (List Char × Re) :=
  [("sha256".toList, .rep hexLower 64 64), ("sha384".toList, .rep hexLower 96 96), ("sha512".toList, .rep hexLower 128 128)]

end Oras.Spec.Grammar
