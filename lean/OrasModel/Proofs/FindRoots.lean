/- Invariant of the `findRoots` loop and what it gives at loop exit (C03). -/
import OrasModel.Model.FindRoots
namespace Oras

structure FRInv (preds : Node → List Node) (depth : Nat) (n0 : Node) (s : FRSt) : Prop where
  start : n0 ∈ s.visited ∨ ∃ d, (n0, d) ∈ s.stack
  stack_anc : ∀ v d, (v, d) ∈ s.stack → AncN preds n0 d v ∧ (depth > 0 → d ≤ depth)
  visited_anc : ∀ v ∈ s.visited, Anc preds n0 v
  roots_ok : ∀ r ∈ s.roots, r ∈ s.visited ∧
    ∃ d, AncN preds n0 d r ∧ (depth > 0 → d ≤ depth) ∧ (preds r = [] ∨ (depth > 0 ∧ d = depth))
  expanded : ∀ v ∈ s.visited, v ∈ s.roots ∨
    (preds v ≠ [] ∧ ∀ p ∈ preds v, p ∈ s.visited ∨ ∃ d, (p, d) ∈ s.stack)

theorem frInv_init (preds : Node → List Node) (depth : Nat) (n0 : Node) :
    FRInv preds depth n0 (FRSt.init n0) := by
  refine ⟨Or.inr ⟨0, by simp [FRSt.init]⟩, ?_, by simp [FRSt.init], by simp [FRSt.init], by simp [FRSt.init]⟩
  intro v d h
  simp only [FRSt.init, List.mem_singleton, Prod.mk.injEq] at h
  obtain ⟨h1, h2⟩ := h
  subst h1 h2
  exact ⟨AncN.refl, fun _ => Nat.zero_le _⟩

theorem mem_addRoot (n r : Node) (roots : List Node) : r ∈ addRoot n roots ↔ r = n ∨ r ∈ roots := by
  unfold addRoot
  by_cases h : n ∈ roots
  · simp only [h, if_true]
    constructor
    · exact fun hr => Or.inr hr
    · rintro (e | hr)
      · subst e; exact h
      · exact hr
  · simp only [h, if_false, List.mem_cons]

theorem frInv_step (preds : Node → List Node) (depth : Nat) (n0 : Node) (s s' : FRSt)
    (h : FRInv preds depth n0 s) (hs : frStep preds depth s = some s') : FRInv preds depth n0 s' := by
  unfold frStep at hs
  cases hst : s.stack with
  | nil => simp [hst] at hs
  | cons top rest =>
    obtain ⟨n, d⟩ := top
    simp only [hst] at hs
    have htop : (n, d) ∈ s.stack := by rw [hst]; exact List.mem_cons_self
    have hrest : ∀ x, x ∈ rest → x ∈ s.stack := by
      intro x hx; rw [hst]; exact List.mem_cons_of_mem _ hx
    have hsplit : ∀ v e, (v, e) ∈ s.stack → (v = n ∧ e = d) ∨ (v, e) ∈ rest := by
      intro v e hm
      rw [hst] at hm
      cases hm with
      | head => exact Or.inl ⟨rfl, rfl⟩
      | tail _ hm' => exact Or.inr hm'
    obtain ⟨hanc, hdep⟩ := h.stack_anc n d htop
    by_cases hv : n ∈ s.visited
    · -- already visited: just pop
      simp only [hv, if_true, Option.some.injEq] at hs
      subst hs
      refine ⟨?_, ?_, h.visited_anc, h.roots_ok, ?_⟩
      · rcases h.start with h1 | ⟨e, h1⟩
        · exact Or.inl h1
        · rcases hsplit _ _ h1 with ⟨e1, _⟩ | h2
          · exact Or.inl (by rw [e1]; exact hv)
          · exact Or.inr ⟨e, h2⟩
      · intro v e hm; exact h.stack_anc v e (hrest _ hm)
      · intro v hvv
        rcases h.expanded v hvv with h1 | ⟨hne, h1⟩
        · exact Or.inl h1
        · refine Or.inr ⟨hne, ?_⟩
          intro p hp
          rcases h1 p hp with h2 | ⟨e, h2⟩
          · exact Or.inl h2
          · rcases hsplit _ _ h2 with ⟨e1, _⟩ | h3
            · exact Or.inl (by rw [e1]; exact hv)
            · exact Or.inr ⟨e, h3⟩
    · simp only [hv, if_false] at hs
      -- common facts for the two "becomes a root" branches
      have rootCase : ∀ (why : preds n = [] ∨ (depth > 0 ∧ d = depth)),
          FRInv preds depth n0 { stack := rest, visited := n :: s.visited, roots := addRoot n s.roots } := by
        intro why
        refine ⟨?_, ?_, ?_, ?_, ?_⟩
        · rcases h.start with h1 | ⟨e, h1⟩
          · exact Or.inl (List.mem_cons_of_mem _ h1)
          · rcases hsplit _ _ h1 with ⟨e1, _⟩ | h2
            · exact Or.inl (by rw [e1]; exact List.mem_cons_self)
            · exact Or.inr ⟨e, h2⟩
        · intro v e hm; exact h.stack_anc v e (hrest _ hm)
        · intro v hvv
          cases hvv with
          | head => exact ⟨d, hanc⟩
          | tail _ hvv' => exact h.visited_anc v hvv'
        · intro r hr
          rcases (mem_addRoot n r s.roots).mp hr with e | hr'
          · subst e
            exact ⟨List.mem_cons_self, d, hanc, hdep, why⟩
          · obtain ⟨h1, h2⟩ := h.roots_ok r hr'
            exact ⟨List.mem_cons_of_mem _ h1, h2⟩
        · intro v hvv
          cases hvv with
          | head => exact Or.inl ((mem_addRoot _ _ _).mpr (Or.inl rfl))
          | tail _ hvv' =>
            rcases h.expanded v hvv' with h1 | ⟨hne, h1⟩
            · exact Or.inl ((mem_addRoot _ _ _).mpr (Or.inr h1))
            · refine Or.inr ⟨hne, ?_⟩
              intro p hp
              rcases h1 p hp with h2 | ⟨e, h2⟩
              · exact Or.inl (List.mem_cons_of_mem _ h2)
              · rcases hsplit _ _ h2 with ⟨e1, _⟩ | h3
                · exact Or.inl (by rw [e1]; exact List.mem_cons_self)
                · exact Or.inr ⟨e, h3⟩
      by_cases hd : depth > 0 ∧ d = depth
      · simp only [hd, and_self, if_true, Option.some.injEq] at hs
        subst hs
        exact rootCase (Or.inr hd)
      · simp only [hd, if_false] at hs
        by_cases hp0 : preds n = []
        · simp only [hp0, if_true, Option.some.injEq] at hs
          subst hs
          exact rootCase (Or.inl hp0)
        · simp only [hp0, if_false, Option.some.injEq] at hs
          subst hs
          have hd' : depth > 0 → d + 1 ≤ depth := by
            intro hpos
            have := hdep hpos
            have : d ≠ depth := fun e => hd ⟨hpos, e⟩
            omega
          have hnew : ∀ p e, (p, e) ∈ (((preds n).filter (fun p => decide (p ∉ n :: s.visited))).map
              (fun p => (p, d + 1))).reverse → p ∈ preds n ∧ e = d + 1 := by
            intro p e hm
            simp only [List.mem_reverse, List.mem_map, List.mem_filter, Prod.mk.injEq] at hm
            obtain ⟨q, ⟨hq, _⟩, e1, e2⟩ := hm
            subst e1
            exact ⟨hq, e2.symm⟩
          refine ⟨?_, ?_, ?_, ?_, ?_⟩
          · rcases h.start with h1 | ⟨e, h1⟩
            · exact Or.inl (List.mem_cons_of_mem _ h1)
            · rcases hsplit _ _ h1 with ⟨e1, _⟩ | h2
              · exact Or.inl (by rw [e1]; exact List.mem_cons_self)
              · exact Or.inr ⟨e, List.mem_append_right _ h2⟩
          · intro v e hm
            rcases List.mem_append.mp hm with h1 | h1
            · obtain ⟨hpv, he⟩ := hnew v e h1
              subst he
              exact ⟨AncN.step hanc hpv, hd'⟩
            · exact h.stack_anc v e (hrest _ h1)
          · intro v hvv
            cases hvv with
            | head => exact ⟨d, hanc⟩
            | tail _ hvv' => exact h.visited_anc v hvv'
          · intro r hr
            obtain ⟨h1, h2⟩ := h.roots_ok r hr
            exact ⟨List.mem_cons_of_mem _ h1, h2⟩
          · intro v hvv
            cases hvv with
            | head =>
              refine Or.inr ⟨hp0, ?_⟩
              intro p hp
              by_cases hin : p ∈ n :: s.visited
              · exact Or.inl hin
              · refine Or.inr ⟨d + 1, List.mem_append_left _ ?_⟩
                simp only [List.mem_reverse, List.mem_map, List.mem_filter, Prod.mk.injEq]
                exact ⟨p, ⟨hp, by simpa using hin⟩, by simp⟩
            | tail _ hvv' =>
              rcases h.expanded v hvv' with h1 | ⟨hne, h1⟩
              · exact Or.inl h1
              · refine Or.inr ⟨hne, ?_⟩
                intro p hp
                rcases h1 p hp with h2 | ⟨e, h2⟩
                · exact Or.inl (List.mem_cons_of_mem _ h2)
                · rcases hsplit _ _ h2 with ⟨e1, _⟩ | h3
                  · exact Or.inl (by rw [e1]; exact List.mem_cons_self)
                  · exact Or.inr ⟨e, List.mem_append_right _ h3⟩

theorem frRun_inv (preds : Node → List Node) (depth : Nat) (n0 : Node) (fuel : Nat) (s s' : FRSt)
    (h : FRInv preds depth n0 s) (hr : frRun preds depth fuel s = some s') :
    FRInv preds depth n0 s' ∧ s'.stack = [] := by
  induction fuel generalizing s with
  | zero => simp [frRun] at hr
  | succ fuel ih =>
    simp only [frRun] at hr
    cases hs : frStep preds depth s with
    | none =>
      simp only [hs, Option.some.injEq] at hr
      subst hr
      refine ⟨h, ?_⟩
      unfold frStep at hs
      cases hst : s.stack with
      | nil => rfl
      | cons top rest =>
        obtain ⟨n, d⟩ := top
        simp only [hst] at hs
        split at hs
        · cases hs
        · split at hs
          · cases hs
          · split at hs <;> cases hs
    | some s1 =>
      simp only [hs] at hr
      exact ih s1 (frInv_step preds depth n0 s s1 h hs) hr

end Oras
