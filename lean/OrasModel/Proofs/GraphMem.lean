/-
  Helper lemmas for C07: the invariant of `graph.Memory` and its preservation.
-/
import OrasModel.Model.GraphMem
namespace Oras
namespace GMem

/-- The invariant the three maps keep, relative to the content-determined successor
    function `succ` (memory.go's field comments, minus "nodes iff in storage", which
    `IndexAll` does not maintain and `Predecessors` does not need). -/
structure Inv (succ : Key → List Key) (g : GMem) : Prop where
  succs_stored : ∀ p, g.nodes p = true → ∀ k, k ∈ g.succs p ↔ k ∈ succ p
  succs_absent : ∀ p, g.nodes p = false → g.succs p = []
  succs_nodup : ∀ p, (g.succs p).Nodup
  preds_exact : ∀ k p, p ∈ g.preds k ↔ (g.nodes p = true ∧ k ∈ succ p)
  preds_nodup : ∀ k, (g.preds k).Nodup

theorem inv_empty (succ : Key → List Key) : Inv succ GMem.empty := by
  constructor <;> intros <;> simp_all [GMem.empty]

theorem inv_index (succ : Key → List Key) (g : GMem) (n : Key) (h : Inv succ g) :
    Inv succ (g.index n (succ n)) := by
  constructor
  · intro p hp k
    by_cases e : p = n
    · subst e; simp [index]
    · simp only [index, fupd_other _ _ _ _ e] at hp ⊢
      exact h.succs_stored p hp k
  · intro p hp
    by_cases e : p = n
    · subst e; simp [index] at hp
    · simp only [index, fupd_other _ _ _ _ e] at hp ⊢
      exact h.succs_absent p hp
  · intro p
    by_cases e : p = n
    · subst e; simp only [index, fupd_same]; exact nodup_dedup _
    · simp only [index, fupd_other _ _ _ _ e]; exact h.succs_nodup p
  · intro k p
    simp only [index]
    by_cases hk : k ∈ succ n
    · simp only [hk, if_true, mem_sinsert]
      by_cases e : p = n
      · subst e; simp [hk]
      · simp only [e, false_or, fupd_other _ _ _ _ e]
        exact h.preds_exact k p
    · simp only [hk, if_false]
      by_cases e : p = n
      · subst e
        rw [h.preds_exact]
        simp [hk]
      · simp only [fupd_other _ _ _ _ e]
        exact h.preds_exact k p
  · intro k
    simp only [index]
    by_cases hk : k ∈ succ n
    · simp only [hk, if_true]; exact nodup_sinsert _ _ (h.preds_nodup k)
    · simp only [hk, if_false]; exact h.preds_nodup k

theorem inv_remove (succ : Key → List Key) (g : GMem) (n : Key) (h : Inv succ g) :
    Inv succ (g.remove n).1 := by
  constructor
  · intro p hp k
    by_cases e : p = n
    · subst e; simp [remove] at hp
    · simp only [remove, fupd_other _ _ _ _ e] at hp ⊢
      exact h.succs_stored p hp k
  · intro p hp
    by_cases e : p = n
    · subst e; simp [remove]
    · simp only [remove, fupd_other _ _ _ _ e] at hp ⊢
      exact h.succs_absent p hp
  · intro p
    by_cases e : p = n
    · subst e; simp [remove]
    · simp only [remove, fupd_other _ _ _ _ e]; exact h.succs_nodup p
  · intro k p
    simp only [remove]
    by_cases hk : k ∈ g.succs n
    · simp only [hk, if_true]
      rw [List.Nodup.mem_erase_iff (h.preds_nodup k)]
      by_cases e : p = n
      · subst e; simp
      · simp only [ne_eq, e, not_false_eq_true, true_and, fupd_other _ _ _ _ e]
        exact h.preds_exact k p
    · simp only [hk, if_false]
      by_cases e : p = n
      · subst e
        simp only [fupd_same, Bool.false_eq_true, false_and, iff_false]
        intro hin
        have := (h.preds_exact k p).mp hin
        exact hk ((h.succs_stored p this.1 k).mpr this.2)
      · simp only [fupd_other _ _ _ _ e]
        exact h.preds_exact k p
  · intro k
    simp only [remove]
    by_cases hk : k ∈ g.succs n
    · simp only [hk, if_true]; exact (h.preds_nodup k).erase n
    · simp only [hk, if_false]; exact h.preds_nodup k

theorem inv_apply (succ : Key → List Key) (g : GMem) (op : GOp) (h : Inv succ g) :
    Inv succ (g.apply succ op) := by
  cases op with
  | index n => exact inv_index succ g n h
  | remove n => exact inv_remove succ g n h

theorem inv_foldl (succ : Key → List Key) (ops : List GOp) (g : GMem) (h : Inv succ g) :
    Inv succ (ops.foldl (GMem.apply succ) g) := by
  induction ops generalizing g with
  | nil => exact h
  | cons op ops ih => exact ih _ (inv_apply succ g op h)

theorem inv_run (succ : Key → List Key) (ops : List GOp) : Inv succ (GMem.run succ ops) :=
  inv_foldl succ ops _ (inv_empty succ)

/-- `nodes` after a history is the specification's "last operation decides". -/
theorem nodes_foldl (succ : Key → List Key) (ops : List GOp) (g : GMem) (p : Key) :
    (ops.foldl (GMem.apply succ) g).nodes p =
      ops.foldl (fun b op => match op with
        | .index n => if p = n then true else b
        | .remove n => if p = n then false else b) (g.nodes p) := by
  induction ops generalizing g with
  | nil => rfl
  | cons op ops ih =>
    simp only [List.foldl_cons]
    rw [ih]
    congr 1
    cases op with
    | index n => simp [GMem.apply, index, fupd]
    | remove n => simp [GMem.apply, remove, fupd]

theorem nodes_run (succ : Key → List Key) (ops : List GOp) (p : Key) :
    (GMem.run succ ops).nodes p = storedSpec ops p := by
  unfold GMem.run storedSpec
  rw [nodes_foldl]; rfl

end GMem
end Oras
