/-
  Lemmas for `Model/LinkFS.lean`: a path none of whose prefixes is a link resolves to its own
  lexical location; the extraction steps keep that condition for the entry's path.
-/
import OrasModel.Model.LinkFS
namespace Oras.LinkFS

theorem walk_lexical (fs : FS) : ∀ (rest : Path) (fuel : Nat) (cur : Path),
    (∀ k, k < rest.length → isLink (fs (cur ++ rest.take (k + 1))) = false) →
    walk fs fuel cur rest = .error ∨ walk fs fuel cur rest = .at (cur ++ rest) := by
  intro rest
  induction rest with
  | nil =>
    intro fuel cur _
    cases fuel with
    | zero => left; rfl
    | succ f => right; simp [walk]
  | cons s rest ih =>
    intro fuel cur h
    cases fuel with
    | zero => left; rfl
    | succ f =>
      have h0 := h 0 (by simp)
      simp only [List.take_succ_cons, List.take_zero] at h0
      have hrest : ∀ k, k < rest.length → isLink (fs ((cur ++ [s]) ++ rest.take (k + 1))) = false := by
        intro k hk
        have := h (k + 1) (by simp; omega)
        simpa [List.take_succ_cons, List.append_assoc] using this
      unfold walk
      cases hk : fs (cur ++ [s]) with
      | none =>
        simp only
        by_cases hr : rest = []
        · subst hr; right; simp
        · left; simp [hr]
      | some kd =>
        cases kd with
        | dir =>
          simp only
          have := ih f (cur ++ [s]) hrest
          simpa [List.append_assoc] using this
        | file =>
          simp only
          by_cases hr : rest = []
          · subst hr; right; simp
          · left; simp [hr]
        | sym t =>
          rw [hk] at h0
          simp [isLink] at h0

theorem resolve_lexical (fs : FS) (p : Path) (h : NoLinkOn fs p) :
    resolve fs p = .error ∨ resolve fs p = .at p := by
  have := walk_lexical fs p (fuelFor p) [] (by intro k hk; simpa using h k hk)
  simpa [resolve] using this

theorem noLinkOn_take (fs : FS) (p : Path) (j : Nat) (h : NoLinkOn fs p) : NoLinkOn fs (p.take j) := by
  intro k hk
  have hlen : (p.take j).length = min j p.length := List.length_take
  have hk' : k < p.length := by omega
  have : (p.take j).take (k + 1) = p.take (k + 1) := by
    rw [List.take_take]
    congr 1
    omega
  rw [this]
  exact h k hk'

theorem noLinkOn_set (fs : FS) (p q : Path) (kd : Option Kind) (hk : isLink kd = false) (h : NoLinkOn fs p) :
    NoLinkOn (fs.set q kd) p := by
  intro k hkl
  unfold FS.set
  by_cases hq : p.take (k + 1) = q
  · simp [hq, hk]
  · simp [hq]; exact h k hkl

theorem ancestorsOk_spec (fs : FS) (p : Path) (h : ancestorsOk fs p = true) (k : Nat) (hk : k < p.length - 1) :
    isLink (fs (p.take (k + 1))) = false := by
  unfold ancestorsOk at h
  rw [List.all_eq_true] at h
  have := h k (List.mem_range.mpr hk)
  simpa using this

theorem take_ne_self (p : Path) (k : Nat) (hk : k + 1 < p.length) : p.take (k + 1) ≠ p := by
  intro h
  have : (p.take (k + 1)).length = p.length := by rw [h]
  rw [List.length_take] at this
  omega

/-- After the name check and the removal of a link at the entry's own path, no prefix of the
    path is a link. -/
theorem noLinkOn_dropLink (fs : FS) (p : Path) (h : ancestorsOk fs p = true) : NoLinkOn (dropLink fs p) p := by
  intro k hk
  by_cases hlast : k + 1 = p.length
  · have : p.take (k + 1) = p := by rw [hlast]; exact List.take_length
    rw [this]
    unfold dropLink
    by_cases hl : isLink (fs p) = true
    · rw [if_pos hl]; simp only [FS.set, ↓reduceIte]; rfl
    · rw [if_neg hl]; simpa using hl
  · have hk' : k < p.length - 1 := by omega
    have hne := take_ne_self p k (by omega)
    have ha := ancestorsOk_spec fs p h k hk'
    unfold dropLink
    by_cases hl : isLink (fs p) = true
    · rw [if_pos hl]; simp only [FS.set, if_neg hne]; exact ha
    · rw [if_neg hl]; exact ha

theorem noLinkOn_dropLast (fs : FS) (p : Path) (h : ancestorsOk fs p = true) : NoLinkOn fs p.dropLast := by
  intro k hk
  rw [List.dropLast_eq_take] at hk ⊢
  rw [List.length_take] at hk
  have : (p.take (p.length - 1)).take (k + 1) = p.take (k + 1) := by
    rw [List.take_take]
    congr 1
    omega
  rw [this]
  exact ancestorsOk_spec fs p h k (by omega)

def Safe (l : Loc) : Prop := l ≠ .outside
def AllSafe (ls : List Loc) : Prop := ∀ l ∈ ls, Safe l

theorem safe_of_lexical {x : Loc} {p : Path} (h : x = .error ∨ x = .at p) : Safe x := by
  intro hx
  cases h with
  | inl h => rw [h] at hx; cases hx
  | inr h => rw [h] at hx; cases hx

/-- `os.MkdirAll` along a path that has no link on it creates lexically, and leaves no link
    on the path. -/
theorem mkdirStep_inv (fs : FS) (tl : List Loc) (p : Path) (j : Nat)
    (hn : NoLinkOn fs p) (hs : AllSafe tl) (fs' : FS) (tl' : List Loc)
    (h : mkdirStep (some (fs, tl)) (p.take j) = some (fs', tl')) :
    NoLinkOn fs' p ∧ AllSafe tl' := by
  unfold mkdirStep at h
  simp only [Option.bind_some] at h
  have hl := resolve_lexical fs (p.take j) (noLinkOn_take fs p j hn)
  cases hl with
  | inl he => rw [he] at h; cases h
  | inr ha =>
    rw [ha] at h
    simp only at h
    cases hq : fs (p.take j) with
    | none =>
      rw [hq] at h
      simp only [Option.some.injEq, Prod.mk.injEq] at h
      obtain ⟨h1, h2⟩ := h
      subst h1 h2
      refine ⟨noLinkOn_set fs p _ _ (by rfl) hn, ?_⟩
      intro l hlm
      cases hlm with
      | head => intro hx; cases hx
      | tail _ hm => exact hs l hm
    | some kd =>
      rw [hq] at h
      cases kd with
      | dir =>
        simp only [Option.some.injEq, Prod.mk.injEq] at h
        obtain ⟨h1, h2⟩ := h
        subst h1 h2
        exact ⟨hn, hs⟩
      | file => cases h
      | sym t => cases h

theorem mkdirFold_inv (p : Path) : ∀ (js : List Nat) (fs : FS) (tl : List Loc),
    NoLinkOn fs p → AllSafe tl → ∀ fs' tl',
    (js.map (fun j => p.take j)).foldl mkdirStep (some (fs, tl)) = some (fs', tl') →
    NoLinkOn fs' p ∧ AllSafe tl' := by
  intro js
  induction js with
  | nil =>
    intro fs tl hn hs fs' tl' h
    simp only [List.map_nil, List.foldl_nil, Option.some.injEq, Prod.mk.injEq] at h
    obtain ⟨h1, h2⟩ := h
    subst h1 h2
    exact ⟨hn, hs⟩
  | cons j js ih =>
    intro fs tl hn hs fs' tl' h
    simp only [List.map_cons, List.foldl_cons] at h
    cases hstep : mkdirStep (some (fs, tl)) (p.take j) with
    | none =>
      rw [hstep] at h
      -- a failed step stays failed
      have hnone : ∀ (l : List Path), l.foldl mkdirStep none = none := by
        intro l
        induction l with
        | nil => rfl
        | cons x xs ihx => simpa [List.foldl_cons, mkdirStep] using ihx
      rw [hnone] at h
      cases h
    | some r =>
      obtain ⟨fs1, tl1⟩ := r
      rw [hstep] at h
      have := mkdirStep_inv fs tl p j hn hs fs1 tl1 hstep
      exact ih fs1 tl1 this.1 this.2 fs' tl' h

theorem mkdirAll_inv (fs : FS) (p : Path) (hn : NoLinkOn fs p) (fs' : FS) (created : List Loc)
    (h : mkdirAll fs p = some (fs', created)) : NoLinkOn fs' p ∧ AllSafe created := by
  unfold mkdirAll prefixes at h
  have hmap : (List.range p.length).map (fun k => p.take (k + 1)) =
      ((List.range p.length).map (· + 1)).map (fun j => p.take j) := by
    rw [List.map_map]; rfl
  rw [hmap] at h
  exact mkdirFold_inv p _ fs [] hn (by intro l hl; cases hl) fs' created h

theorem allSafe_append {a b : List Loc} (ha : AllSafe a) (hb : AllSafe b) : AllSafe (a ++ b) := by
  intro l hl
  rcases List.mem_append.mp hl with h | h
  · exact ha l h
  · exact hb l h

theorem allSafe_cons {x : Loc} {b : List Loc} (hx : Safe x) (hb : AllSafe b) : AllSafe (x :: b) := by
  intro l hl
  cases hl with
  | head => exact hx
  | tail _ h => exact hb l h

theorem safe_of_mem_rm {c : Prop} [Decidable c] {p : Path} {l : Loc}
    (h : l ∈ (if c then [Loc.at p] else [])) : Safe l := by
  split at h
  · cases h with
    | head => intro hx; cases hx
    | tail _ h => cases h
  · cases h

/-- One entry of the repaired code touches nothing outside. -/
theorem step_safe (preserve : Bool) (st st' : St) (e : Ent) (hs : AllSafe st.touched)
    (h : step true preserve st e = some st') : AllSafe st'.touched := by
  cases e with
  | reg p =>
    simp only [step] at h
    split at h
    · cases h
    · split at h
      · cases h
      · rename_i hp ha
        have ha' : ancestorsOk st.fs p = true := by simpa using ha
        have hn := noLinkOn_dropLink st.fs p ha'
        have hl := resolve_lexical _ p hn
        simp only [if_true] at h
        cases hl with
        | inl he => rw [he] at h; cases h
        | inr hat =>
          rw [hat] at h
          simp only at h
          split at h
          · cases h
          · cases h
            exact allSafe_cons (by intro hx; cases hx) (allSafe_append (fun l hl => safe_of_mem_rm hl) hs)
  | dir p =>
    simp only [step] at h
    split at h
    · cases h
    · rename_i ha
      have ha' : ancestorsOk st.fs p = true := by simpa using ha
      have hn := noLinkOn_dropLink st.fs p ha'
      simp only [if_true] at h
      cases hm : mkdirAll (dropLink st.fs p) p with
      | none => rw [hm] at h; cases h
      | some r =>
        obtain ⟨fs2, created⟩ := r
        rw [hm] at h
        simp only [Option.some.injEq] at h
        have hinv := mkdirAll_inv _ p hn fs2 created hm
        subst h
        simp only
        have hch : AllSafe (if preserve = true then [resolve fs2 p] else []) := by
          intro l hl
          split at hl
          · cases hl with
            | head => exact safe_of_lexical (resolve_lexical fs2 p hinv.1)
            | tail _ h' => cases h'
          · cases hl
        intro l hl
        simp only [List.mem_append] at hl
        rcases hl with ((hl | hl) | hl) | hl
        · exact hch l hl
        · exact hinv.2 l hl
        · exact safe_of_mem_rm hl
        · exact hs l hl
  | sym p t =>
    simp only [step] at h
    split at h
    · cases h
    · split at h
      · cases h
      · rename_i hp ha
        have ha' : ancestorsOk st.fs p = true := by simpa using ha
        have hn := noLinkOn_dropLast st.fs p ha'
        have hl := resolve_lexical _ _ hn
        cases hl with
        | inl he => rw [he] at h; cases h
        | inr hat =>
          rw [hat] at h
          simp only at h
          split at h
          · cases h
            exact allSafe_cons (by intro hx; cases hx) hs
          · cases h

theorem run_safe (preserve : Bool) : ∀ (es : List Ent) (st : St), AllSafe st.touched →
    AllSafe (run true preserve st es).touched := by
  intro es
  induction es with
  | nil => intro st hs; exact hs
  | cons e es ih =>
    intro st hs
    unfold run
    cases hstep : step true preserve st e with
    | none => exact hs
    | some st' => exact ih st' (step_safe preserve st st' e hs hstep)

end Oras.LinkFS
