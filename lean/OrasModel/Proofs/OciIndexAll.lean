/- `loadIndex` / `reopen` of the OCI model: the graph is the fold of `IndexAll` over the entries. -/
import OrasModel.Model.Oci
import OrasModel.Proofs.IndexAll
namespace Oras
namespace OciSt

/-- The graph `loadIndex` builds, as a fold over the entries. -/
def loadGraph (c : OciCfg) (blobs : List Node) (fuel : Nat) (es : List (Node × Option Nat × Nat)) (g : GMem) : GMem :=
  es.foldl (fun g e => GMem.indexAll (succOf c blobs) fuel g e.1) g

theorem graph_resolverTag (st : OciSt) (n : Node) (a : Nat) (k : RefKey) :
    (st.resolverTag n a k).graph = st.graph := rfl

theorem loadIndex_graph (c : OciCfg) (st : OciSt) (fuel : Nat) :
    (st.loadIndex c fuel).graph = loadGraph c st.blobs fuel st.indexFile st.graph := by
  unfold loadIndex loadGraph
  generalize st.indexFile = es
  generalize hb : st.blobs = blobs
  clear hb
  induction es generalizing st with
  | nil => rfl
  | cons e es ih =>
    simp only [List.foldl_cons]
    rw [ih]
    obtain ⟨n, name, ann⟩ := e
    cases name <;> rfl

/-- Every readable manifest reachable from an entry is indexed with all its links. -/
theorem loadGraph_complete (c : OciCfg) (blobs : List Node) (rk : Node → Nat)
    (hrk : GMem.RankOK (succOf c blobs) rk) (fuel : Nat) :
    ∀ (es : List (Node × Option Nat × Nat)) (g : GMem), (∀ e ∈ es, rk e.1 < fuel) →
      ∀ e ∈ es, ∀ m ss, GMem.ReachOf (succOf c blobs) e.1 m → succOf c blobs m = some ss →
        (loadGraph c blobs fuel es g).nodes m = true ∧ ∀ k ∈ ss, m ∈ (loadGraph c blobs fuel es g).preds k := by
  intro es
  induction es with
  | nil => intro g _ e he; cases he
  | cons e0 es ih =>
    intro g hf e he m ss hreach hs
    unfold loadGraph
    simp only [List.foldl_cons]
    rcases List.mem_cons.mp he with h | h
    · -- indexed while processing e0, kept by the rest
      subst h
      have h1 := GMem.indexAll_complete (succOf c blobs) rk hrk g e.1 fuel (hf e List.mem_cons_self) m ss hreach hs
      -- the remaining entries keep nodes and edges
      have keep : ∀ (es' : List (Node × Option Nat × Nat)) (g' : GMem),
          (∀ x, g'.nodes x = true → (loadGraph c blobs fuel es' g').nodes x = true) ∧
          (∀ k p, p ∈ g'.preds k → p ∈ (loadGraph c blobs fuel es' g').preds k) := by
        intro es'
        induction es' with
        | nil => intro g'; exact ⟨fun _ h => h, fun _ _ h => h⟩
        | cons e' es' ih' =>
          intro g'
          unfold loadGraph
          simp only [List.foldl_cons]
          have k1 := GMem.indexAll_keeps (succOf c blobs) g' e'.1 fuel
          have k2 := ih' (GMem.indexAll (succOf c blobs) fuel g' e'.1)
          exact ⟨fun x h => k2.1 x (k1.1 x h), fun k p h => k2.2 k p (k1.2 k p h)⟩
      have k := keep es (GMem.indexAll (succOf c blobs) fuel g e.1)
      exact ⟨k.1 m h1.1, fun x hx => k.2 x m (h1.2 x hx)⟩
    · exact ih (GMem.indexAll (succOf c blobs) fuel g e0.1) (fun x hx => hf x (List.mem_cons_of_mem _ hx)) e h m ss hreach hs

/-- Edges of the loaded graph are real: a recorded predecessor is a stored manifest that
    links to the node. -/
def EdgesSound (c : OciCfg) (blobs : List Node) (g : GMem) : Prop :=
  ∀ k p, p ∈ g.preds k → c.isMan p = true ∧ p ∈ blobs ∧ k ∈ c.succ p

theorem edgesSound_index (c : OciCfg) (blobs : List Node) (g : GMem) (n : Key) (ss : List Key)
    (hs : succOf c blobs n = some ss) (h : EdgesSound c blobs g) : EdgesSound c blobs (g.index n ss) := by
  intro k p hp
  unfold GMem.index at hp
  simp only at hp
  by_cases hk : k ∈ ss
  · simp only [hk, if_true, mem_sinsert] at hp
    rcases hp with e | e
    · subst e
      unfold succOf at hs
      by_cases hm : c.isMan p = true
      · simp only [hm, if_true] at hs
        by_cases hb : p ∈ blobs
        · simp only [hb, if_true, Option.some.injEq] at hs
          exact ⟨hm, hb, hs ▸ hk⟩
        · simp [hb] at hs
      · simp only [hm, Bool.false_eq_true, if_false, Option.some.injEq] at hs
        rw [← hs] at hk; cases hk
    · exact h k p e
  · simp only [hk, if_false] at hp
    exact h k p hp

theorem loadGraph_sound (c : OciCfg) (blobs : List Node) (fuel : Nat) :
    ∀ (es : List (Node × Option Nat × Nat)) (g : GMem), EdgesSound c blobs g → EdgesSound c blobs (loadGraph c blobs fuel es g) := by
  intro es
  induction es with
  | nil => intro g h; exact h
  | cons e es ih =>
    intro g h
    unfold loadGraph
    simp only [List.foldl_cons]
    exact ih _ (GMem.indexAll_preserves (succOf c blobs) g e.1 fuel (EdgesSound c blobs)
      (fun g n ss hs hg => edgesSound_index c blobs g n ss hs hg) h)

end OciSt
end Oras
