/-
  Progress of `copyGraph` under its limiter (`Model/CopyP.lean`): permit conservation, the
  termination measure, and the enabled-step lemma behind deadlock freedom.
-/
import OrasModel.Model.CopyP
namespace Oras

/-- Sum of a weight over a duplicate-free universe after a point update. -/
theorem sum_fupd (w : NSt → Nat) (f : Node → NSt) (n : Node) (v : NSt) :
    ∀ univ : List Node, univ.Nodup → n ∈ univ →
      (univ.map fun x => w (fupd f n v x)).sum + w (f n) = (univ.map fun x => w (f x)).sum + w v := by
  intro univ
  induction univ with
  | nil => intro _ h; cases h
  | cons a t ih =>
    intro hnd hmem
    have hnd' := List.nodup_cons.mp hnd
    simp only [List.map_cons, List.sum_cons]
    by_cases e : n = a
    · subst e
      have hrest : (t.map fun x => w (fupd f n v x)) = (t.map fun x => w (f x)) := by
        apply List.map_congr_left
        intro x hx
        have : x ≠ n := fun e' => hnd'.1 (e' ▸ hx)
        rw [fupd_other f n x v this]
      rw [hrest, fupd_same]
      omega
    · have hin : n ∈ t := by
        rcases List.mem_cons.mp hmem with h | h
        · exact absurd h e
        · exact h
      have := ih hnd'.2 hin
      have ha : fupd f n v a = f a := fupd_other f n a v (fun e' => e e'.symm)
      rw [ha]
      omega

/-- The label's node after a step, and everything else unchanged. -/
theorem pstep_st (c : CopyCfg) (s s' : PSt) (l : PLabel) (h : pstep? c s l = some s') :
    ∃ v, s'.st = fupd s.st l.node v := by
  cases l with
  | claim n =>
    simp only [pstep?] at h; split at h
    · injection h with h; exact ⟨.claimed, by rw [← h]; rfl⟩
    · cases h
  | existsT n =>
    simp only [pstep?] at h; split at h
    · injection h with h; exact ⟨.done, by rw [← h]; rfl⟩
    · cases h
  | existsF n =>
    simp only [pstep?] at h; split at h
    · split at h
      · injection h with h; exact ⟨.copying, by rw [← h]; rfl⟩
      · injection h with h; exact ⟨.waiting, by rw [← h]; rfl⟩
    · cases h
  | ready n =>
    simp only [pstep?] at h; split at h
    · injection h with h; exact ⟨.copying, by rw [← h]; rfl⟩
    · cases h
  | push n =>
    simp only [pstep?] at h; split at h
    · injection h with h; exact ⟨.done, by rw [← h]; rfl⟩
    · cases h
  | fail n =>
    simp only [pstep?] at h; split at h
    · injection h with h; exact ⟨.failed, by rw [← h]; rfl⟩
    · split at h
      · injection h with h; exact ⟨.failed, by rw [← h]; rfl⟩
      · cases h

/-- One step, as arithmetic: the node's progress grows, and permits move with `holds`. -/
theorem pstep_effect (c : CopyCfg) (s s' : PSt) (l : PLabel) (h : pstep? c s l = some s') :
    s'.st = fupd s.st l.node (s'.st l.node) ∧
    (s.st l.node).progress < (s'.st l.node).progress ∧
    s'.avail + (if (s'.st l.node).holds then 1 else 0) = s.avail + (if (s.st l.node).holds then 1 else 0) := by
  cases l with
  | claim n =>
    simp only [pstep?] at h; split at h
    · rename_i hc; injection h with h; subst h
      have := hc.2
      refine ⟨?_, ?_, ?_⟩
      · simp [PLabel.node]
      · simp [PLabel.node, hc.1, NSt.progress]
      · simp [PLabel.node, hc.1, NSt.holds]; omega
    · cases h
  | existsT n =>
    simp only [pstep?] at h; split at h
    · rename_i hc; injection h with h; subst h
      refine ⟨?_, ?_, ?_⟩
      · simp [PLabel.node]
      · simp [PLabel.node, hc, NSt.progress]
      · simp [PLabel.node, hc, NSt.holds]
    · cases h
  | existsF n =>
    simp only [pstep?] at h; split at h
    · rename_i hc
      split at h
      · injection h with h; subst h
        refine ⟨?_, ?_, ?_⟩
        · simp [PLabel.node]
        · simp [PLabel.node, hc, NSt.progress]
        · simp [PLabel.node, hc, NSt.holds]
      · injection h with h; subst h
        refine ⟨?_, ?_, ?_⟩
        · simp [PLabel.node]
        · simp [PLabel.node, hc, NSt.progress]
        · simp [PLabel.node, hc, NSt.holds]
    · cases h
  | ready n =>
    simp only [pstep?] at h; split at h
    · rename_i hc; injection h with h; subst h
      have := hc.2.2
      refine ⟨?_, ?_, ?_⟩
      · simp [PLabel.node]
      · simp [PLabel.node, hc.1, NSt.progress]
      · simp [PLabel.node, hc.1, NSt.holds]; omega
    · cases h
  | push n =>
    simp only [pstep?] at h; split at h
    · rename_i hc; injection h with h; subst h
      refine ⟨?_, ?_, ?_⟩
      · simp [PLabel.node]
      · simp [PLabel.node, hc, NSt.progress]
      · simp [PLabel.node, hc, NSt.holds]
    · cases h
  | fail n =>
    simp only [pstep?] at h; split at h
    · rename_i hc; injection h with h; subst h
      rcases hc with hc | hc
      · refine ⟨?_, ?_, ?_⟩
        · simp [PLabel.node]
        · simp [PLabel.node, hc, NSt.progress]
        · simp [PLabel.node, hc, NSt.holds]
      · refine ⟨?_, ?_, ?_⟩
        · simp [PLabel.node]
        · simp [PLabel.node, hc, NSt.progress]
        · simp [PLabel.node, hc, NSt.holds]
    · split at h
      · rename_i hc; injection h with h; subst h
        refine ⟨?_, ?_, ?_⟩
        · simp [PLabel.node]
        · simp [PLabel.node, hc, NSt.progress]
        · simp [PLabel.node, hc, NSt.holds]
      · cases h

/-- **Permit conservation**: permits left plus tasks holding one is the limit. -/
theorem holders_step (c : CopyCfg) (univ : List Node) (hnd : univ.Nodup) (s s' : PSt) (l : PLabel)
    (hl : l.node ∈ univ) (h : pstep? c s l = some s') :
    s'.avail + holders s' univ = s.avail + holders s univ := by
  obtain ⟨hst, _, hav⟩ := pstep_effect c s s' l h
  have hsum := sum_fupd (fun x => if x.holds then 1 else 0) s.st l.node (s'.st l.node) univ hnd hl
  have hm : (univ.map fun n => if (s'.st n).holds then 1 else 0) =
      (univ.map fun n => if (fupd s.st l.node (s'.st l.node) n).holds then 1 else 0) :=
    List.map_congr_left (fun n _ => by rw [← congrFun hst n])
  unfold holders
  rw [hm]
  omega

theorem measure_step (c : CopyCfg) (univ : List Node) (hnd : univ.Nodup) (s s' : PSt) (l : PLabel)
    (hl : l.node ∈ univ) (h : pstep? c s l = some s') : measure s univ < measure s' univ := by
  obtain ⟨hst, hpr, _⟩ := pstep_effect c s s' l h
  have hsum := sum_fupd NSt.progress s.st l.node (s'.st l.node) univ hnd hl
  have hm : (univ.map fun n => (s'.st n).progress) =
      (univ.map fun n => (fupd s.st l.node (s'.st l.node) n).progress) :=
    List.map_congr_left (fun n _ => by rw [← congrFun hst n])
  unfold measure
  rw [hm]
  omega

theorem measure_le (s : PSt) (univ : List Node) : measure s univ ≤ 4 * univ.length := by
  unfold measure
  induction univ with
  | nil => simp
  | cons a t ih =>
    simp only [List.map_cons, List.sum_cons, List.length_cons]
    have : (s.st a).progress ≤ 4 := by cases s.st a <;> simp [NSt.progress]
    omega

theorem prun_facts (c : CopyCfg) (univ : List Node) (hnd : univ.Nodup) :
    ∀ (ls : List PLabel) (s s' : PSt), (∀ l ∈ ls, l.node ∈ univ) → prun? c s ls = some s' →
      s'.avail + holders s' univ = s.avail + holders s univ ∧ measure s univ + ls.length ≤ measure s' univ := by
  intro ls
  induction ls with
  | nil =>
    intro s s' _ h
    simp only [prun?] at h; injection h with h; subst h
    exact ⟨rfl, by simp⟩
  | cons l ls ih =>
    intro s s' hmem h
    simp only [prun?] at h
    cases hs : pstep? c s l with
    | none => rw [hs] at h; cases h
    | some s1 =>
      rw [hs] at h
      have hl := hmem l List.mem_cons_self
      have h1 := holders_step c univ hnd s s1 l hl hs
      have h2 := measure_step c univ hnd s s1 l hl hs
      obtain ⟨h3, h4⟩ := ih s1 s' (fun x hx => hmem x (List.mem_cons_of_mem _ hx)) h
      simp only [List.length_cons]
      exact ⟨h3.trans h1, by omega⟩

/-- if no task holds a permit the holder count is zero -/
theorem holders_zero (s : PSt) (univ : List Node) (h : ∀ n ∈ univ, (s.st n).holds = false) : holders s univ = 0 := by
  unfold holders
  induction univ with
  | nil => rfl
  | cons a t ih =>
    simp only [List.map_cons, List.sum_cons, h a List.mem_cons_self]
    have := ih (fun n hn => h n (List.mem_cons_of_mem _ hn))
    simpa using this

theorem holders_init (limit : Nat) (univ : List Node) : holders (PSt.init limit) univ = 0 :=
  holders_zero _ univ (fun _ _ => rfl)

theorem measure_init (limit : Nat) (univ : List Node) : measure (PSt.init limit) univ = 0 := by
  unfold measure
  induction univ with
  | nil => rfl
  | cons a t ih =>
    simp only [List.map_cons, List.sum_cons]
    rw [ih]; rfl

end Oras
