/-
  C13 helper lemmas: the range-based reader simulates a cursor over the content.
-/
import OrasModel.Model.Seek
namespace Oras.Proofs.Seek
open Oras Oras.Seek

/-- The simulation relation between the reader and the cursor. -/
def Sim {β : Type} (content : List β) (s : Rsc β) (c : Cur) : Prop :=
  s.closed = c.closed ∧ s.off = c.pos ∧ s.size = content.length ∧ s.rest = content.drop s.off

theorem sim_open {β : Type} (content : List β) : Sim content (open_ content) ⟨0, false⟩ := by
  simp [Sim, open_]

theorem drop_take_len {β : Type} (l : List β) (p n : Nat) :
    l.drop (p + ((l.drop p).take n).length) = (l.drop p).drop n := by
  rw [List.drop_drop]
  simp only [List.length_take, List.length_drop]
  by_cases h : n ≤ l.length - p
  · rw [Nat.min_eq_left h]
  · have h' : l.length - p ≤ n := by omega
    rw [Nat.min_eq_right h']
    rw [List.drop_eq_nil_of_le (by omega), List.drop_eq_nil_of_le (by omega)]

theorem sim_step {β : Type} (content : List β) (s : Rsc β) (c : Cur) (op : Op) (h : Sim content s c) :
    (step (goodSrv content) s op).2 = (specStep content c op).2 ∧
    Sim content (step (goodSrv content) s op).1 (specStep content c op).1 := by
  obtain ⟨size, off, rest, closed⟩ := s
  obtain ⟨pos, cclosed⟩ := c
  simp only [Sim] at h
  obtain ⟨h1, h2, h3, h4⟩ := h
  subst h1 h2 h3 h4
  cases op with
  | close => simp [step, specStep, Sim]
  | read n =>
    cases closed
    · simp only [step, specStep, Bool.false_eq_true, if_false, Sim, true_and]
      exact (drop_take_len content off n).symm
    · simp [step, specStep, Sim]
  | seek offset whence =>
    cases closed
    · simp only [step, specStep, Bool.false_eq_true, if_false]
      generalize seekTarget offset whence off content.length = target
      cases target with
      | none => simp [Sim]
      | some t =>
        simp only []
        by_cases hneg : t < 0
        · simp [hneg, Sim]
        · simp only [hneg, if_false]
          by_cases hsame : t.toNat = off
          · simp [hsame, Sim]
          · simp only [hsame, if_false]
            by_cases hbig : t.toNat ≥ content.length
            · simp only [hbig, if_true, Sim, true_and]
              rw [List.drop_eq_nil_of_le (by omega)]
            · simp [hbig, goodSrv, Sim]
    · simp [step, specStep, Sim]

theorem sim_run {β : Type} (content : List β) (ops : List Op) (s : Rsc β) (c : Cur) (h : Sim content s c) :
    run (step (goodSrv content)) s ops = run (specStep content) c ops := by
  induction ops generalizing s c with
  | nil => rfl
  | cons op rest ih =>
    obtain ⟨h1, h2⟩ := sim_step content s c op h
    simp only [run]
    rw [h1, ih _ _ h2]

end Oras.Proofs.Seek
