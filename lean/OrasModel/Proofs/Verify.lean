/- Helper lemmas for C05. -/
import OrasModel.Model.Verify
namespace Oras

theorem atEOF_iff (r : Reader) : atEOF r = true ↔ delivered r = ([], true) := by
  induction r with
  | nil => simp [atEOF, delivered]
  | cons ev rest ih =>
    cases ev with
    | data bs =>
      cases bs with
      | nil =>
        simp only [atEOF, delivered, List.nil_append]
        rw [ih]
      | cons x xs => simp [atEOF, delivered]
    | dataEof bs => cases bs <;> simp [atEOF, delivered]
    | dataErr bs => simp [atEOF, delivered]
    | dataErrOnce bs => simp [atEOF, delivered]
    | eof => simp [atEOF, delivered]
    | fail => simp [atEOF, delivered]

/-- Soundness of the read loop: on success exactly `n` further bytes were delivered, and
    they are a prefix of what the source delivers. -/
theorem pull_ok (r : Reader) (n : Nat) (acc out : Bytes) (rest : Reader)
    (h : pull r n acc = .ok (out, rest)) :
    ∃ b, out = acc ++ b ∧ b.length = n ∧
      (delivered r).1 = b ++ (delivered rest).1 ∧ (delivered r).2 = (delivered rest).2 := by
  induction r generalizing n acc with
  | nil =>
    cases n with
    | zero => simp [pull] at h; obtain ⟨h1, h2⟩ := h; subst h1 h2; exact ⟨[], by simp⟩
    | succ n => simp [pull] at h
  | cons ev r0 ih =>
    cases n with
    | zero =>
      simp [pull] at h; obtain ⟨h1, h2⟩ := h; subst h1 h2; exact ⟨[], by simp⟩
    | succ n =>
      cases ev with
      | data bs =>
        simp only [pull] at h
        by_cases hl : bs.length ≤ n + 1
        · simp only [hl, if_true] at h
          obtain ⟨b, hb1, hb2, hb3, hb4⟩ := ih _ _ h
          refine ⟨bs ++ b, by simp [hb1], by simp [hb2]; omega, ?_, ?_⟩
          · simp [delivered, hb3]
          · simp [delivered, hb4]
        · simp only [hl, if_false] at h
          injection h with h
          injection h with h1 h2
          subst h1 h2
          refine ⟨bs.take (n + 1), rfl, by simp; omega, ?_, ?_⟩
          · simp only [delivered]
            rw [← List.append_assoc, List.take_append_drop]
          · simp [delivered]
      | dataEof bs =>
        simp only [pull] at h
        by_cases hl : bs.length < n + 1
        · simp [hl] at h
        · simp only [hl, if_false] at h
          by_cases he : bs.length = n + 1
          · simp only [he, if_true] at h
            injection h with h
            injection h with h1 h2
            subst h1 h2
            exact ⟨bs, rfl, he, by simp [delivered], by simp [delivered]⟩
          · simp only [he, if_false] at h
            injection h with h
            injection h with h1 h2
            subst h1 h2
            refine ⟨bs.take (n + 1), rfl, by simp; omega, ?_, ?_⟩
            · simp [delivered]
            · simp [delivered]
      | dataErr bs =>
        simp only [pull] at h
        by_cases hl : bs.length ≤ n + 1
        · simp [hl] at h
        · simp only [hl, if_false] at h
          injection h with h
          injection h with h1 h2
          subst h1 h2
          refine ⟨bs.take (n + 1), rfl, by simp; omega, ?_, ?_⟩
          · simp [delivered]
          · simp [delivered]
      | dataErrOnce bs =>
        simp only [pull] at h
        by_cases hl : bs.length ≤ n + 1
        · simp [hl] at h
        · simp only [hl, if_false] at h
          injection h with h
          injection h with h1 h2
          subst h1 h2
          refine ⟨bs.take (n + 1), rfl, by simp; omega, ?_, ?_⟩
          · simp [delivered]
          · simp [delivered]
      | eof => simp [pull] at h
      | fail => simp [pull] at h

/-- Completeness of the read loop: a source that delivers exactly `b` and then a clean
    EOF — under any chunking, with zero-length reads, with EOF piggy-backed on the last
    chunk or not — is accepted, and ends at EOF. -/
theorem pull_complete (r : Reader) (n : Nat) (acc b : Bytes)
    (hd : delivered r = (b, true)) (hn : b.length = n) :
    ∃ rest, pull r n acc = .ok (acc ++ b, rest) ∧ atEOF rest = true := by
  induction r generalizing n acc b with
  | nil =>
    simp [delivered] at hd
    subst hd
    simp at hn; subst hn
    exact ⟨[], by simp [pull], by simp [atEOF]⟩
  | cons ev r0 ih =>
    cases ev with
    | data bs =>
      simp only [delivered, Prod.mk.injEq] at hd
      obtain ⟨hd1, hd2⟩ := hd
      have hrest : delivered r0 = ((delivered r0).1, true) := by rw [← hd2]
      cases n with
      | zero =>
        have : b = [] := List.eq_nil_of_length_eq_zero hn
        subst this
        have hbs : bs = [] := by
          cases bs with
          | nil => rfl
          | cons x xs => simp at hd1
        subst hbs
        simp at hd1
        refine ⟨.data [] :: r0, by simp [pull], ?_⟩
        simp only [atEOF]
        rw [atEOF_iff, hrest, hd1]
      | succ n =>
        have hlen : bs.length + (delivered r0).1.length = n + 1 := by
          rw [← hn, ← hd1]; simp
        have hl : bs.length ≤ n + 1 := by omega
        obtain ⟨rest, hp, he⟩ := ih (n + 1 - bs.length) (acc ++ bs) (delivered r0).1 hrest (by omega)
        refine ⟨rest, ?_, he⟩
        simp only [pull, hl, if_true]
        rw [hp, ← hd1, List.append_assoc]
    | dataEof bs =>
      simp only [delivered, Prod.mk.injEq, and_true] at hd
      subst hd
      cases n with
      | zero =>
        have : bs = [] := List.eq_nil_of_length_eq_zero hn
        subst this
        exact ⟨.dataEof [] :: r0, by simp [pull], by simp [atEOF]⟩
      | succ n =>
        refine ⟨[], ?_, by simp [atEOF]⟩
        simp only [pull]
        simp [hn]
    | dataErr bs => simp [delivered] at hd
    | dataErrOnce bs => simp [delivered] at hd
    | eof =>
      simp only [delivered, Prod.mk.injEq, and_true] at hd
      subst hd
      simp at hn; subst hn
      exact ⟨.eof :: r0, by simp [pull], by simp [atEOF]⟩
    | fail => simp [delivered] at hd

theorem CMap.get_cons_same {κ : Type} [DecidableEq κ] (m : CMap κ) (k : κ) (b : Bytes) :
    CMap.get ((k, b) :: m) k = some b := by
  simp [CMap.get, List.find?]

theorem CMap.get_cons_other {κ : Type} [DecidableEq κ] (m : CMap κ) (k k' : κ) (b : Bytes)
    (h : k' ≠ k) : CMap.get ((k, b) :: m) k' = CMap.get m k' := by
  have : ¬ (k = k') := fun e => h e.symm
  simp [CMap.get, List.find?, this]

end Oras
