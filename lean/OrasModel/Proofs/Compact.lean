/- The in-place compaction loop equals `List.filter` (`Model/Compact.lean`). -/
import OrasModel.Model.Compact
namespace Oras.Compact

/-- Invariant of the loop at iteration `i`: the first `j` cells hold the kept ones among the
    first `i` originals, the cells from `i` on are untouched. -/
theorem loop_spec {α : Type} (keep : α → Bool) (orig : List α) :
    ∀ (fuel i j : Nat) (arr : List α), i + fuel = orig.length → j ≤ i → arr.length = orig.length →
      arr.take j = (orig.take i).filter keep → arr.drop i = orig.drop i →
      let r := loop keep atCursor fuel i j arr
      r.1.take r.2 = orig.filter keep := by
  intro fuel
  induction fuel with
  | zero =>
    intro i j arr hi _ _ ht _
    simp only [loop]
    have : i = orig.length := by omega
    rw [ht, this, List.take_length]
  | succ fuel ih =>
    intro i j arr hi hji hlen ht hd
    have hilt : i < orig.length := by omega
    have hilt' : i < arr.length := by omega
    have hx : arr[i]? = some orig[i] := by
      have h1 : arr[i]? = (arr.drop i)[0]? := by simp
      have h2 : orig[i]? = (orig.drop i)[0]? := by simp
      rw [h1, hd, ← h2]
      exact List.getElem?_eq_getElem hilt
    simp only [loop, hx]
    have htake : orig.take (i + 1) = orig.take i ++ [orig[i]] := by
      rw [List.take_add_one, List.getElem?_eq_getElem hilt]; rfl
    by_cases hk : keep orig[i] = true
    · simp only [hk, if_true]
      apply ih (i + 1) (j + 1)
      · omega
      · omega
      · split
        · simp [hlen]
        · exact hlen
      · -- the first j+1 cells
        rw [htake, List.filter_append]
        simp only [List.filter_cons, hk, if_true, List.filter_nil]
        rw [← ht]
        by_cases hij : i = j
        · subst hij
          simp only [ne_eq, not_true_eq_false, if_false]
          rw [List.take_add_one, hx]; rfl
        · simp only [ne_eq, hij, not_false_eq_true, if_true, atCursor]
          have hjlt : j < arr.length := by omega
          rw [List.take_add_one, List.getElem?_set_self hjlt, List.take_set_of_le (Nat.le_refl j)]
          rfl
      · -- the cells from i+1 on are untouched
        by_cases hij : i = j
        · simp only [hij, ne_eq, not_true_eq_false, if_false]
          rw [← hij, ← List.drop_drop, hd, List.drop_drop]
        · simp only [ne_eq, hij, not_false_eq_true, if_true, atCursor]
          have hjlt : j < i + 1 := by omega
          rw [List.drop_set_of_lt hjlt, ← List.drop_drop, hd, List.drop_drop]
    · have hk' : keep orig[i] = false := by simpa using hk
      simp only [hk', Bool.false_eq_true, if_false]
      apply ih (i + 1) j arr
      · omega
      · omega
      · exact hlen
      · rw [htake, List.filter_append]
        simp only [List.filter_cons, hk', Bool.false_eq_true, if_false, List.filter_nil, List.append_nil]
        exact ht
      · rw [← List.drop_drop, hd, List.drop_drop]

end Oras.Compact

namespace Oras.Compact

/-- **The in-place loop is `filter`**: writing at the cursor never overwrites a cell that is
    still to be read. -/
theorem compact_eq_filter {α : Type} (keep : α → Bool) (xs : List α) :
    compact keep atCursor xs = xs.filter keep := by
  unfold compact
  exact loop_spec keep xs xs.length 0 0 xs (by omega) (Nat.le_refl 0) rfl (by simp) (by simp)

end Oras.Compact
