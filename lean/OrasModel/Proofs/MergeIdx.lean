/-
  Lemmas for the end-to-end no-lost-update theorem (`Props/C14c.lean`): key presence
  through `dedupRefs`, `applyChange` folds and `newIdx`, a pigeonhole lemma for the
  "no update needed" answer, and the invariant of the composed system.
-/
import OrasModel.Model.MergeIdx
import OrasModel.Proofs.Merge
import OrasModel.Props.C14
namespace Oras
open Oras.Props.C14

abbrev hasKey (l : List RDesc) (k : Nat) : Bool := l.any (·.key = k)

theorem hasKey_iff (l : List RDesc) (k : Nat) : hasKey l k = true ↔ k ∈ l.map (·.key) := by
  simp only [hasKey, List.any_eq_true, decide_eq_true_eq, List.mem_map]

/-- `dedupRefs` keeps every non-empty key … -/
theorem dedup_hasKey (k : Nat) (hk : k ≠ 0) : ∀ (rs acc : List RDesc),
    (hasKey acc k = true ∨ hasKey rs k = true) → hasKey (dedupRefs acc rs) k = true := by
  intro rs
  induction rs with
  | nil =>
    intro acc h
    rcases h with h | h
    · exact h
    · simp [hasKey] at h
  | cons r rs ih =>
    intro acc h
    unfold dedupRefs
    split
    · rename_i hc
      apply ih
      rcases h with h | h
      · exact Or.inl h
      · simp only [hasKey, List.any_cons, Bool.or_eq_true, decide_eq_true_eq] at h
        rcases h with h | h
        · -- r has key k: it was skipped because acc already has k (k ≠ 0)
          rcases hc with hc | hc
          · exact absurd (h ▸ hc) hk
          · left; rw [← h]; exact hc
        · exact Or.inr h
    · apply ih
      rcases h with h | h
      · left
        simp only [hasKey, List.any_append, Bool.or_eq_true]
        exact Or.inl h
      · simp only [hasKey, List.any_cons, Bool.or_eq_true, decide_eq_true_eq] at h
        rcases h with h | h
        · left
          simp only [hasKey, List.any_append, List.any_cons, List.any_nil, Bool.or_false, Bool.or_eq_true,
            decide_eq_true_eq]
          exact Or.inr h
        · exact Or.inr h

/-- … and invents none. -/
theorem dedup_hasKey_inv (k : Nat) : ∀ (rs acc : List RDesc),
    hasKey (dedupRefs acc rs) k = true → (hasKey acc k = true ∨ hasKey rs k = true) := by
  intro rs
  induction rs with
  | nil => intro acc h; exact Or.inl h
  | cons r rs ih =>
    intro acc h
    unfold dedupRefs at h
    split at h
    · rcases ih acc h with h' | h'
      · exact Or.inl h'
      · right
        simp only [hasKey, List.any_cons, Bool.or_eq_true]
        exact Or.inr h'
    · rcases ih _ h with h' | h'
      · simp only [hasKey, List.any_append, List.any_cons, List.any_nil, Bool.or_false, Bool.or_eq_true] at h'
        rcases h' with h' | h'
        · exact Or.inl h'
        · right
          simp only [hasKey, List.any_cons, Bool.or_eq_true]
          exact Or.inl h'
      · right
        simp only [hasKey, List.any_cons, Bool.or_eq_true]
        exact Or.inr h'

/-- A key that no change of the batch removes is present after the batch if it was present
    before or the batch adds it. -/
theorem fold_hasKey_add (k : Nat) : ∀ (cs : List RChange) (cur : List RDesc),
    (∀ d', RChange.remove d' ∈ cs → d'.key ≠ k) →
    (hasKey cur k = true ∨ ∃ d', RChange.add d' ∈ cs ∧ d'.key = k) →
    hasKey (cs.foldl applyChange cur) k = true := by
  intro cs
  induction cs with
  | nil =>
    intro cur _ h
    rcases h with h | ⟨d', hd, _⟩
    · exact h
    · cases hd
  | cons c cs ih =>
    intro cur hrem h
    simp only [List.foldl_cons]
    apply ih _ (fun d' hd => hrem d' (List.mem_cons_of_mem _ hd))
    have hkeys := c14_change_keys cur c k
    rcases h with h | ⟨d', hd, hk⟩
    · left
      show (applyChange cur c).any (·.key = k) = true
      rw [hkeys]
      cases c with
      | add d => simp only [Bool.or_eq_true]; exact Or.inr h
      | remove d =>
        have : d.key ≠ k := hrem d List.mem_cons_self
        have hne : ¬ k = d.key := fun e => this e.symm
        simp only [hne, decide_false, Bool.not_false, Bool.true_and]
        exact h
    · rcases List.mem_cons.mp hd with e | e
      · left
        show (applyChange cur c).any (·.key = k) = true
        rw [hkeys, ← e]
        simp [hk]
      · exact Or.inr ⟨d', e, hk⟩

/-- A key that no change of the batch adds is absent after the batch if it was absent
    before or the batch removes it. -/
theorem fold_noKey_remove (k : Nat) : ∀ (cs : List RChange) (cur : List RDesc),
    (∀ d', RChange.add d' ∈ cs → d'.key ≠ k) →
    (hasKey cur k = false ∨ ∃ d', RChange.remove d' ∈ cs ∧ d'.key = k) →
    hasKey (cs.foldl applyChange cur) k = false := by
  intro cs
  induction cs with
  | nil =>
    intro cur _ h
    rcases h with h | ⟨d', hd, _⟩
    · exact h
    · cases hd
  | cons c cs ih =>
    intro cur hadd h
    simp only [List.foldl_cons]
    apply ih _ (fun d' hd => hadd d' (List.mem_cons_of_mem _ hd))
    have hkeys := c14_change_keys cur c k
    rcases h with h | ⟨d', hd, hk⟩
    · left
      show (applyChange cur c).any (·.key = k) = false
      rw [hkeys]
      cases c with
      | add d =>
        have : d.key ≠ k := hadd d List.mem_cons_self
        have hne : ¬ k = d.key := fun e => this e.symm
        simp only [hne, decide_false, Bool.false_or]
        exact h
      | remove d =>
        simp only [Bool.and_eq_false_iff]
        exact Or.inr h
    · rcases List.mem_cons.mp hd with e | e
      · left
        show (applyChange cur c).any (·.key = k) = false
        rw [hkeys, ← e]
        simp [hk]
      · exact Or.inr ⟨d', e, hk⟩

/-- Pigeonhole: a duplicate-free list that contains all of another duplicate-free list of the
    same length contains nothing else. -/
theorem subset_of_nodup_length : ∀ (B A : List Nat), A.Nodup → B.Nodup → (∀ x ∈ B, x ∈ A) →
    A.length = B.length → ∀ x ∈ A, x ∈ B := by
  intro B
  induction B with
  | nil =>
    intro A _ _ _ hlen x hx
    have : A = [] := List.eq_nil_of_length_eq_zero hlen
    rw [this] at hx; cases hx
  | cons b B ih =>
    intro A hA hB hsub hlen x hx
    have hbA : b ∈ A := hsub b List.mem_cons_self
    have hB' := List.nodup_cons.mp hB
    have hsub' : ∀ y ∈ B, y ∈ A.erase b := by
      intro y hy
      have hne : y ≠ b := fun e => hB'.1 (e ▸ hy)
      exact (List.mem_erase_of_ne hne).mpr (hsub y (List.mem_cons_of_mem _ hy))
    have hlen' : (A.erase b).length = B.length := by
      rw [List.length_erase_of_mem hbA, hlen]; simp
    by_cases e : x = b
    · rw [e]; exact List.mem_cons_self
    · have := ih (A.erase b) (hA.erase b) hB'.2 hsub' hlen' x ((List.mem_erase_of_ne e).mpr hx)
      exact List.mem_cons_of_mem _ this

theorem fold_clean (cs : List RChange) (hc : ∀ c ∈ cs, match c with | .add d => d.key ≠ 0 | .remove _ => True) :
    ∀ cur : List RDesc, NoDupKeys cur → NoEmpty cur →
      NoDupKeys (cs.foldl applyChange cur) ∧ NoEmpty (cs.foldl applyChange cur) := by
  induction cs with
  | nil => intro cur h1 h2; exact ⟨h1, h2⟩
  | cons c cs ih =>
    intro cur h1 h2
    simp only [List.foldl_cons]
    obtain ⟨a, b⟩ := applyChange_inv cur c h1 h2 (hc c List.mem_cons_self)
    exact ih (fun c' hc' => hc c' (List.mem_cons_of_mem _ hc')) _ a b

/-- **After a batch, an added key is listed** (unless some change of the batch removes it). -/
theorem newIdx_add (read : List RDesc) (cs : List RChange) (k : Nat) (hk : k ≠ 0)
    (hwf : ∀ c ∈ cs, match c with | .add d => d.key ≠ 0 | .remove _ => True)
    (hrem : ∀ d', RChange.remove d' ∈ cs → d'.key ≠ k)
    (h : hasKey read k = true ∨ ∃ d', RChange.add d' ∈ cs ∧ d'.key = k) :
    hasKey (newIdx read cs) k = true := by
  have hfold : hasKey (cs.foldl applyChange (dedupRefs [] read)) k = true := by
    apply fold_hasKey_add k cs _ hrem
    rcases h with h | h
    · exact Or.inl (dedup_hasKey k hk read [] (Or.inr h))
    · exact Or.inr h
  unfold newIdx
  cases ha : applyReferrerChanges read cs with
  | some r =>
    simp only
    unfold applyReferrerChanges at ha
    simp only at ha
    split at ha
    · cases ha
    · injection ha with ha; rw [← ha]; exact hfold
  | none =>
    simp only
    -- nothing to update: the resulting key set is the old one
    obtain ⟨h1, h2, h3⟩ := c14_no_update_iff_unchanged read cs ha
    have base := dedupRefs_inv [] read (by simp [NoDupKeys]) (by intro r hr; cases hr)
    have res := fold_clean cs hwf (dedupRefs [] read) base.1 base.2
    have hsub : ∀ x ∈ (dedupRefs [] read).map (·.key), x ∈ (cs.foldl applyChange (dedupRefs [] read)).map (·.key) := by
      intro x hx
      have hx' := (hasKey_iff _ x).mpr hx
      rcases dedup_hasKey_inv x read [] hx' with h' | h'
      · simp [hasKey] at h'
      · obtain ⟨r, hr, hrk⟩ := List.any_eq_true.mp h'
        simp only [decide_eq_true_eq] at hrk
        have := h3 r hr
        rw [hrk] at this
        exact (hasKey_iff _ x).mp this
    have hlen : ((cs.foldl applyChange (dedupRefs [] read)).map (·.key)).length = ((dedupRefs [] read).map (·.key)).length := by
      simp only [List.length_map]; omega
    have hin := subset_of_nodup_length _ _ res.1 base.1 hsub hlen k ((hasKey_iff _ k).mp hfold)
    rcases dedup_hasKey_inv k read [] ((hasKey_iff _ k).mpr hin) with h' | h'
    · simp [hasKey] at h'
    · exact h'

/-- **After a batch, a removed key is not listed** (unless some change of the batch adds it). -/
theorem newIdx_remove (read : List RDesc) (cs : List RChange) (k : Nat)
    (hadd : ∀ d', RChange.add d' ∈ cs → d'.key ≠ k)
    (h : hasKey read k = false ∨ ∃ d', RChange.remove d' ∈ cs ∧ d'.key = k) :
    hasKey (newIdx read cs) k = false := by
  have hfold : hasKey (cs.foldl applyChange (dedupRefs [] read)) k = false := by
    apply fold_noKey_remove k cs _ hadd
    rcases h with h | h
    · left
      cases hb : hasKey (dedupRefs [] read) k with
      | false => rfl
      | true =>
        rcases dedup_hasKey_inv k read [] hb with h' | h'
        · simp [hasKey] at h'
        · rw [h] at h'; cases h'
    · exact Or.inr h
  unfold newIdx
  cases ha : applyReferrerChanges read cs with
  | some r =>
    simp only
    unfold applyReferrerChanges at ha
    simp only at ha
    split at ha
    · cases ha
    · injection ha with ha; rw [← ha]; exact hfold
  | none =>
    simp only
    obtain ⟨_, _, h3⟩ := c14_no_update_iff_unchanged read cs ha
    cases hb : hasKey read k with
    | false => rfl
    | true =>
      obtain ⟨r, hr, hrk⟩ := List.any_eq_true.mp hb
      simp only [decide_eq_true_eq] at hrk
      have := h3 r hr
      rw [hrk] at this
      have hf : (cs.foldl applyChange (dedupRefs [] read)).any (·.key = k) = false := hfold
      rw [hf] at this; cases this

end Oras
