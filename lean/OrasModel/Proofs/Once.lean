/- Invariant of the `Once` single-flight (C16). -/
import OrasModel.Model.Once
namespace Oras

/-- Exactly one of: the token is in the channel, somebody is running, the channel is closed;
    at most one caller runs; once closed the outcome is stored and every reported outcome is
    that one; `first` is reported by at most one caller. -/
structure OnceInv {R : Type} (s : OnceSt R) : Prop where
  oneRunner : ∀ i j, s.pc i = .running → s.pc j = .running → i = j
  tokenExcl : s.token = true → s.closed = false ∧ ∀ i, s.pc i ≠ .running
  closedExcl : s.closed = true → s.token = false ∧ (∀ i, s.pc i ≠ .running) ∧ s.result.isSome
  runnerExcl : ∀ i, s.pc i = .running → s.token = false ∧ s.closed = false
  noLoss : s.token = true ∨ s.closed = true ∨ ∃ i, s.pc i = .running
  shared : ∀ i f r, s.pc i = .done f (some r) → s.closed = true ∧ s.result = some r
  oneFirst : ∀ i j r r', s.pc i = .done true r → s.pc j = .done true r' → i = j
  firstClosed : ∀ i r, s.pc i = .done true r → s.closed = true

theorem onceInv_init (R : Type) : OnceInv (OnceSt.init R) := by
  refine ⟨?_, ?_, ?_, ?_, ?_, ?_, ?_, ?_⟩ <;> simp [OnceSt.init]

theorem onceInv_step {R : Type} (s t : OnceSt R) (h : OnceInv s) (st : OnceStep s t) : OnceInv t := by
  cases st with
  | take i hi ht hc =>
    have hnr := (h.tokenExcl ht).2
    refine ⟨?_, ?_, ?_, ?_, ?_, ?_, ?_, ?_⟩
    · intro a b ha hb
      simp only at ha hb
      by_cases ea : a = i <;> by_cases eb : b = i <;> simp_all
    · intro h'; simp at h'
    · intro h'; simp only at h'; rw [hc] at h'; cases h'
    · intro a _; exact ⟨rfl, hc⟩
    · exact Or.inr (Or.inr ⟨i, by simp⟩)
    · intro a f r ha
      simp only at ha
      by_cases ea : a = i
      · simp [ea] at ha
      · simp only [ea, if_false] at ha; exact h.shared a f r ha
    · intro a b r r' ha hb
      simp only at ha hb
      by_cases ea : a = i
      · simp [ea] at ha
      · by_cases eb : b = i
        · simp [eb] at hb
        · simp only [ea, eb, if_false] at ha hb; exact h.oneFirst a b r r' ha hb
    · intro a r ha
      simp only at ha
      by_cases ea : a = i
      · simp [ea] at ha
      · simp only [ea, if_false] at ha; exact h.firstClosed a r ha
  | finish i r hi =>
    have hex := h.runnerExcl i hi
    refine ⟨?_, ?_, ?_, ?_, ?_, ?_, ?_, ?_⟩
    · intro a b ha hb
      simp only at ha hb
      by_cases ea : a = i
      · simp [ea] at ha
      · by_cases eb : b = i
        · simp [eb] at hb
        · simp only [ea, eb, if_false] at ha hb; exact h.oneRunner a b ha hb
    · intro h'; simp only at h'; rw [hex.1] at h'; cases h'
    · intro _
      refine ⟨hex.1, ?_, rfl⟩
      intro a ha
      simp only at ha
      by_cases ea : a = i
      · simp [ea] at ha
      · simp only [ea, if_false] at ha; exact ea (h.oneRunner a i ha hi)
    · intro a ha
      simp only at ha
      by_cases ea : a = i
      · simp [ea] at ha
      · simp only [ea, if_false] at ha; exact absurd (h.oneRunner a i ha hi) ea
    · exact Or.inr (Or.inl rfl)
    · intro a f r' ha
      simp only at ha
      by_cases ea : a = i
      · simp only [ea, if_true, OncePC.done.injEq] at ha
        exact ⟨rfl, by rw [← ha.2]⟩
      · simp only [ea, if_false] at ha
        -- nobody had an outcome before the channel was closed
        have := (h.shared a f r' ha).1
        rw [hex.2] at this; cases this
    · intro a b r1 r2 ha hb
      simp only at ha hb
      by_cases ea : a = i
      · by_cases eb : b = i
        · rw [ea, eb]
        · simp only [eb, if_false] at hb
          have := h.firstClosed b r2 hb; rw [hex.2] at this; cases this
      · simp only [ea, if_false] at ha
        have := h.firstClosed a r1 ha; rw [hex.2] at this; cases this
    · intro a r' _; rfl
  | handOver i hi =>
    have hex := h.runnerExcl i hi
    refine ⟨?_, ?_, ?_, ?_, ?_, ?_, ?_, ?_⟩
    · intro a b ha hb
      simp only at ha hb
      by_cases ea : a = i
      · simp [ea] at ha
      · by_cases eb : b = i
        · simp [eb] at hb
        · simp only [ea, eb, if_false] at ha hb; exact h.oneRunner a b ha hb
    · intro _
      refine ⟨hex.2, ?_⟩
      intro a ha
      simp only at ha
      by_cases ea : a = i
      · simp [ea] at ha
      · simp only [ea, if_false] at ha; exact ea (h.oneRunner a i ha hi)
    · intro h'; simp only at h'; rw [hex.2] at h'; cases h'
    · intro a ha
      simp only at ha
      by_cases ea : a = i
      · simp [ea] at ha
      · simp only [ea, if_false] at ha; exact absurd (h.oneRunner a i ha hi) ea
    · exact Or.inl rfl
    · intro a f r ha
      simp only at ha
      by_cases ea : a = i
      · simp [ea] at ha
      · simp only [ea, if_false] at ha; exact h.shared a f r ha
    · intro a b r r' ha hb
      simp only at ha hb
      by_cases ea : a = i
      · simp [ea] at ha
      · by_cases eb : b = i
        · simp [eb] at hb
        · simp only [ea, eb, if_false] at ha hb; exact h.oneFirst a b r r' ha hb
    · intro a r ha
      simp only at ha
      by_cases ea : a = i
      · simp [ea] at ha
      · simp only [ea, if_false] at ha; exact h.firstClosed a r ha
  | observe i hi hc =>
    have hcl := h.closedExcl hc
    refine ⟨?_, ?_, ?_, ?_, ?_, ?_, ?_, ?_⟩
    · intro a b ha hb
      simp only at ha hb
      by_cases ea : a = i
      · simp [ea] at ha
      · by_cases eb : b = i
        · simp [eb] at hb
        · simp only [ea, eb, if_false] at ha hb; exact h.oneRunner a b ha hb
    · intro h'; simp only at h'; rw [hcl.1] at h'; cases h'
    · intro _
      refine ⟨hcl.1, ?_, hcl.2.2⟩
      intro a ha
      simp only at ha
      by_cases ea : a = i
      · simp [ea] at ha
      · simp only [ea, if_false] at ha; exact hcl.2.1 a ha
    · intro a ha
      simp only at ha
      by_cases ea : a = i
      · simp [ea] at ha
      · simp only [ea, if_false] at ha; exact h.runnerExcl a ha
    · exact Or.inr (Or.inl hc)
    · intro a f r ha
      simp only at ha
      by_cases ea : a = i
      · simp only [ea, if_true, OncePC.done.injEq] at ha
        exact ⟨hc, ha.2⟩
      · simp only [ea, if_false] at ha; exact h.shared a f r ha
    · intro a b r r' ha hb
      simp only at ha hb
      by_cases ea : a = i
      · simp [ea] at ha
      · by_cases eb : b = i
        · simp [eb] at hb
        · simp only [ea, eb, if_false] at ha hb; exact h.oneFirst a b r r' ha hb
    · intro a r ha
      simp only at ha
      by_cases ea : a = i
      · simp [ea] at ha
      · simp only [ea, if_false] at ha; exact h.firstClosed a r ha
  | giveUp i hi =>
    refine ⟨?_, ?_, ?_, ?_, ?_, ?_, ?_, ?_⟩
    · intro a b ha hb
      simp only at ha hb
      by_cases ea : a = i
      · simp [ea] at ha
      · by_cases eb : b = i
        · simp [eb] at hb
        · simp only [ea, eb, if_false] at ha hb; exact h.oneRunner a b ha hb
    · intro ht
      refine ⟨(h.tokenExcl ht).1, ?_⟩
      intro a ha
      simp only at ha
      by_cases ea : a = i
      · simp [ea] at ha
      · simp only [ea, if_false] at ha; exact (h.tokenExcl ht).2 a ha
    · intro hc
      have hcl := h.closedExcl hc
      refine ⟨hcl.1, ?_, hcl.2.2⟩
      intro a ha
      simp only at ha
      by_cases ea : a = i
      · simp [ea] at ha
      · simp only [ea, if_false] at ha; exact hcl.2.1 a ha
    · intro a ha
      simp only at ha
      by_cases ea : a = i
      · simp [ea] at ha
      · simp only [ea, if_false] at ha; exact h.runnerExcl a ha
    · rcases h.noLoss with h1 | h1 | ⟨j, hj⟩
      · exact Or.inl h1
      · exact Or.inr (Or.inl h1)
      · refine Or.inr (Or.inr ⟨j, ?_⟩)
        have : j ≠ i := by intro e; rw [e, hi] at hj; cases hj
        simp [this, hj]
    · intro a f r ha
      simp only at ha
      by_cases ea : a = i
      · simp [ea] at ha
      · simp only [ea, if_false] at ha; exact h.shared a f r ha
    · intro a b r r' ha hb
      simp only at ha hb
      by_cases ea : a = i
      · simp [ea] at ha
      · by_cases eb : b = i
        · simp [eb] at hb
        · simp only [ea, eb, if_false] at ha hb; exact h.oneFirst a b r r' ha hb
    · intro a r ha
      simp only at ha
      by_cases ea : a = i
      · simp [ea] at ha
      · simp only [ea, if_false] at ha; exact h.firstClosed a r ha

theorem onceInv_reach {R : Type} (s : OnceSt R) (h : OnceReach s) : OnceInv s := by
  induction h with
  | init => exact onceInv_init R
  | step _ st ih => exact onceInv_step _ _ ih st

end Oras
