/- Termination of the `findRoots` loop over a finite universe (C03). -/
import OrasModel.Model.FindRoots
namespace Oras

/-- Nodes of the universe not yet visited. -/
def unvisited (U : List Node) (visited : List Node) : Nat :=
  U.countP (fun x => decide (x ∉ visited))

theorem unvisited_cons_le (U visited : List Node) (a : Node) :
    unvisited U (a :: visited) ≤ unvisited U visited := by
  unfold unvisited
  apply List.countP_mono_left
  intro x _ hx
  simp only [decide_eq_true_eq] at hx ⊢
  exact fun h => hx (List.mem_cons_of_mem _ h)

theorem unvisited_cons_lt (U visited : List Node) (a : Node) (hU : a ∈ U) (hv : a ∉ visited) :
    unvisited U (a :: visited) < unvisited U visited := by
  induction U with
  | nil => cases hU
  | cons x xs ih =>
    have hle := unvisited_cons_le xs visited a
    unfold unvisited at *
    rw [List.countP_cons, List.countP_cons]
    by_cases hx : x = a
    · subst hx
      have h1 : decide (x ∉ x :: visited) = false := by simp
      have h2 : decide (x ∉ visited) = true := by simp [hv]
      rw [h1, h2]
      simp only [Bool.false_eq_true, if_false, if_true]
      omega
    · have hmem : a ∈ xs := by
        rcases List.mem_cons.mp hU with h | h
        · exact absurd h.symm hx
        · exact h
      have := ih hmem
      by_cases h2 : x ∈ visited
      · have e1 : decide (x ∉ a :: visited) = false := by simp [h2]
        have e2 : decide (x ∉ visited) = false := by simp [h2]
        rw [e1, e2]; simp only [Bool.false_eq_true, if_false]; omega
      · have e1 : decide (x ∉ a :: visited) = true := by simp [h2, hx]
        have e2 : decide (x ∉ visited) = true := by simp [h2]
        rw [e1, e2]; simp only [if_true]; omega

/-- The termination measure: unvisited nodes weigh more than anything one visit can push. -/
def frMeasure (U : List Node) (B : Nat) (s : FRSt) : Nat :=
  unvisited U s.visited * (B + 1) + s.stack.length

def StackIn (U : List Node) (s : FRSt) : Prop := ∀ e ∈ s.stack, e.1 ∈ U

theorem frStep_decreases (preds : Node → List Node) (depth : Nat) (U : List Node) (B : Nat)
    (hU : ∀ n ∈ U, ∀ p ∈ preds n, p ∈ U) (hB : ∀ n, (preds n).length ≤ B)
    (s s' : FRSt) (hin : StackIn U s) (h : frStep preds depth s = some s') :
    StackIn U s' ∧ frMeasure U B s' < frMeasure U B s := by
  unfold frStep at h
  cases hs : s.stack with
  | nil => simp [hs] at h
  | cons e rest =>
    obtain ⟨n, d⟩ := e
    have hnU : n ∈ U := hin (n, d) (by rw [hs]; simp)
    have hrest : ∀ e ∈ rest, e.1 ∈ U := fun e he => hin e (by rw [hs]; exact List.mem_cons_of_mem _ he)
    simp only [hs] at h
    by_cases hv : n ∈ s.visited
    · simp only [hv, if_true, Option.some.injEq] at h
      subst h
      refine ⟨hrest, ?_⟩
      simp only [frMeasure, hs, List.length_cons]; omega
    · simp only [hv, if_false] at h
      have hlt := unvisited_cons_lt U s.visited n hnU hv
      by_cases hd : depth > 0 ∧ d = depth
      · simp only [hd, and_self, if_true, Option.some.injEq] at h
        subst h
        refine ⟨hrest, ?_⟩
        simp only [frMeasure, hs, List.length_cons]
        have : unvisited U (n :: s.visited) * (B + 1) + (B + 1) ≤ unvisited U s.visited * (B + 1) := by
          have := Nat.mul_le_mul_right (B + 1) (Nat.succ_le_of_lt hlt)
          simpa [Nat.succ_mul] using this
        omega
      · simp only [hd, if_false] at h
        by_cases hp : preds n = []
        · simp only [hp, if_true, Option.some.injEq] at h
          subst h
          refine ⟨hrest, ?_⟩
          simp only [frMeasure, hs, List.length_cons]
          have : unvisited U (n :: s.visited) * (B + 1) + (B + 1) ≤ unvisited U s.visited * (B + 1) := by
            have := Nat.mul_le_mul_right (B + 1) (Nat.succ_le_of_lt hlt)
            simpa [Nat.succ_mul] using this
          omega
        · simp only [hp, if_false, Option.some.injEq] at h
          subst h
          constructor
          · intro e he
            simp only [List.mem_append, List.mem_reverse, List.mem_map, List.mem_filter] at he
            rcases he with ⟨p, ⟨hp1, _⟩, rfl⟩ | he
            · exact hU n hnU p hp1
            · exact hrest e he
          · simp only [frMeasure, hs, List.length_cons, List.length_append, List.length_reverse, List.length_map]
            have hf : ((preds n).filter (fun p => decide (p ∉ n :: s.visited))).length ≤ B :=
              Nat.le_trans (List.length_filter_le _ _) (hB n)
            have : unvisited U (n :: s.visited) * (B + 1) + (B + 1) ≤ unvisited U s.visited * (B + 1) := by
              have := Nat.mul_le_mul_right (B + 1) (Nat.succ_le_of_lt hlt)
              simpa [Nat.succ_mul] using this
            omega

theorem frRun_terminates (preds : Node → List Node) (depth : Nat) (U : List Node) (B : Nat)
    (hU : ∀ n ∈ U, ∀ p ∈ preds n, p ∈ U) (hB : ∀ n, (preds n).length ≤ B) :
    ∀ (fuel : Nat) (s : FRSt), StackIn U s → frMeasure U B s < fuel → (frRun preds depth fuel s).isSome = true := by
  intro fuel
  induction fuel with
  | zero => intro s _ h; omega
  | succ fuel ih =>
    intro s hin hm
    unfold frRun
    cases hst : frStep preds depth s with
    | none => rfl
    | some s' =>
      obtain ⟨hin', hlt⟩ := frStep_decreases preds depth U B hU hB s s' hin hst
      exact ih s' hin' (by omega)

end Oras
