/-
  `Store.GC` of the OCI model leaves the name mapping alone: every reference *name* resolves
  after the collection to what it resolved to before, however many names one manifest has
  (`gcIndex` rebuilds the resolver from the named entries, then only adds digest entries).
-/
import OrasModel.Proofs.OciGc
import OrasModel.Proofs.OciDelete
namespace Oras
namespace OciSt

/-- Looking a name up in the rebuilt resolver after the tagged-entries fold. -/
theorem gcTagStep_lookup_tag (c : OciCfg) (B : List Node) (fuel : Nat) (s : OciSt) (e : RefKey × Node × Nat) (t : Nat) :
    (gcTagStep c B fuel s e).lookupRef (.tag t) = if e.1 = .tag t then some e.2 else s.lookupRef (.tag t) := by
  unfold gcTagStep
  simp only
  have hgraph : ∀ (x : OciSt) (g : GMem), ({ x with graph := g } : OciSt).lookupRef (.tag t) = x.lookupRef (.tag t) :=
    fun _ _ => rfl
  rw [hgraph]
  by_cases h : e.1 = .tag t
  · rw [if_pos h, ← h]
    exact lookupRef_resolverTag_same _ _ _ _
  · rw [if_neg h]
    rw [lookupRef_resolverTag_other _ _ _ _ _ (fun h' => h h'.symm)]
    exact lookupRef_resolverTag_other _ _ _ _ _ (by intro h'; cases h')

theorem gcTagFold_lookup_tag (c : OciCfg) (B : List Node) (fuel : Nat) (t : Nat) :
    ∀ (named : List (RefKey × Node × Nat)) (s : OciSt), (named.map (·.1)).Nodup →
      (named.foldl (gcTagStep c B fuel) s).lookupRef (.tag t) =
        match named.find? (fun e => e.1 = .tag t) with
        | some e => some e.2
        | none => s.lookupRef (.tag t) := by
  intro named
  induction named with
  | nil => intro s _; rfl
  | cons e0 es ih =>
    intro s hnd
    simp only [List.map_cons, List.nodup_cons] at hnd
    simp only [List.foldl_cons]
    rw [ih _ hnd.2, gcTagStep_lookup_tag, List.find?_cons]
    by_cases h : e0.1 = .tag t
    · -- no later entry has this key
      have hnone : es.find? (fun e => e.1 = .tag t) = none := by
        apply List.find?_eq_none.mpr
        intro x hx hk
        simp only [decide_eq_true_eq] at hk
        exact hnd.1 (List.mem_map.mpr ⟨x, hx, hk.trans h.symm⟩)
      simp [hnone, h]
    · have : decide (e0.1 = RefKey.tag t) = false := by simp [h]
      rw [this]
      simp only [if_neg h]

/-- `find?` for a key commutes with a filter that keeps every entry of that key. -/
theorem find_filter_keeps {α : Type} (l : List (RefKey × α)) (p : RefKey × α → Bool) (k : RefKey)
    (hp : ∀ e, e.1 = k → p e = true) :
    (l.filter p).find? (fun e => e.1 = k) = l.find? (fun e => e.1 = k) := by
  induction l with
  | nil => rfl
  | cons e es ih =>
    rw [List.filter_cons]
    by_cases hk : e.1 = k
    · rw [hp e hk]
      simp only [if_true]
      rw [List.find?_cons, List.find?_cons, ih]
    · have hd : decide (e.1 = k) = false := by simp [hk]
      cases hpe : p e
      · simp only [Bool.false_eq_true, if_false]
        rw [List.find?_cons, hd, ih]
      · simp only [if_true]
        rw [List.find?_cons, List.find?_cons, hd, ih]

/-- What the referrer passes keep: the names. -/
def NamesAre (f : Nat → Option (Node × Nat)) (acc : Except OErr OciSt) : Prop :=
  ∀ s, acc = .ok s → ∀ t, s.lookupRef (.tag t) = f t

theorem names_refStep (c : OciCfg) (fixed : Bool) (B : List Node) (fuel : Nat) (f : Nat → Option (Node × Nat))
    (acc : Except OErr OciSt) (e : RefKey × Node × Nat) (h : NamesAre f acc) :
    NamesAre f (gcRefStep c fixed B fuel acc e) := by
  intro s' hs' t
  unfold gcRefStep at hs'
  cases acc with
  | error err => cases hs'
  | ok s =>
    have hs := h s rfl t
    simp only at hs'
    split at hs'
    · cases hs'; exact hs
    · split at hs'
      · cases hs'
      · cases hs'; exact hs
      · cases hs'
        show (s.resolverTag e.2.1 e.2.2 (.dig e.2.1)).lookupRef (.tag t) = f t
        rw [lookupRef_resolverTag_other _ _ _ _ _ (by intro h'; cases h')]
        exact hs

theorem names_pass (c : OciCfg) (fixed : Bool) (B : List Node) (fuel : Nat) (f : Nat → Option (Node × Nat)) :
    ∀ (rest : List (RefKey × Node × Nat)) (acc : Except OErr OciSt), NamesAre f acc →
      NamesAre f (gcPass c fixed B fuel rest acc) := by
  intro rest
  induction rest with
  | nil => intro acc h; exact h
  | cons e es ih =>
    intro acc h
    unfold gcPass
    simp only [List.foldl_cons]
    exact ih _ (names_refStep c fixed B fuel f acc e h)

theorem names_passes (c : OciCfg) (fixed : Bool) (B : List Node) (fuel : Nat) (f : Nat → Option (Node × Nat))
    (rest : List (RefKey × Node × Nat)) :
    ∀ (l : List Nat) (acc : Except OErr OciSt), NamesAre f acc →
      NamesAre f (l.foldl (fun acc _ => gcPass c fixed B fuel rest acc) acc) := by
  intro l
  induction l with
  | nil => intro acc h; exact h
  | cons _ t ih =>
    intro acc h
    simp only [List.foldl_cons]
    exact ih _ (names_pass c fixed B fuel f rest acc h)

/-- **The rebuilt index resolves every name as before.** -/
theorem gcIndex_names (c : OciCfg) (fixed repeatPass : Bool) (st s : OciSt) (fuel : Nat) (hu : RefUniq st)
    (hok : gcIndex c fixed repeatPass st fuel = .ok s) (t : Nat) :
    s.lookupRef (.tag t) = st.lookupRef (.tag t) := by
  unfold gcIndex at hok
  simp only at hok
  -- the tagged-entries fold
  have hnd : (st.gcNamed.map (·.1)).Nodup := by
    unfold gcNamed
    exact List.Nodup.sublist (List.Sublist.map _ List.filter_sublist) hu
  have h0 : NamesAre (fun t => st.lookupRef (.tag t))
      (.ok (st.gcNamed.foldl (gcTagStep c st.blobs fuel) st.gcFresh)) := by
    intro s0 hs0 t
    cases hs0
    rw [gcTagFold_lookup_tag c st.blobs fuel t st.gcNamed st.gcFresh hnd]
    have hfind : st.gcNamed.find? (fun e => e.1 = .tag t) = st.refs.find? (fun e => e.1 = .tag t) := by
      unfold gcNamed
      apply find_filter_keeps
      intro e he
      rw [he]
    rw [hfind]
    show (match st.refs.find? (fun e => e.1 = .tag t) with
          | some e => some e.2
          | none => st.gcFresh.lookupRef (.tag t)) = (st.refs.find? (fun e => e.1 = .tag t)).map (·.2)
    generalize st.refs.find? (fun e => e.1 = .tag t) = r
    cases r with
    | none => rfl
    | some e => rfl
  have hfin : NamesAre (fun t => st.lookupRef (.tag t)) (.ok s) := by
    rw [← hok]
    split
    · exact names_passes c fixed st.blobs fuel _ _ _ _ h0
    · exact names_pass c fixed st.blobs fuel _ _ _ h0
  exact hfin s rfl t

/-- `Store.GC`: whether it succeeds or fails, every name resolves as before. -/
theorem gc_names (c : OciCfg) (fixed repeatPass saveAfter : Bool) (st : OciSt) (fuel : Nat) (hu : RefUniq st) (t : Nat) :
    (st.gc c fixed repeatPass saveAfter fuel).1.lookupRef (.tag t) = st.lookupRef (.tag t) := by
  unfold gc
  cases h : gcIndex c fixed repeatPass st fuel with
  | error e => rfl
  | ok s =>
    simp only
    have hn := gcIndex_names c fixed repeatPass st s fuel hu h t
    have hb : ∀ (x : OciSt) (b : List Node), ({ x with blobs := b } : OciSt).lookupRef (.tag t) = x.lookupRef (.tag t) :=
      fun _ _ => rfl
    split
    · rw [lookupRef_autosave, hb]; exact hn
    · rw [hb]; exact hn

end OciSt
end Oras
