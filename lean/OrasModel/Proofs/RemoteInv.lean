/-
  C13 helper lemmas: the registry invariant (stored content is filed under its own
  digest) and what single exchanges do to the registry state.
-/
import OrasModel.Proofs.Remote
namespace Oras.Proofs.Remote
open Oras Oras.Remote

section
variable {Body Dig : Type} [DecidableEq Dig]

/-- Every stored blob and manifest is filed under the digest of its bytes. -/
def RegInv (cx : Ctx Body Dig) (g : Reg Body Dig) : Prop :=
  ∀ repo, (∀ d b, alookup (g.repos repo).blobs d = some b → cx.H b = d) ∧
          (∀ d mt b, alookup (g.repos repo).mans d = some (mt, b) → cx.H b = d)

theorem regInv_empty (cx : Ctx Body Dig) : RegInv cx (Reg.empty : Reg Body Dig) := by
  intro repo; simp [Reg.empty, alookup]

theorem regInv_set (cx : Ctx Body Dig) (g : Reg Body Dig) (name : String) (r : RepoSt Body Dig)
    (h : RegInv cx g)
    (hb : ∀ d b, alookup r.blobs d = some b → cx.H b = d)
    (hm : ∀ d mt b, alookup r.mans d = some (mt, b) → cx.H b = d) :
    RegInv cx (g.set name r) := by
  intro repo
  by_cases e : repo = name
  · subst e; simp only [set_repos_same]; exact ⟨hb, hm⟩
  · rw [set_repos_other g name repo r e]; exact h repo

theorem regInv_next (cx : Ctx Body Dig) (g : Reg Body Dig) (n : Nat) (h : RegInv cx g) :
    RegInv cx { g with next := n } := h

theorem regInv_serve (cx : Ctx Body Dig) (p : Prof) (g : Reg Body Dig) (q : Req Body Dig)
    (h : RegInv cx g) : RegInv cx (serve cx p g q).1 := by
  cases q with
  | headBlob repo d => simp only [serve]; split <;> exact h
  | getBlob repo d => simp only [serve]; split <;> exact h
  | deleteBlob repo d =>
    simp only [serve]; split
    · exact h
    · refine regInv_set cx g repo _ h ?_ (h repo).2
      intro d' b hb
      rw [alookup_adel] at hb
      split at hb
      · cases hb
      · exact (h repo).1 d' b hb
  | postUpload repo =>
    simp only [serve]
    exact regInv_set cx g repo _ h (h repo).1 (h repo).2
  | postMount repo d src =>
    simp only [serve]
    split
    · rename_i b hb
      refine regInv_set cx g repo _ h ?_ (h repo).2
      intro d' b' hb'
      rw [alookup_aset] at hb'
      split at hb'
      · injection hb' with hb'
        subst hb'
        rename_i hd
        subst hd
        split at hb
        · exact (h src).1 _ _ hb
        · cases hb
      · exact (h repo).1 d' b' hb'
    · exact regInv_set cx g repo _ h (h repo).1 (h repo).2
  | putUpload repo s d n b =>
    simp only [serve]
    split
    · exact h
    · split
      · exact h
      · rename_i hH
        refine regInv_set cx g repo _ h ?_ (h repo).2
        intro d' b' hb'
        rw [alookup_aset] at hb'
        split at hb'
        · injection hb' with hb'
          subst hb'
          rename_i hd
          subst hd
          exact Decidable.of_not_not hH
        · exact (h repo).1 d' b' hb'
  | headMan repo r => simp only [serve]; split <;> exact h
  | getMan repo r => simp only [serve]; split <;> exact h
  | putMan repo r ct n b =>
    simp only [serve]
    split
    · split
      · exact h
      · refine regInv_set cx g repo _ h (h repo).1 ?_
        intro d' mt' b' hb'
        rw [alookup_aset] at hb'
        split at hb'
        · injection hb' with hb'
          injection hb' with h1 h2
          subst h2
          rename_i hd
          exact hd.symm
        · exact (h repo).2 d' mt' b' hb'
    · refine regInv_set cx g repo _ h (h repo).1 ?_
      intro d' mt' b' hb'
      rw [alookup_aset] at hb'
      split at hb'
      · injection hb' with hb'
        injection hb' with h1 h2
        subst h2
        rename_i hd
        exact hd.symm
      · exact (h repo).2 d' mt' b' hb'
  | deleteMan repo d =>
    simp only [serve]; split
    · exact h
    · refine regInv_set cx g repo _ h (h repo).1 ?_
      intro d' mt' b' hb'
      rw [alookup_adel] at hb'
      split at hb'
      · cases hb'
      · exact (h repo).2 d' mt' b' hb'

end
end Oras.Proofs.Remote
