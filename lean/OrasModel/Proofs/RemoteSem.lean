/-
  C13 helper lemmas: what each uncorrupted call returns, as a function of the registry
  state alone (the refinement to "a content store with tags").
-/
import OrasModel.Proofs.RemoteOps
set_option linter.unusedSimpArgs false
namespace Oras.Proofs.Remote
open Oras Oras.Remote

section
variable {Body Dig : Type} [DecidableEq Dig]

theorem fetchBlob_sem (cx : Ctx Body Dig) (p : Prof) (g : Reg Body Dig) (rs : RState) (repo : String) (t : Desc Dig) :
    (fetchBlob cx p none g rs repo t).reg = g ∧ (fetchBlob cx p none g rs repo t).rs = rs ∧
    (fetchBlob cx p none g rs repo t).res =
      (match alookup (g.repos repo).blobs t.dig with
       | none => .err .notFound
       | some b => if cx.len b ≠ t.size then .err .lengthMismatch else .body b p.rg) := by
  cases h : alookup (g.repos repo).blobs t.dig with
  | none => simp [fetchBlob, serve, applyCorrupt, h, statusErr]
  | some b =>
    by_cases hl : cx.len b = t.size
    · cases hd : p.dh <;> simp [fetchBlob, serve, applyCorrupt, h, blobFetchCheck, verifyContentDigest, hl, hd]
    · cases hd : p.dh <;> simp [fetchBlob, serve, applyCorrupt, h, blobFetchCheck, verifyContentDigest, hl, hd]

theorem fetchManifest_sem (cx : Ctx Body Dig) (p : Prof) (g : Reg Body Dig) (rs : RState) (repo : String) (t : Desc Dig) :
    (fetchManifest cx p none g rs repo t).reg = g ∧ (fetchManifest cx p none g rs repo t).rs = rs ∧
    (fetchManifest cx p none g rs repo t).res =
      (match alookup (g.repos repo).mans t.dig with
       | none => .err .notFound
       | some (mt, b) =>
         if mt ≠ t.mt then .err .mediaTypeMismatch
         else if cx.len b ≠ t.size then .err .lengthMismatch else .body b false) := by
  cases h : alookup (g.repos repo).mans t.dig with
  | none => simp [fetchManifest, serve, applyCorrupt, resolveRef, h, statusErr]
  | some v =>
    obtain ⟨mt, b⟩ := v
    by_cases hm : mt = t.mt
    · by_cases hl : cx.len b = t.size
      · cases hd : p.dh <;> simp [fetchManifest, serve, applyCorrupt, resolveRef, h, manResp, manFetchCheck, verifyContentDigest, hl, hd, hm]
      · cases hd : p.dh <;> simp [fetchManifest, serve, applyCorrupt, resolveRef, h, manResp, manFetchCheck, verifyContentDigest, hl, hd, hm]
    · cases hd : p.dh <;> simp [fetchManifest, serve, applyCorrupt, resolveRef, h, manResp, manFetchCheck, verifyContentDigest, hd, hm]

theorem resolveBlob_sem (cx : Ctx Body Dig) (p : Prof) (g : Reg Body Dig) (rs : RState) (repo : String) (d : Dig) :
    (resolveBlob cx p none g rs repo d).reg = g ∧ (resolveBlob cx p none g rs repo d).rs = rs ∧
    (resolveBlob cx p none g rs repo d).res =
      (match alookup (g.repos repo).blobs d with
       | none => .err .notFound
       | some b => .desc ⟨octet, d, cx.len b⟩) := by
  cases h : alookup (g.repos repo).blobs d with
  | none => simp [resolveBlob, serve, applyCorrupt, h, statusErr]
  | some b => cases hd : p.dh <;> simp [resolveBlob, serve, applyCorrupt, h, genBlobDesc, verifyContentDigest, hd, octet]

/-- What the manifests end-point holds under a reference. -/
def manAt (g : Reg Body Dig) (repo : String) (ref : Ref Dig) : Option (Dig × String × Body) :=
  (resolveRef (g.repos repo) ref).bind (fun d => (alookup (g.repos repo).mans d).map (fun m => (d, m)))

theorem resolveManifest_sem (cx : Ctx Body Dig) (p : Prof) (g : Reg Body Dig) (rs : RState) (repo : String)
    (ref : Ref Dig) :
    (resolveManifest cx p none g rs repo ref).reg = g ∧ (resolveManifest cx p none g rs repo ref).rs = rs ∧
    (resolveManifest cx p none g rs repo ref).res =
      (match manAt g repo ref with
       | none => .err .notFound
       | some (d, mt, b) =>
         match ref with
         | .dig _ => .desc ⟨mt, d, cx.len b⟩
         | .tag _ => if p.dh then .desc ⟨mt, d, cx.len b⟩ else .err .missingDigestHeader) := by
  have hm : manAt g repo ref =
      (resolveRef (g.repos repo) ref).bind (fun d => (alookup (g.repos repo).mans d).map (fun m => (d, m))) := rfl
  cases h : manAt g repo ref with
  | none =>
    rw [hm] at h
    simp [resolveManifest, serve, applyCorrupt, h, statusErr]
  | some v =>
    obtain ⟨d, mt, b⟩ := v
    rw [hm] at h
    cases ref with
    | dig d' =>
      have hd' : d' = d := by
        simp only [resolveRef, Option.bind] at h
        cases hl : alookup (g.repos repo).mans d' with
        | none => simp [hl] at h
        | some m => simp [hl] at h; exact h.1
      subst hd'
      cases hd : p.dh <;> simp [resolveManifest, serve, applyCorrupt, h, manResp, genManifestDesc, refDigest?, hd]
    | tag t => cases hd : p.dh <;> simp [resolveManifest, serve, applyCorrupt, h, manResp, genManifestDesc, refDigest?, hd]

theorem fetchRefBlob_sem (cx : Ctx Body Dig) (p : Prof) (g : Reg Body Dig) (rs : RState) (repo : String) (d : Dig) :
    (fetchRefBlob cx p none g rs repo d).reg = g ∧ (fetchRefBlob cx p none g rs repo d).rs = rs ∧
    (fetchRefBlob cx p none g rs repo d).res =
      (match alookup (g.repos repo).blobs d with
       | none => .err .notFound
       | some b => .descBody ⟨octet, d, cx.len b⟩ b p.rg) := by
  cases h : alookup (g.repos repo).blobs d with
  | none => simp [fetchRefBlob, serve, applyCorrupt, h, statusErr]
  | some b => cases hd : p.dh <;> simp [fetchRefBlob, serve, applyCorrupt, h, genBlobDesc, verifyContentDigest, hd, octet]

/-- `FetchReference` on manifests needs the registry invariant when the digest header is
    absent: the digest is then computed from the body, which is filed under its own digest. -/
theorem fetchRefManifest_sem (cx : Ctx Body Dig) (p : Prof) (g : Reg Body Dig) (rs : RState) (repo : String)
    (ref : Ref Dig) (hinv : RegInv cx g) :
    (fetchRefManifest cx p none g rs repo ref).reg = g ∧ (fetchRefManifest cx p none g rs repo ref).rs = rs ∧
    (fetchRefManifest cx p none g rs repo ref).res =
      (match manAt g repo ref with
       | none => .err .notFound
       | some (d, mt, b) => .descBody ⟨mt, d, cx.len b⟩ b false) := by
  have hm : manAt g repo ref =
      (resolveRef (g.repos repo) ref).bind (fun d => (alookup (g.repos repo).mans d).map (fun m => (d, m))) := rfl
  cases h : manAt g repo ref with
  | none =>
    rw [hm] at h
    simp [fetchRefManifest, serve, applyCorrupt, h, statusErr]
  | some v =>
    obtain ⟨d, mt, b⟩ := v
    rw [hm] at h
    have hH : cx.H b = d := by
      cases hr : resolveRef (g.repos repo) ref with
      | none => simp [hr] at h
      | some d' =>
        simp only [hr, Option.bind] at h
        cases hl : alookup (g.repos repo).mans d' with
        | none => simp [hl] at h
        | some m =>
          simp only [hl, Option.map, Option.some.injEq, Prod.mk.injEq] at h
          obtain ⟨h1, h2⟩ := h
          subst h1 h2
          exact (hinv repo).2 d' _ _ hl
    cases ref with
    | dig d' =>
      have hd' : d' = d := by
        simp only [resolveRef, Option.bind] at h
        cases hl : alookup (g.repos repo).mans d' with
        | none => simp [hl] at h
        | some m => simp [hl] at h; exact h.1
      subst hd'
      cases hd : p.dh <;> simp [fetchRefManifest, serve, applyCorrupt, h, manResp, genManifestDesc, refDigest?, hd, hH]
    | tag t => cases hd : p.dh <;> simp [fetchRefManifest, serve, applyCorrupt, h, manResp, genManifestDesc, refDigest?, hd, hH]

/-- A successful blob push leaves exactly that body under the descriptor's digest, and only
    content matching the descriptor is ever accepted. -/
theorem pushBlob_ok (cx : Ctx Body Dig) (p : Prof) (g : Reg Body Dig) (rs : RState) (repo : String)
    (d : Desc Dig) (b : Body) (h : (pushBlob cx p g rs repo d b).res = .ok) :
    cx.H b = d.dig ∧ cx.len b = d.size ∧
    alookup ((pushBlob cx p g rs repo d b).reg.repos repo).blobs d.dig = some b := by
  unfold pushBlob at h ⊢
  simp only [serve] at h ⊢
  simp only [ne_eq, not_true_eq_false, if_false] at h ⊢
  by_cases hl : cx.len b = d.size
  · simp only [hl, not_true_eq_false, if_false, set_repos_same, List.contains_cons, beq_self_eq_true, Bool.true_or,
      not_true_eq_false, if_false] at h ⊢
    by_cases hH : cx.H b = d.dig
    · simp [hH, alookup_aset]
    · simp [hH] at h
  · simp [hl] at h

theorem pushBlob_complete (cx : Ctx Body Dig) (p : Prof) (g : Reg Body Dig) (rs : RState) (repo : String)
    (d : Desc Dig) (b : Body) (hH : cx.H b = d.dig) (hl : cx.len b = d.size) :
    (pushBlob cx p g rs repo d b).res = .ok := by
  unfold pushBlob
  simp [serve, hl, hH]

/-- A successful manifest PUT stores the body under the digest of its bytes, with the
    descriptor's media type; under a digest reference that digest is the descriptor's. -/
theorem putManifest_ok (cx : Ctx Body Dig) (p : Prof) (g : Reg Body Dig) (rs : RState) (repo : String)
    (d : Desc Dig) (b : Body) (ref : Ref Dig) (k : Bool)
    (h : (putManifest cx p g rs repo d b ref k).res = .ok) :
    alookup ((putManifest cx p g rs repo d b ref k).reg.repos repo).mans (cx.H b) = some (d.mt, b) ∧
    (∀ t, ref = .tag t → alookup ((putManifest cx p g rs repo d b ref k).reg.repos repo).tags t = some (cx.H b)) ∧
    (ref = .dig d.dig → cx.H b = d.dig) ∧ (p.dh = true → cx.H b = d.dig) ∧ (k = true → cx.len b = d.size) := by
  by_cases he : cx.H b = d.dig <;> by_cases hlen : cx.len b = d.size <;> cases hdh : p.dh <;> cases k <;>
    cases ref with
    | tag t =>
      simp [putManifest, serve, verifyContentDigest, hdh, he, hlen, alookup_aset] at h ⊢
    | dig d' =>
      by_cases hd : d' = cx.H b
      · subst hd
        simp [putManifest, serve, verifyContentDigest, hdh, he, hlen, alookup_aset] at h ⊢
        all_goals (first | exact he | exact fun e => e.symm | skip)
      · simp [putManifest, serve, verifyContentDigest, hdh, hlen, hd] at h

theorem pushManifest_ok (cx : Ctx Body Dig) (p : Prof) (g : Reg Body Dig) (rs : RState) (repo : String)
    (d : Desc Dig) (b : Body) (ref : Ref Dig)
    (h : (pushManifest cx p g rs repo d b ref).res = .ok) :
    alookup ((pushManifest cx p g rs repo d b ref).reg.repos repo).mans (cx.H b) = some (d.mt, b) ∧
    (∀ t, ref = .tag t → alookup ((pushManifest cx p g rs repo d b ref).reg.repos repo).tags t = some (cx.H b)) ∧
    (ref = .dig d.dig → cx.H b = d.dig) ∧ cx.len b = d.size := by
  have key : ∀ o : Out Body Dig, o = putManifest cx p g rs repo d b ref true → o.res = .ok →
      alookup (o.reg.repos repo).mans (cx.H b) = some (d.mt, b) ∧
      (∀ t, ref = .tag t → alookup (o.reg.repos repo).tags t = some (cx.H b)) ∧
      (ref = .dig d.dig → cx.H b = d.dig) ∧ cx.len b = d.size := by
    intro o ho hres
    subst ho
    obtain ⟨h1, h2, h3, _, h5⟩ := putManifest_ok cx p g rs repo d b ref true hres
    exact ⟨h1, h2, h3, h5 rfl⟩
  unfold pushManifest at h ⊢
  split at h
  · rename_i hc
    simp only [hc, if_true] at ⊢
    split at h
    · cases h
    · rename_i hgood
      simp only [hgood, if_false] at ⊢
      simp only [] at h ⊢
      generalize ho : putManifest cx p g rs repo d b ref true = o at h ⊢
      cases hres : o.res <;> simp only [hres] at h ⊢ <;> (try cases h)
      all_goals first
        | exact key o ho.symm hres
        | (split <;> (try split) <;> exact key o ho.symm hres)
  · rename_i hc
    simp only [hc, if_false] at ⊢
    exact key _ rfl h

/-- `Delete` removes exactly the named entry and reports not-found for an absent one. -/
theorem deleteRaw_sem (cx : Ctx Body Dig) (p : Prof) (g : Reg Body Dig) (rs : RState) (repo : String) (t : Desc Dig) :
    (match alookup (g.repos repo).blobs t.dig with
     | none => (deleteRaw cx p none g rs repo t false).res = .err .notFound ∧
               (deleteRaw cx p none g rs repo t false).reg = g
     | some _ => (deleteRaw cx p none g rs repo t false).res = .ok ∧
               alookup ((deleteRaw cx p none g rs repo t false).reg.repos repo).blobs t.dig = none) ∧
    (match alookup (g.repos repo).mans t.dig with
     | none => (deleteRaw cx p none g rs repo t true).res = .err .notFound ∧
               (deleteRaw cx p none g rs repo t true).reg = g
     | some _ => (deleteRaw cx p none g rs repo t true).res = .ok ∧
               alookup ((deleteRaw cx p none g rs repo t true).reg.repos repo).mans t.dig = none) := by
  constructor
  · cases h : alookup (g.repos repo).blobs t.dig with
    | none => simp [deleteRaw, serve, applyCorrupt, h, statusErr]
    | some b => simp [deleteRaw, serve, applyCorrupt, h, verifyContentDigest, alookup_adel]
  · cases h : alookup (g.repos repo).mans t.dig with
    | none => simp [deleteRaw, serve, applyCorrupt, h, statusErr]
    | some b => simp [deleteRaw, serve, applyCorrupt, h, verifyContentDigest, alookup_adel]

/-- `Mount`: with a registry that mounts, or through the pull-and-push fallback, the blob of
    the source repository ends up in the target repository; an absent source is an error
    (not-found) and nothing is stored. -/
theorem mountBlob_sem (cx : Ctx Body Dig) (p : Prof) (g : Reg Body Dig) (rs : RState) (repo src : String)
    (d : Desc Dig) (hinv : RegInv cx g) (hne : src ≠ repo) :
    (∀ b, alookup (g.repos src).blobs d.dig = some b → cx.len b = d.size →
        (mountBlob cx p g rs repo d src).res = .ok ∧
        alookup ((mountBlob cx p g rs repo d src).reg.repos repo).blobs d.dig = some b) ∧
    (alookup (g.repos src).blobs d.dig = none →
        (mountBlob cx p g rs repo d src).res = .err .notFound ∧
        ((mountBlob cx p g rs repo d src).reg.repos repo).blobs = (g.repos repo).blobs) := by
  constructor
  · intro b h hl
    have hH : cx.H b = d.dig := (hinv src).1 _ _ h
    cases hm : p.mt
    · cases hdh : p.dh <;>
        simp [mountBlob, serve, hm, h, fetchBlob, applyCorrupt, set_repos_other _ _ _ _ hne, blobFetchCheck,
          verifyContentDigest, hl, hdh, hH, alookup_aset]
    · simp [mountBlob, serve, hm, h, verifyContentDigest, alookup_aset]
  · intro h
    cases hm : p.mt <;>
      simp [mountBlob, serve, hm, h, fetchBlob, applyCorrupt, set_repos_other _ _ _ _ hne, statusErr]

/-- `Exists`: true exactly for stored content, on either end-point. -/
theorem exists_sem (cx : Ctx Body Dig) (p : Prof) (g : Reg Body Dig) (rs : RState) (repo : String) (d : Dig) :
    (existsOf (resolveBlob cx p none g rs repo d)).res = .bool (alookup (g.repos repo).blobs d).isSome ∧
    (existsOf (resolveManifest cx p none g rs repo (.dig d))).res = .bool (alookup (g.repos repo).mans d).isSome := by
  constructor
  · have h := (resolveBlob_sem cx p g rs repo d).2.2
    unfold existsOf
    rw [h]
    cases alookup (g.repos repo).blobs d <;> simp
  · have h := (resolveManifest_sem cx p g rs repo (.dig d)).2.2
    unfold existsOf
    rw [h]
    unfold manAt
    simp only [resolveRef, Option.bind]
    cases alookup (g.repos repo).mans d <;> simp

theorem fetchManifest_body (cx : Ctx Body Dig) (p : Prof) (g : Reg Body Dig) (rs : RState) (repo : String)
    (t : Desc Dig) (b : Body) (sk : Bool) (h : (fetchManifest cx p none g rs repo t).res = .body b sk) :
    cx.len b = t.size ∧ alookup (g.repos repo).mans t.dig = some (t.mt, b) := by
  rw [(fetchManifest_sem cx p g rs repo t).2.2] at h
  cases hl : alookup (g.repos repo).mans t.dig with
  | none => simp [hl] at h
  | some v =>
    obtain ⟨mt, b'⟩ := v
    simp only [hl] at h
    by_cases hm : mt = t.mt
    · by_cases hs : cx.len b' = t.size
      · simp [hm, hs] at h; obtain ⟨h1, _⟩ := h; subst h1; exact ⟨hs, by rw [hm]⟩
      · simp [hm, hs] at h
    · simp [hm] at h

theorem fetchBlob_body (cx : Ctx Body Dig) (p : Prof) (g : Reg Body Dig) (rs : RState) (repo : String)
    (t : Desc Dig) (b : Body) (sk : Bool) (h : (fetchBlob cx p none g rs repo t).res = .body b sk) :
    cx.len b = t.size ∧ alookup (g.repos repo).blobs t.dig = some b := by
  rw [(fetchBlob_sem cx p g rs repo t).2.2] at h
  cases hl : alookup (g.repos repo).blobs t.dig with
  | none => simp [hl] at h
  | some b' =>
    simp only [hl] at h
    by_cases hs : cx.len b' = t.size
    · simp [hs] at h; obtain ⟨h1, _⟩ := h; subst h1; exact ⟨hs, rfl⟩
    · simp [hs] at h

/-- Every request an uncorrupted call sends is one the specification allows. -/
theorem allowed_pushBlob (cx : Ctx Body Dig) (p : Prof) (g : Reg Body Dig) (rs : RState) (repo : String)
    (d : Desc Dig) (b : Body) : ∀ q ∈ (pushBlob cx p g rs repo d b).trace, Allowed cx q = true := by
  unfold pushBlob
  simp only []
  split
  · simp [Allowed]
  · split
    · simp [Allowed]
    · split
      · simp [Allowed]
      · rename_i hl
        have : cx.len b = d.size := Decidable.of_not_not hl
        simp [Allowed, this]

theorem allowed_putManifest (cx : Ctx Body Dig) (p : Prof) (g : Reg Body Dig) (rs : RState) (repo : String)
    (d : Desc Dig) (b : Body) (ref : Ref Dig) (k : Bool) (hk : k = true ∨ cx.len b = d.size) :
    ∀ q ∈ (putManifest cx p g rs repo d b ref k).trace, Allowed cx q = true := by
  unfold putManifest
  split
  · simp
  · rename_i hc
    have hl : cx.len b = d.size := by
      rcases hk with hk | hk
      · subst hk; simpa using hc
      · exact hk
    simp only []
    split
    · simp [Allowed, hl]
    · split <;> simp [Allowed, hl]

theorem allowed_pushManifest (cx : Ctx Body Dig) (p : Prof) (g : Reg Body Dig) (rs : RState) (repo : String)
    (d : Desc Dig) (b : Body) (ref : Ref Dig) :
    ∀ q ∈ (pushManifest cx p g rs repo d b ref).trace, Allowed cx q = true := by
  have hp := allowed_putManifest cx p g rs repo d b ref true (Or.inl rfl)
  unfold pushManifest
  split
  · split
    · simp
    · simp only []
      generalize putManifest cx p g rs repo d b ref true = o at hp ⊢
      cases hres : o.res <;> simp only [] <;> (try exact hp)
      split
      · exact hp
      · split <;> exact hp
  · exact hp

theorem allowed_tagManifest (cx : Ctx Body Dig) (p : Prof) (g : Reg Body Dig) (rs : RState) (repo : String)
    (d : Desc Dig) (t : String) :
    ∀ q ∈ (tagManifest cx p none g rs repo d t).trace, Allowed cx q = true := by
  have hf : ∀ q ∈ (fetchManifest cx p none g rs repo d).trace, Allowed cx q = true := by
    unfold fetchManifest
    simp only []
    split
    · split <;> simp [Allowed]
    · simp [Allowed]
  unfold tagManifest
  simp only []
  cases hres : (fetchManifest cx p none g rs repo d).res <;> simp only [] <;> (try exact hf)
  rename_i b sk
  have hl := (fetchManifest_body cx p g rs repo d b sk hres).1
  intro q hq
  split at hq
  · exact hf q hq
  · rw [List.mem_append] at hq
    rcases hq with hq | hq
    · exact hf q hq
    · exact allowed_putManifest cx p _ _ repo d b (.tag t) false (Or.inr hl) q hq

theorem allowed_mountBlob (cx : Ctx Body Dig) (p : Prof) (g : Reg Body Dig) (rs : RState) (repo src : String)
    (d : Desc Dig) : ∀ q ∈ (mountBlob cx p g rs repo d src).trace, Allowed cx q = true := by
  have hf : ∀ g', ∀ q ∈ (fetchBlob cx p none g' rs src d).trace, Allowed cx q = true := by
    intro g'
    unfold fetchBlob
    simp only []
    split
    · split <;> simp [Allowed]
    · simp [Allowed]
  unfold mountBlob
  simp only []
  split
  · split <;> simp [Allowed]
  · split
    · simp [Allowed]
    · generalize hg1 : (serve cx p g (Req.postMount repo d.dig src)).1 = g1
      cases hres : (fetchBlob cx p none g1 rs src d).res <;>
        cases hloc : (serve cx p g (Req.postMount repo d.dig src)).2.location <;>
        simp only [] <;>
        (try (intro q hq; rw [List.mem_cons] at hq; rcases hq with hq | hq
              · subst hq; simp [Allowed]
              · exact hf g1 q hq))
      rename_i b sk s
      have hl := (fetchBlob_body cx p g1 rs src d b sk hres).1
      intro q hq
      simp only [List.mem_cons, List.mem_append, List.mem_singleton] at hq
      rcases hq with (hq | hq) | hq | hq
      · subst hq; simp [Allowed]
      · exact hf g1 q hq
      · subst hq; simp [Allowed, hl]
      · cases hq

end
end Oras.Proofs.Remote
