/- Permit accounting of the limiter (C04). -/
import OrasModel.Model.Permits
namespace Oras

theorem countP_set {α : Type} (p : α → Bool) :
    ∀ (l : List α) (i : Nat) (a b : α), l[i]? = some a →
      (l.set i b).countP p + (if p a then 1 else 0) = l.countP p + (if p b then 1 else 0) := by
  intro l
  induction l with
  | nil => intro i a b h; simp at h
  | cons x xs ih =>
    intro i a b h
    cases i with
    | zero =>
      simp only [List.getElem?_cons_zero, Option.some.injEq] at h
      subst h
      simp only [List.set_cons_zero, List.countP_cons]
      omega
    | succ k =>
      simp only [List.getElem?_cons_succ] at h
      have := ih k a b h
      simp only [List.set_cons_succ, List.countP_cons]
      omega

structure PermitInv (s : PermitSt) : Prop where
  conserve : s.avail + holders s.regions = s.limit
  busyHolds : ∀ r ∈ s.regions, r.busy = true → r.ended = false

theorem permitInv_init (limit : Nat) : PermitInv (PermitSt.init limit) :=
  ⟨by simp [PermitSt.init, holders], by intro r h; simp [PermitSt.init] at h⟩

theorem mem_set_cases {α : Type} (l : List α) (i : Nat) (b x : α) (h : x ∈ l.set i b) : x = b ∨ x ∈ l := by
  rcases List.mem_or_eq_of_mem_set h with h | h
  · exact Or.inr h
  · exact Or.inl h

theorem permitInv_step (s t : PermitSt) (h : PermitInv s) (st : PermitStep s t) : PermitInv t := by
  cases st with
  | spawn =>
    constructor
    · have := h.conserve
      simp only [holders, List.countP_append, List.countP_cons, List.countP_nil] at this ⊢
      simpa using this
    · intro r hr
      rcases List.mem_append.mp hr with hr | hr
      · exact h.busyHolds r hr
      · simp only [List.mem_singleton] at hr; subst hr; intro hb; cases hb
  | start i r hi he ha =>
    constructor
    · have hc := countP_set (fun r : Region => !r.ended) s.regions i r { r with ended := false } hi
      have := h.conserve
      simp only [holders] at this hc ⊢
      simp only [he, Bool.not_true, Bool.false_eq_true, if_false, Bool.not_false, if_true] at hc
      omega
    · intro x hx
      rcases mem_set_cases _ _ _ _ hx with e | e
      · subst e; intro _; rfl
      · exact h.busyHolds x e
  | noop => exact h
  | end_ i r hi he hb =>
    constructor
    · have hc := countP_set (fun r : Region => !r.ended) s.regions i r { r with ended := true } hi
      have := h.conserve
      simp only [holders] at this hc ⊢
      simp only [he, Bool.not_false, if_true, Bool.not_true, Bool.false_eq_true, if_false] at hc
      omega
    · intro x hx
      rcases mem_set_cases _ _ _ _ hx with e | e
      · subst e; intro hb'; simp only at hb'; rw [hb] at hb'; cases hb'
      · exact h.busyHolds x e
  | beginOp i r hi he hb =>
    constructor
    · have hc := countP_set (fun r : Region => !r.ended) s.regions i r { r with busy := true } hi
      have := h.conserve
      simp only [holders] at this hc ⊢
      omega
    · intro x hx
      rcases mem_set_cases _ _ _ _ hx with e | e
      · subst e; intro _; exact he
      · exact h.busyHolds x e
  | endOp i r hi hb =>
    constructor
    · have hc := countP_set (fun r : Region => !r.ended) s.regions i r { r with busy := false } hi
      have := h.conserve
      simp only [holders] at this hc ⊢
      omega
    · intro x hx
      rcases mem_set_cases _ _ _ _ hx with e | e
      · subst e; intro hb'; cases hb'
      · exact h.busyHolds x e

theorem permitInv_reach (limit : Nat) (s : PermitSt) (h : PermitReach limit s) : PermitInv s ∧ s.limit = limit := by
  induction h with
  | init => exact ⟨permitInv_init limit, rfl⟩
  | step _ st ih =>
    refine ⟨permitInv_step _ _ ih.1 st, ?_⟩
    cases st <;> exact ih.2

end Oras
