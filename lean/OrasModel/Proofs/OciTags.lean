/-
  Exactness of the resolver's per-node tag sets (`resolver.Memory.tags`), on which
  `Store.isTagged` — and with it the auto-GC cascade — relies (C09, finding F16).
-/
import OrasModel.Proofs.OciDelete
namespace Oras
namespace OciSt

/-- Every name in a node's tag set is a live reference to that node, and tag sets are
    duplicate-free (they are `set.Set`s). -/
def TagsExact (st : OciSt) : Prop :=
  (∀ n k, k ∈ st.tagsOf n → ∃ a, st.lookupRef k = some (n, a)) ∧ (∀ n, (st.tagsOf n).Nodup)

theorem tagsExact_empty : TagsExact OciSt.empty := by
  constructor
  · intro n k h; simp [OciSt.empty] at h
  · intro n; simp [OciSt.empty]

theorem dropOld_subset (st : OciSt) (n : Node) (k k' : RefKey) (m : Node)
    (h : k' ∈ st.dropOld n k m) : k' ∈ st.tagsOf m := by
  unfold dropOld at h
  split at h
  · split at h
    · exact List.mem_of_mem_erase h
    · exact h
  · exact h

theorem dropOld_nodup (st : OciSt) (n : Node) (k : RefKey) (m : Node)
    (h : (st.tagsOf m).Nodup) : (st.dropOld n k m).Nodup := by
  unfold dropOld
  split
  · split
    · exact List.Nodup.erase _ h
    · exact h
  · exact h

/-- After `dropOld`, the moved reference is in no tag set other than (possibly) `n`'s. -/
theorem dropOld_not_mem (st : OciSt) (n : Node) (k : RefKey) (m : Node) (hx : TagsExact st)
    (hmn : m ≠ n) : k ∉ st.dropOld n k m := by
  intro hin
  have hin0 := dropOld_subset st n k k m hin
  obtain ⟨a, hl⟩ := hx.1 m k hin0
  unfold dropOld at hin
  rw [hl] at hin
  simp only [ne_eq, hmn, not_false_eq_true, and_self, if_true] at hin
  exact ((hx.2 m).mem_erase_iff.mp hin).1 rfl

theorem tagsExact_resolverTag (st : OciSt) (n : Node) (a : Nat) (k : RefKey) (hx : TagsExact st) :
    TagsExact (st.resolverTag n a k) := by
  constructor
  · intro m k' hk'
    by_cases hkk : k' = k
    · subst hkk
      by_cases hmn : m = n
      · subst hmn; exact ⟨a, lookupRef_resolverTag_same st m a k'⟩
      · exfalso
        simp only [resolverTag, hmn, if_false] at hk'
        exact dropOld_not_mem st n k' m hx hmn hk'
    · rw [lookupRef_resolverTag_other st n a k k' hkk]
      apply hx.1 m k'
      by_cases hmn : m = n
      · subst hmn
        simp only [resolverTag, if_true] at hk'
        split at hk'
        · exact dropOld_subset st m k k' m hk'
        · rcases List.mem_append.mp hk' with h | h
          · exact dropOld_subset st m k k' m h
          · simp at h; exact absurd h hkk
      · simp only [resolverTag, hmn, if_false] at hk'
        exact dropOld_subset st n k k' m hk'
  · intro m
    by_cases hmn : m = n
    · subst hmn
      simp only [resolverTag, if_true]
      have hd := dropOld_nodup st m k m (hx.2 m)
      split
      · exact hd
      · rename_i hnot
        exact List.nodup_append.mpr ⟨hd, by simp, by
          intro x hx1 y hy; simp at hy; subst hy; intro e; subst e; exact hnot hx1⟩
    · simp only [resolverTag, hmn, if_false]
      exact dropOld_nodup st n k m (hx.2 m)

theorem tagsExact_resolverUntag (st : OciSt) (k : RefKey) (hx : TagsExact st) :
    TagsExact (st.resolverUntag k) := by
  cases hl : st.lookupRef k with
  | none => unfold resolverUntag; rw [hl]; exact hx
  | some v =>
    obtain ⟨n, a⟩ := v
    have htags : (st.resolverUntag k).tagsOf =
        fun m => if m = n then (st.tagsOf n).erase k else st.tagsOf m := by
      unfold resolverUntag; rw [hl]
    constructor
    · intro m k' hk'
      rw [htags] at hk'
      have hne : k' ≠ k := by
        intro e; subst e
        by_cases hmn : m = n
        · simp only [hmn, if_true] at hk'
          exact ((hx.2 n).mem_erase_iff.mp hk').1 rfl
        · simp only [hmn, if_false] at hk'
          obtain ⟨b, hb⟩ := hx.1 m k' hk'
          rw [hl] at hb
          exact hmn (by cases hb; rfl)
      rw [lookupRef_resolverUntag_other st k k' hne]
      apply hx.1 m k'
      by_cases hmn : m = n
      · simp only [hmn, if_true] at hk'; rw [hmn]; exact List.mem_of_mem_erase hk'
      · simp only [hmn, if_false] at hk'; exact hk'
    · intro m
      rw [htags]
      by_cases hmn : m = n
      · simp only [hmn, if_true]; exact List.Nodup.erase _ (hx.2 n)
      · simp only [hmn, if_false]; exact hx.2 m

theorem tagsExact_foldl_untag (ks : List (RefKey × Node × Nat)) (st : OciSt) (h : TagsExact st) :
    TagsExact (ks.foldl (fun s e => s.resolverUntag e.1) st) := by
  induction ks generalizing st with
  | nil => exact h
  | cons k ks ih => simp only [List.foldl_cons]; exact ih _ (tagsExact_resolverUntag st k.1 h)

/-- With exact tag sets, `isTagged` says precisely whether some reference other than the
    node's own digest points to it. -/
theorem isTagged_iff (st : OciSt) (n : Node) (hi : RefTagInv st) (hx : TagsExact st) :
    st.isTagged n = true ↔ ∃ k a, k ≠ RefKey.dig n ∧ st.lookupRef k = some (n, a) := by
  unfold isTagged
  constructor
  · intro h
    by_cases hc : (st.tagsOf n).contains (.dig n) = true
    · simp only [hc, if_true, decide_eq_true_eq] at h
      -- a duplicate-free list of length ≥ 2 has an element other than `.dig n`
      have : ∃ k ∈ st.tagsOf n, k ≠ RefKey.dig n := by
        cases hl : st.tagsOf n with
        | nil => rw [hl] at h; simp at h
        | cons x xs =>
          cases xs with
          | nil => rw [hl] at h; simp at h
          | cons y ys =>
            have hnd := hx.2 n
            rw [hl] at hnd
            by_cases hxd : x = RefKey.dig n
            · refine ⟨y, by simp, ?_⟩
              intro hy
              simp only [List.nodup_cons, List.mem_cons, not_or] at hnd
              exact hnd.1.1 (hxd.trans hy.symm)
            · exact ⟨x, by simp, hxd⟩
      obtain ⟨k, hk, hne⟩ := this
      obtain ⟨a, ha⟩ := hx.1 n k hk
      exact ⟨k, a, hne, ha⟩
    · simp only [hc, Bool.false_eq_true, if_false, decide_eq_true_eq] at h
      cases hl : st.tagsOf n with
      | nil => rw [hl] at h; simp at h
      | cons x xs =>
        have hxin : x ∈ st.tagsOf n := by rw [hl]; simp
        obtain ⟨a, ha⟩ := hx.1 n x hxin
        refine ⟨x, a, ?_, ha⟩
        intro e
        apply hc
        simp only [List.contains_eq_mem, decide_eq_true_eq]
        rw [← e]; exact hxin
  · rintro ⟨k, a, hne, hl⟩
    have hk : k ∈ st.tagsOf n := hi (k, n, a) (mem_of_lookup st k (n, a) hl)
    by_cases hc : (st.tagsOf n).contains (.dig n) = true
    · simp only [hc, if_true, decide_eq_true_eq]
      have hd : RefKey.dig n ∈ st.tagsOf n := by simpa using hc
      cases hl' : st.tagsOf n with
      | nil => rw [hl'] at hk; cases hk
      | cons x xs =>
        cases xs with
        | nil =>
          rw [hl'] at hk hd
          simp only [List.mem_singleton] at hk hd
          exact absurd (hk.trans hd.symm) hne
        | cons y ys => simp
    · simp only [hc, Bool.false_eq_true, if_false, decide_eq_true_eq]
      exact List.length_pos_of_mem hk

end OciSt
end Oras
