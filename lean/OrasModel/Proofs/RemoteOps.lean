/-
  C13 helper lemmas: every client call's registry effect is exactly that of serving its
  request trace in order (so invariants of `serve` lift to calls).
-/
import OrasModel.Proofs.RemoteInv
namespace Oras.Proofs.Remote
open Oras Oras.Remote

section
variable {Body Dig : Type} [DecidableEq Dig]

def replay (cx : Ctx Body Dig) (p : Prof) (g : Reg Body Dig) (trace : List (Req Body Dig)) : Reg Body Dig :=
  trace.foldl (fun g q => (serve cx p g q).1) g

theorem replay_append (cx : Ctx Body Dig) (p : Prof) (g : Reg Body Dig) (a b : List (Req Body Dig)) :
    replay cx p g (a ++ b) = replay cx p (replay cx p g a) b := by
  simp [replay, List.foldl_append]

theorem regInv_replay (cx : Ctx Body Dig) (p : Prof) (tr : List (Req Body Dig)) (g : Reg Body Dig)
    (h : RegInv cx g) : RegInv cx (replay cx p g tr) := by
  induction tr generalizing g with
  | nil => exact h
  | cons q rest ih => exact ih _ (regInv_serve cx p g q h)

/-- A call is *faithful* when its registry effect is the replay of its trace. -/
def Faithful (cx : Ctx Body Dig) (p : Prof) (g : Reg Body Dig) (o : Out Body Dig) : Prop :=
  o.reg = replay cx p g o.trace

theorem pushBlob_faithful (cx : Ctx Body Dig) (p : Prof) (g : Reg Body Dig) (rs : RState) (repo : String)
    (d : Desc Dig) (b : Body) : Faithful cx p g (pushBlob cx p g rs repo d b) := by
  unfold Faithful pushBlob replay
  simp only []
  split
  · simp
  · split
    · simp
    · split <;> simp

theorem putManifest_faithful (cx : Ctx Body Dig) (p : Prof) (g : Reg Body Dig) (rs : RState) (repo : String)
    (d : Desc Dig) (b : Body) (ref : Ref Dig) (k : Bool) :
    Faithful cx p g (putManifest cx p g rs repo d b ref k) := by
  unfold Faithful putManifest replay
  simp only []
  split
  · simp
  · split
    · simp
    · split <;> simp

theorem pushManifest_faithful (cx : Ctx Body Dig) (p : Prof) (g : Reg Body Dig) (rs : RState) (repo : String)
    (d : Desc Dig) (b : Body) (ref : Ref Dig) :
    Faithful cx p g (pushManifest cx p g rs repo d b ref) := by
  have hp := putManifest_faithful cx p g rs repo d b ref true
  unfold pushManifest
  split
  · split
    · simp [Faithful, replay]
    · simp only []
      generalize putManifest cx p g rs repo d b ref true = o at hp ⊢
      unfold Faithful at hp ⊢
      cases hres : o.res <;> simp only [] <;> (try exact hp)
      split
      · exact hp
      · split <;> exact hp
  · exact hp

theorem fetchBlob_faithful (cx : Ctx Body Dig) (p : Prof) (c : Option (Corrupt Dig)) (g : Reg Body Dig)
    (rs : RState) (repo : String) (t : Desc Dig) : Faithful cx p g (fetchBlob cx p c g rs repo t) := by
  unfold Faithful fetchBlob replay
  simp only []
  split
  · split <;> simp
  · simp

theorem fetchManifest_faithful (cx : Ctx Body Dig) (p : Prof) (c : Option (Corrupt Dig)) (g : Reg Body Dig)
    (rs : RState) (repo : String) (t : Desc Dig) : Faithful cx p g (fetchManifest cx p c g rs repo t) := by
  unfold Faithful fetchManifest replay
  simp only []
  split
  · split <;> simp
  · simp

theorem resolveManifest_faithful (cx : Ctx Body Dig) (p : Prof) (c : Option (Corrupt Dig)) (g : Reg Body Dig)
    (rs : RState) (repo : String) (ref : Ref Dig) : Faithful cx p g (resolveManifest cx p c g rs repo ref) := by
  unfold Faithful resolveManifest replay
  simp only []
  split
  · split <;> simp
  · simp

theorem resolveBlob_faithful (cx : Ctx Body Dig) (p : Prof) (c : Option (Corrupt Dig)) (g : Reg Body Dig)
    (rs : RState) (repo : String) (d : Dig) : Faithful cx p g (resolveBlob cx p c g rs repo d) := by
  unfold Faithful resolveBlob replay
  simp only []
  split
  · split <;> simp
  · simp

theorem deleteRaw_faithful (cx : Ctx Body Dig) (p : Prof) (c : Option (Corrupt Dig)) (g : Reg Body Dig)
    (rs : RState) (repo : String) (t : Desc Dig) (m : Bool) : Faithful cx p g (deleteRaw cx p c g rs repo t m) := by
  unfold Faithful deleteRaw replay
  cases m <;>
  · simp only [Bool.false_eq_true, if_false, if_true]
    split
    · split <;> simp
    · simp

end
end Oras.Proofs.Remote
