/-
  Completeness of the auto-GC cascade of `Store.Delete` (C09): when the call succeeds, no
  stored untagged node is left that lost its subject or its last predecessor through this
  call.  (Soundness — nothing else is removed — is `Proofs/OciCascade.lean`.)
-/
import OrasModel.Proofs.OciCascade
import OrasModel.Proofs.OciTags
namespace Oras
namespace OciSt

/-- The invariants of a reachable store state that the argument uses. -/
structure CInv (st : OciSt) : Prop where
  uniq : RefUniq st
  inv : RefTagInv st
  exact : TagsExact st
  nodup : st.blobs.Nodup

theorem remove_nodes_other (g : GMem) (n x : Key) (h : x ≠ n) : (g.remove n).1.nodes x = g.nodes x := by
  unfold GMem.remove
  simp only
  exact fupd_other g.nodes n x false h

theorem remove_preds_same (g : GMem) (n x : Key) (h : x ∉ g.succs n) : (g.remove n).1.preds x = g.preds x := by
  unfold GMem.remove
  simp only [h, if_false]

theorem tagsExact_deleteOne (st : OciSt) (n : Node) (h : TagsExact st) : TagsExact (st.deleteOne n).1 := by
  have h1 := tagsExact_foldl_untag (st.refs.filter (fun x => x.2.1 = n)) st h
  unfold deleteOne
  simp only
  generalize (st.refs.filter (fun x => x.2.1 = n)).foldl (fun s x => s.resolverUntag x.1) st = st1 at h1 ⊢
  split <;> split <;> exact h1

theorem blobs_deleteOne_ok (st st' : OciSt) (n : Node) (dang : List Node)
    (h : st.deleteOne n = (st', .ok dang)) : st'.blobs = st.blobs.erase n := by
  have hb := blobs_foldl_untag (st.refs.filter (fun x => x.2.1 = n)) st
  unfold deleteOne at h
  simp only at h
  generalize (st.refs.filter (fun x => x.2.1 = n)).foldl (fun s x => s.resolverUntag x.1) st = st1 at h hb
  split at h <;> split at h <;> simp only [Prod.mk.injEq, reduceCtorEq, and_false] at h
  · rw [← h.1]; simp [saveIndex, hb]
  · rw [← h.1]; simp [hb]

theorem cinv_deleteOne (st st' : OciSt) (n : Node) (dang : List Node) (hI : CInv st)
    (h : st.deleteOne n = (st', .ok dang)) : CInv st' := by
  have hs := deleteOne_spec st n hI.uniq hI.inv
  have he := tagsExact_deleteOne st n hI.exact
  rw [h] at hs he
  refine ⟨hs.uniq, hs.inv, he, ?_⟩
  rw [blobs_deleteOne_ok st st' n dang h]
  exact hI.nodup.erase n

/-- Tags of the nodes that stay are not touched by a `Store.delete`. -/
theorem isTagged_deleteOne_other (st st' : OciSt) (n x : Node) (dang : List Node) (hI : CInv st)
    (h : st.deleteOne n = (st', .ok dang)) (hx : x ≠ n) : st'.isTagged x = st.isTagged x := by
  have hI' := cinv_deleteOne st st' n dang hI h
  have hs := deleteOne_spec st n hI.uniq hI.inv
  rw [h] at hs
  apply Bool.eq_iff_iff.mpr
  rw [isTagged_iff st' x hI'.inv hI'.exact, isTagged_iff st x hI.inv hI.exact]
  constructor
  · rintro ⟨k, a, hk, hl⟩
    have hm := mem_of_lookup st' k (x, a) hl
    have := (hs.refs (k, x, a)).mp hm
    exact ⟨k, a, hk, lookup_of_mem st hI.uniq k (x, a) this.1⟩
  · rintro ⟨k, a, hk, hl⟩
    have hm := mem_of_lookup st k (x, a) hl
    have := (hs.refs (k, x, a)).mpr ⟨hm, hx⟩
    exact ⟨k, a, hk, lookup_of_mem st' hs.uniq k (x, a) this⟩

/-- What a successful cascade may not leave behind: a stored, untagged node that (through
    this call) lost the manifest it refers to, or its last predecessor.  `st0` is the state
    the call started from. -/
def Owes (c : OciCfg) (st0 st : OciSt) (x : Node) : Prop :=
  x ∈ st.blobs ∧ st.isTagged x = false ∧
  ((∃ s, c.subject x = some s ∧ c.isMan s = true ∧ x ∈ st.graph.preds s ∧ s ∈ st0.blobs ∧ s ∉ st.blobs) ∨
   (st.graph.nodes x = true ∧ st0.graph.preds x ≠ [] ∧ st.graph.preds x = []))

/-- **The queue holds everything that is owed**, at every iteration of a successful loop. -/
theorem deleteLoop_complete (c : OciCfg) (st0 : OciSt) :
    ∀ (fuel : Nat) (q seen : List Node) (st st' : OciSt) (seen' : List Node),
      st.autoGC = true → CInv st → (∀ y, y ∈ st.blobs → y ∈ st0.blobs) →
      (∀ x, Owes c st0 st x → x ∈ q) →
      deleteLoop c true true fuel q seen st = (st', .ok (), seen') →
      ∀ x, ¬ Owes c st0 st' x := by
  intro fuel
  induction fuel with
  | zero =>
    intro q seen st st' seen' _ _ _ _ h
    simp [deleteLoop] at h
  | succ fuel ih =>
    intro q seen st st' seen' hgc hI hsub hq h
    cases q with
    | nil =>
      simp only [deleteLoop, Prod.mk.injEq] at h
      intro x hx
      rw [← h.1] at hx
      exact absurd (hq x hx) (by simp)
    | cons head qt =>
      unfold deleteLoop at h
      split at h
      · -- `head` is no longer stored: skipped
        rename_i hskip
        simp only [Bool.true_and, Bool.and_eq_true, Bool.not_eq_eq_eq_not, Bool.not_true,
          List.contains_eq_mem, decide_eq_false_iff_not] at hskip
        apply ih qt seen st st' seen' hgc hI hsub _ h
        intro x hx
        rcases List.mem_cons.mp (hq x hx) with e | e
        · exact absurd (e ▸ hx.1) hskip.2
        · exact e
      · -- `head` is processed
        cases hr : (if (st.autoGC && c.isMan head) = true then referrers c st head else some []) with
        | none => rw [hr] at h; simp at h
        | some rs =>
          rw [hr] at h
          simp only at h
          cases hd : st.deleteOne head with
          | mk st1 res =>
            rw [hd] at h
            cases res with
            | error e => simp at h
            | ok dang =>
              simp only at h
              have hI1 := cinv_deleteOne st st1 head dang hI hd
              have hb1 := blobs_deleteOne_ok st st1 head dang hd
              have hgc1 : st1.autoGC = true := by
                have := (deleteOne_spec st head hI.uniq hI.inv)
                rw [hd] at this
                rw [this.gc]; exact hgc
              have hg := deleteOne_graph st head
              rw [hd] at hg
              have hgraph : st1.graph = (st.graph.remove head).1 := hg.1
              have hdang : dang = (st.graph.remove head).2 := hg.2 dang rfl
              have hhead1 : head ∉ st1.blobs := by
                rw [hb1]; exact fun hm => (List.Nodup.mem_erase_iff hI.nodup).mp hm |>.1 rfl
              have hmem1 : ∀ y, y ∈ st1.blobs → y ∈ st.blobs := by
                intro y hy; rw [hb1] at hy; exact List.mem_of_mem_erase hy
              apply ih _ _ st1 st' seen' hgc1 hI1 (fun y hy => hsub y (hmem1 y hy)) _ h
              -- everything owed in `st1` is in the new queue
              intro x hx
              obtain ⟨hxb, hxt, hcase⟩ := hx
              have hxne : x ≠ head := fun e => hhead1 (e ▸ hxb)
              have hxb0 : x ∈ st.blobs := hmem1 x hxb
              have hxt0 : st.isTagged x = false := by
                rw [← isTagged_deleteOne_other st st1 head x dang hI hd hxne]; exact hxt
              simp only [hgc1, if_true, hgc, Bool.true_and] at hr ⊢
              rcases hcase with ⟨s, hsub', hman, hpred, hs0, hs1⟩ | ⟨hnodes, hp0, hp1⟩
              · -- lost referrer
                have hpred0 : x ∈ st.graph.preds s := by
                  rw [hgraph] at hpred; exact preds_remove_subset st.graph head s x hpred
                by_cases hsb : s ∈ st.blobs
                · -- `s` was removed just now: it is `head`
                  have hse : s = head := by
                    apply Classical.byContradiction
                    intro hne
                    apply hs1
                    rw [hb1]
                    exact (List.mem_erase_of_ne hne).mpr hsb
                  subst hse
                  simp only [hman, if_true] at hr
                  have := referrers_complete c st s rs hr x hpred0 hsub'
                  apply List.mem_append_left
                  apply List.mem_append_right
                  exact List.mem_filter.mpr ⟨this.1, by simp [hxt0]⟩
                · -- `s` was gone before: owed already
                  have : Owes c st0 st x := ⟨hxb0, hxt0, Or.inl ⟨s, hsub', hman, hpred0, hs0, hsb⟩⟩
                  rcases List.mem_cons.mp (hq x this) with e | e
                  · exact absurd e hxne
                  · exact List.mem_append_left _ (List.mem_append_left _ e)
              · -- lost its last predecessor
                have hnodes0 : st.graph.nodes x = true := by
                  rw [hgraph, remove_nodes_other st.graph head x hxne] at hnodes; exact hnodes
                by_cases hpe : st.graph.preds x = []
                · have : Owes c st0 st x := ⟨hxb0, hxt0, Or.inr ⟨hnodes0, hp0, hpe⟩⟩
                  rcases List.mem_cons.mp (hq x this) with e | e
                  · exact absurd e hxne
                  · exact List.mem_append_left _ (List.mem_append_left _ e)
                · -- the removal of `head` emptied it: `x` is a dangling successor of `head`
                  have hsucc : x ∈ st.graph.succs head := by
                    apply Classical.byContradiction
                    intro hns
                    apply hpe
                    rw [← remove_preds_same st.graph head x hns, ← hgraph]
                    exact hp1
                  have hin : x ∈ dang := by
                    rw [hdang]
                    apply dangling_complete st.graph head x hsucc hnodes0
                    rw [← hgraph]; exact hp1
                  apply List.mem_append_right
                  exact List.mem_filter.mpr ⟨hin, by simp [hxt]⟩

end OciSt
end Oras
