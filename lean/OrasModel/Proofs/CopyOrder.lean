/- Ordering and at-most-once lemmas for the per-node copy system (C04). -/
import OrasModel.Proofs.Copy
namespace Oras

def NSt.rank : NSt → Nat
  | .idle => 0 | .claimed => 1 | .waiting => 2 | .copying => 3 | .done => 4 | .failed => 4

def Label.node : Label → Node
  | .claim n | .existsT n | .existsF n | .ready n | .push n | .pushLate n | .fail n => n

/-- The rank the label's node has right after the label fired. -/
def Label.postRank : Label → Nat
  | .claim _ => 1 | .existsF _ => 2 | .ready _ => 3
  | .existsT _ | .push _ | .pushLate _ | .fail _ => 4

/-- Firing a label needs its node strictly below the label's post-rank and leaves it there. -/
theorem step_rank (c : CopyCfg) (s s' : CopySt) (l : Label) (hs : step? c s l = some s') :
    (s.st l.node).rank < l.postRank ∧ (s'.st l.node).rank = l.postRank := by
  cases l <;> simp only [step?] at hs <;> split at hs <;>
    first
    | (rename_i h; injection hs with hs; subst hs
       simp only [Label.node, Label.postRank, fupd_same, NSt.rank]
       first
       | (rw [h]; decide)
       | (rw [h.1]; decide)
       | (rcases h with h | h | h <;> rw [h] <;> decide))
    | cases hs

/-- Ranks never decrease. -/
theorem step_mono (c : CopyCfg) (s s' : CopySt) (l : Label) (hs : step? c s l = some s') (m : Node) :
    (s.st m).rank ≤ (s'.st m).rank := by
  by_cases e : m = l.node
  · subst e
    have := step_rank c s s' l hs
    omega
  · have : s'.st m = s.st m := by
      cases l <;> simp only [step?] at hs <;> split at hs <;>
        first
        | (injection hs with hs; subst hs; simp only [Label.node] at e; simp [fupd_other _ _ _ _ e])
        | cases hs
    rw [this]; exact Nat.le_refl _

theorem run_mono (c : CopyCfg) (ls : List Label) (s s' : CopySt) (hr : run? c s ls = some s') (m : Node) :
    (s.st m).rank ≤ (s'.st m).rank := by
  induction ls generalizing s with
  | nil => simp [run?] at hr; subst hr; exact Nat.le_refl _
  | cons l ls ih =>
    simp only [run?] at hr
    cases hs : step? c s l with
    | none => simp [hs] at hr
    | some s1 =>
      simp only [hs] at hr
      exact Nat.le_trans (step_mono c s s1 l hs m) (ih s1 hr)

/-- A label that occurs later in an enabled trace finds its node below its post-rank now. -/
theorem mem_run_rank (c : CopyCfg) (ls : List Label) (s s' : CopySt) (hr : run? c s ls = some s')
    (n : Node) (p : Nat) (h : (n, p) ∈ ls.map (fun l => (l.node, l.postRank))) :
    (s.st n).rank < p := by
  induction ls generalizing s with
  | nil => simp at h
  | cons l ls ih =>
    simp only [run?] at hr
    cases hs : step? c s l with
    | none => simp [hs] at hr
    | some s1 =>
      simp only [hs] at hr
      simp only [List.map_cons, List.mem_cons] at h
      rcases h with h | h
      · injection h with h1 h2
        subst h1 h2
        exact (step_rank c s s1 l hs).1
      · exact Nat.lt_of_le_of_lt (step_mono c s s1 l hs n) (ih s1 hr h)

/-- **At most once**: in any enabled trace no two labels share node and post-rank. -/
theorem labels_once (c : CopyCfg) (ls : List Label) (s s' : CopySt) (hr : run? c s ls = some s') :
    (ls.map (fun l => (l.node, l.postRank))).Nodup := by
  induction ls generalizing s with
  | nil => simp
  | cons l ls ih =>
    simp only [run?] at hr
    cases hs : step? c s l with
    | none => simp [hs] at hr
    | some s1 =>
      simp only [hs] at hr
      simp only [List.map_cons, List.nodup_cons]
      refine ⟨?_, ih s1 hr⟩
      intro hin
      have h1 := mem_run_rank c ls s1 s' hr _ _ hin
      have h2 := (step_rank c s s1 l hs).2
      omega

theorem run_append (c : CopyCfg) (a b : List Label) (s : CopySt) :
    run? c s (a ++ b) = (run? c s a).bind (fun s1 => run? c s1 b) := by
  induction a generalizing s with
  | nil => simp [run?]
  | cons l a ih =>
    simp only [List.cons_append, run?]
    cases step? c s l with
    | none => simp
    | some s1 => exact ih s1

/-- Failure is terminal along any trace. -/
theorem failed_stays (c : CopyCfg) (n : Node) (ls : List Label) (a b : CopySt)
    (h1 : run? c a ls = some b) (h2 : a.st n = .failed) : b.st n = .failed := by
  induction ls generalizing a with
  | nil => simp [run?] at h1; subst h1; exact h2
  | cons l ls ih =>
    simp only [run?] at h1
    cases hs : step? c a l with
    | none => simp [hs] at h1
    | some a1 =>
      simp only [hs] at h1
      apply ih a1 h1
      by_cases e : n = l.node
      · have := (step_rank c a a1 l hs).1
        rw [← e, h2] at this
        simp only [NSt.rank] at this
        have hp : l.postRank ≤ 4 := by cases l <;> simp [Label.postRank]
        omega
      · cases l <;> simp only [step?] at hs <;> split at hs <;>
          first
          | (injection hs with hs; subst hs; simp only [Label.node] at e; simp [fupd_other _ _ _ _ e, h2])
          | cases hs

/-- One step: a node is `copying` / `done` afterwards only if it was before or the label
    is the one that produces that state. -/
theorem step_provenance (c : CopyCfg) (s s' : CopySt) (l : Label) (hs : step? c s l = some s') (n : Node) :
    (s'.st n = .copying → s.st n = .copying ∨ l = .ready n) ∧
    (s'.st n = .done → s.st n = .done ∨ l = .push n ∨ l = .existsT n) := by
  by_cases e : n = l.node
  · cases l <;> simp only [step?] at hs <;> split at hs <;>
      first
      | (injection hs with hs; subst hs
         simp only [Label.node] at e; subst e
         simp)
      | cases hs
  · have hsame : s'.st n = s.st n := by
      cases l <;> simp only [step?] at hs <;> split at hs <;>
        first
        | (injection hs with hs; subst hs; simp only [Label.node] at e; simp [fupd_other _ _ _ _ e])
        | cases hs
    rw [hsame]
    exact ⟨fun h => Or.inl h, fun h => Or.inl h⟩

/-- Provenance of states along a trace. -/
theorem run_provenance (c : CopyCfg) (ls : List Label) (s0 s : CopySt)
    (hr : run? c s0 ls = some s) (n : Node) :
    (s.st n = .copying → s0.st n = .copying ∨ Label.ready n ∈ ls) ∧
    (s.st n = .done → s0.st n = .done ∨ Label.push n ∈ ls ∨ Label.existsT n ∈ ls) := by
  induction ls generalizing s0 with
  | nil => simp [run?] at hr; subst hr; exact ⟨fun h => Or.inl h, fun h => Or.inl h⟩
  | cons l ls ih =>
    simp only [run?] at hr
    cases hs : step? c s0 l with
    | none => simp [hs] at hr
    | some s1 =>
      simp only [hs] at hr
      obtain ⟨ihc, ihd⟩ := ih s1 hr
      obtain ⟨pc, pd⟩ := step_provenance c s0 s1 l hs n
      constructor
      · intro h
        rcases ihc h with h1 | h1
        · rcases pc h1 with h2 | h2
          · exact Or.inl h2
          · exact Or.inr (by rw [h2]; exact List.mem_cons_self)
        · exact Or.inr (List.mem_cons_of_mem _ h1)
      · intro h
        rcases ihd h with h1 | h1 | h1
        · rcases pd h1 with h2 | h2 | h2
          · exact Or.inl h2
          · exact Or.inr (Or.inl (by rw [h2]; exact List.mem_cons_self))
          · exact Or.inr (Or.inr (by rw [h2]; exact List.mem_cons_self))
        · exact Or.inr (Or.inl (List.mem_cons_of_mem _ h1))
        · exact Or.inr (Or.inr (List.mem_cons_of_mem _ h1))

theorem provenance (c : CopyCfg) (dst0 : List Nat) (ls : List Label) (s : CopySt)
    (hr : run? c (CopySt.init dst0) ls = some s) (n : Node) :
    (s.st n = .copying → Label.ready n ∈ ls) ∧
    (s.st n = .done → (Label.push n ∈ ls ∨ Label.existsT n ∈ ls)) := by
  obtain ⟨h1, h2⟩ := run_provenance c ls _ s hr n
  constructor
  · intro h; rcases h1 h with h' | h'
    · simp [CopySt.init] at h'
    · exact h'
  · intro h; rcases h2 h with h' | h'
    · simp [CopySt.init] at h'
    · exact h'

end Oras
