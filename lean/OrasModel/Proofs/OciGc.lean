/-
  `Store.GC` of the OCI model never removes content that is reachable from a tagged
  manifest: the rebuilt graph holds the whole readable closure of every tagged entry
  (`IndexAll` completeness), the referrer passes only add to it, and the sweep keeps every
  blob that is a node of the rebuilt graph.
-/
import OrasModel.Proofs.OciIndexAll
namespace Oras
namespace OciSt

/-- The tagged-entries fold: blobs untouched, nodes only grow, and every readable node
    reachable from an entry is a node of the result. -/
theorem gcTagFold_spec (c : OciCfg) (B : List Node) (rk : Node → Nat)
    (hrk : GMem.RankOK (succOf c B) rk) (fuel : Nat) :
    ∀ (named : List (RefKey × Node × Nat)) (s : OciSt), (∀ e ∈ named, rk e.2.1 < fuel) →
      (named.foldl (gcTagStep c B fuel) s).blobs = s.blobs ∧
      (∀ x, s.graph.nodes x = true → (named.foldl (gcTagStep c B fuel) s).graph.nodes x = true) ∧
      (∀ e ∈ named, ∀ m ss, GMem.ReachOf (succOf c B) e.2.1 m → succOf c B m = some ss →
        (named.foldl (gcTagStep c B fuel) s).graph.nodes m = true) := by
  intro named
  induction named with
  | nil => intro s _; exact ⟨rfl, fun _ h => h, fun e he => by cases he⟩
  | cons e0 es ih =>
    intro s hf
    simp only [List.foldl_cons]
    have hrest := ih (gcTagStep c B fuel s e0) (fun x hx => hf x (List.mem_cons_of_mem _ hx))
    have hkeep := GMem.indexAll_keeps (succOf c B) s.graph e0.2.1 fuel
    refine ⟨hrest.1, fun x hx => hrest.2.1 x (hkeep.1 x hx), ?_⟩
    intro e he m ss hreach hs
    rcases List.mem_cons.mp he with h | h
    · subst h
      have h1 := GMem.indexAll_complete (succOf c B) rk hrk s.graph e.2.1 fuel (hf e List.mem_cons_self) m ss hreach hs
      exact hrest.2.1 m h1.1
    · exact hrest.2.2 e h m ss hreach hs

/-- What every referrer step and pass keeps: the blobs and the nodes indexed so far. -/
def Grows (B : List Node) (G : GMem) (acc : Except OErr OciSt) : Prop :=
  ∀ s, acc = .ok s → s.blobs = B ∧ ∀ x, G.nodes x = true → s.graph.nodes x = true

theorem grows_refStep (c : OciCfg) (fixed : Bool) (B0 : List Node) (fuel : Nat) (B : List Node) (G : GMem)
    (acc : Except OErr OciSt) (e : RefKey × Node × Nat) (h : Grows B G acc) :
    Grows B G (gcRefStep c fixed B0 fuel acc e) := by
  intro s' hs'
  unfold gcRefStep at hs'
  cases acc with
  | error err => cases hs'
  | ok s =>
    have hs := h s rfl
    simp only at hs'
    split at hs'
    · cases hs'; exact hs
    · split at hs'
      · cases hs'
      · cases hs'; exact hs
      · cases hs'
        exact ⟨hs.1, fun x hx => (GMem.indexAll_keeps (succOf c B0) s.graph e.2.1 fuel).1 x (hs.2 x hx)⟩

theorem grows_pass (c : OciCfg) (fixed : Bool) (B0 : List Node) (fuel : Nat) (B : List Node) (G : GMem) :
    ∀ (rest : List (RefKey × Node × Nat)) (acc : Except OErr OciSt), Grows B G acc →
      Grows B G (gcPass c fixed B0 fuel rest acc) := by
  intro rest
  induction rest with
  | nil => intro acc h; exact h
  | cons e es ih =>
    intro acc h
    unfold gcPass
    simp only [List.foldl_cons]
    exact ih _ (grows_refStep c fixed B0 fuel B G acc e h)

theorem grows_passes (c : OciCfg) (fixed : Bool) (B0 : List Node) (fuel : Nat) (B : List Node) (G : GMem)
    (rest : List (RefKey × Node × Nat)) :
    ∀ (l : List Nat) (acc : Except OErr OciSt), Grows B G acc →
      Grows B G (l.foldl (fun acc _ => gcPass c fixed B0 fuel rest acc) acc) := by
  intro l
  induction l with
  | nil => intro acc h; exact h
  | cons _ t ih =>
    intro acc h
    simp only [List.foldl_cons]
    exact ih _ (grows_pass c fixed B0 fuel B G rest acc h)

/-- **`gcIndex` keeps the closure of every tagged entry**: when it succeeds, the blobs are
    untouched and every readable node reachable from a tagged manifest is a node of the new
    graph. -/
theorem gcIndex_keeps (c : OciCfg) (fixed repeatPass : Bool) (st s : OciSt) (rk : Node → Nat)
    (hrk : GMem.RankOK (succOf c st.blobs) rk) (fuel : Nat)
    (hf : ∀ e ∈ st.gcNamed, rk e.2.1 < fuel)
    (hok : gcIndex c fixed repeatPass st fuel = .ok s) :
    s.blobs = st.blobs ∧
    ∀ e ∈ st.gcNamed, ∀ m ss, GMem.ReachOf (succOf c st.blobs) e.2.1 m → succOf c st.blobs m = some ss →
      s.graph.nodes m = true := by
  unfold gcIndex at hok
  simp only at hok
  have hfb : st.gcFresh.blobs = st.blobs := rfl
  have spec := gcTagFold_spec c st.blobs rk hrk fuel st.gcNamed st.gcFresh hf
  generalize hs1 : st.gcNamed.foldl (gcTagStep c st.blobs fuel) st.gcFresh = s1 at hok spec
  have h0 : Grows st.blobs s1.graph (.ok s1) := by
    intro s' hs'
    cases hs'
    exact ⟨spec.1.trans hfb, fun _ h => h⟩
  have hfin : Grows st.blobs s1.graph (.ok s) := by
    rw [← hok]
    split
    · exact grows_passes c fixed st.blobs fuel st.blobs s1.graph _ _ _ h0
    · exact grows_pass c fixed st.blobs fuel st.blobs s1.graph _ _ h0
  have := hfin s rfl
  exact ⟨this.1, fun e he m ss hr hs => this.2 m (spec.2.2 e he m ss hr hs)⟩

end OciSt
end Oras
