/-
  `Store.GC` removes every blob that is not live: what the rebuilt graph holds is reachable
  from a tagged manifest, or from an indexed referrer whose subject chain ends in a node that
  is itself live.  (The converse half — the closure of every tagged manifest is kept — is
  `Proofs/OciGc.lean`.)
-/
import OrasModel.Proofs.OciGc
namespace Oras
namespace GMem

theorem reach_prepend (succOf : Key → Option (List Key)) {n k x : Key} {ss : List Key}
    (hs : succOf n = some ss) (hk : k ∈ ss) (h : ReachOf succOf k x) : ReachOf succOf n x := by
  induction h with
  | refl => exact ReachOf.step ReachOf.refl hs hk
  | step _ hsm hkm ih => exact ReachOf.step ih hsm hkm

theorem index_nodes_inv (g : GMem) (n : Key) (ss : List Key) (x : Key)
    (h : (g.index n ss).nodes x = true) : g.nodes x = true ∨ x = n := by
  by_cases e : x = n
  · exact Or.inr e
  · unfold index fupd at h
    simp only [e, if_false] at h
    exact Or.inl h

/-- **`IndexAll` indexes nothing unreachable**: a node of the result was a node before or is
    reachable from one of the roots through readable manifests. -/
theorem indexAllAux_nodes_sound (succOf : Key → Option (List Key)) :
    ∀ (fuel : Nat) (l : List Key) (acc : GMem × List Key) (x : Key),
      (indexAllAux succOf fuel l acc).1.nodes x = true →
      acc.1.nodes x = true ∨ ∃ r ∈ l, ReachOf succOf r x := by
  intro fuel l acc
  induction fuel, l, acc using GMem.indexAllAux.induct succOf with
  | case1 x acc =>
    intro y h
    unfold indexAllAux at h
    exact Or.inl h
  | case2 head tail acc =>
    intro y h
    unfold indexAllAux at h
    exact Or.inl h
  | case3 fuel n rest g visited hvis ih =>
    intro y h
    unfold indexAllAux at h
    simp only [hvis, if_true] at h
    rcases ih y h with h' | ⟨r, hr, hreach⟩
    · exact Or.inl h'
    · exact Or.inr ⟨r, List.mem_cons_of_mem _ hr, hreach⟩
  | case4 fuel n rest g visited hvis hnone ih =>
    intro y h
    unfold indexAllAux at h
    simp only [hvis, if_false, hnone] at h
    rcases ih y h with h' | ⟨r, hr, hreach⟩
    · exact Or.inl h'
    · exact Or.inr ⟨r, List.mem_cons_of_mem _ hr, hreach⟩
  | case5 fuel n rest g visited hvis ss hsome acc' ih1 ih2 =>
    intro y h
    unfold indexAllAux at h
    simp only [hvis, if_false, hsome] at h
    have hacc : indexAllAux succOf fuel ss (g.index n ss, n :: visited) = acc' := rfl
    rw [hacc] at h ih1
    rcases ih2 y h with h' | ⟨r, hr, hreach⟩
    · rcases ih1 y h' with h'' | ⟨k, hk, hreach⟩
      · rcases index_nodes_inv g n ss y h'' with h3 | h3
        · exact Or.inl h3
        · refine Or.inr ⟨n, List.mem_cons_self, ?_⟩
          rw [h3]; exact ReachOf.refl
      · exact Or.inr ⟨n, List.mem_cons_self, reach_prepend succOf hsome hk hreach⟩
    · exact Or.inr ⟨r, List.mem_cons_of_mem _ hr, hreach⟩

theorem indexAll_nodes_sound (succOf : Key → Option (List Key)) (fuel : Nat) (g : GMem) (root x : Key)
    (h : (indexAll succOf fuel g root).nodes x = true) : g.nodes x = true ∨ ReachOf succOf root x := by
  rcases indexAllAux_nodes_sound succOf fuel [root] (g, []) x h with h' | ⟨r, hr, hreach⟩
  · exact Or.inl h'
  · simp only [List.mem_singleton] at hr
    rw [hr] at hreach
    exact Or.inr hreach

end GMem

namespace OciSt

/-- The subject chain from `a` reaches `s` in one or more steps through stored manifests. -/
inductive SubjChain (c : OciCfg) (blobs : List Node) : Node → Node → Prop
  | one {a s : Node} : c.subject a = some s → SubjChain c blobs a s
  | more {a m s : Node} : c.subject a = some m → m ∈ blobs → SubjChain c blobs m s →
      SubjChain c blobs a s

theorem gcWalk_true (c : OciCfg) (blobs : List Node) (g : GMem) :
    ∀ (fuel : Nat) (cur : Node), gcWalk c blobs g fuel cur = .ok true →
      ∃ s, SubjChain c blobs cur s ∧ g.exists_ s = true := by
  intro fuel
  induction fuel with
  | zero => intro cur h; simp [gcWalk] at h
  | succ k ih =>
    intro cur h
    unfold gcWalk at h
    cases hs : c.subject cur with
    | none => simp [hs] at h
    | some s =>
      simp only [hs] at h
      by_cases he : g.exists_ s = true
      · exact ⟨s, .one hs, he⟩
      · simp only [he, Bool.false_eq_true, if_false] at h
        by_cases hb : s ∈ blobs
        · have h' : gcWalk c blobs g k s = .ok true := by simpa [hb] using h
          obtain ⟨t, hc, ht⟩ := ih s h'
          exact ⟨t, .more hs hb hc, ht⟩
        · simp [hb] at h

theorem gcWalkBuggy_true (c : OciCfg) (blobs : List Node) (g : GMem) (n : Node)
    (h : gcWalkBuggy c g n = .ok true) : ∃ s, SubjChain c blobs n s ∧ g.exists_ s = true := by
  unfold gcWalkBuggy at h
  cases hs : c.subject n with
  | none => simp [hs] at h
  | some s =>
    simp only [hs] at h
    by_cases he : g.exists_ s = true
    · exact ⟨s, .one hs, he⟩
    · simp [he] at h

/-- What `GC` considers live: reachable from a tagged manifest, or from an index entry whose
    subject chain ends in a live node. -/
inductive GcLive (c : OciCfg) (st : OciSt) : Node → Prop
  | tagged {e : RefKey × Node × Nat} {x : Node} : e ∈ st.gcNamed →
      GMem.ReachOf (succOf c st.blobs) e.2.1 x → GcLive c st x
  | referrer {e : RefKey × Node × Nat} {s x : Node} : e ∈ st.refs →
      SubjChain c st.blobs e.2.1 s → GcLive c st s →
      GMem.ReachOf (succOf c st.blobs) e.2.1 x → GcLive c st x

def AllLive (c : OciCfg) (st : OciSt) (acc : Except OErr OciSt) : Prop :=
  ∀ s, acc = .ok s → ∀ x, s.graph.nodes x = true → GcLive c st x

theorem allLive_tagFold (c : OciCfg) (st : OciSt) (fuel : Nat) :
    ∀ (named : List (RefKey × Node × Nat)) (s : OciSt), (∀ e ∈ named, e ∈ st.gcNamed) →
      (∀ x, s.graph.nodes x = true → GcLive c st x) →
      ∀ x, (named.foldl (gcTagStep c st.blobs fuel) s).graph.nodes x = true → GcLive c st x := by
  intro named
  induction named with
  | nil => intro s _ h; exact h
  | cons e es ih =>
    intro s hmem h
    simp only [List.foldl_cons]
    apply ih _ (fun e' he' => hmem e' (List.mem_cons_of_mem _ he'))
    intro x hx
    -- the step indexes from `e.2.1` over a graph equal to `s.graph`
    have hx' : (GMem.indexAll (succOf c st.blobs) fuel s.graph e.2.1).nodes x = true := hx
    rcases GMem.indexAll_nodes_sound _ fuel s.graph e.2.1 x hx' with h1 | h1
    · exact h x h1
    · exact GcLive.tagged (hmem e List.mem_cons_self) h1

theorem allLive_refStep (c : OciCfg) (st : OciSt) (fixed : Bool) (fuel : Nat)
    (acc : Except OErr OciSt) (e : RefKey × Node × Nat) (he : e ∈ st.refs)
    (h : AllLive c st acc) : AllLive c st (gcRefStep c fixed st.blobs fuel acc e) := by
  intro s' hs'
  unfold gcRefStep at hs'
  cases acc with
  | error err => cases hs'
  | ok s =>
    have hs := h s rfl
    simp only at hs'
    split at hs'
    · cases hs'; exact hs
    · split at hs'
      · cases hs'
      · cases hs'; exact hs
      · rename_i hw
        cases hs'
        intro x hx
        have hx' : (GMem.indexAll (succOf c st.blobs) fuel s.graph e.2.1).nodes x = true := hx
        have hwalk : ∃ t, SubjChain c st.blobs e.2.1 t ∧ s.graph.exists_ t = true := by
          cases fixed with
          | true =>
            simp only [if_true] at hw
            exact gcWalk_true c st.blobs s.graph fuel e.2.1 hw
          | false =>
            simp only [Bool.false_eq_true, if_false] at hw
            exact gcWalkBuggy_true c st.blobs s.graph e.2.1 hw
        obtain ⟨t, hchain, ht⟩ := hwalk
        rcases GMem.indexAll_nodes_sound _ fuel s.graph e.2.1 x hx' with h1 | h1
        · exact hs x h1
        · exact GcLive.referrer he hchain (hs t ht) h1

theorem allLive_pass (c : OciCfg) (st : OciSt) (fixed : Bool) (fuel : Nat) :
    ∀ (rest : List (RefKey × Node × Nat)) (acc : Except OErr OciSt), (∀ e ∈ rest, e ∈ st.refs) →
      AllLive c st acc → AllLive c st (gcPass c fixed st.blobs fuel rest acc) := by
  intro rest
  induction rest with
  | nil => intro acc _ h; exact h
  | cons e es ih =>
    intro acc hmem h
    unfold gcPass
    simp only [List.foldl_cons]
    exact ih _ (fun e' he' => hmem e' (List.mem_cons_of_mem _ he'))
      (allLive_refStep c st fixed fuel acc e (hmem e List.mem_cons_self) h)

theorem allLive_passes (c : OciCfg) (st : OciSt) (fixed : Bool) (fuel : Nat)
    (rest : List (RefKey × Node × Nat)) (hmem : ∀ e ∈ rest, e ∈ st.refs) :
    ∀ (l : List Nat) (acc : Except OErr OciSt), AllLive c st acc →
      AllLive c st (l.foldl (fun acc _ => gcPass c fixed st.blobs fuel rest acc) acc) := by
  intro l
  induction l with
  | nil => intro acc h; exact h
  | cons _ t ih =>
    intro acc h
    simp only [List.foldl_cons]
    exact ih _ (allLive_pass c st fixed fuel rest acc hmem h)

/-- **Everything `gcIndex` indexes is live.** -/
theorem gcIndex_sound (c : OciCfg) (fixed repeatPass : Bool) (st s : OciSt) (fuel : Nat)
    (hok : gcIndex c fixed repeatPass st fuel = .ok s) :
    ∀ x, s.graph.nodes x = true → GcLive c st x := by
  unfold gcIndex at hok
  simp only at hok
  have h1 : ∀ x, (st.gcNamed.foldl (gcTagStep c st.blobs fuel) st.gcFresh).graph.nodes x = true → GcLive c st x :=
    allLive_tagFold c st fuel st.gcNamed st.gcFresh (fun _ h => h)
      (by intro x hx; simp [gcFresh, OciSt.empty, GMem.empty] at hx)
  generalize st.gcNamed.foldl (gcTagStep c st.blobs fuel) st.gcFresh = s1 at hok h1
  have h0 : AllLive c st (.ok s1) := by
    intro s' hs'; cases hs'; exact h1
  have hmem : ∀ e ∈ st.refs.filter (fun e => match e.1 with
      | .dig _ => !(st.gcNamed.map (·.2.1)).contains e.2.1
      | .tag _ => false), e ∈ st.refs := fun e he => (List.mem_filter.mp he).1
  have hfin : AllLive c st (.ok s) := by
    rw [← hok]
    split
    · exact allLive_passes c st fixed fuel _ hmem _ _ h0
    · exact allLive_pass c st fixed fuel _ _ hmem h0
  exact hfin s rfl

end OciSt
end Oras
