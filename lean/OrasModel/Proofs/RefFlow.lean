/-
  Lemmas about the referrers-index flow model (`Model/RefFlow.lean`): what `commit` and
  `updateIndex` leave under the tag, case by case.
-/
import OrasModel.Model.RefFlow
namespace Oras.RefFlow

/-- What the change makes of a clean list. -/
def applyD (old : List Nat) : Change → List Nat
  | .add k => if k ∈ old then old else old ++ [k]
  | .remove k => old.erase k

theorem applyChange_none (old : List Nat) (ch : Change) (h : applyChange old ch = none) : applyD old ch = old := by
  cases ch with
  | add k =>
    simp only [applyChange] at h
    simp only [applyD]
    by_cases hk : k ∈ old
    · simp [hk]
    · simp [hk] at h
  | remove k =>
    simp only [applyChange] at h
    simp only [applyD]
    by_cases hk : k ∈ old
    · simp [hk] at h
    · exact List.erase_of_not_mem hk

theorem applyChange_some (old new : List Nat) (ch : Change) (h : applyChange old ch = some new) : applyD old ch = new := by
  cases ch with
  | add k =>
    simp only [applyChange] at h
    simp only [applyD]
    by_cases hk : k ∈ old
    · simp [hk] at h
    · simp [hk] at h ⊢; exact h
  | remove k =>
    simp only [applyChange] at h
    simp only [applyD]
    by_cases hk : k ∈ old
    · simp [hk] at h; exact h
    · simp [hk] at h

theorem commit_live (skipGC emptyOnFail : Bool) (f : Fault) (r : Reg) (new : List Nat) :
    (commit skipGC emptyOnFail f r new).1.live = r.live := by
  unfold commit
  cases f <;> cases skipGC <;> cases emptyOnFail <;> cases ht : r.tag <;> cases hn : new.isEmpty <;> simp

theorem commit_err (skipGC emptyOnFail : Bool) (f : Fault) (r : Reg) (new : List Nat)
    (h : (commit skipGC emptyOnFail f r new).2 = .err) : (commit skipGC emptyOnFail f r new).1 = r := by
  unfold commit at h ⊢
  cases f <;> cases skipGC <;> cases emptyOnFail <;> cases ht : r.tag <;> cases hn : new.isEmpty <;> simp [hn, ht] at h ⊢

/-- With the repaired clean-up path, a `commit` that does not fail leaves the new list under
    the tag - also when the old index could not be deleted. -/
theorem commit_listed (skipGC : Bool) (f : Fault) (r : Reg) (new : List Nat)
    (h : (commit skipGC true f r new).2 ≠ .err) : (commit skipGC true f r new).1.listed = new := by
  unfold commit at h ⊢
  cases new with
  | nil => cases f <;> cases skipGC <;> cases ht : r.tag <;> simp [ht, Reg.listed] at h ⊢
  | cons a l => cases f <;> cases skipGC <;> cases ht : r.tag <;> simp [ht, Reg.listed] at h ⊢

/-- Without a fault, with GC, nothing superseded is left. -/
theorem commit_dangling (r : Reg) (new : List Nat) :
    (commit false true .none r new).1.dangling = r.dangling := by
  unfold commit
  cases ht : r.tag <;> cases hn : new.isEmpty <;> simp [ht]

theorem commit_no_err (skipGC emptyOnFail : Bool) (f : Fault) (hf : f = .none ∨ f = .idxDel) (r : Reg) (new : List Nat) :
    (commit skipGC emptyOnFail f r new).2 ≠ .err := by
  unfold commit
  rcases hf with h | h <;> subst h <;> cases skipGC <;> cases emptyOnFail <;> cases ht : r.tag <;>
    cases hn : new.isEmpty <;> simp

/-- Only a refused read or push of the index makes `updateIndex` fail. -/
theorem updateIndex_no_err (skipGC emptyOnFail : Bool) (f : Fault) (hf : f = .none ∨ f = .idxDel) (r : Reg) (ch : Change) :
    (updateIndex skipGC emptyOnFail f r ch).2 ≠ .err := by
  unfold updateIndex
  have hg : ¬ f = .idxGet := by rcases hf with h | h <;> subst h <;> simp
  rw [if_neg hg]
  split
  · simp
  · exact commit_no_err _ _ _ hf _ _

/-- `updateIndex` never touches the manifests. -/
theorem updateIndex_live (skipGC emptyOnFail : Bool) (f : Fault) (r : Reg) (ch : Change) :
    (updateIndex skipGC emptyOnFail f r ch).1.live = r.live := by
  unfold updateIndex
  split
  · rfl
  · split
    · rfl
    · exact commit_live _ _ _ _ _

/-- An error of `updateIndex` (not the clean-up error) means nothing happened. -/
theorem updateIndex_err (skipGC emptyOnFail : Bool) (f : Fault) (r : Reg) (ch : Change)
    (h : (updateIndex skipGC emptyOnFail f r ch).2 = .err) : (updateIndex skipGC emptyOnFail f r ch).1 = r := by
  unfold updateIndex at h ⊢
  split
  · rfl
  · rename_i hg
    rw [if_neg hg] at h
    split
    · rfl
    · rename_i new hs
      rw [hs] at h
      exact commit_err _ _ _ _ _ h

/-- **Whatever is not an error has taken effect**: the tag lists the changed list. -/
theorem updateIndex_listed (skipGC : Bool) (f : Fault) (r : Reg) (ch : Change)
    (h : (updateIndex skipGC true f r ch).2 ≠ .err) :
    (updateIndex skipGC true f r ch).1.listed = applyD r.listed ch := by
  unfold updateIndex at h ⊢
  split
  · rename_i hg; rw [if_pos hg] at h; exact absurd rfl h
  · rename_i hg
    rw [if_neg hg] at h
    split
    · rename_i hnone
      exact (applyChange_none _ _ hnone).symm
    · rename_i new hs
      rw [hs] at h
      rw [commit_listed skipGC f r new h]
      exact (applyChange_some _ _ _ hs).symm

theorem updateIndex_dangling (r : Reg) (ch : Change) :
    (updateIndex false true .none r ch).1.dangling = r.dangling := by
  unfold updateIndex
  simp only [reduceCtorEq, if_false]
  split
  · rfl
  · exact commit_dangling _ _

end Oras.RefFlow
