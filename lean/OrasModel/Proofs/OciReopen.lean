/- `loadIndex ∘ saveIndex` on the resolver (C08). -/
import OrasModel.Proofs.OciDelete
namespace Oras
namespace OciSt

abbrev IdxEntry := Node × Option Nat × Nat

/-- Does index entry `e` define reference `k` when loaded? -/
def provides (e : IdxEntry) (k : RefKey) : Bool :=
  match k with
  | .dig n => e.1 == n
  | .tag nm => e.2.1 == some nm

/-- One iteration of `loadIndex`'s loop. -/
def applyEntry (c : OciCfg) (blobs : List Node) (fuel : Nat) (s : OciSt) (e : IdxEntry) : OciSt :=
  let s1 := s.resolverTag e.1 e.2.2 (.dig e.1)
  let s2 := match e.2.1 with | some nm => s1.resolverTag e.1 e.2.2 (.tag nm) | none => s1
  { s2 with graph := GMem.indexAll (succOf c blobs) fuel s2.graph e.1 }

theorem loadIndex_eq_foldl (c : OciCfg) (st : OciSt) (fuel : Nat) :
    st.loadIndex c fuel = st.indexFile.foldl (applyEntry c st.blobs fuel) st := by
  unfold loadIndex applyEntry
  rfl

theorem lookup_applyEntry (c : OciCfg) (blobs : List Node) (fuel : Nat) (s : OciSt) (e : IdxEntry)
    (k : RefKey) :
    (applyEntry c blobs fuel s e).lookupRef k =
      if provides e k then some (e.1, e.2.2) else s.lookupRef k := by
  obtain ⟨n, name, ann⟩ := e
  unfold applyEntry provides
  simp only
  have hgraph : ∀ (s' : OciSt) (g : GMem), ({ s' with graph := g } : OciSt).lookupRef k = s'.lookupRef k :=
    fun _ _ => rfl
  rw [hgraph]
  cases name with
  | none =>
    cases k with
    | dig m =>
      by_cases h : n = m
      · subst h; simp
      · have : RefKey.dig m ≠ RefKey.dig n := by intro e; injection e with e; exact h e.symm
        simp [h, lookupRef_resolverTag_other _ _ _ _ _ this]
    | tag nm =>
      simp [lookupRef_resolverTag_other _ _ _ (.dig n) (.tag nm) (by intro e; cases e)]
  | some nm' =>
    cases k with
    | dig m =>
      rw [lookupRef_resolverTag_other _ _ _ (.tag nm') (.dig m) (by intro e; cases e)]
      by_cases h : n = m
      · subst h; simp
      · have : RefKey.dig m ≠ RefKey.dig n := by intro e; injection e with e; exact h e.symm
        simp [h, lookupRef_resolverTag_other _ _ _ _ _ this]
    | tag nm =>
      by_cases h : nm' = nm
      · subst h; simp
      · have : RefKey.tag nm ≠ RefKey.tag nm' := by intro e; injection e with e; exact h e.symm
        rw [lookupRef_resolverTag_other _ _ _ _ _ this]
        rw [lookupRef_resolverTag_other _ _ _ (.dig n) (.tag nm) (by intro e; cases e)]
        simp [h]

/-- Loading a list of entries: a reference nobody provides keeps its previous value; a
    reference somebody provides ends up with the value of one of its providers. -/
theorem lookup_foldl_applyEntry (c : OciCfg) (blobs : List Node) (fuel : Nat) (k : RefKey)
    (L : List IdxEntry) (s : OciSt) :
    ((∀ e ∈ L, provides e k = false) →
        (L.foldl (applyEntry c blobs fuel) s).lookupRef k = s.lookupRef k) ∧
    ((∃ e ∈ L, provides e k = true) →
        ∃ e ∈ L, provides e k = true ∧
          (L.foldl (applyEntry c blobs fuel) s).lookupRef k = some (e.1, e.2.2)) := by
  induction L generalizing s with
  | nil =>
    refine ⟨fun _ => rfl, ?_⟩
    intro ⟨e, he, _⟩; cases he
  | cons x xs ih =>
    simp only [List.foldl_cons]
    obtain ⟨ih1, ih2⟩ := ih (applyEntry c blobs fuel s x)
    constructor
    · intro hnone
      rw [ih1 (fun e he => hnone e (List.mem_cons_of_mem _ he))]
      rw [lookup_applyEntry, hnone x List.mem_cons_self]
      simp
    · intro hex
      by_cases hlater : ∃ e ∈ xs, provides e k = true
      · obtain ⟨e, he, hp, hv⟩ := ih2 hlater
        exact ⟨e, List.mem_cons_of_mem _ he, hp, hv⟩
      · have hnone : ∀ e ∈ xs, provides e k = false := by
          intro e he
          cases hp : provides e k with
          | false => rfl
          | true => exact absurd ⟨e, he, hp⟩ hlater
        obtain ⟨e, he, hp⟩ := hex
        cases he with
        | head =>
          refine ⟨_, List.mem_cons_self, hp, ?_⟩
          rw [ih1 hnone, lookup_applyEntry, hp]
          simp
        | tail _ he' => rw [hnone e he'] at hp; cases hp

/-! ### What `saveIndex` writes -/

theorem mem_project (st : OciSt) (e : IdxEntry) :
    e ∈ st.project ↔
      ((∃ nm, (RefKey.tag nm, e.1, e.2.2) ∈ st.refs ∧ e.2.1 = some nm) ∨
       (e.2.1 = none ∧ (∃ m, (RefKey.dig m, e.1, e.2.2) ∈ st.refs) ∧
         ∀ nm a, (RefKey.tag nm, e.1, a) ∉ st.refs)) := by
  obtain ⟨n, name, ann⟩ := e
  unfold project
  simp only [List.mem_append, List.mem_filterMap]
  constructor
  · rintro (⟨x, hx, hxe⟩ | ⟨x, hx, hxe⟩)
    · obtain ⟨k, m, a⟩ := x
      cases k with
      | tag nm =>
        simp only [Option.some.injEq, Prod.mk.injEq] at hxe
        obtain ⟨h1, h2, h3⟩ := hxe
        subst h1 h2 h3
        exact Or.inl ⟨nm, hx, rfl⟩
      | dig d => simp at hxe
    · obtain ⟨k, m, a⟩ := x
      cases k with
      | tag nm => simp at hxe
      | dig d =>
        simp only at hxe
        split at hxe
        · cases hxe
        · rename_i hnot
          simp only [Option.some.injEq, Prod.mk.injEq] at hxe
          obtain ⟨h1, h2, h3⟩ := hxe
          subst h1 h2 h3
          refine Or.inr ⟨rfl, ⟨d, hx⟩, ?_⟩
          intro nm a hin
          apply hnot
          simp only [List.contains_eq_mem, List.mem_map, List.mem_filterMap, decide_eq_true_eq]
          exact ⟨(m, some nm, a), ⟨(.tag nm, m, a), hin, rfl⟩, rfl⟩
  · rintro (⟨nm, hin, hname⟩ | ⟨hname, ⟨m, hin⟩, hnone⟩)
    · have hname' : name = some nm := hname
      subst hname'
      exact Or.inl ⟨(.tag nm, n, ann), hin, rfl⟩
    · have hname' : name = none := hname
      subst hname'
      refine Or.inr ⟨(.dig m, n, ann), hin, ?_⟩
      simp only
      split
      · rename_i hc
        simp only [List.contains_eq_mem, List.mem_map, List.mem_filterMap, decide_eq_true_eq] at hc
        obtain ⟨y, ⟨x, hx, hxy⟩, hy⟩ := hc
        obtain ⟨k, m', a'⟩ := x
        cases k with
        | tag nm' =>
          simp only [Option.some.injEq] at hxy
          subst hxy
          simp only at hy
          subst hy
          exact absurd hx (hnone nm' a')
        | dig d => simp at hxy
      · rfl

end OciSt
end Oras
