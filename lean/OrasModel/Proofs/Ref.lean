/- Helper lemmas for C20: `splitFirst`, and character-exclusion facts for the recognisers. -/
import OrasModel.Model.Ref
import OrasModel.Proofs.Re
namespace Oras

theorem splitFirst_some {c : Char} {s a b : Str} (h : splitFirst c s = some (a, b)) :
    s = a ++ c :: b ∧ c ∉ a := by
  induction s generalizing a b with
  | nil => simp [splitFirst] at h
  | cons x xs ih =>
    simp only [splitFirst] at h
    by_cases e : x = c
    · simp only [e, if_true, Option.some.injEq, Prod.mk.injEq] at h
      obtain ⟨h1, h2⟩ := h
      subst h1 h2 e
      simp
    · simp only [e, if_false] at h
      cases hr : splitFirst c xs with
      | none => simp [hr] at h
      | some p =>
        obtain ⟨a', b'⟩ := p
        simp only [hr, Option.some.injEq, Prod.mk.injEq] at h
        obtain ⟨h1, h2⟩ := h
        subst h1 h2
        obtain ⟨i1, i2⟩ := ih hr
        refine ⟨by rw [i1]; simp, ?_⟩
        intro hin
        cases hin with
        | head => exact e rfl
        | tail _ hin' => exact i2 hin'

theorem splitFirst_append {c : Char} (a b : Str) (h : c ∉ a) :
    splitFirst c (a ++ c :: b) = some (a, b) := by
  induction a with
  | nil => simp [splitFirst]
  | cons x xs ih =>
    have hx : x ≠ c := fun e => h (by rw [e]; exact List.mem_cons_self)
    have hxs : c ∉ xs := fun hin => h (List.mem_cons_of_mem _ hin)
    simp [splitFirst, hx, ih hxs]

theorem splitFirst_none {c : Char} {s : Str} : splitFirst c s = none ↔ c ∉ s := by
  induction s with
  | nil => simp [splitFirst]
  | cons x xs ih =>
    simp only [splitFirst]
    by_cases e : x = c
    · subst e; simp
    · simp only [e, if_false]
      cases hr : splitFirst c xs with
      | none =>
        simp only [true_iff]
        intro hin
        cases hin with
        | head => exact e rfl
        | tail _ h' => exact (ih.mp hr) h'
      | some p =>
        simp only [reduceCtorEq, false_iff]
        have : c ∈ xs := by
          obtain ⟨h1, _⟩ := splitFirst_some (a := p.1) (b := p.2) hr
          rw [h1]; simp
        exact fun hn => hn (List.mem_cons_of_mem _ this)

theorem lookup_mem {α β : Type} [BEq α] [LawfulBEq α] {l : List (α × β)} {k : α} {v : β}
    (h : l.lookup k = some v) : (k, v) ∈ l := by
  induction l with
  | nil => simp [List.lookup] at h
  | cons p ps ih =>
    obtain ⟨k', v'⟩ := p
    simp only [List.lookup] at h
    by_cases e : k == k'
    · simp only [e] at h
      injection h with h
      subst h
      have : k = k' := by simpa using e
      subst this
      exact List.mem_cons_self
    · simp only [e] at h
      exact List.mem_cons_of_mem _ (ih h)

/-- A character is excluded by a configuration's recognisers (decidable on the
    generated trees). -/
def exclRepo (cfg : RefCfg) (c : Char) : Bool := !Re.inRanges cfg.repoRe.alphabet c
def exclTag (cfg : RefCfg) (c : Char) : Bool := !Re.inRanges cfg.tagRe.alphabet c
def exclDigest (cfg : RefCfg) (c : Char) : Bool :=
  c != ':' && cfg.algs.all (fun p => !p.1.contains c && !Re.inRanges p.2.alphabet c)

theorem repoOk_excl {cfg : RefCfg} {c : Char} {s : Str} (he : exclRepo cfg c = true)
    (h : repoOk cfg s = true) : c ∉ s :=
  Re.not_mem_of_accepts h (by simpa [exclRepo] using he)

theorem tagOk_excl {cfg : RefCfg} {c : Char} {s : Str} (he : exclTag cfg c = true)
    (h : tagOk cfg s = true) : c ∉ s :=
  Re.not_mem_of_accepts h (by simpa [exclTag] using he)

theorem digestOk_excl {cfg : RefCfg} {c : Char} {s : Str} (he : exclDigest cfg c = true)
    (h : digestOk cfg s = true) : c ∉ s := by
  unfold digestOk at h
  cases hs : splitFirst ':' s with
  | none => simp [hs] at h
  | some p =>
    obtain ⟨alg, enc⟩ := p
    simp only [hs] at h
    by_cases hemp : (alg.isEmpty || enc.isEmpty) = true
    · simp [hemp] at h
    · simp only [hemp] at h
      cases hl : cfg.algs.lookup alg with
      | none => simp [hl] at h
      | some re =>
        simp only [hl] at h
        have hmem := lookup_mem hl
        simp only [exclDigest, Bool.and_eq_true, List.all_eq_true, bne_iff_ne] at he
        obtain ⟨hcolon, hall⟩ := he
        have := hall _ hmem
        simp only [Bool.not_eq_true', List.contains_eq_mem,
          decide_eq_false_iff_not] at this
        obtain ⟨hk, hr⟩ := this
        obtain ⟨hsplit, _⟩ := splitFirst_some hs
        rw [hsplit]
        intro hin
        rcases List.mem_append.mp hin with h1 | h1
        · exact hk h1
        · cases h1 with
          | head => exact hcolon rfl
          | tail _ h2 => exact Re.not_mem_of_accepts h hr h2

/-- A digest contains a colon. -/
theorem digestOk_has_colon {cfg : RefCfg} {s : Str} (h : digestOk cfg s = true) : ':' ∈ s := by
  unfold digestOk at h
  cases hs : splitFirst ':' s with
  | none => simp [hs] at h
  | some p =>
    obtain ⟨h1, _⟩ := splitFirst_some (a := p.1) (b := p.2) hs
    rw [h1]; simp

theorem digestOk_nonempty {cfg : RefCfg} {s : Str} (h : digestOk cfg s = true) : s ≠ [] := by
  intro e; subst e; simp [digestOk, splitFirst] at h

end Oras
