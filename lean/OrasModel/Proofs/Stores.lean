/- Helper lemmas and the file-store invariant for C06 (memory and file stores). -/
import OrasModel.Model.Stores
namespace Oras

theorem find_filter_ne {κ β : Type} [DecidableEq κ] (l : List (κ × β)) (k k' : κ) (h : k' ≠ k) :
    (l.filter (·.1 ≠ k)).find? (·.1 = k') = l.find? (·.1 = k') := by
  induction l with
  | nil => rfl
  | cons e es ih =>
    rw [List.filter_cons]
    by_cases he : e.1 = k
    · have h1 : (decide (e.1 ≠ k)) = false := by simp [he]
      have h2 : (decide (e.1 = k')) = false := by
        simp only [decide_eq_false_iff_not]; intro e'; exact h (e'.symm.trans he)
      rw [h1]; simp only [Bool.false_eq_true, if_false]
      rw [List.find?_cons, h2]; exact ih
    · have h1 : (decide (e.1 ≠ k)) = true := by simp [he]
      rw [h1]; simp only [if_true]
      rw [List.find?_cons, List.find?_cons, ih]

/-- Association lists with replace-on-write: lookup after a write. -/
theorem assoc_write {β : Type} (l : List (Nat × β)) (k k' : Nat) (v : β) :
    (((k, v) :: l.filter (·.1 ≠ k)).find? (·.1 = k')).map (·.2) =
      if k' = k then some v else (l.find? (·.1 = k')).map (·.2) := by
  by_cases h : k' = k
  · subst h; simp [List.find?]
  · have hk : (decide (k = k')) = false := by
      simp only [decide_eq_false_iff_not]; exact fun e => h e.symm
    rw [List.find?_cons]
    simp only [hk, h, if_false]
    rw [find_filter_ne l k k' h]

namespace FileSt

theorem fileAt_writeFile (st : FileSt) (p p' : Nat) (b : FileBytes) :
    (st.writeFile p b).fileAt p' = if p' = p then some b else st.fileAt p' := by
  unfold fileAt writeFile
  exact assoc_write st.files p p' b

theorem fileAt_removeFile_ne (st : FileSt) (p p' : Nat) (h : p' ≠ p) :
    (st.removeFile p).fileAt p' = st.fileAt p' := by
  unfold fileAt removeFile
  simp only
  rw [find_filter_ne st.files p p' h]

@[simp] theorem pathOf_removeFile (st : FileSt) (p : Nat) (d : Nat) :
    (st.removeFile p).pathOf d = st.pathOf d := rfl

@[simp] theorem pathOf_writeFile (st : FileSt) (p : Nat) (b : FileBytes) (d : Nat) :
    (st.writeFile p b).pathOf d = st.pathOf d := rfl

/-- The file-store invariant: the digest → path map only points at named, complete files
    holding exactly that digest's bytes; every name that "exists" is a complete file. -/
structure Inv (st : FileSt) : Prop where
  d2p : ∀ d p, st.pathOf d = some p → st.fileAt p = some (.ok d) ∧ p ∈ st.names
  named : ∀ nm ∈ st.names, ∃ d, st.fileAt nm = some (.ok d)

theorem inv_empty : Inv FileSt.empty :=
  ⟨by intro d p h; simp [FileSt.empty, pathOf] at h, by intro nm h; simp [FileSt.empty] at h⟩

/-- `pushNamed` (recording after the verified copy) keeps the invariant, whether the
    content verifies or not. -/
theorem inv_pushNamed (c : StoreCfg) (st : FileSt) (n : Node) (nm : Nat) (good : Bool) (h : Inv st)
    (noOver rmFail : Bool := false) :
    Inv (pushNamed c false st n nm good noOver rmFail).1 := by
  unfold pushNamed
  by_cases hn : nm ∈ st.names
  · simp only [hn, if_true]; exact h
  · simp only [hn, if_false, Bool.false_eq_true]
    by_cases ho : noOver = true ∧ (st.fileAt nm).isSome = true
    · simp only [ho, and_self, if_true]; exact h
    simp only [ho, if_false]
    cases good with
    | true =>
      constructor
      · intro d p hp
        have hp' : (if d = c.dig n then some nm else st.pathOf d) = some p := by
          have := assoc_write st.d2p (c.dig n) d nm
          unfold pathOf at hp ⊢
          simpa [writeFile] using this ▸ hp
        by_cases hd : d = c.dig n
        · rw [if_pos hd] at hp'
          have hpe : p = nm := (Option.some.inj hp').symm
          subst hpe
          refine ⟨?_, List.mem_cons_self⟩
          show (st.writeFile p (.ok (c.dig n))).fileAt p = _
          rw [fileAt_writeFile, if_pos rfl, hd]
        · rw [if_neg hd] at hp'
          obtain ⟨h1, h2⟩ := h.d2p d p hp'
          have hne : p ≠ nm := fun e => hn (e ▸ h2)
          refine ⟨?_, List.mem_cons_of_mem _ h2⟩
          show (st.writeFile nm (.ok (c.dig n))).fileAt p = _
          rw [fileAt_writeFile]; simp [hne, h1]
      · intro x hx
        show ∃ d, (st.writeFile nm (.ok (c.dig n))).fileAt x = some (.ok d)
        rw [fileAt_writeFile]
        by_cases hxe : x = nm
        · exact ⟨c.dig n, by simp [hxe]⟩
        · simp only [hxe, if_false]
          rcases List.mem_cons.mp hx with e | e
          · exact absurd e hxe
          · exact h.named x e
    | false =>
      simp only [Bool.false_eq_true, if_false]
      cases rmFail with
      | true =>
        simp only [if_true]
        constructor
        · intro d p hp
          obtain ⟨h1, h2⟩ := h.d2p d p hp
          have hne : p ≠ nm := fun e => hn (e ▸ h2)
          refine ⟨?_, h2⟩
          rw [fileAt_removeFile_ne _ _ _ hne]; exact h1
        · intro x hx
          have hxe : x ≠ nm := fun e => hn (e ▸ hx)
          rw [fileAt_removeFile_ne _ _ _ hxe]
          exact h.named x hx
      | false =>
        simp only [Bool.false_eq_true, if_false]
        constructor
        · intro d p hp
          obtain ⟨h1, h2⟩ := h.d2p d p hp
          have hne : p ≠ nm := fun e => hn (e ▸ h2)
          refine ⟨?_, h2⟩
          rw [fileAt_writeFile]; simp [hne, h1]
        · intro x hx
          rw [fileAt_writeFile]
          have hxe : x ≠ nm := fun e => hn (e ▸ hx)
          simp only [hxe, if_false]
          exact h.named x hx

theorem inv_restore (c : StoreCfg) (st : FileSt) (m : Node) (h : Inv st) : Inv (restore c st m) := by
  unfold restore
  generalize c.succD m = l
  induction l generalizing st with
  | nil => exact h
  | cons d ds ih =>
    simp only [List.foldl_cons]
    apply ih
    cases d.name with
    | none => exact h
    | some nm =>
      simp only
      split
      · exact h
      · split
        · split
          · exact inv_pushNamed c st d.node nm true h
          · exact h
        · exact h

/-- The invariant depends only on the disk-related fields. -/
theorem inv_congr (a b : FileSt) (h1 : a.names = b.names) (h2 : a.d2p = b.d2p) (h3 : a.files = b.files)
    (h : Inv b) : Inv a := by
  constructor
  · intro d p hp
    have := h.d2p d p (by unfold pathOf at hp ⊢; rw [← h2]; exact hp)
    unfold fileAt at this ⊢
    rw [h3, h1]; exact this
  · intro nm hnm
    have := h.named nm (h1 ▸ hnm)
    unfold fileAt at this ⊢
    rw [h3]; exact this

/-- `Store.Push` keeps the invariant — for named and unnamed content, verified or not. -/
theorem inv_push (c : StoreCfg) (st : FileSt) (d : SDesc) (good : Bool) (h : Inv st)
    (forceCAS noOver rmFail inn : Bool := false) :
    Inv (push c false st d good forceCAS noOver rmFail inn).1 := by
  unfold push
  by_cases hi : inn = true ∧ d.name = none
  · simp only [hi, and_self, if_true]; exact h
  simp only [hi, if_false]
  cases hname : d.name with
  | none =>
    simp only
    by_cases hf : d.node ∈ st.fallback
    · simp only [hf, if_true]; exact h
    · simp only [hf, if_false]
      cases good with
      | false => simp only [Bool.not_false, if_true]; exact h
      | true =>
        simp only [Bool.not_true, Bool.false_eq_true, if_false]
        have h0 : Inv { st with fallback := d.node :: st.fallback } := inv_congr _ st rfl rfl rfl h
        by_cases hm : (c.isMan d.node && !forceCAS) = true
        · simp only [hm, if_true]
          exact inv_congr _ (restore c _ d.node) rfl rfl rfl (inv_restore c _ d.node h0)
        · simp only [hm, Bool.false_eq_true, if_false]
          exact inv_congr _ { st with fallback := d.node :: st.fallback } rfl rfl rfl h0
  | some nm =>
    simp only
    have hp := inv_pushNamed c st d.node nm good h noOver rmFail
    cases hr : pushNamed c false st d.node nm good noOver rmFail with
    | mk s r =>
      rw [hr] at hp
      cases r with
      | error e => exact hp
      | ok u =>
        simp only
        by_cases hm : (c.isMan d.node && !forceCAS) = true
        · simp only [hm, if_true]
          exact inv_congr _ (restore c s d.node) rfl rfl rfl (inv_restore c s d.node hp)
        · simp only [hm, Bool.false_eq_true, if_false]
          exact inv_congr _ s rfl rfl rfl hp

end FileSt
end Oras
