/-
  Helper lemmas for C13.
-/
import OrasModel.Model.Remote
namespace Oras.Proofs.Remote
open Oras Oras.Remote

section
variable {Body Dig : Type} [DecidableEq Dig]

theorem vcd_ok (r : Resp Body Dig) (e : Dig) (h : verifyContentDigest r e = .ok ()) :
    r.dcd = .absent ∨ r.dcd = .valid e := by
  unfold verifyContentDigest at h
  cases hd : r.dcd with
  | absent => exact Or.inl rfl
  | invalid => simp [hd] at h
  | valid d =>
    simp only [hd] at h
    by_cases hde : d = e
    · subst hde; exact Or.inr rfl
    · simp [hde] at h

theorem genManifestDesc_ok (cx : Ctx Body Dig) (isHead : Bool) (refDigest : Option Dig)
    (r : Resp Body Dig) (d : Desc Dig) (h : genManifestDesc cx isHead refDigest r = .ok d) :
    r.ctype = some d.mt ∧ r.clen = some d.size ∧
    (∀ q, refDigest = some q → d.dig = q) ∧
    (∀ hd, r.dcd = .valid hd → d.dig = hd) ∧
    r.dcd ≠ .invalid ∧
    (r.dcd = .absent → isHead = true → refDigest = some d.dig) ∧
    (r.dcd = .absent → isHead = false → ∃ b, r.body = some b ∧ d.dig = cx.H b) := by
  unfold genManifestDesc at h
  cases hct : r.ctype with
  | none => simp [hct] at h
  | some mt =>
    cases hcl : r.clen with
    | none => simp [hct, hcl] at h
    | some n =>
      simp only [hct, hcl] at h
      cases hdcd : r.dcd with
      | invalid => simp [hdcd] at h
      | valid hd =>
        simp only [hdcd] at h
        cases refDigest with
        | none =>
          simp only [Except.ok.injEq] at h
          subst h
          simp
        | some q =>
          simp only at h
          by_cases hq : q = hd
          · subst hq
            simp only [if_true, Except.ok.injEq] at h
            subst h
            simp
          · simp [hq] at h
      | absent =>
        simp only [hdcd] at h
        cases isHead with
        | true =>
          simp only [if_true] at h
          cases refDigest with
          | none => simp at h
          | some q =>
            simp only [if_true, Except.ok.injEq] at h
            subst h
            simp
        | false =>
          simp only [Bool.false_eq_true, if_false] at h
          cases hb : r.body with
          | none => simp [hb] at h
          | some b =>
            simp only [hb] at h
            cases refDigest with
            | none =>
              simp only [Except.ok.injEq] at h
              subst h
              simp
            | some q =>
              simp only at h
              by_cases hq : q = cx.H b
              · subst hq
                simp only [if_true, Except.ok.injEq] at h
                subst h
                simp
              · simp [hq] at h

theorem genBlobDesc_ok (r : Resp Body Dig) (q : Dig) (d : Desc Dig)
    (h : genBlobDesc r q = .ok d) :
    d.dig = q ∧ r.clen = some d.size ∧ (r.dcd = .absent ∨ r.dcd = .valid q) := by
  unfold genBlobDesc at h
  cases hcl : r.clen with
  | none => simp [hcl] at h
  | some n =>
    simp only [hcl] at h
    cases hv : verifyContentDigest r q with
    | error e => simp [hv] at h
    | ok u =>
      simp only [hv, Except.ok.injEq] at h
      subst h
      exact ⟨rfl, rfl, vcd_ok r q (by cases u; exact hv)⟩

theorem blobFetchCheck_ok (t : Desc Dig) (r : Resp Body Dig) (h : blobFetchCheck t r = .ok ()) :
    (∀ n, r.clen = some n → n = t.size) ∧ (r.dcd = .absent ∨ r.dcd = .valid t.dig) := by
  unfold blobFetchCheck at h
  cases hcl : r.clen with
  | none =>
    simp only [hcl] at h
    exact ⟨(by intro n hn; cases hn), vcd_ok r t.dig h⟩
  | some n =>
    simp only [hcl] at h
    by_cases hn : n = t.size
    · simp only [hn, ne_eq, not_true_eq_false, if_false] at h
      exact ⟨(by intro m hm; injection hm with hm; omega), vcd_ok r t.dig h⟩
    · simp [hn] at h

theorem manFetchCheck_ok (t : Desc Dig) (r : Resp Body Dig) (h : manFetchCheck t r = .ok ()) :
    r.ctype = some t.mt ∧ (∀ n, r.clen = some n → n = t.size) ∧ (r.dcd = .absent ∨ r.dcd = .valid t.dig) := by
  unfold manFetchCheck at h
  cases hct : r.ctype with
  | none => simp [hct] at h
  | some mt =>
    simp only [hct] at h
    by_cases hm : mt = t.mt
    · subst hm
      simp only [ne_eq, not_true_eq_false, if_false] at h
      cases hcl : r.clen with
      | none =>
        simp only [hcl] at h
        exact ⟨rfl, (by intro n hn; cases hn), vcd_ok r t.dig h⟩
      | some n =>
        simp only [hcl] at h
        by_cases hn : n = t.size
        · simp only [hn, not_true_eq_false, if_false] at h
          exact ⟨rfl, (by intro m hm; injection hm with hm; omega), vcd_ok r t.dig h⟩
        · simp [hn] at h
    · simp [hm] at h

/-! ### corrupted responses -/

theorem vcd_contra (r : Resp Body Dig) (e : Dig) (h : r.dcd = .invalid ∨ ∃ d, r.dcd = .valid d ∧ d ≠ e) :
    ∃ x, verifyContentDigest r e = .error x := by
  unfold verifyContentDigest
  rcases h with h | ⟨d, h, hne⟩
  · rw [h]; exact ⟨_, rfl⟩
  · rw [h]; simp [hne]

theorem blobCheck_contra (t : Desc Dig) (r0 : Resp Body Dig) (c : Corrupt Dig)
    (hc : contradicts c (some t.dig) (some t.size) none = true) :
    ∃ x, blobFetchCheck t (applyCorrupt (some c) r0) = .error x := by
  unfold blobFetchCheck
  cases c with
  | dcd d =>
    cases d with
    | absent => simp [contradicts] at hc
    | invalid =>
      simp only [applyCorrupt]
      split
      · split
        · exact ⟨_, rfl⟩
        · exact vcd_contra _ _ (Or.inl rfl)
      · exact vcd_contra _ _ (Or.inl rfl)
    | valid d' =>
      have hne : d' ≠ t.dig := by simpa [contradicts] using hc
      simp only [applyCorrupt]
      split
      · split
        · exact ⟨_, rfl⟩
        · exact vcd_contra _ _ (Or.inr ⟨d', rfl, hne⟩)
      · exact vcd_contra _ _ (Or.inr ⟨d', rfl, hne⟩)
  | clen n =>
    cases n with
    | none => simp [contradicts] at hc
    | some n =>
      have hne : n ≠ t.size := by simpa [contradicts] using hc
      simp [applyCorrupt, hne]
  | ctype ct => cases ct <;> simp [contradicts] at hc

theorem manCheck_contra (t : Desc Dig) (r0 : Resp Body Dig) (c : Corrupt Dig)
    (hc : contradicts c (some t.dig) (some t.size) (some t.mt) = true) :
    ∃ x, manFetchCheck t (applyCorrupt (some c) r0) = .error x := by
  unfold manFetchCheck
  cases c with
  | dcd d =>
    have hd : d = .invalid ∨ ∃ d', d = .valid d' ∧ d' ≠ t.dig := by
      cases d with
      | absent => simp [contradicts] at hc
      | invalid => exact Or.inl rfl
      | valid d' => exact Or.inr ⟨d', rfl, by simpa [contradicts] using hc⟩
    simp only [applyCorrupt]
    split
    · exact ⟨_, rfl⟩
    · split
      · exact ⟨_, rfl⟩
      · split
        · split
          · exact ⟨_, rfl⟩
          · exact vcd_contra _ _ hd
        · exact vcd_contra _ _ hd
  | clen n =>
    cases n with
    | none => simp [contradicts] at hc
    | some n =>
      have hne : n ≠ t.size := by simpa [contradicts] using hc
      simp only [applyCorrupt]
      split
      · exact ⟨_, rfl⟩
      · split
        · exact ⟨_, rfl⟩
        · simp
  | ctype ct =>
    cases ct with
    | none => simp [applyCorrupt]
    | some m =>
      have hne : m ≠ t.mt := by simpa [contradicts] using hc
      simp [applyCorrupt, hne]

theorem genBlob_contra (q : Dig) (r0 : Resp Body Dig) (c : Corrupt Dig)
    (hc : contradicts c (some q) none none = true) :
    ∃ x, genBlobDesc (applyCorrupt (some c) r0) q = .error x := by
  unfold genBlobDesc
  cases c with
  | dcd d =>
    have hd : d = .invalid ∨ ∃ d', d = .valid d' ∧ d' ≠ q := by
      cases d with
      | absent => simp [contradicts] at hc
      | invalid => exact Or.inl rfl
      | valid d' => exact Or.inr ⟨d', rfl, by simpa [contradicts] using hc⟩
    simp only [applyCorrupt]
    split
    · exact ⟨_, rfl⟩
    · obtain ⟨x, hx⟩ := vcd_contra ({ r0 with dcd := d } : Resp Body Dig) q hd
      rw [hx]; exact ⟨_, rfl⟩
  | clen n => cases n <;> simp [contradicts] at hc
  | ctype ct => cases ct <;> simp [contradicts] at hc

theorem genMan_contra (cx : Ctx Body Dig) (isHead : Bool) (q : Dig) (r0 : Resp Body Dig) (c : Corrupt Dig)
    (hc : contradicts c (some q) none none = true) :
    ∃ x, genManifestDesc cx isHead (some q) (applyCorrupt (some c) r0) = .error x := by
  unfold genManifestDesc
  cases c with
  | dcd d =>
    simp only [applyCorrupt]
    split
    · exact ⟨_, rfl⟩
    · split
      · exact ⟨_, rfl⟩
      · cases d with
        | absent => simp [contradicts] at hc
        | invalid => exact ⟨_, rfl⟩
        | valid d' =>
          have hne : d' ≠ q := by simpa [contradicts] using hc
          have hne' : q ≠ d' := fun e => hne e.symm
          simp [hne']
  | clen n => cases n <;> simp [contradicts] at hc
  | ctype ct => cases ct <;> simp [contradicts] at hc

/-- The reference registry always states the length of a 200 response. -/
theorem serve_200_clen (cx : Ctx Body Dig) (p : Prof) (g : Reg Body Dig) (q : Req Body Dig)
    (h : (serve cx p g q).2.status = 200) : ∃ n, (serve cx p g q).2.clen = some n := by
  cases q with
  | headBlob repo d => simp only [serve] at h ⊢; split <;> simp_all
  | getBlob repo d => simp only [serve] at h ⊢; split <;> simp_all
  | deleteBlob repo d => simp only [serve] at h ⊢; split <;> simp_all
  | postUpload repo => simp [serve] at h
  | postMount repo d src => simp only [serve] at h ⊢; split <;> simp_all
  | putUpload repo s d n b => simp only [serve] at h ⊢; split <;> (try split) <;> simp_all
  | headMan repo r => simp only [serve] at h ⊢; split <;> simp_all [manResp]
  | getMan repo r => simp only [serve] at h ⊢; split <;> simp_all [manResp]
  | putMan repo r ct n b => simp only [serve] at h ⊢; split <;> (try split) <;> simp_all
  | deleteMan repo d => simp only [serve] at h ⊢; split <;> simp_all

omit [DecidableEq Dig] in
@[simp] theorem applyCorrupt_status (c : Option (Corrupt Dig)) (r : Resp Body Dig) :
    (applyCorrupt c r).status = r.status := by
  cases c with
  | none => rfl
  | some c => cases c <;> rfl

omit [DecidableEq Dig] in
@[simp] theorem applyCorrupt_body (c : Option (Corrupt Dig)) (r : Resp Body Dig) :
    (applyCorrupt c r).body = r.body := by
  cases c with
  | none => rfl
  | some c => cases c <;> rfl

theorem applyCorrupt_clen (c : Corrupt Dig) (r : Resp Body Dig) (n : Nat) (h : r.clen = some n)
    (hc : ∀ wd, contradicts c wd none none = true → True) :
    (∃ m, (applyCorrupt (some c) r).clen = some m) ∨ c = .clen none := by
  cases c with
  | dcd d => exact Or.inl ⟨n, h⟩
  | ctype t => exact Or.inl ⟨n, h⟩
  | clen m =>
    cases m with
    | none => exact Or.inr rfl
    | some m => exact Or.inl ⟨m, rfl⟩

theorem corruption_rejected (cx : Ctx Body Dig) (p : Prof) (g : Reg Body Dig) (rs : RState)
    (repo : String) (t : Desc Dig) (c : Corrupt Dig) :
    (contradicts c (some t.dig) (some t.size) none = true →
      ∃ e, (fetchBlob cx p (some c) g rs repo t).res = .err e) ∧
    (contradicts c (some t.dig) (some t.size) (some t.mt) = true →
      ∃ e, (fetchManifest cx p (some c) g rs repo t).res = .err e) ∧
    (contradicts c (some t.dig) none none = true →
      (∃ e, (resolveBlob cx p (some c) g rs repo t.dig).res = .err e) ∧
      (∃ e, (resolveManifest cx p (some c) g rs repo (.dig t.dig)).res = .err e) ∧
      (∃ e, (fetchRefBlob cx p (some c) g rs repo t.dig).res = .err e) ∧
      (∃ e, (fetchRefManifest cx p (some c) g rs repo (.dig t.dig)).res = .err e)) := by
  refine ⟨?_, ?_, ?_⟩
  · intro hc
    obtain ⟨x, hx⟩ := blobCheck_contra t (serve cx p g (.getBlob repo t.dig)).2 c hc
    unfold fetchBlob
    simp only []
    split
    · rw [hx]; exact ⟨_, rfl⟩
    · exact ⟨_, rfl⟩
  · intro hc
    obtain ⟨x, hx⟩ := manCheck_contra t (serve cx p g (.getMan repo (.dig t.dig))).2 c hc
    unfold fetchManifest
    simp only []
    split
    · rw [hx]; exact ⟨_, rfl⟩
    · exact ⟨_, rfl⟩
  · intro hc
    have hnotlen : c ≠ .clen none := by
      intro e; subst e; simp [contradicts] at hc
    refine ⟨?_, ?_, ?_, ?_⟩
    · obtain ⟨x, hx⟩ := genBlob_contra t.dig (serve cx p g (.headBlob repo t.dig)).2 c hc
      unfold resolveBlob
      simp only []
      split
      · rw [hx]; exact ⟨_, rfl⟩
      · exact ⟨_, rfl⟩
    · obtain ⟨x, hx⟩ := genMan_contra cx true t.dig (serve cx p g (.headMan repo (.dig t.dig))).2 c hc
      unfold resolveManifest
      simp only [refDigest?]
      split
      · rw [hx]; exact ⟨_, rfl⟩
      · exact ⟨_, rfl⟩
    · obtain ⟨x, hx⟩ := genBlob_contra t.dig (serve cx p g (.getBlob repo t.dig)).2 c hc
      unfold fetchRefBlob
      simp only []
      split
      · rename_i h200
        simp only [applyCorrupt_status] at h200
        obtain ⟨n, hn⟩ := serve_200_clen cx p g _ h200
        rcases applyCorrupt_clen c _ n hn (fun _ _ => trivial) with ⟨m, hm⟩ | hbad
        · split
          · exact ⟨_, rfl⟩
          · rw [hm]; simp only []; rw [hx]; exact ⟨_, rfl⟩
        · exact absurd hbad hnotlen
      · exact ⟨_, rfl⟩
    · obtain ⟨x, hx⟩ := genMan_contra cx false t.dig (serve cx p g (.getMan repo (.dig t.dig))).2 c hc
      unfold fetchRefManifest
      simp only [refDigest?]
      split
      · rename_i h200
        simp only [applyCorrupt_status] at h200
        obtain ⟨n, hn⟩ := serve_200_clen cx p g _ h200
        rcases applyCorrupt_clen c _ n hn (fun _ _ => trivial) with ⟨m, hm⟩ | hbad
        · split
          · exact ⟨_, rfl⟩
          · rw [hm]; simp only []; rw [hx]; exact ⟨_, rfl⟩
        · exact absurd hbad hnotlen
      · exact ⟨_, rfl⟩

/-! ### association lists and registry state -/

section alist
variable {κ ν : Type} [DecidableEq κ]

theorem alookup_adel (l : List (κ × ν)) (k k' : κ) :
    alookup (adel l k) k' = if k' = k then none else alookup l k' := by
  induction l with
  | nil => simp [adel, alookup]
  | cons hd tl ih =>
    obtain ⟨a, v⟩ := hd
    unfold adel at ih ⊢
    by_cases ha : a = k
    · subst ha
      simp only [List.filter_cons, ne_eq, not_true_eq_false, decide_false, Bool.false_eq_true, if_false]
      rw [ih]
      by_cases hk : k' = a
      · simp [hk]
      · have : a ≠ k' := fun e => hk e.symm
        simp [hk, alookup, this]
    · simp only [List.filter_cons, ne_eq, ha, not_false_eq_true, decide_true, if_true]
      simp only [alookup]
      by_cases hak : a = k'
      · subst hak; simp [ha]
      · simp only [hak, if_false]; exact ih

theorem alookup_aset (l : List (κ × ν)) (k k' : κ) (v : ν) :
    alookup (aset l k v) k' = if k' = k then some v else alookup l k' := by
  unfold aset
  simp only [alookup]
  by_cases h : k = k'
  · subst h; simp
  · have h' : k' ≠ k := fun e => h e.symm
    simp [h, h', alookup_adel]

end alist

omit [DecidableEq Dig] in
@[simp] theorem set_repos_same (g : Reg Body Dig) (name : String) (r : RepoSt Body Dig) :
    (g.set name r).repos name = r := by simp [Reg.set]

omit [DecidableEq Dig] in
theorem set_repos_other (g : Reg Body Dig) (name other : String) (r : RepoSt Body Dig) (h : other ≠ name) :
    (g.set name r).repos other = g.repos other := by simp [Reg.set, h]

end
end Oras.Proofs.Remote
