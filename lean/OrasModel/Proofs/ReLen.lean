/-
  Length bounds of the derivative matcher: an accepted string is no longer than `maxLen`
  and no shorter than `minLen` of the expression.  Used to state the documented length rules
  (tags ≤ 128 characters, RFC 6838 names ≤ 127, digest encodings of exact length) about the
  expressions regenerated from the source.
-/
import OrasModel.Proofs.Re
namespace Oras.Re

theorem accepts_mkCat (a b : Re) (s : List Char) : accepts (mkCat a b) s = accepts (cat a b) s := by
  unfold mkCat
  split
  · rw [accepts_empty, dead_cat b dead_empty s]
  · rfl

/-- An accepted concatenation splits into an accepted prefix and an accepted suffix. -/
theorem accepts_cat_split (b : Re) (s : List Char) : ∀ a : Re, accepts (cat a b) s = true →
    ∃ s1 s2, s = s1 ++ s2 ∧ accepts a s1 = true ∧ accepts b s2 = true := by
  induction s with
  | nil =>
    intro a h
    simp only [accepts, nullable, Bool.and_eq_true] at h
    exact ⟨[], [], rfl, by simpa [accepts] using h.1, by simpa [accepts] using h.2⟩
  | cons c s ih =>
    intro a h
    simp only [accepts, deriv] at h
    rw [accepts_mkAlt, Bool.or_eq_true] at h
    rcases h with h | h
    · rw [accepts_mkCat] at h
      obtain ⟨s1, s2, hs, h1, h2⟩ := ih (deriv c a) h
      exact ⟨c :: s1, s2, by rw [hs]; rfl, by simpa [accepts] using h1, h2⟩
    · by_cases hn : nullable a = true
      · simp only [hn, if_true] at h
        exact ⟨[], c :: s, rfl, by simpa [accepts] using hn, by simpa [accepts] using h⟩
      · simp only [hn, Bool.false_eq_true, if_false, accepts_empty] at h

/-- Upper bound on the length of an accepted string (`none`: unbounded). -/
def maxLen : Re → Option Nat
  | empty => some 0
  | eps => some 0
  | cls _ => some 1
  | cat a b => match maxLen a, maxLen b with
    | some x, some y => some (x + y)
    | _, _ => none
  | alt a b => match maxLen a, maxLen b with
    | some x, some y => some (max x y)
    | _, _ => none
  | star a => match maxLen a with
    | some 0 => some 0
    | _ => none
  | rep a _ mx => match maxLen a with
    | some x => some (x * mx)
    | none => if mx = 0 then some 0 else none

/-- Lower bound on the length of an accepted string. -/
def minLen : Re → Nat
  | empty => 0
  | eps => 0
  | cls _ => 1
  | cat a b => minLen a + minLen b
  | alt a b => min (minLen a) (minLen b)
  | star _ => 0
  | rep a mn _ => minLen a * mn

def BoundedBy (r : Re) (n : Nat) : Prop := ∀ s, accepts r s = true → s.length ≤ n

theorem bounded_cat {a b : Re} {x y : Nat} (ha : BoundedBy a x) (hb : BoundedBy b y) : BoundedBy (cat a b) (x + y) := by
  intro s h
  obtain ⟨s1, s2, hs, h1, h2⟩ := accepts_cat_split b s a h
  have := ha s1 h1
  have := hb s2 h2
  rw [hs, List.length_append]; omega

theorem bounded_cls (rs : List (Nat × Nat)) : BoundedBy (cls rs) 1 := by
  intro s h
  match s with
  | [] => simp
  | [_] => simp
  | c :: d :: t =>
    simp only [accepts, deriv] at h
    split at h
    · simp only [deriv] at h
      rw [accepts_empty] at h; cases h
    · simp only [deriv] at h
      rw [accepts_empty] at h; cases h

theorem bounded_rep (a : Re) (x : Nat) (ha : BoundedBy a x) : ∀ (mx mn : Nat), BoundedBy (rep a mn mx) (x * mx) := by
  intro mx
  induction mx with
  | zero =>
    intro mn s h
    match s with
    | [] => simp
    | c :: t =>
      simp only [accepts, deriv, if_true] at h
      rw [accepts_empty] at h; cases h
  | succ k ih =>
    intro mn s h
    match s with
    | [] => simp
    | c :: t =>
      simp only [accepts, deriv, Nat.add_one_ne_zero, if_false, Nat.add_sub_cancel] at h
      rw [accepts_mkCat] at h
      obtain ⟨s1, s2, hs, h1, h2⟩ := accepts_cat_split _ t _ h
      have l1 : (c :: s1).length ≤ x := ha (c :: s1) (by simpa [accepts] using h1)
      have l2 := ih (mn - 1) s2 h2
      simp only [List.length_cons] at l1 ⊢
      rw [hs, List.length_append, Nat.mul_succ]
      omega

theorem bounded_star_zero (a : Re) (ha : BoundedBy a 0) : BoundedBy (star a) 0 := by
  intro s h
  match s with
  | [] => simp
  | c :: t =>
    simp only [accepts, deriv] at h
    rw [accepts_mkCat] at h
    obtain ⟨s1, s2, _, h1, _⟩ := accepts_cat_split _ t _ h
    have := ha (c :: s1) (by simpa [accepts] using h1)
    simp at this

/-- **`maxLen` is sound.** -/
theorem maxLen_sound : ∀ (r : Re) (n : Nat), maxLen r = some n → BoundedBy r n := by
  intro r
  induction r with
  | empty => intro n _ s h; rw [accepts_empty] at h; cases h
  | eps =>
    intro n hn s h
    match s with
    | [] => simp
    | c :: t => simp only [accepts, deriv] at h; rw [accepts_empty] at h; cases h
  | cls rs =>
    intro n hn
    simp only [maxLen, Option.some.injEq] at hn
    subst hn; exact bounded_cls rs
  | cat a b iha ihb =>
    intro n hn
    simp only [maxLen] at hn
    cases ha : maxLen a with
    | none => simp [ha] at hn
    | some x =>
      cases hb : maxLen b with
      | none => simp [ha, hb] at hn
      | some y =>
        simp only [ha, hb, Option.some.injEq] at hn
        subst hn
        exact bounded_cat (iha x ha) (ihb y hb)
  | alt a b iha ihb =>
    intro n hn
    simp only [maxLen] at hn
    cases ha : maxLen a with
    | none => simp [ha] at hn
    | some x =>
      cases hb : maxLen b with
      | none => simp [ha, hb] at hn
      | some y =>
        simp only [ha, hb, Option.some.injEq] at hn
        subst hn
        intro s h
        rw [accepts_alt, Bool.or_eq_true] at h
        rcases h with h | h
        · have := iha x ha s h; omega
        · have := ihb y hb s h; omega
  | star a iha =>
    intro n hn
    simp only [maxLen] at hn
    cases ha : maxLen a with
    | none => simp [ha] at hn
    | some x =>
      cases x with
      | zero =>
        simp only [ha, Option.some.injEq] at hn
        subst hn
        exact bounded_star_zero a (iha 0 ha)
      | succ k => simp [ha] at hn
  | rep a mn mx iha =>
    intro n hn
    simp only [maxLen] at hn
    cases ha : maxLen a with
    | some x =>
      simp only [ha, Option.some.injEq] at hn
      subst hn
      exact bounded_rep a x (iha x ha) mx mn
    | none =>
      simp only [ha] at hn
      by_cases hz : mx = 0
      · simp only [hz, if_true, Option.some.injEq] at hn
        subst hn; subst hz
        intro s h
        match s with
        | [] => simp
        | c :: t =>
          simp only [accepts, deriv, if_true] at h
          rw [accepts_empty] at h; cases h
      · simp [hz] at hn

/-- A string accepted by `a{mn,mx}` is at least `mn` strings accepted by `a` long. -/
theorem minLen_rep (a : Re) (x : Nat) (ha : ∀ s, accepts a s = true → x ≤ s.length) :
    ∀ (mn mx : Nat) (s : List Char), accepts (rep a mn mx) s = true → x * mn ≤ s.length := by
  intro mn
  induction mn with
  | zero => intro mx s _; simp
  | succ k ih =>
    intro mx s h
    match s with
    | [] =>
      simp only [accepts, nullable, Bool.or_eq_true, beq_iff_eq, Nat.add_one_ne_zero, false_or] at h
      have := ha [] (by simpa [accepts] using h)
      simp only [List.length_nil, Nat.le_zero_eq] at this
      subst this; simp
    | c :: t =>
      simp only [accepts, deriv] at h
      by_cases hz : mx = 0
      · simp only [hz, if_true] at h; rw [accepts_empty] at h; cases h
      · simp only [hz, if_false, Nat.add_sub_cancel] at h
        rw [accepts_mkCat] at h
        obtain ⟨s1, s2, hs, h1, h2⟩ := accepts_cat_split _ t _ h
        have l1 : x ≤ (c :: s1).length := ha (c :: s1) (by simpa [accepts] using h1)
        have l2 := ih (mx - 1) s2 h2
        simp only [List.length_cons] at l1 ⊢
        rw [hs, List.length_append, Nat.mul_succ]
        omega

/-- **`minLen` is sound.** -/
theorem minLen_sound : ∀ (r : Re) (s : List Char), accepts r s = true → minLen r ≤ s.length := by
  intro r
  induction r with
  | empty => intro s h; rw [accepts_empty] at h; cases h
  | eps => intro s _; simp [minLen]
  | cls rs =>
    intro s h
    match s with
    | [] => simp [accepts, nullable] at h
    | _ :: _ => simp [minLen]
  | cat a b iha ihb =>
    intro s h
    obtain ⟨s1, s2, hs, h1, h2⟩ := accepts_cat_split b s a h
    have := iha s1 h1
    have := ihb s2 h2
    simp only [minLen]
    rw [hs, List.length_append]; omega
  | alt a b iha ihb =>
    intro s h
    rw [accepts_alt, Bool.or_eq_true] at h
    simp only [minLen]
    rcases h with h | h
    · have := iha s h; omega
    · have := ihb s h; omega
  | star a _ => intro s _; simp [minLen]
  | rep a mn mx iha =>
    intro s h
    simp only [minLen]
    exact minLen_rep a (minLen a) iha mn mx s h

end Oras.Re
