/- Lemmas about the resolver part of the OCI store model (C06, C08, C09). -/
import OrasModel.Model.Oci
namespace Oras
namespace OciSt

@[simp] theorem lookupRef_resolverTag_same (st : OciSt) (n : Node) (ann : Nat) (k : RefKey) :
    (st.resolverTag n ann k).lookupRef k = some (n, ann) := by
  simp [lookupRef, resolverTag]

theorem find_filter_ne {α : Type} (l : List (RefKey × α)) (k k' : RefKey) (h : k' ≠ k) :
    (l.filter (fun e => e.1 ≠ k)).find? (fun e => e.1 = k') = l.find? (fun e => e.1 = k') := by
  induction l with
  | nil => rfl
  | cons e es ih =>
    rw [List.filter_cons]
    by_cases h1 : e.1 = k
    · have hk' : ¬ e.1 = k' := by rw [h1]; exact fun e' => h e'.symm
      have hd : decide (e.1 ≠ k) = false := by simp [h1]
      rw [hd]
      simp only [Bool.false_eq_true, if_false]
      rw [List.find?_cons]
      have : decide (e.1 = k') = false := by simp [hk']
      rw [this]
      exact ih
    · have hd : decide (e.1 ≠ k) = true := by simp [h1]
      rw [hd]
      simp only [if_true]
      rw [List.find?_cons, List.find?_cons, ih]

theorem lookupRef_resolverTag_other (st : OciSt) (n : Node) (ann : Nat) (k k' : RefKey) (h : k' ≠ k) :
    (st.resolverTag n ann k).lookupRef k' = st.lookupRef k' := by
  have hk : ¬ (k = k') := fun e => h e.symm
  simp only [lookupRef, resolverTag, List.find?, hk, decide_false]
  rw [find_filter_ne _ _ _ h]

theorem lookupRef_resolverUntag_same (st : OciSt) (k : RefKey) :
    (st.resolverUntag k).lookupRef k = none := by
  unfold resolverUntag
  cases h : st.lookupRef k with
  | none => simp [h]
  | some v =>
    simp only [lookupRef]
    have : (st.refs.filter (fun e => e.1 ≠ k)).find? (fun e => e.1 = k) = none := by
      apply List.find?_eq_none.mpr
      intro e he
      simp only [List.mem_filter, ne_eq, decide_not, Bool.not_eq_eq_eq_not, Bool.not_true,
        decide_eq_false_iff_not] at he
      simpa using he.2
    simp [this]

theorem lookupRef_resolverUntag_other (st : OciSt) (k k' : RefKey) (h : k' ≠ k) :
    (st.resolverUntag k).lookupRef k' = st.lookupRef k' := by
  unfold resolverUntag
  cases h1 : st.lookupRef k with
  | none => rfl
  | some v =>
    simp only [lookupRef]
    rw [find_filter_ne _ _ _ h]

@[simp] theorem lookupRef_saveIndex (st : OciSt) (k : RefKey) : st.saveIndex.lookupRef k = st.lookupRef k := rfl
@[simp] theorem blobs_saveIndex (st : OciSt) : st.saveIndex.blobs = st.blobs := rfl

@[simp] theorem lookupRef_autosave (st : OciSt) (k : RefKey) : st.autosave.lookupRef k = st.lookupRef k := by
  unfold autosave; split <;> rfl

@[simp] theorem blobs_autosave (st : OciSt) : st.autosave.blobs = st.blobs := by
  unfold autosave; split <;> rfl

@[simp] theorem blobs_resolverTag (st : OciSt) (n : Node) (a : Nat) (k : RefKey) :
    (st.resolverTag n a k).blobs = st.blobs := rfl

@[simp] theorem blobs_resolverUntag (st : OciSt) (k : RefKey) : (st.resolverUntag k).blobs = st.blobs := by
  unfold resolverUntag; split <;> rfl

theorem blobs_tagInternal (st : OciSt) (n : Node) (a : Nat) (k : RefKey) :
    (st.tagInternal n a k).blobs = st.blobs := by
  unfold tagInternal
  split <;> simp

theorem lookupRef_tagInternal_same (st : OciSt) (n : Node) (a : Nat) (k : RefKey) :
    (st.tagInternal n a k).lookupRef k = some (n, a) := by
  unfold tagInternal
  simp

theorem lookupRef_tagInternal_tag_other (st : OciSt) (n : Node) (a : Nat) (k : RefKey) (nm : Nat)
    (h : RefKey.tag nm ≠ k) : (st.tagInternal n a k).lookupRef (.tag nm) = st.lookupRef (.tag nm) := by
  unfold tagInternal
  simp only [lookupRef_autosave]
  rw [lookupRef_resolverTag_other _ _ _ _ _ h]
  split
  · rw [lookupRef_resolverTag_other _ _ _ _ _ (by intro e; cases e)]
  · rfl

end OciSt
end Oras
