/- Invariant of the per-node copy system and its preservation (C01, C02, C04). -/
import OrasModel.Model.Copy
namespace Oras

/-- Key consistency: nodes the destination cannot tell apart have the same successor keys.
    Trivial when `dkey` is injective (key-addressed destinations). -/
def KeyCons (c : CopyCfg) : Prop :=
  ∀ m n, c.dkey m = c.dkey n → ∀ k ∈ c.kids n, ∃ k' ∈ c.kids m, c.dkey k' = c.dkey k

/-- A key set is closed under links. -/
def ClosedKeys (c : CopyCfg) (dst : List Nat) : Prop :=
  ∀ n, dst.contains (c.dkey n) = true → ∀ k ∈ c.kids n, dst.contains (c.dkey k) = true

structure CopyInv (c : CopyCfg) (s : CopySt) : Prop where
  closed : ClosedKeys c s.dst
  done_present : ∀ n, s.st n = .done → present c s n = true
  copying_ready : ∀ n, s.st n = .copying → ∀ k ∈ c.kids n, present c s k = true

theorem copyInv_init (c : CopyCfg) (dst0 : List Nat) (h : ClosedKeys c dst0) :
    CopyInv c (CopySt.init dst0) :=
  ⟨h, by intro n hn; simp [CopySt.init] at hn, by intro n hn; simp [CopySt.init] at hn⟩

theorem contains_cons_mono (x y : Nat) (l : List Nat) (h : l.contains x = true) :
    (y :: l).contains x = true := by
  simp only [List.contains_cons, h, Bool.or_true]

/-- Invariant preservation for a step that only changes `st n` to a state that is neither
    `done` nor `copying`. -/
theorem copyInv_st_only (c : CopyCfg) (s : CopySt) (n : Node) (v : NSt) (h : CopyInv c s)
    (hd : v = .done → present c s n = true)
    (hc : v = .copying → ∀ k ∈ c.kids n, present c s k = true) :
    CopyInv c { s with st := fupd s.st n v } := by
  refine ⟨h.closed, ?_, ?_⟩
  · intro m hm
    by_cases e : m = n
    · subst e
      simp only [fupd_same] at hm
      exact hd hm
    · simp only [fupd_other _ _ _ _ e] at hm
      exact h.done_present m hm
  · intro m hm
    by_cases e : m = n
    · subst e
      simp only [fupd_same] at hm
      exact hc hm
    · simp only [fupd_other _ _ _ _ e] at hm
      exact h.copying_ready m hm

/-- Invariant preservation for a step that stores `dkey n` while `n` is `copying`. -/
theorem copyInv_store (c : CopyCfg) (hk : KeyCons c) (s : CopySt) (n : Node) (v : NSt)
    (h : CopyInv c s) (hn : s.st n = .copying) (hv : v = .done ∨ v = .failed) :
    CopyInv c { st := fupd s.st n v, dst := c.dkey n :: s.dst } := by
  have mono : ∀ x, present c s x = true →
      present c { st := fupd s.st n v, dst := c.dkey n :: s.dst } x = true := by
    intro x hx
    simp only [present] at hx ⊢
    exact contains_cons_mono _ _ _ hx
  refine ⟨?_, ?_, ?_⟩
  · intro x hx k hkk
    simp only [List.contains_cons, Bool.or_eq_true, beq_iff_eq] at hx
    rcases hx with hx | hx
    · -- x is indistinguishable from n: its kids have the keys of n's kids, present since copying
      obtain ⟨k', hk'1, hk'2⟩ := hk n x hx.symm k hkk
      have := h.copying_ready n hn k' hk'1
      simp only [present] at this
      rw [← hk'2]
      exact contains_cons_mono _ _ _ this
    · exact contains_cons_mono _ _ _ (h.closed x hx k hkk)
  · intro m hm
    by_cases e : m = n
    · subst e
      simp [present]
    · simp only [fupd_other _ _ _ _ e] at hm
      exact mono m (h.done_present m hm)
  · intro m hm k hkk
    by_cases e : m = n
    · subst e
      simp only [fupd_same] at hm
      rcases hv with hv | hv <;> (subst hv; cases hm)
    · simp only [fupd_other _ _ _ _ e] at hm
      exact mono k (h.copying_ready m hm k hkk)

theorem copyInv_step (c : CopyCfg) (hk : KeyCons c) (s s' : CopySt) (l : Label)
    (h : CopyInv c s) (hs : step? c s l = some s') : CopyInv c s' := by
  cases l with
  | claim n =>
    simp only [step?] at hs
    split at hs
    · injection hs with hs; subst hs
      exact copyInv_st_only c s n .claimed h (by intro e; cases e) (by intro e; cases e)
    · cases hs
  | existsT n =>
    simp only [step?] at hs
    split at hs
    · rename_i hc
      injection hs with hs; subst hs
      exact copyInv_st_only c s n .done h (fun _ => hc.2) (by intro e; cases e)
    · cases hs
  | existsF n =>
    simp only [step?] at hs
    split at hs
    · injection hs with hs; subst hs
      exact copyInv_st_only c s n .waiting h (by intro e; cases e) (by intro e; cases e)
    · cases hs
  | ready n =>
    simp only [step?] at hs
    split at hs
    · rename_i hc
      injection hs with hs; subst hs
      refine copyInv_st_only c s n .copying h (by intro e; cases e) ?_
      intro _ k hkk
      have := List.all_eq_true.mp hc.2 k hkk
      exact h.done_present k (by simpa using this)
    · cases hs
  | push n =>
    simp only [step?] at hs
    split at hs
    · rename_i hc
      injection hs with hs; subst hs
      exact copyInv_store c hk s n .done h hc (Or.inl rfl)
    · cases hs
  | pushLate n =>
    simp only [step?] at hs
    split at hs
    · rename_i hc
      injection hs with hs; subst hs
      exact copyInv_store c hk s n .failed h hc (Or.inr rfl)
    · cases hs
  | fail n =>
    simp only [step?] at hs
    split at hs
    · injection hs with hs; subst hs
      exact copyInv_st_only c s n .failed h (by intro e; cases e) (by intro e; cases e)
    · cases hs

theorem copyInv_run (c : CopyCfg) (hk : KeyCons c) (ls : List Label) (s s' : CopySt)
    (h : CopyInv c s) (hr : run? c s ls = some s') : CopyInv c s' := by
  induction ls generalizing s with
  | nil => simp [run?] at hr; subst hr; exact h
  | cons l ls ih =>
    simp only [run?] at hr
    cases hs : step? c s l with
    | none => simp [hs] at hr
    | some s1 =>
      simp only [hs] at hr
      exact ih s1 (copyInv_step c hk s s1 l h hs) hr

/-- The destination only grows. -/
theorem dst_mono_step (c : CopyCfg) (s s' : CopySt) (l : Label) (hs : step? c s l = some s')
    (x : Nat) (hx : s.dst.contains x = true) : s'.dst.contains x = true := by
  cases l <;> simp only [step?] at hs <;> split at hs <;>
    first
    | (injection hs with hs; subst hs; first | exact hx | exact contains_cons_mono _ _ _ hx)
    | cases hs

end Oras
