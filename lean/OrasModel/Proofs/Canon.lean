/- Canonical (strictly sorted) lists are determined by their members; order facts for the
   byte-wise string order and the grant order (C16 scope sets). -/
import OrasModel.Model.Scopes
namespace Oras

structure StrictTotal {α : Type} (lt : α → α → Bool) : Prop where
  irrefl : ∀ a, lt a a = false
  trans : ∀ a b c, lt a b = true → lt b c = true → lt a c = true
  total : ∀ a b, a ≠ b → lt a b = true ∨ lt b a = true

section
variable {α : Type} [DecidableEq α] {lt : α → α → Bool}

theorem mem_insertCanon (x y : α) (l : List α) : y ∈ insertCanon lt x l ↔ y = x ∨ y ∈ l := by
  induction l with
  | nil => simp [insertCanon]
  | cons z zs ih =>
    unfold insertCanon
    by_cases h1 : x = z
    · subst h1
      simp only [if_true, List.mem_cons]
      constructor
      · intro h; exact Or.inr h
      · rintro (h | h)
        · exact Or.inl h
        · exact h
    · simp only [h1, if_false]
      split
      · simp [List.mem_cons]
      · simp only [List.mem_cons, ih]
        constructor
        · rintro (h | h | h)
          · exact Or.inr (Or.inl h)
          · exact Or.inl h
          · exact Or.inr (Or.inr h)
        · rintro (h | h | h)
          · exact Or.inr (Or.inl h)
          · exact Or.inl h
          · exact Or.inr (Or.inr h)

theorem mem_canon (x : α) (l : List α) : x ∈ canon lt l ↔ x ∈ l := by
  induction l with
  | nil => simp [canon]
  | cons y ys ih =>
    simp only [canon, List.foldr_cons] at ih ⊢
    rw [mem_insertCanon, ih, List.mem_cons]

/-- strictly sorted -/
def SSorted (lt : α → α → Bool) : List α → Prop
  | [] => True
  | x :: xs => (∀ y ∈ xs, lt x y = true) ∧ SSorted lt xs

theorem ssorted_insertCanon (st : StrictTotal lt) (x : α) (l : List α) (h : SSorted lt l) :
    SSorted lt (insertCanon lt x l) := by
  induction l with
  | nil => simp [insertCanon, SSorted]
  | cons z zs ih =>
    obtain ⟨hz, hzs⟩ := h
    unfold insertCanon
    by_cases h1 : x = z
    · simp only [h1, if_true]; exact ⟨hz, hzs⟩
    · simp only [h1, if_false]
      by_cases h2 : lt x z = true
      · simp only [h2, if_true]
        refine ⟨?_, hz, hzs⟩
        intro y hy
        cases hy with
        | head => exact h2
        | tail _ hy' => exact st.trans x z y h2 (hz y hy')
      · simp only [h2, if_false]
        have hzx : lt z x = true := by
          rcases st.total x z h1 with h | h
          · exact absurd h h2
          · exact h
        refine ⟨?_, ih hzs⟩
        intro y hy
        rcases (mem_insertCanon x y zs).mp hy with h | h
        · rw [h]; exact hzx
        · exact hz y h

theorem ssorted_canon (st : StrictTotal lt) (l : List α) : SSorted lt (canon lt l) := by
  induction l with
  | nil => simp [canon, SSorted]
  | cons y ys ih =>
    simp only [canon, List.foldr_cons] at ih ⊢
    exact ssorted_insertCanon st y _ ih

/-- A strictly sorted list is determined by its members. -/
theorem ssorted_ext (st : StrictTotal lt) : ∀ (l₁ l₂ : List α), SSorted lt l₁ → SSorted lt l₂ →
    (∀ x, x ∈ l₁ ↔ x ∈ l₂) → l₁ = l₂ := by
  intro l₁
  induction l₁ with
  | nil =>
    intro l₂ _ _ h
    cases l₂ with
    | nil => rfl
    | cons y ys => exact absurd ((h y).mpr List.mem_cons_self) (by simp)
  | cons x xs ih =>
    intro l₂ h1 h2 h
    cases l₂ with
    | nil => exact absurd ((h x).mp List.mem_cons_self) (by simp)
    | cons y ys =>
      obtain ⟨hx, hxs⟩ := h1
      obtain ⟨hy, hys⟩ := h2
      -- the heads are the minima, hence equal
      have hxy : x = y := by
        have hxin : x ∈ y :: ys := (h x).mp List.mem_cons_self
        have hyin : y ∈ x :: xs := (h y).mpr List.mem_cons_self
        cases hxin with
        | head => rfl
        | tail _ hx' =>
          cases hyin with
          | head => rfl
          | tail _ hy' =>
            have a := hy x hx'
            have b := hx y hy'
            have := st.trans x y x b a
            rw [st.irrefl] at this
            cases this
      subst hxy
      congr 1
      apply ih ys hxs hys
      intro z
      constructor
      · intro hz
        rcases List.mem_cons.mp ((h z).mp (List.mem_cons_of_mem _ hz)) with e | h'
        · have := hx z hz
          rw [e, st.irrefl] at this; cases this
        · exact h'
      · intro hz
        rcases List.mem_cons.mp ((h z).mpr (List.mem_cons_of_mem _ hz)) with e | h'
        · have := hy z hz
          rw [e, st.irrefl] at this; cases this
        · exact h'

/-- `canon` depends only on the set of members. -/
theorem canon_congr (st : StrictTotal lt) (l₁ l₂ : List α) (h : ∀ x, x ∈ l₁ ↔ x ∈ l₂) :
    canon lt l₁ = canon lt l₂ :=
  ssorted_ext st _ _ (ssorted_canon st l₁) (ssorted_canon st l₂)
    (fun x => by rw [mem_canon, mem_canon]; exact h x)

end

/-! ### the concrete orders -/

theorem strLt_irrefl (a : Str) : strLt a a = false := by
  induction a with
  | nil => rfl
  | cons x xs ih => simp [strLt, ih]

theorem strLt_trans : ∀ (a b c : Str), strLt a b = true → strLt b c = true → strLt a c = true := by
  intro a
  induction a with
  | nil =>
    intro b c h1 h2
    cases b with
    | nil => simp [strLt] at h1
    | cons y ys => cases c with
      | nil => simp [strLt] at h2
      | cons z zs => simp [strLt]
  | cons x xs ih =>
    intro b c h1 h2
    cases b with
    | nil => simp [strLt] at h1
    | cons y ys =>
      cases c with
      | nil => simp [strLt] at h2
      | cons z zs =>
        simp only [strLt] at h1 h2 ⊢
        by_cases hxy : x.toNat < y.toNat
        · by_cases hyz : y.toNat < z.toNat
          · have : x.toNat < z.toNat := by omega
            simp [this]
          · simp only [hyz, if_false] at h2
            by_cases e : y = z
            · subst e; simp [hxy]
            · simp [e] at h2
        · simp only [hxy, if_false] at h1
          by_cases e : x = y
          · subst e
            simp only [if_true] at h1
            by_cases hyz : x.toNat < z.toNat
            · simp [hyz]
            · simp only [hyz, if_false] at h2 ⊢
              by_cases e2 : x = z
              · subst e2
                simp only [if_true] at h2 ⊢
                exact ih ys zs h1 h2
              · simp [e2] at h2
          · simp [e] at h1

theorem strLt_total : ∀ (a b : Str), a ≠ b → strLt a b = true ∨ strLt b a = true := by
  intro a
  induction a with
  | nil =>
    intro b h
    cases b with
    | nil => exact absurd rfl h
    | cons y ys => left; rfl
  | cons x xs ih =>
    intro b h
    cases b with
    | nil => right; rfl
    | cons y ys =>
      simp only [strLt]
      by_cases hxy : x.toNat < y.toNat
      · left; simp [hxy]
      · by_cases hyx : y.toNat < x.toNat
        · right; simp [hyx]
        · have hnat : x.toNat = y.toNat := by omega
          have e : x = y := Char.toNat_inj.mp hnat
          subst e
          have hne : xs ≠ ys := fun e => h (by rw [e])
          simp only [hxy, if_false, if_true]
          exact ih ys hne

theorem strLt_strictTotal : StrictTotal strLt := ⟨strLt_irrefl, strLt_trans, strLt_total⟩

theorem grantLt_strictTotal : StrictTotal grantLt := by
  refine ⟨?_, ?_, ?_⟩
  · intro a; simp [grantLt, strLt_irrefl]
  · intro a b c h1 h2
    obtain ⟨a1, a2, a3⟩ := a
    obtain ⟨b1, b2, b3⟩ := b
    obtain ⟨c1, c2, c3⟩ := c
    simp only [grantLt] at h1 h2 ⊢
    by_cases e1 : a1 = b1
    · subst e1
      simp only [ne_eq, not_true_eq_false, if_false] at h1
      by_cases e2 : a1 = c1
      · subst e2
        simp only [ne_eq, not_true_eq_false, if_false] at h2 ⊢
        by_cases f1 : a2 = b2
        · subst f1
          simp only [ne_eq, not_true_eq_false, if_false] at h1
          by_cases f2 : a2 = c2
          · subst f2
            simp only [ne_eq, not_true_eq_false, if_false] at h2 ⊢
            exact strLt_trans _ _ _ h1 h2
          · simp only [ne_eq, f2, not_false_eq_true, if_true] at h2 ⊢
            exact h2
        · simp only [ne_eq, f1, not_false_eq_true, if_true] at h1
          by_cases f2 : b2 = c2
          · subst f2
            simp only [ne_eq, f1, not_false_eq_true, if_true]
            exact h1
          · simp only [ne_eq, f2, not_false_eq_true, if_true] at h2
            have := strLt_trans _ _ _ h1 h2
            have hne : a2 ≠ c2 := by
              intro e; subst e
              have := strLt_trans _ _ _ h1 h2
              rw [strLt_irrefl] at this; cases this
            simp only [ne_eq, hne, not_false_eq_true, if_true]
            exact this
      · simp only [ne_eq, e2, not_false_eq_true, if_true] at h2 ⊢
        exact h2
    · simp only [ne_eq, e1, not_false_eq_true, if_true] at h1
      by_cases e2 : b1 = c1
      · subst e2
        simp only [ne_eq, e1, not_false_eq_true, if_true]
        exact h1
      · simp only [ne_eq, e2, not_false_eq_true, if_true] at h2
        have := strLt_trans _ _ _ h1 h2
        have hne : a1 ≠ c1 := by
          intro e; subst e
          rw [strLt_irrefl] at this; cases this
        simp only [ne_eq, hne, not_false_eq_true, if_true]
        exact this
  · intro a b h
    obtain ⟨a1, a2, a3⟩ := a
    obtain ⟨b1, b2, b3⟩ := b
    simp only [grantLt]
    by_cases e1 : a1 = b1
    · subst e1
      by_cases e2 : a2 = b2
      · subst e2
        have : a3 ≠ b3 := fun e => h (by rw [e])
        simp only [ne_eq, not_true_eq_false, if_false]
        exact strLt_total _ _ this
      · have e2' : ¬ b2 = a2 := fun e => e2 e.symm
        simp only [ne_eq, not_true_eq_false, if_false, e2, e2', not_false_eq_true, if_true]
        exact strLt_total _ _ e2
    · have e1' : ¬ b1 = a1 := fun e => e1 e.symm
      simp only [ne_eq, e1, e1', not_false_eq_true, if_true]
      exact strLt_total _ _ e1

end Oras
