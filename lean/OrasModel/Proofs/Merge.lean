/- Invariant of `syncutil.Merge` (C14). -/
import OrasModel.Model.Merge
namespace Oras

structure MergeInv (s : MergeSt) : Prop where
  activeCur : ∀ j, (s.pc j).active = true → s.token = false ∧ j ∈ s.items
  oneActive : ∀ j k, (s.pc j).active = true → (s.pc k).active = true → j = k
  tokenIdle : s.token = true → ∀ j, (s.pc j).active = false
  waitingWhere : ∀ j b, s.pc j = .waiting b → (b = s.cur ∧ j ∈ s.items) ∨ (b = s.cur + 1 ∧ j ∈ s.pending)
  doneOutcome : ∀ j b ok, s.pc j = .done b ok → (b, ok) ∈ s.outcome
  outcomeOld : ∀ b ok, (b, ok) ∈ s.outcome → b < s.cur
  outcomeFun : ∀ b ok ok', (b, ok) ∈ s.outcome → (b, ok') ∈ s.outcome → ok = ok'
  resolvedOld : ∀ b its, (b, its) ∈ s.resolved → b < s.cur
  resolvedFun : ∀ b its its', (b, its) ∈ s.resolved → (b, its') ∈ s.resolved → its = its'
  doneInResolved : ∀ j b ok its, s.pc j = .done b ok → (b, its) ∈ s.resolved → j ∈ its

theorem mergeInv_init : MergeInv MergeSt.init := by
  refine ⟨?_, ?_, ?_, ?_, ?_, ?_, ?_, ?_, ?_, ?_⟩ <;> simp [MergeSt.init, MPC.active]

/-- `complete` keeps the invariant (used for both `prepareFail` and `resolveDone`); `extra`
    is what the step adds to the `resolved` history. -/
theorem mergeInv_complete (s : MergeSt) (ok : Bool) (h : MergeInv s) (withResolve : Bool) :
    MergeInv { s.complete ok with
               resolved := if withResolve then (s.cur, s.items) :: s.resolved else s.resolved } := by
  have noActive : ∀ j, ((s.complete ok).pc j).active = false := by
    intro j
    simp only [MergeSt.complete]
    by_cases hj : j ∈ s.items
    · simp [hj, MPC.active]
    · simp only [hj, if_false]
      cases ha : (s.pc j).active with
      | false => rfl
      | true => exact absurd (h.activeCur j ha).2 hj
  refine ⟨?_, ?_, ?_, ?_, ?_, ?_, ?_, ?_, ?_, ?_⟩
  · intro j hj; rw [noActive j] at hj; cases hj
  · intro j k hj; rw [noActive j] at hj; cases hj
  · intro _ j; exact noActive j
  · intro j b hj
    simp only [MergeSt.complete] at hj ⊢
    by_cases hm : j ∈ s.items
    · simp [hm] at hj
    · simp only [hm, if_false] at hj
      rcases h.waitingWhere j b hj with ⟨_, h2⟩ | ⟨h1, h2⟩
      · exact absurd h2 hm
      · exact Or.inl ⟨h1, h2⟩
  · intro j b ok' hj
    simp only [MergeSt.complete] at hj ⊢
    by_cases hm : j ∈ s.items
    · simp only [hm, if_true, MPC.done.injEq] at hj
      rw [← hj.1, ← hj.2]; exact List.mem_cons_self
    · simp only [hm, if_false] at hj
      exact List.mem_cons_of_mem _ (h.doneOutcome j b ok' hj)
  · intro b ok' hb
    simp only [MergeSt.complete, List.mem_cons, Prod.mk.injEq] at hb ⊢
    rcases hb with ⟨e, _⟩ | hb
    · omega
    · have := h.outcomeOld b ok' hb; omega
  · intro b o1 o2 h1 h2
    simp only [MergeSt.complete, List.mem_cons, Prod.mk.injEq] at h1 h2
    rcases h1 with ⟨e1, f1⟩ | h1 <;> rcases h2 with ⟨e2, f2⟩ | h2
    · rw [f1, f2]
    · have := h.outcomeOld b o2 h2; omega
    · have := h.outcomeOld b o1 h1; omega
    · exact h.outcomeFun b o1 o2 h1 h2
  · intro b its hb
    simp only [MergeSt.complete] at hb ⊢
    cases withResolve with
    | false => simp only [Bool.false_eq_true, if_false] at hb; have := h.resolvedOld b its hb; omega
    | true =>
      simp only [if_true, List.mem_cons, Prod.mk.injEq] at hb
      rcases hb with ⟨e, _⟩ | hb
      · omega
      · have := h.resolvedOld b its hb; omega
  · intro b i1 i2 h1 h2
    simp only [MergeSt.complete] at h1 h2
    cases withResolve with
    | false => simp only [Bool.false_eq_true, if_false] at h1 h2; exact h.resolvedFun b i1 i2 h1 h2
    | true =>
      simp only [if_true, List.mem_cons, Prod.mk.injEq] at h1 h2
      rcases h1 with ⟨e1, f1⟩ | h1 <;> rcases h2 with ⟨e2, f2⟩ | h2
      · rw [f1, f2]
      · have := h.resolvedOld b i2 h2; omega
      · have := h.resolvedOld b i1 h1; omega
      · exact h.resolvedFun b i1 i2 h1 h2
  · intro j b ok' its hj hb
    simp only [MergeSt.complete] at hj hb
    by_cases hm : j ∈ s.items
    · simp only [hm, if_true, MPC.done.injEq] at hj
      cases withResolve with
      | false =>
        simp only [Bool.false_eq_true, if_false] at hb
        have := h.resolvedOld b its hb; omega
      | true =>
        simp only [if_true, List.mem_cons, Prod.mk.injEq] at hb
        rcases hb with ⟨_, e2⟩ | hb
        · rw [e2]; exact hm
        · have := h.resolvedOld b its hb; omega
    · simp only [hm, if_false] at hj
      have hout := h.outcomeOld b ok' (h.doneOutcome j b ok' hj)
      cases withResolve with
      | false => simp only [Bool.false_eq_true, if_false] at hb; exact h.doneInResolved j b ok' its hj hb
      | true =>
        simp only [if_true, List.mem_cons, Prod.mk.injEq] at hb
        rcases hb with ⟨e1, _⟩ | hb
        · omega
        · exact h.doneInResolved j b ok' its hj hb

theorem mergeInv_step (s t : MergeSt) (h : MergeInv s) (st : MergeStep s t) : MergeInv t := by
  cases st with
  | assignOpen i hi hc =>
    have hni : (s.pc i).active = false := by rw [hi]; rfl
    refine ⟨?_, ?_, ?_, ?_, ?_, h.outcomeOld, h.outcomeFun, h.resolvedOld, h.resolvedFun, ?_⟩
    · intro j hj
      simp only at hj ⊢
      by_cases e : j = i
      · simp [e, MPC.active] at hj
      · simp only [e, if_false] at hj
        have := h.activeCur j hj
        refine ⟨?_, List.mem_append_left _ this.2⟩
        rw [this.1, Bool.false_or]
        cases hl : s.items with
        | nil => rw [hl] at this; cases this.2
        | cons _ _ => rfl
    · intro j k hj hk
      simp only at hj hk
      by_cases e : j = i
      · simp [e, MPC.active] at hj
      · by_cases e' : k = i
        · simp [e', MPC.active] at hk
        · simp only [e, e', if_false] at hj hk; exact h.oneActive j k hj hk
    · intro ht j
      simp only at ht ⊢
      by_cases e : j = i
      · simp [e, MPC.active]
      · simp only [e, if_false]
        cases ha : (s.pc j).active with
        | false => rfl
        | true =>
          have := h.activeCur j ha
          rw [this.1, Bool.false_or] at ht
          cases hl : s.items with
          | nil => rw [hl] at this; cases this.2
          | cons _ _ => rw [hl] at ht; cases ht
    · intro j b hj
      simp only at hj ⊢
      by_cases e : j = i
      · simp only [e, if_true, MPC.waiting.injEq] at hj
        exact Or.inl ⟨hj.symm, by rw [e]; simp⟩
      · simp only [e, if_false] at hj
        rcases h.waitingWhere j b hj with ⟨h1, h2⟩ | ⟨h1, h2⟩
        · exact Or.inl ⟨h1, List.mem_append_left _ h2⟩
        · exact Or.inr ⟨h1, h2⟩
    · intro j b ok hj
      simp only at hj ⊢
      by_cases e : j = i
      · simp [e] at hj
      · simp only [e, if_false] at hj; exact h.doneOutcome j b ok hj
    · intro j b ok its hj hb
      simp only at hj hb
      by_cases e : j = i
      · simp [e] at hj
      · simp only [e, if_false] at hj; exact h.doneInResolved j b ok its hj hb
  | assignPending i hi hc =>
    refine ⟨?_, ?_, ?_, ?_, ?_, h.outcomeOld, h.outcomeFun, h.resolvedOld, h.resolvedFun, ?_⟩
    · intro j hj
      simp only at hj ⊢
      by_cases e : j = i
      · simp [e, MPC.active] at hj
      · simp only [e, if_false] at hj; exact h.activeCur j hj
    · intro j k hj hk
      simp only at hj hk
      by_cases e : j = i
      · simp [e, MPC.active] at hj
      · by_cases e' : k = i
        · simp [e', MPC.active] at hk
        · simp only [e, e', if_false] at hj hk; exact h.oneActive j k hj hk
    · intro ht j
      simp only at ht ⊢
      by_cases e : j = i
      · simp [e, MPC.active]
      · simp only [e, if_false]; exact h.tokenIdle ht j
    · intro j b hj
      simp only at hj ⊢
      by_cases e : j = i
      · simp only [e, if_true, MPC.waiting.injEq] at hj
        exact Or.inr ⟨hj.symm, by rw [e]; simp⟩
      · simp only [e, if_false] at hj
        rcases h.waitingWhere j b hj with ⟨h1, h2⟩ | ⟨h1, h2⟩
        · exact Or.inl ⟨h1, h2⟩
        · exact Or.inr ⟨h1, List.mem_append_left _ h2⟩
    · intro j b ok hj
      simp only at hj ⊢
      by_cases e : j = i
      · simp [e] at hj
      · simp only [e, if_false] at hj; exact h.doneOutcome j b ok hj
    · intro j b ok its hj hb
      simp only at hj hb
      by_cases e : j = i
      · simp [e] at hj
      · simp only [e, if_false] at hj; exact h.doneInResolved j b ok its hj hb
  | takeMain i hi ht =>
    have hidle := h.tokenIdle ht
    have hitems : i ∈ s.items := by
      rcases h.waitingWhere i s.cur hi with ⟨_, h2⟩ | ⟨h1, _⟩
      · exact h2
      · omega
    refine ⟨?_, ?_, ?_, ?_, ?_, h.outcomeOld, h.outcomeFun, h.resolvedOld, h.resolvedFun, ?_⟩
    · intro j hj
      simp only at hj ⊢
      by_cases e : j = i
      · exact ⟨trivial, by rw [e]; exact hitems⟩
      · simp only [e, if_false] at hj; rw [hidle j] at hj; cases hj
    · intro j k hj hk
      simp only at hj hk
      by_cases e : j = i
      · by_cases e' : k = i
        · rw [e, e']
        · simp only [e', if_false] at hk; rw [hidle k] at hk; cases hk
      · simp only [e, if_false] at hj; rw [hidle j] at hj; cases hj
    · intro ht'; simp at ht'
    · intro j b hj
      simp only at hj ⊢
      by_cases e : j = i
      · simp [e] at hj
      · simp only [e, if_false] at hj; exact h.waitingWhere j b hj
    · intro j b ok hj
      simp only at hj ⊢
      by_cases e : j = i
      · simp [e] at hj
      · simp only [e, if_false] at hj; exact h.doneOutcome j b ok hj
    · intro j b ok its hj hb
      simp only at hj hb
      by_cases e : j = i
      · simp [e] at hj
      · simp only [e, if_false] at hj; exact h.doneInResolved j b ok its hj hb
  | prepareOk i hi =>
    have hact : (s.pc i).active = true := by rw [hi]; rfl
    refine ⟨?_, ?_, ?_, ?_, ?_, h.outcomeOld, h.outcomeFun, h.resolvedOld, h.resolvedFun, ?_⟩
    · intro j hj
      simp only at hj ⊢
      by_cases e : j = i
      · rw [e]; exact h.activeCur i hact
      · simp only [e, if_false] at hj; exact h.activeCur j hj
    · intro j k hj hk
      simp only at hj hk
      by_cases e : j = i
      · by_cases e' : k = i
        · rw [e, e']
        · simp only [e', if_false] at hk; rw [e]; exact h.oneActive i k hact hk
      · simp only [e, if_false] at hj
        by_cases e' : k = i
        · rw [e']; exact h.oneActive j i hj hact
        · simp only [e', if_false] at hk; exact h.oneActive j k hj hk
    · intro ht
      have := (h.activeCur i hact).1
      simp only at ht; rw [this] at ht; cases ht
    · intro j b hj
      simp only at hj ⊢
      by_cases e : j = i
      · simp [e] at hj
      · simp only [e, if_false] at hj; exact h.waitingWhere j b hj
    · intro j b ok hj
      simp only at hj ⊢
      by_cases e : j = i
      · simp [e] at hj
      · simp only [e, if_false] at hj; exact h.doneOutcome j b ok hj
    · intro j b ok its hj hb
      simp only at hj hb
      by_cases e : j = i
      · simp [e] at hj
      · simp only [e, if_false] at hj; exact h.doneInResolved j b ok its hj hb
  | prepareFail i hi =>
    have := mergeInv_complete s false h false
    simp only [Bool.false_eq_true, if_false] at this
    have e : (s.complete false) = { s.complete false with resolved := s.resolved } := rfl
    rw [e]; exact this
  | resolveDone i ok hi =>
    have := mergeInv_complete s ok h true
    simpa using this

theorem mergeInv_reach (s : MergeSt) (h : MergeReach s) : MergeInv s := by
  induction h with
  | init => exact mergeInv_init
  | step _ st ih => exact mergeInv_step _ _ ih st

end Oras
