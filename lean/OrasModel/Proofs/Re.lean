/- Lemmas about the derivative matcher: language of `alt`, dead expressions, and the
   alphabet lemma (every character of an accepted string lies in some class of the tree). -/
import OrasModel.Model.Re
namespace Oras.Re

theorem accepts_empty (s : List Char) : accepts empty s = false := by
  induction s with
  | nil => rfl
  | cons c s ih => simpa [accepts, deriv] using ih

theorem mem_dedupRe (x : Re) (l : List Re) : x ∈ dedupRe l ↔ x ∈ l := by
  induction l with
  | nil => simp [dedupRe]
  | cons y ys ih =>
    unfold dedupRe
    by_cases h : y ∈ ys
    · simp only [h, if_true, ih, List.mem_cons]
      constructor
      · intro hx; exact Or.inr hx
      · intro hx
        rcases hx with e | hx
        · rw [e]; exact h
        · exact hx
    · simp only [h, if_false, List.mem_cons, ih]

theorem any_dedupRe (p : Re → Bool) (l : List Re) : (dedupRe l).any p = l.any p := by
  apply Bool.eq_iff_iff.mpr
  simp only [List.any_eq_true]
  constructor
  · rintro ⟨x, hx, hp⟩; exact ⟨x, (mem_dedupRe x l).mp hx, hp⟩
  · rintro ⟨x, hx, hp⟩; exact ⟨x, (mem_dedupRe x l).mpr hx, hp⟩

/-- For one string: if `alt` means union on it, so do flattening and rebuilding. -/
theorem accepts_alts_of (s : List Char)
    (h2 : ∀ a b : Re, accepts (alt a b) s = (accepts a s || accepts b s)) :
    (∀ r : Re, accepts r s = (alts r).any (fun x => accepts x s)) ∧
    (∀ l : List Re, accepts (ofAlts l) s = l.any (fun x => accepts x s)) := by
  constructor
  · intro r
    induction r with
    | alt a b iha ihb => rw [h2, iha, ihb]; simp [alts, List.any_append]
    | empty => simp [alts, accepts_empty]
    | eps => simp [alts]
    | cls rs => simp [alts]
    | cat a b _ _ => simp [alts]
    | star a _ => simp [alts]
    | rep a mn mx _ => simp [alts]
  · intro l
    induction l with
    | nil => simp [ofAlts, accepts_empty]
    | cons r rs ih =>
      cases rs with
      | nil => simp [ofAlts]
      | cons r' rs' =>
        show accepts (alt r (ofAlts (r' :: rs'))) s = _
        rw [h2, ih]; simp

theorem accepts_alt_both (s : List Char) : ∀ a b : Re,
    accepts (mkAlt a b) s = (accepts a s || accepts b s) ∧
    accepts (alt a b) s = (accepts a s || accepts b s) := by
  induction s with
  | nil =>
    have h2 : ∀ a b : Re, accepts (alt a b) [] = (accepts a [] || accepts b []) := by
      intro a b; simp [accepts, nullable]
    intro a b
    refine ⟨?_, h2 a b⟩
    obtain ⟨hA, hB⟩ := accepts_alts_of [] h2
    unfold mkAlt
    rw [hB, any_dedupRe, List.any_append, ← hA a, ← hA b]
  | cons c s ih =>
    have h2 : ∀ a b : Re, accepts (alt a b) (c :: s) = (accepts a (c :: s) || accepts b (c :: s)) := by
      intro a b
      simp only [accepts, deriv]
      exact (ih _ _).1
    intro a b
    refine ⟨?_, h2 a b⟩
    obtain ⟨hA, hB⟩ := accepts_alts_of (c :: s) h2
    unfold mkAlt
    rw [hB, any_dedupRe, List.any_append, ← hA a, ← hA b]

theorem accepts_mkAlt (a b : Re) (s : List Char) :
    accepts (mkAlt a b) s = (accepts a s || accepts b s) := (accepts_alt_both s a b).1

theorem accepts_alt (a b : Re) (s : List Char) :
    accepts (alt a b) s = (accepts a s || accepts b s) := (accepts_alt_both s a b).2

/-- An expression that accepts no string. -/
def Dead (r : Re) : Prop := ∀ s, accepts r s = false

theorem dead_empty : Dead empty := accepts_empty

theorem dead_deriv {r : Re} (h : Dead r) (c : Char) : Dead (deriv c r) := by
  intro s
  have := h (c :: s)
  simpa [accepts] using this

theorem dead_cat_both (s : List Char) : ∀ a b : Re, Dead a →
    accepts (cat a b) s = false ∧ accepts (mkCat a b) s = false := by
  induction s with
  | nil =>
    intro a b ha
    have hn : nullable a = false := by simpa [accepts] using ha []
    refine ⟨by simp [accepts, nullable, hn], ?_⟩
    unfold mkCat
    split
    · rfl
    · simp [accepts, nullable, hn]
  | cons c s ih =>
    intro a b ha
    have hn : nullable a = false := by simpa [accepts] using ha []
    have h1 : accepts (cat a b) (c :: s) = false := by
      simp only [accepts, deriv, hn]
      rw [accepts_mkAlt, (ih _ b (dead_deriv ha c)).2]
      simp [accepts_empty]
    refine ⟨h1, ?_⟩
    unfold mkCat
    split
    · exact accepts_empty _
    · exact h1

theorem dead_cat {a : Re} (b : Re) (h : Dead a) : Dead (cat a b) :=
  fun s => (dead_cat_both s a b h).1

theorem dead_mkCat {a : Re} (b : Re) (h : Dead a) : Dead (mkCat a b) :=
  fun s => (dead_cat_both s a b h).2

theorem dead_mkAlt {a b : Re} (ha : Dead a) (hb : Dead b) : Dead (mkAlt a b) := by
  intro s; rw [accepts_mkAlt, ha s, hb s]; rfl

theorem inRanges_append (a b : List (Nat × Nat)) (c : Char) :
    inRanges (a ++ b) c = (inRanges a c || inRanges b c) := by
  simp [inRanges, List.any_append]

/-- A character outside every class kills the expression. -/
theorem dead_deriv_of_not_in_alphabet (r : Re) (c : Char) (h : inRanges (alphabet r) c = false) :
    Dead (deriv c r) := by
  induction r with
  | empty => exact dead_empty
  | eps => exact dead_empty
  | cls rs =>
    simp only [alphabet] at h
    simp only [deriv, h]
    exact dead_empty
  | cat a b iha ihb =>
    simp only [alphabet, inRanges_append, Bool.or_eq_false_iff] at h
    simp only [deriv]
    apply dead_mkAlt
    · exact dead_mkCat _ (iha h.1)
    · split
      · exact ihb h.2
      · exact dead_empty
  | alt a b iha ihb =>
    simp only [alphabet, inRanges_append, Bool.or_eq_false_iff] at h
    simp only [deriv]
    exact dead_mkAlt (iha h.1) (ihb h.2)
  | star a iha =>
    simp only [alphabet] at h
    simp only [deriv]
    exact dead_mkCat _ (iha h)
  | rep a min max iha =>
    simp only [alphabet] at h
    simp only [deriv]
    split
    · exact dead_empty
    · exact dead_mkCat _ (iha h)

theorem alphabet_mkCat (a b : Re) (x : Char) (h : inRanges (alphabet (mkCat a b)) x = true) :
    inRanges (alphabet a) x = true ∨ inRanges (alphabet b) x = true := by
  unfold mkCat at h
  split at h
  · simp [alphabet, inRanges] at h
  · simpa [alphabet, inRanges_append] using h

theorem alphabet_of_mem_alts (r r' : Re) (x : Char) (hm : r' ∈ alts r)
    (h : inRanges (alphabet r') x = true) : inRanges (alphabet r) x = true := by
  induction r with
  | alt a b iha ihb =>
    simp only [alts, List.mem_append] at hm
    simp only [alphabet, inRanges_append, Bool.or_eq_true]
    rcases hm with hm | hm
    · exact Or.inl (iha hm)
    · exact Or.inr (ihb hm)
  | empty => simp [alts] at hm
  | eps => simp only [alts, List.mem_singleton] at hm; rw [hm] at h; exact h
  | cls rs => simp only [alts, List.mem_singleton] at hm; rw [hm] at h; exact h
  | cat a b _ _ => simp only [alts, List.mem_singleton] at hm; rw [hm] at h; exact h
  | star a _ => simp only [alts, List.mem_singleton] at hm; rw [hm] at h; exact h
  | rep a mn mx _ => simp only [alts, List.mem_singleton] at hm; rw [hm] at h; exact h

theorem alphabet_ofAlts (l : List Re) (x : Char) (h : inRanges (alphabet (ofAlts l)) x = true) :
    ∃ r ∈ l, inRanges (alphabet r) x = true := by
  induction l with
  | nil => simp [ofAlts, alphabet, inRanges] at h
  | cons r rs ih =>
    cases rs with
    | nil => exact ⟨r, by simp, by simpa [ofAlts] using h⟩
    | cons r' rs' =>
      have h' : inRanges (alphabet r ++ alphabet (ofAlts (r' :: rs'))) x = true := h
      rw [inRanges_append, Bool.or_eq_true] at h'
      rcases h' with h' | h'
      · exact ⟨r, by simp, h'⟩
      · obtain ⟨q, hq, hx⟩ := ih h'
        exact ⟨q, List.mem_cons_of_mem _ hq, hx⟩

theorem alphabet_mkAlt (a b : Re) (x : Char) (h : inRanges (alphabet (mkAlt a b)) x = true) :
    inRanges (alphabet a) x = true ∨ inRanges (alphabet b) x = true := by
  unfold mkAlt at h
  obtain ⟨r, hr, hx⟩ := alphabet_ofAlts _ x h
  rcases List.mem_append.mp ((mem_dedupRe r _).mp hr) with hm | hm
  · exact Or.inl (alphabet_of_mem_alts a r x hm hx)
  · exact Or.inr (alphabet_of_mem_alts b r x hm hx)

theorem alphabet_deriv (r : Re) (c x : Char) (h : inRanges (alphabet (deriv c r)) x = true) :
    inRanges (alphabet r) x = true := by
  induction r with
  | empty => simp [deriv, alphabet, inRanges] at h
  | eps => simp [deriv, alphabet, inRanges] at h
  | cls rs =>
    simp only [deriv] at h
    split at h <;> simp [alphabet, inRanges] at h
  | cat a b iha ihb =>
    simp only [deriv] at h
    simp only [alphabet, inRanges_append, Bool.or_eq_true]
    rcases alphabet_mkAlt _ _ x h with h1 | h1
    · rcases alphabet_mkCat _ _ x h1 with h2 | h2
      · exact Or.inl (iha h2)
      · exact Or.inr h2
    · split at h1
      · exact Or.inr (ihb h1)
      · simp [alphabet, inRanges] at h1
  | alt a b iha ihb =>
    simp only [deriv] at h
    simp only [alphabet, inRanges_append, Bool.or_eq_true]
    rcases alphabet_mkAlt _ _ x h with h1 | h1
    · exact Or.inl (iha h1)
    · exact Or.inr (ihb h1)
  | star a iha =>
    simp only [deriv] at h
    simp only [alphabet]
    rcases alphabet_mkCat _ _ x h with h1 | h1
    · exact iha h1
    · simpa [alphabet] using h1
  | rep a min max iha =>
    simp only [deriv] at h
    simp only [alphabet]
    split at h
    · simp [alphabet, inRanges] at h
    · rcases alphabet_mkCat _ _ x h with h1 | h1
      · exact iha h1
      · simpa [alphabet] using h1

/-- **Alphabet lemma**: every character of an accepted string belongs to one of the
    character classes occurring in the expression. -/
theorem accepts_alphabet (s : List Char) : ∀ (r : Re), accepts r s = true →
    ∀ c ∈ s, inRanges (alphabet r) c = true := by
  induction s with
  | nil => intro r _ c hc; cases hc
  | cons d s ih =>
    intro r h c hc
    simp only [accepts] at h
    have hd : inRanges (alphabet r) d = true := by
      cases hin : inRanges (alphabet r) d with
      | true => rfl
      | false =>
        have := dead_deriv_of_not_in_alphabet r d hin s
        rw [this] at h; cases h
    cases hc with
    | head => exact hd
    | tail _ hc' => exact alphabet_deriv r d c (ih _ h c hc')

/-- Contrapositive form used by the property proofs. -/
theorem not_mem_of_accepts {r : Re} {s : List Char} {c : Char} (h : accepts r s = true)
    (hc : inRanges (alphabet r) c = false) : c ∉ s := by
  intro hin
  have := accepts_alphabet s r h c hin
  rw [hc] at this; cases this

end Oras.Re
