/- Lemmas about the derivative matcher: language of `alt`, dead expressions, and the
   alphabet lemma (every character of an accepted string lies in some class of the tree). -/
import OrasModel.Model.Re
namespace Oras.Re

theorem accepts_empty (s : List Char) : accepts empty s = false := by
  induction s with
  | nil => rfl
  | cons c s ih => simpa [accepts, deriv] using ih

theorem accepts_alt_both (s : List Char) : ∀ a b : Re,
    accepts (mkAlt a b) s = (accepts a s || accepts b s) ∧
    accepts (alt a b) s = (accepts a s || accepts b s) := by
  induction s with
  | nil =>
    intro a b
    refine ⟨?_, by simp [accepts, nullable]⟩
    unfold mkAlt
    split <;> simp [accepts, nullable]
  | cons c s ih =>
    intro a b
    have h2 : accepts (alt a b) (c :: s) = (accepts a (c :: s) || accepts b (c :: s)) := by
      simp only [accepts, deriv]
      exact (ih _ _).1
    refine ⟨?_, h2⟩
    unfold mkAlt
    split
    · simp [accepts_empty]
    · simp [accepts_empty]
    · exact h2

theorem accepts_mkAlt (a b : Re) (s : List Char) :
    accepts (mkAlt a b) s = (accepts a s || accepts b s) := (accepts_alt_both s a b).1

theorem accepts_alt (a b : Re) (s : List Char) :
    accepts (alt a b) s = (accepts a s || accepts b s) := (accepts_alt_both s a b).2

/-- An expression that accepts no string. -/
def Dead (r : Re) : Prop := ∀ s, accepts r s = false

theorem dead_empty : Dead empty := accepts_empty

theorem dead_deriv {r : Re} (h : Dead r) (c : Char) : Dead (deriv c r) := by
  intro s
  have := h (c :: s)
  simpa [accepts] using this

theorem dead_cat_both (s : List Char) : ∀ a b : Re, Dead a →
    accepts (cat a b) s = false ∧ accepts (mkCat a b) s = false := by
  induction s with
  | nil =>
    intro a b ha
    have hn : nullable a = false := by simpa [accepts] using ha []
    refine ⟨by simp [accepts, nullable, hn], ?_⟩
    unfold mkCat
    split
    · rfl
    · simp [accepts, nullable, hn]
  | cons c s ih =>
    intro a b ha
    have hn : nullable a = false := by simpa [accepts] using ha []
    have h1 : accepts (cat a b) (c :: s) = false := by
      simp only [accepts, deriv, hn]
      rw [accepts_mkAlt, (ih _ b (dead_deriv ha c)).2]
      simp [accepts_empty]
    refine ⟨h1, ?_⟩
    unfold mkCat
    split
    · exact accepts_empty _
    · exact h1

theorem dead_cat {a : Re} (b : Re) (h : Dead a) : Dead (cat a b) :=
  fun s => (dead_cat_both s a b h).1

theorem dead_mkCat {a : Re} (b : Re) (h : Dead a) : Dead (mkCat a b) :=
  fun s => (dead_cat_both s a b h).2

theorem dead_mkAlt {a b : Re} (ha : Dead a) (hb : Dead b) : Dead (mkAlt a b) := by
  intro s; rw [accepts_mkAlt, ha s, hb s]; rfl

theorem inRanges_append (a b : List (Nat × Nat)) (c : Char) :
    inRanges (a ++ b) c = (inRanges a c || inRanges b c) := by
  simp [inRanges, List.any_append]

/-- A character outside every class kills the expression. -/
theorem dead_deriv_of_not_in_alphabet (r : Re) (c : Char) (h : inRanges (alphabet r) c = false) :
    Dead (deriv c r) := by
  induction r with
  | empty => exact dead_empty
  | eps => exact dead_empty
  | cls rs =>
    simp only [alphabet] at h
    simp only [deriv, h]
    exact dead_empty
  | cat a b iha ihb =>
    simp only [alphabet, inRanges_append, Bool.or_eq_false_iff] at h
    simp only [deriv]
    apply dead_mkAlt
    · exact dead_mkCat _ (iha h.1)
    · split
      · exact ihb h.2
      · exact dead_empty
  | alt a b iha ihb =>
    simp only [alphabet, inRanges_append, Bool.or_eq_false_iff] at h
    simp only [deriv]
    exact dead_mkAlt (iha h.1) (ihb h.2)
  | star a iha =>
    simp only [alphabet] at h
    simp only [deriv]
    exact dead_mkCat _ (iha h)
  | rep a min max iha =>
    simp only [alphabet] at h
    simp only [deriv]
    split
    · exact dead_empty
    · exact dead_mkCat _ (iha h)

theorem alphabet_mkCat (a b : Re) (x : Char) (h : inRanges (alphabet (mkCat a b)) x = true) :
    inRanges (alphabet a) x = true ∨ inRanges (alphabet b) x = true := by
  unfold mkCat at h
  split at h
  · simp [alphabet, inRanges] at h
  · simpa [alphabet, inRanges_append] using h

theorem alphabet_mkAlt (a b : Re) (x : Char) (h : inRanges (alphabet (mkAlt a b)) x = true) :
    inRanges (alphabet a) x = true ∨ inRanges (alphabet b) x = true := by
  unfold mkAlt at h
  split at h
  · exact Or.inr h
  · exact Or.inl h
  · simpa [alphabet, inRanges_append] using h

theorem alphabet_deriv (r : Re) (c x : Char) (h : inRanges (alphabet (deriv c r)) x = true) :
    inRanges (alphabet r) x = true := by
  induction r with
  | empty => simp [deriv, alphabet, inRanges] at h
  | eps => simp [deriv, alphabet, inRanges] at h
  | cls rs =>
    simp only [deriv] at h
    split at h <;> simp [alphabet, inRanges] at h
  | cat a b iha ihb =>
    simp only [deriv] at h
    simp only [alphabet, inRanges_append, Bool.or_eq_true]
    rcases alphabet_mkAlt _ _ x h with h1 | h1
    · rcases alphabet_mkCat _ _ x h1 with h2 | h2
      · exact Or.inl (iha h2)
      · exact Or.inr h2
    · split at h1
      · exact Or.inr (ihb h1)
      · simp [alphabet, inRanges] at h1
  | alt a b iha ihb =>
    simp only [deriv] at h
    simp only [alphabet, inRanges_append, Bool.or_eq_true]
    rcases alphabet_mkAlt _ _ x h with h1 | h1
    · exact Or.inl (iha h1)
    · exact Or.inr (ihb h1)
  | star a iha =>
    simp only [deriv] at h
    simp only [alphabet]
    rcases alphabet_mkCat _ _ x h with h1 | h1
    · exact iha h1
    · simpa [alphabet] using h1
  | rep a min max iha =>
    simp only [deriv] at h
    simp only [alphabet]
    split at h
    · simp [alphabet, inRanges] at h
    · rcases alphabet_mkCat _ _ x h with h1 | h1
      · exact iha h1
      · simpa [alphabet] using h1

/-- **Alphabet lemma**: every character of an accepted string belongs to one of the
    character classes occurring in the expression. -/
theorem accepts_alphabet (s : List Char) : ∀ (r : Re), accepts r s = true →
    ∀ c ∈ s, inRanges (alphabet r) c = true := by
  induction s with
  | nil => intro r _ c hc; cases hc
  | cons d s ih =>
    intro r h c hc
    simp only [accepts] at h
    have hd : inRanges (alphabet r) d = true := by
      cases hin : inRanges (alphabet r) d with
      | true => rfl
      | false =>
        have := dead_deriv_of_not_in_alphabet r d hin s
        rw [this] at h; cases h
    cases hc with
    | head => exact hd
    | tail _ hc' => exact alphabet_deriv r d c (ih _ h c hc')

/-- Contrapositive form used by the property proofs. -/
theorem not_mem_of_accepts {r : Re} {s : List Char} {c : Char} (h : accepts r s = true)
    (hc : inRanges (alphabet r) c = false) : c ∉ s := by
  intro hin
  have := accepts_alphabet s r h c hin
  rw [hc] at this; cases this

end Oras.Re
