/-
  `graph.Memory.IndexAll` (`Model/GraphMem.lean` `indexAllAux`): the depth-first indexing a
  store runs when it loads `index.json` and when `GC` rebuilds the graph is sound and
  complete — every node reachable from the roots through manifests whose bytes are present
  is indexed with all its edges, given fuel above the roots' rank.
-/
import OrasModel.Model.GraphMem
namespace Oras
namespace GMem

theorem index_nodes_mono (g : GMem) (n : Key) (ss : List Key) (x : Key) (h : g.nodes x = true) :
    (g.index n ss).nodes x = true := by
  unfold index fupd
  by_cases e : x = n <;> simp [e, h]

theorem index_preds_mono (g : GMem) (n : Key) (ss : List Key) (k p : Key) (h : p ∈ g.preds k) :
    p ∈ (g.index n ss).preds k := by
  unfold index
  by_cases e : k ∈ ss
  · simp only [e, if_true, mem_sinsert]; exact Or.inr h
  · simp only [e, if_false]; exact h

theorem index_self (g : GMem) (n : Key) (ss : List Key) :
    (g.index n ss).nodes n = true ∧ ∀ k ∈ ss, n ∈ (g.index n ss).preds k := by
  constructor
  · simp [index]
  · intro k hk
    simp [index, hk]

/-- The rank function witnesses acyclicity of the readable part of the DAG. -/
def RankOK (succOf : Key → Option (List Key)) (rk : Key → Nat) : Prop :=
  ∀ n ss, succOf n = some ss → ∀ k ∈ ss, rk k < rk n

/-- What one call of `indexAllAux` guarantees about its result. -/
structure AuxSpec (succOf : Key → Option (List Key)) (rk : Key → Nat) (fuel : Nat) (l : List Key)
    (g : GMem) (vis : List Key) (g' : GMem) (vis' : List Key) : Prop where
  mono : ∀ x ∈ vis, x ∈ vis'
  keepNodes : ∀ x, g.nodes x = true → g'.nodes x = true
  keepPreds : ∀ k p, p ∈ g.preds k → p ∈ g'.preds k
  roots : RankOK succOf rk → (∀ n ∈ l, rk n < fuel) → ∀ n ∈ l, n ∈ vis'
  closed : RankOK succOf rk → (∀ n ∈ l, rk n < fuel) → ∀ n ∈ vis', n ∉ vis → ∀ ss, succOf n = some ss → ∀ k ∈ ss, k ∈ vis'
  edges : ∀ n ∈ vis', n ∉ vis → ∀ ss, succOf n = some ss → g'.nodes n = true ∧ ∀ k ∈ ss, n ∈ g'.preds k
  /-- the result is the old graph after some `index n ss` steps with `succOf n = some ss` -/
  pres : ∀ P : GMem → Prop, (∀ g n ss, succOf n = some ss → P g → P (g.index n ss)) → P g → P g'

theorem indexAllAux_spec (succOf : Key → Option (List Key)) (rk : Key → Nat) :
    ∀ (fuel : Nat) (l : List Key) (acc : GMem × List Key),
      AuxSpec succOf rk fuel l acc.1 acc.2 (indexAllAux succOf fuel l acc).1 (indexAllAux succOf fuel l acc).2 := by
  intro fuel l acc
  induction fuel, l, acc using GMem.indexAllAux.induct succOf with
  | case1 x acc =>
    unfold indexAllAux
    exact ⟨fun _ h => h, fun _ h => h, fun _ _ h => h, fun _ _ n hn => (by cases hn),
      fun _ _ n hn hn' => absurd hn hn', fun n hn hn' => absurd hn hn', fun _ _ h => h⟩
  | case2 head tail acc =>
    unfold indexAllAux
    exact ⟨fun _ h => h, fun _ h => h, fun _ _ h => h,
      fun _ hf n hn => absurd (hf head List.mem_cons_self) (Nat.not_lt_zero _),
      fun _ _ n hn hn' => absurd hn hn', fun n hn hn' => absurd hn hn', fun _ _ h => h⟩
  | case3 fuel n rest g visited hvis ih =>
    unfold indexAllAux
    simp only [hvis, if_true]
    refine ⟨ih.mono, ih.keepNodes, ih.keepPreds, ?_, ?_, ih.edges, ih.pres⟩
    · intro hrk hf x hx
      rcases List.mem_cons.mp hx with e | e
      · rw [e]; exact ih.mono n hvis
      · exact ih.roots hrk (fun y hy => hf y (List.mem_cons_of_mem _ hy)) x e
    · intro hrk hf
      exact ih.closed hrk (fun y hy => hf y (List.mem_cons_of_mem _ hy))
  | case4 fuel n rest g visited hvis hnone ih =>
    unfold indexAllAux
    simp only [hvis, if_false, hnone]
    have hfr : (∀ y ∈ n :: rest, rk y < fuel + 1) → ∀ y ∈ rest, rk y < fuel + 1 :=
      fun hf y hy => hf y (List.mem_cons_of_mem _ hy)
    refine ⟨fun x hx => ih.mono x (List.mem_cons_of_mem _ hx), ih.keepNodes, ih.keepPreds, ?_, ?_, ?_, ih.pres⟩
    · intro hrk hf x hx
      rcases List.mem_cons.mp hx with e | e
      · rw [e]; exact ih.mono n List.mem_cons_self
      · exact ih.roots hrk (hfr hf) x e
    · intro hrk hf x hx hxv ss hs k hk
      by_cases e : x = n
      · rw [e, hnone] at hs; cases hs
      · exact ih.closed hrk (hfr hf) x hx (by
          intro h; rcases List.mem_cons.mp h with h | h
          · exact e h
          · exact hxv h) ss hs k hk
    · intro x hx hxv ss hs
      by_cases e : x = n
      · rw [e, hnone] at hs; cases hs
      · exact ih.edges x hx (by
          intro h; rcases List.mem_cons.mp h with h | h
          · exact e h
          · exact hxv h) ss hs
  | case5 fuel n rest g visited hvis ss hsome acc' ih1 ih2 =>
    unfold indexAllAux
    simp only [hvis, if_false, hsome]
    -- the intermediate result
    have hacc : indexAllAux succOf fuel ss (g.index n ss, n :: visited) = acc' := rfl
    rw [hacc] at ih1 ⊢
    have hfr : (∀ y ∈ n :: rest, rk y < fuel + 1) → ∀ y ∈ rest, rk y < fuel + 1 :=
      fun hf y hy => hf y (List.mem_cons_of_mem _ hy)
    have hfs : RankOK succOf rk → (∀ y ∈ n :: rest, rk y < fuel + 1) → ∀ k ∈ ss, rk k < fuel := by
      intro hrk hf k hk
      have h1 := hrk n ss hsome k hk
      have h2 := hf n List.mem_cons_self
      omega
    have hn1 : n ∈ acc'.2 := ih1.mono n List.mem_cons_self
    refine ⟨?_, ?_, ?_, ?_, ?_, ?_, ?_⟩
    · intro x hx
      exact ih2.mono x (ih1.mono x (List.mem_cons_of_mem _ hx))
    · intro x hx
      exact ih2.keepNodes x (ih1.keepNodes x (index_nodes_mono g n ss x hx))
    · intro k p hp
      exact ih2.keepPreds k p (ih1.keepPreds k p (index_preds_mono g n ss k p hp))
    · intro hrk hf x hx
      rcases List.mem_cons.mp hx with e | e
      · rw [e]; exact ih2.mono n hn1
      · exact ih2.roots hrk (hfr hf) x e
    · intro hrk hf x hx hxv ss' hs k hk
      by_cases hx1 : x ∈ acc'.2
      · -- visited during the first part (or n itself)
        by_cases e : x = n
        · rw [e, hsome] at hs
          cases hs
          exact ih2.mono k (ih1.roots hrk (hfs hrk hf) k hk)
        · have hxv' : x ∉ n :: visited := by
            intro h; rcases List.mem_cons.mp h with h | h
            · exact e h
            · exact hxv h
          exact ih2.mono k (ih1.closed hrk (hfs hrk hf) x hx1 hxv' ss' hs k hk)
      · exact ih2.closed hrk (hfr hf) x hx hx1 ss' hs k hk
    · intro x hx hxv ss' hs
      by_cases hx1 : x ∈ acc'.2
      · by_cases e : x = n
        · subst e
          rw [hsome] at hs
          cases hs
          have hself := index_self g x ss
          refine ⟨ih2.keepNodes x (ih1.keepNodes x hself.1), ?_⟩
          intro k hk
          exact ih2.keepPreds k x (ih1.keepPreds k x (hself.2 k hk))
        · have hxv' : x ∉ n :: visited := by
            intro h; rcases List.mem_cons.mp h with h | h
            · exact e h
            · exact hxv h
          have := ih1.edges x hx1 hxv' ss' hs
          exact ⟨ih2.keepNodes x this.1, fun k hk => ih2.keepPreds k x (this.2 k hk)⟩
      · exact ih2.edges x hx hx1 ss' hs
    · intro P hP hg
      exact ih2.pres P hP (ih1.pres P hP (hP g n ss hsome hg))

/-- Reachability from `r` through manifests whose successors can be read. -/
inductive ReachOf (succOf : Key → Option (List Key)) (r : Key) : Key → Prop
  | refl : ReachOf succOf r r
  | step {m k : Key} {ss : List Key} : ReachOf succOf r m → succOf m = some ss → k ∈ ss → ReachOf succOf r k

/-- **`IndexAll` is complete**: starting from any graph, indexing from `root` with fuel above
    the root's rank indexes every readable manifest reachable from the root, with every one
    of its links — whatever the graph held before is kept. -/
theorem indexAll_complete (succOf : Key → Option (List Key)) (rk : Key → Nat)
    (hrk : RankOK succOf rk)
    (g : GMem) (root : Key) (fuel : Nat) (hfuel : rk root < fuel) (m : Key) (ss : List Key)
    (hreach : ReachOf succOf root m) (hs : succOf m = some ss) :
    (indexAll succOf fuel g root).nodes m = true ∧ ∀ k ∈ ss, m ∈ (indexAll succOf fuel g root).preds k := by
  have spec := indexAllAux_spec succOf rk fuel [root] (g, [])
  have hf : ∀ n ∈ [root], rk n < fuel := by
    intro n hn; simp only [List.mem_singleton] at hn; rw [hn]; exact hfuel
  -- every reachable node is visited
  have hvis : ∀ x, ReachOf succOf root x → x ∈ (indexAllAux succOf fuel [root] (g, [])).2 := by
    intro x hx
    induction hx with
    | refl => exact spec.roots hrk hf root (by simp)
    | step _ hsm hk ih => exact spec.closed hrk hf _ ih (by simp) _ hsm _ hk
  exact spec.edges m (hvis m hreach) (by simp) ss hs

/-- … and keeps what the graph already held (used across the entries of `index.json`). -/
theorem indexAll_keeps (succOf : Key → Option (List Key)) (g : GMem) (root : Key) (fuel : Nat) :
    (∀ x, g.nodes x = true → (indexAll succOf fuel g root).nodes x = true) ∧
    (∀ k p, p ∈ g.preds k → p ∈ (indexAll succOf fuel g root).preds k) := by
  have spec := indexAllAux_spec succOf (fun _ => 0) fuel [root] (g, [])
  exact ⟨spec.keepNodes, spec.keepPreds⟩

/-- Anything every `index n ss` step (with `ss` what `succOf` reads for `n`) preserves,
    `IndexAll` preserves. -/
theorem indexAll_preserves (succOf : Key → Option (List Key)) (g : GMem) (root : Key) (fuel : Nat)
    (P : GMem → Prop) (hP : ∀ g n ss, succOf n = some ss → P g → P (g.index n ss)) (hg : P g) :
    P (indexAll succOf fuel g root) :=
  (indexAllAux_spec succOf (fun _ => 0) fuel [root] (g, [])).pres P hP hg

end GMem
end Oras
