/-
  What the auto-GC cascade of `Store.Delete` removes (C09): every processed node other than
  the target is a referrer of an already processed node or has no predecessor left in the
  graph — and stays without one, because `Delete` only ever removes edges.
-/
import OrasModel.Proofs.OciDelete
namespace Oras
namespace OciSt

theorem preds_remove_subset (g : GMem) (n k p : Key) (h : p ∈ (g.remove n).1.preds k) : p ∈ g.preds k := by
  unfold GMem.remove at h
  simp only at h
  split at h
  · exact List.mem_of_mem_erase h
  · exact h

theorem preds_remove_nil (g : GMem) (n k : Key) (h : g.preds k = []) : (g.remove n).1.preds k = [] := by
  cases hl : (g.remove n).1.preds k with
  | nil => rfl
  | cons x xs =>
    have : x ∈ g.preds k := preds_remove_subset g n k x (by rw [hl]; simp)
    rw [h] at this; cases this

theorem dangling_no_preds (g : GMem) (n d : Key) (h : d ∈ (g.remove n).2) : (g.remove n).1.preds d = [] := by
  unfold GMem.remove at h ⊢
  simp only [List.mem_filter, Bool.and_eq_true, List.isEmpty_iff] at h
  simp only
  exact h.2.1

theorem graph_resolverUntag (st : OciSt) (k : RefKey) : (st.resolverUntag k).graph = st.graph := by
  unfold resolverUntag; split <;> rfl

theorem graph_foldl_untag (ks : List (RefKey × Node × Nat)) (st : OciSt) :
    (ks.foldl (fun s x => s.resolverUntag x.1) st).graph = st.graph := by
  induction ks generalizing st with
  | nil => rfl
  | cons k ks ih => simp only [List.foldl_cons]; rw [ih, graph_resolverUntag]

/-- `Store.delete` removes the node from the graph and reports exactly `Remove`'s danglings. -/
theorem deleteOne_graph (st : OciSt) (n : Node) :
    (st.deleteOne n).1.graph = (st.graph.remove n).1 ∧
    ∀ dang, (st.deleteOne n).2 = .ok dang → dang = (st.graph.remove n).2 := by
  have hg := graph_foldl_untag (st.refs.filter (fun x => x.2.1 = n)) st
  unfold deleteOne
  simp only
  generalize (st.refs.filter (fun x => x.2.1 = n)).foldl (fun s x => s.resolverUntag x.1) st = st1 at hg ⊢
  rw [hg]
  split <;> split <;> simp [saveIndex]

/-- The step function of `referrers`' fold, named. -/
def refStep (c : OciCfg) (st : OciSt) (n : Node) (p : Node) (acc : Option (List Node)) : Option (List Node) :=
  match acc with
  | none => none
  | some l =>
    match c.subject p with
    | none => some l
    | some s => if p ∈ st.blobs then (if s = n then some (p :: l) else some l) else none

theorem referrers_eq (c : OciCfg) (st : OciSt) (n : Node) :
    referrers c st n = (st.graph.predecessors n).foldr (refStep c st n) (some []) := rfl

theorem refFold_subject (c : OciCfg) (st : OciSt) (n : Node) :
    ∀ (ps : List Node) (l : List Node), ps.foldr (refStep c st n) (some []) = some l → ∀ r ∈ l, c.subject r = some n := by
  intro ps
  induction ps with
  | nil => intro l h; simp at h; subst h; intro r hr; cases hr
  | cons p ps ih =>
    intro l h
    simp only [List.foldr_cons] at h
    cases hrec : ps.foldr (refStep c st n) (some []) with
    | none => rw [hrec] at h; simp [refStep] at h
    | some l' =>
      rw [hrec] at h
      have ih' := ih l' hrec
      unfold refStep at h
      simp only at h
      cases hs : c.subject p with
      | none => rw [hs] at h; simp only [Option.some.injEq] at h; subst h; exact ih'
      | some s =>
        rw [hs] at h
        simp only at h
        by_cases hb : p ∈ st.blobs
        · simp only [hb, if_true] at h
          by_cases he : s = n
          · simp only [he, if_true, Option.some.injEq] at h
            subst h
            intro r hr
            rcases List.mem_cons.mp hr with e | e
            · rw [e, hs, he]
            · exact ih' r e
          · simp only [he, if_false, Option.some.injEq] at h
            subst h; exact ih'
        · simp [hb] at h

theorem referrers_subject (c : OciCfg) (st : OciSt) (n : Node) (l : List Node) (h : referrers c st n = some l) :
    ∀ r ∈ l, c.subject r = some n := by
  rw [referrers_eq] at h
  exact refFold_subject c st n _ l h

/-- `referrers` misses nothing: every predecessor whose subject is `n` is listed (and is
    stored — otherwise the listing fails). -/
theorem refFold_complete (c : OciCfg) (st : OciSt) (n : Node) :
    ∀ (ps : List Node) (l : List Node), ps.foldr (refStep c st n) (some []) = some l →
      ∀ p ∈ ps, c.subject p = some n → p ∈ l ∧ p ∈ st.blobs := by
  intro ps
  induction ps with
  | nil => intro l _ p hp; cases hp
  | cons q qs ih =>
    intro l h p hp hsub
    simp only [List.foldr_cons] at h
    cases hrec : qs.foldr (refStep c st n) (some []) with
    | none => rw [hrec] at h; simp [refStep] at h
    | some l' =>
      rw [hrec] at h
      have ih' := ih l' hrec
      unfold refStep at h
      simp only at h
      cases hs : c.subject q with
      | none =>
        rw [hs] at h
        simp only [Option.some.injEq] at h
        subst h
        rcases List.mem_cons.mp hp with e | e
        · rw [e, hs] at hsub; cases hsub
        · exact ih' p e hsub
      | some s =>
        rw [hs] at h
        simp only at h
        by_cases hb : q ∈ st.blobs
        · simp only [hb, if_true] at h
          by_cases he : s = n
          · simp only [he, if_true, Option.some.injEq] at h
            subst h
            rcases List.mem_cons.mp hp with e | e
            · rw [e]; exact ⟨List.mem_cons_self, hb⟩
            · have := ih' p e hsub
              exact ⟨List.mem_cons_of_mem _ this.1, this.2⟩
          · simp only [he, if_false, Option.some.injEq] at h
            subst h
            rcases List.mem_cons.mp hp with e | e
            · rw [e, hs] at hsub
              injection hsub with hsub
              exact absurd hsub he
            · exact ih' p e hsub
        · simp [hb] at h

theorem referrers_complete (c : OciCfg) (st : OciSt) (n : Node) (l : List Node) (h : referrers c st n = some l) :
    ∀ p ∈ st.graph.predecessors n, c.subject p = some n → p ∈ l ∧ p ∈ st.blobs := by
  rw [referrers_eq] at h
  exact refFold_complete c st n _ l h

/-- `Remove` reports every successor that is left without a predecessor. -/
theorem dangling_complete (g : GMem) (n d : Key) (hs : d ∈ g.succs n) (hn : g.nodes d = true)
    (he : (g.remove n).1.preds d = []) : d ∈ (g.remove n).2 := by
  unfold GMem.remove at he ⊢
  simp only at he ⊢
  simp only [List.mem_filter, Bool.and_eq_true, List.isEmpty_iff]
  exact ⟨hs, he, hn⟩

/-- Why a node is in the cascade: it is the target, a referrer of a processed node, or it
    has no predecessor in the graph. -/
def Justified (c : OciCfg) (n0 : Node) (seen : List Node) (g : GMem) (d : Node) : Prop :=
  d = n0 ∨ (∃ s ∈ seen, c.subject d = some s) ∨ g.preds d = []

theorem justified_mono (c : OciCfg) (n0 : Node) (seen : List Node) (g : GMem) (h x d : Node)
    (hj : Justified c n0 seen g d) : Justified c n0 (seen ++ [x]) (g.remove h).1 d := by
  rcases hj with e | ⟨s, hs, hsub⟩ | e
  · exact Or.inl e
  · exact Or.inr (Or.inl ⟨s, List.mem_append_left _ hs, hsub⟩)
  · exact Or.inr (Or.inr (preds_remove_nil g h d e))

/-- **The cascade invariant**: if every queued node and every processed node is justified,
    so is every node the loop ends up having processed, with respect to the final graph. -/
theorem deleteLoop_justified (c : OciCfg) (skipTagged skipAbsent : Bool) (n0 : Node) :
    ∀ (fuel : Nat) (q seen : List Node) (st : OciSt),
      (∀ d ∈ q, Justified c n0 seen st.graph d) → (∀ d ∈ seen, Justified c n0 seen st.graph d) →
      let r := deleteLoop c skipTagged skipAbsent fuel q seen st
      ∀ d ∈ r.2.2, Justified c n0 r.2.2 r.1.graph d := by
  intro fuel
  induction fuel with
  | zero => intro q seen st _ hs; simpa [deleteLoop] using hs
  | succ fuel ih =>
    intro q seen st hq hs
    cases q with
    | nil => simpa [deleteLoop] using hs
    | cons head q =>
      unfold deleteLoop
      split
      · exact ih q seen st (fun d hd => hq d (List.mem_cons_of_mem _ hd)) hs
      · cases hr : (if (st.autoGC && c.isMan head) = true then referrers c st head else some []) with
        | none =>
          -- the cascade stops with an error at `head`; nothing was deleted in this step
          simp only
          intro d hd
          rcases List.mem_append.mp hd with h | h
          · rcases hs d h with e | ⟨s, hs', hsub⟩ | e
            · exact Or.inl e
            · exact Or.inr (Or.inl ⟨s, List.mem_append_left _ hs', hsub⟩)
            · exact Or.inr (Or.inr e)
          · simp only [List.mem_singleton] at h
            subst h
            rcases hq d List.mem_cons_self with e | ⟨s, hs', hsub⟩ | e
            · exact Or.inl e
            · exact Or.inr (Or.inl ⟨s, List.mem_append_left _ hs', hsub⟩)
            · exact Or.inr (Or.inr e)
        | some rs =>
          simp only
          have hgraph := deleteOne_graph st head
          cases hd1 : st.deleteOne head with
          | mk st' res =>
            rw [hd1] at hgraph
            simp only at hgraph
            -- justification of everything known so far, w.r.t. the graph after this delete
            have hseen' : ∀ d ∈ seen ++ [head], Justified c n0 (seen ++ [head]) st'.graph d := by
              intro d hd
              rw [hgraph.1]
              rcases List.mem_append.mp hd with h | h
              · exact justified_mono c n0 seen st.graph head head d (hs d h)
              · simp only [List.mem_singleton] at h
                subst h
                exact justified_mono c n0 seen st.graph d d d (hq d List.mem_cons_self)
            cases res with
            | error e => simp only; exact hseen'
            | ok dang =>
              simp only
              apply ih _ _ st' _ hseen'
              intro d hd
              rw [hgraph.1]
              rcases List.mem_append.mp hd with h | h
              · rcases List.mem_append.mp h with h | h
                · exact justified_mono c n0 seen st.graph head head d (hq d (List.mem_cons_of_mem _ h))
                · -- a referrer of `head`
                  have hsub : c.subject d = some head := by
                    have hmem : d ∈ rs := by
                      by_cases hsk : skipTagged = true
                      · simp only [hsk, if_true] at h; exact (List.mem_filter.mp h).1
                      · simp only [hsk, Bool.false_eq_true, if_false] at h; exact h
                    by_cases hcond : (st.autoGC && c.isMan head) = true
                    · simp only [hcond, if_true] at hr
                      exact referrers_subject c st head rs hr d hmem
                    · simp only [hcond, Bool.false_eq_true, if_false, Option.some.injEq] at hr
                      subst hr; cases hmem
                  exact Or.inr (Or.inl ⟨head, by simp, hsub⟩)
              · -- a dangling successor of `head`
                have hdang : d ∈ dang := by
                  by_cases hgc : st'.autoGC = true
                  · simp only [hgc, if_true] at h; exact (List.mem_filter.mp h).1
                  · simp only [hgc, Bool.false_eq_true, if_false] at h; cases h
                have : dang = (st.graph.remove head).2 := hgraph.2 dang rfl
                rw [this] at hdang
                exact Or.inr (Or.inr (dangling_no_preds st.graph head d hdang))

end OciSt
end Oras
