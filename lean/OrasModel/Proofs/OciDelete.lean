/- Invariants of the OCI store's Delete cascade (C09). -/
import OrasModel.Proofs.Oci
namespace Oras
namespace OciSt

/-- Every reference recorded for a node is in that node's tag set (`resolver.Memory`
    keeps `tags[digest]` a superset of the live references; stale names only add). -/
def RefTagInv (st : OciSt) : Prop := ∀ e ∈ st.refs, e.1 ∈ st.tagsOf e.2.1

/-- No reference *name* points at `d`. -/
def NoTagRef (st : OciSt) (d : Node) : Prop := ∀ e ∈ st.refs, e.2.1 = d → ∀ nm, e.1 ≠ .tag nm

theorem noTagRef_of_not_isTagged (st : OciSt) (d : Node) (hinv : RefTagInv st)
    (h : st.isTagged d = false) : NoTagRef st d := by
  intro e he hed nm hk
  have hin : RefKey.tag nm ∈ st.tagsOf d := by
    have := hinv e he
    rw [hed, hk] at this
    exact this
  unfold isTagged at h
  by_cases hc : (st.tagsOf d).contains (.dig d) = true
  · simp only [hc, if_true, decide_eq_false_iff_not, Nat.not_lt] at h
    -- the list has length ≤ 1 and contains `.dig d`, so it cannot contain `.tag nm`
    have hdin : RefKey.dig d ∈ st.tagsOf d := by simpa using hc
    cases hl : st.tagsOf d with
    | nil => rw [hl] at hin; cases hin
    | cons x xs =>
      rw [hl] at h hin hdin
      cases xs with
      | nil =>
        simp only [List.mem_singleton] at hin hdin
        rw [← hin] at hdin; cases hdin
      | cons y ys => simp at h
  · simp only [hc, Bool.false_eq_true, if_false, decide_eq_false_iff_not, Nat.not_lt,
      Nat.le_zero_eq, List.length_eq_zero_iff] at h
    rw [h] at hin; cases hin

theorem mem_dropOld_of_ne (st : OciSt) (n : Node) (k k' : RefKey) (m : Node) (hne : k' ≠ k)
    (h : k' ∈ st.tagsOf m) : k' ∈ st.dropOld n k m := by
  unfold dropOld
  split
  · split
    · exact (List.mem_erase_of_ne hne).mpr h
    · exact h
  · exact h

theorem refTagInv_resolverTag (st : OciSt) (n : Node) (a : Nat) (k : RefKey) (h : RefTagInv st) :
    RefTagInv (st.resolverTag n a k) := by
  intro e he
  simp only [resolverTag, List.mem_cons, List.mem_filter] at he ⊢
  rcases he with he | ⟨he, hek⟩
  · subst he
    simp only [if_true]
    split
    · assumption
    · simp
  · have hek' : e.1 ≠ k := by simpa using hek
    have hd := mem_dropOld_of_ne st n k e.1 e.2.1 hek' (h e he)
    by_cases hn : e.2.1 = n
    · simp only [hn, if_true]
      rw [hn] at hd
      split
      · exact hd
      · exact List.mem_append_left _ hd
    · simp only [hn, if_false]
      exact hd

theorem refs_resolverUntag (st : OciSt) (k : RefKey) :
    (st.resolverUntag k).refs = st.refs.filter (fun e => e.1 ≠ k) := by
  unfold resolverUntag
  cases h : st.lookupRef k with
  | none =>
    simp only
    -- nothing has key k
    symm
    apply List.filter_eq_self.mpr
    intro e he
    simp only [lookupRef, Option.map_eq_none_iff, List.find?_eq_none] at h
    simpa using h e he
  | some v => rfl

/-- Untagging `k` keeps the invariant as long as keys are unique. -/
theorem refTagInv_resolverUntag (st : OciSt) (k : RefKey) (h : RefTagInv st) :
    RefTagInv (st.resolverUntag k) := by
  intro e he
  rw [refs_resolverUntag] at he
  simp only [List.mem_filter, ne_eq, decide_not, Bool.not_eq_eq_eq_not, Bool.not_true,
    decide_eq_false_iff_not] at he
  obtain ⟨he1, he2⟩ := he
  unfold resolverUntag
  cases hl : st.lookupRef k with
  | none => exact h e he1
  | some v =>
    obtain ⟨n, a⟩ := v
    simp only
    by_cases hn : e.2.1 = n
    · simp only [hn, if_true]
      have := h e he1
      rw [hn] at this
      exact (List.mem_erase_of_ne he2).mpr this
    · simp only [hn, if_false]
      exact h e he1

end OciSt
end Oras

namespace Oras
namespace OciSt

def RefUniq (st : OciSt) : Prop := (st.refs.map (·.1)).Nodup

theorem eq_of_key_eq {α : Type} {l : List (RefKey × α)} (hu : (l.map (·.1)).Nodup)
    {x e : RefKey × α} (hx : x ∈ l) (he : e ∈ l) (hk : x.1 = e.1) : x = e := by
  induction l with
  | nil => cases hx
  | cons y ys ih =>
    simp only [List.map_cons, List.nodup_cons] at hu
    cases hx with
    | head =>
      cases he with
      | head => rfl
      | tail _ he' => exact absurd (by rw [hk]; exact List.mem_map_of_mem (f := (·.1)) he') hu.1
    | tail _ hx' =>
      cases he with
      | head => exact absurd (by rw [← hk]; exact List.mem_map_of_mem (f := (·.1)) hx') hu.1
      | tail _ he' => exact ih hu.2 hx' he'

theorem find_of_mem_nodup {α : Type} {l : List (RefKey × α)} (hu : (l.map (·.1)).Nodup)
    {k : RefKey} {v : α} (h : (k, v) ∈ l) : l.find? (fun e => e.1 = k) = some (k, v) := by
  induction l with
  | nil => cases h
  | cons e es ih =>
    simp only [List.map_cons, List.nodup_cons] at hu
    cases h with
    | head => simp [List.find?]
    | tail _ h' =>
      have hne : ¬ e.1 = k := by
        intro heq
        apply hu.1
        rw [heq]
        exact List.mem_map_of_mem (f := (·.1)) h'
      rw [List.find?_cons]
      simp only [hne, decide_false]
      exact ih hu.2 h'

theorem lookup_of_mem (st : OciSt) (hu : RefUniq st) (k : RefKey) (v : Node × Nat)
    (h : (k, v) ∈ st.refs) : st.lookupRef k = some v := by
  unfold lookupRef
  rw [find_of_mem_nodup hu h]
  rfl

theorem mem_of_lookup (st : OciSt) (k : RefKey) (v : Node × Nat) (h : st.lookupRef k = some v) :
    (k, v) ∈ st.refs := by
  unfold lookupRef at h
  cases hf : st.refs.find? (fun e => e.1 = k) with
  | none => simp [hf] at h
  | some e =>
    simp only [hf, Option.map_some, Option.some.injEq] at h
    have hm := List.mem_of_find?_eq_some hf
    have hk : e.1 = k := by simpa using List.find?_some hf
    have : e = (k, v) := by
      obtain ⟨a, b⟩ := e
      simp only at hk h
      rw [hk, h]
    rw [← this]; exact hm

/-- Untagging a list of keys one after the other filters exactly those keys out. -/
theorem refs_foldl_untag (ks : List (RefKey × Node × Nat)) (st : OciSt) :
    ∀ e, e ∈ (ks.foldl (fun s x => s.resolverUntag x.1) st).refs ↔
      (e ∈ st.refs ∧ e.1 ∉ ks.map (·.1)) := by
  induction ks generalizing st with
  | nil => intro e; simp
  | cons k ks ih =>
    intro e
    simp only [List.foldl_cons]
    rw [ih, refs_resolverUntag]
    simp only [List.mem_filter, ne_eq, decide_not, Bool.not_eq_eq_eq_not, Bool.not_true,
      decide_eq_false_iff_not, List.map_cons, List.mem_cons, not_or]
    constructor
    · rintro ⟨⟨h1, h2⟩, h3⟩; exact ⟨h1, h2, h3⟩
    · rintro ⟨h1, h2, h3⟩; exact ⟨⟨h1, h2⟩, h3⟩

theorem refTagInv_foldl_untag (ks : List (RefKey × Node × Nat)) (st : OciSt) (h : RefTagInv st) :
    RefTagInv (ks.foldl (fun s e => s.resolverUntag e.1) st) := by
  induction ks generalizing st with
  | nil => exact h
  | cons k ks ih =>
    simp only [List.foldl_cons]
    exact ih _ (refTagInv_resolverUntag st k.1 h)

/-- The state `deleteOne` works on after untagging: its references are the old ones minus
    those pointing at `n` (under key uniqueness). -/
theorem untagAll_refs (st : OciSt) (n : Node) (hu : RefUniq st) (e : RefKey × Node × Nat) :
    e ∈ ((st.refs.filter (fun x => x.2.1 = n)).foldl (fun s x => s.resolverUntag x.1) st).refs ↔
      (e ∈ st.refs ∧ e.2.1 ≠ n) := by
  rw [refs_foldl_untag]
  constructor
  · rintro ⟨h1, h2⟩
    refine ⟨h1, ?_⟩
    intro hn
    apply h2
    have hf : e ∈ st.refs.filter (fun x => decide (x.2.1 = n)) :=
      List.mem_filter.mpr ⟨h1, by simp [hn]⟩
    exact List.mem_map_of_mem (f := (·.1)) hf
  · rintro ⟨h1, h2⟩
    refine ⟨h1, ?_⟩
    intro hin
    obtain ⟨x, hx, hxk⟩ := List.mem_map.mp hin
    obtain ⟨hx1, hx2⟩ := List.mem_filter.mp hx
    have : x = e := eq_of_key_eq hu hx1 h1 hxk
    rw [this] at hx2
    exact h2 (by simpa using hx2)

end OciSt
end Oras

namespace Oras
namespace OciSt

theorem refs_foldl_untag_sublist (ks : List (RefKey × Node × Nat)) (st : OciSt) :
    (ks.foldl (fun s x => s.resolverUntag x.1) st).refs.Sublist st.refs := by
  induction ks generalizing st with
  | nil => exact List.Sublist.refl _
  | cons k ks ih =>
    simp only [List.foldl_cons]
    refine List.Sublist.trans (ih _) ?_
    rw [refs_resolverUntag]
    exact List.filter_sublist

@[simp] theorem blobs_foldl_untag (ks : List (RefKey × Node × Nat)) (st : OciSt) :
    (ks.foldl (fun s x => s.resolverUntag x.1) st).blobs = st.blobs := by
  induction ks generalizing st with
  | nil => rfl
  | cons k ks ih => simp only [List.foldl_cons]; rw [ih]; simp

theorem autoGC_resolverUntag (st : OciSt) (k : RefKey) : (st.resolverUntag k).autoGC = st.autoGC := by
  unfold resolverUntag; split <;> rfl

@[simp] theorem autoGC_foldl_untag (ks : List (RefKey × Node × Nat)) (st : OciSt) :
    (ks.foldl (fun s x => s.resolverUntag x.1) st).autoGC = st.autoGC := by
  induction ks generalizing st with
  | nil => rfl
  | cons k ks ih => simp only [List.foldl_cons]; rw [ih, autoGC_resolverUntag]

/-- Everything the cascade needs to know about one `Store.delete`. -/
structure DelOne (st : OciSt) (n : Node) (st' : OciSt) : Prop where
  refs : ∀ e, e ∈ st'.refs ↔ (e ∈ st.refs ∧ e.2.1 ≠ n)
  uniq : RefUniq st'
  inv : RefTagInv st'
  blobs : ∀ m, m ≠ n → (m ∈ st'.blobs ↔ m ∈ st.blobs)
  gc : st'.autoGC = st.autoGC

theorem deleteOne_spec (st : OciSt) (n : Node) (hu : RefUniq st) (hi : RefTagInv st) :
    DelOne st n (st.deleteOne n).1 := by
  -- name the state after untagging
  have hrefs := untagAll_refs st n hu
  have hsub := refs_foldl_untag_sublist (st.refs.filter (fun x => x.2.1 = n)) st
  have hinv := refTagInv_foldl_untag (st.refs.filter (fun x => x.2.1 = n)) st hi
  have hblobs := blobs_foldl_untag (st.refs.filter (fun x => x.2.1 = n)) st
  have hgc := autoGC_foldl_untag (st.refs.filter (fun x => x.2.1 = n)) st
  generalize hst1 : (st.refs.filter (fun x => x.2.1 = n)).foldl (fun s x => s.resolverUntag x.1) st = st1 at *
  have huniq1 : RefUniq st1 := by
    unfold RefUniq
    exact List.Nodup.sublist (List.Sublist.map _ hsub) hu
  have final : ∀ (st' : OciSt), st'.refs = st1.refs → st'.tagsOf = st1.tagsOf →
      (st'.blobs = st1.blobs ∨ st'.blobs = st1.blobs.erase n) → st'.autoGC = st1.autoGC → DelOne st n st' := by
    intro st' h1 h2 h3 h4
    refine ⟨?_, ?_, ?_, ?_, ?_⟩
    · intro e; rw [h1]; exact hrefs e
    · unfold RefUniq; rw [h1]; exact huniq1
    · intro e he; rw [h1] at he; rw [h2]; exact hinv e he
    · intro m hm
      rcases h3 with h3 | h3
      · rw [h3, hblobs]
      · rw [h3, hblobs]
        exact List.mem_erase_of_ne hm
    · rw [h4, hgc]
  unfold deleteOne
  simp only [hst1]
  split
  · split
    · apply final <;> simp [saveIndex]
    · apply final <;> simp [saveIndex]
  · split
    · apply final <;> simp
    · apply final <;> simp

end OciSt
end Oras
