/-
  The invariant of concurrent pushes of one descriptor (`Model/PushRace.lean`) when the
  commit is an atomic test-and-set, over every schedule.
-/
import OrasModel.Model.PushRace
namespace Oras.PushRace

structure Inv (good : Nat → Bool) (s : St) : Prop where
  /-- at most one pusher was accepted -/
  uniq : ∀ i j, (s.ps i).res = some .ok → (s.ps j).res = some .ok → i = j
  /-- the key is stored exactly when some pusher was accepted -/
  storedIff : s.stored = true ↔ ∃ i, (s.ps i).res = some .ok
  /-- a pusher with matching content that has returned leaves the key stored -/
  doneGood : ∀ i, (s.ps i).pc = 3 → (s.ps i).good = true → s.stored = true
  /-- only verified content reaches the commit -/
  verified : ∀ i, (s.ps i).pc = 2 → (s.ps i).good = true
  okGood : ∀ i, (s.ps i).res = some .ok → (s.ps i).good = true
  resDone : ∀ i, (s.ps i).res ≠ none → (s.ps i).pc = 3
  doneRes : ∀ i, (s.ps i).pc = 3 → (s.ps i).res ≠ none
  pcLe : ∀ i, (s.ps i).pc ≤ 3
  goodFixed : ∀ i, (s.ps i).good = good i
  verifyBad : ∀ i, (s.ps i).res = some .verifyErr → (s.ps i).good = false

theorem inv_init (good : Nat → Bool) : Inv good (init good) := by
  constructor <;> simp [init]

theorem inv_step (good : Nat → Bool) (s : St) (i : Nat) (h : Inv good s) : Inv good (step .testAndSet s i) := by
  obtain ⟨h1, h2, h3, h4, h5, h6, h7, h8, h9, h10⟩ := h
  unfold step
  simp only
  split
  · split
    · constructor <;> simp only [fupd] <;> grind
    · constructor <;> simp only [fupd] <;> grind
  · split
    · constructor <;> simp only [fupd] <;> grind
    · constructor <;> simp only [fupd] <;> grind
  · split
    · constructor <;> simp only [fupd] <;> grind
    · constructor <;> simp only [fupd] <;> grind
  · exact ⟨h1, h2, h3, h4, h5, h6, h7, h8, h9, h10⟩

theorem inv_run (good : Nat → Bool) (sched : List Nat) : ∀ s, Inv good s → Inv good (run .testAndSet s sched) := by
  induction sched with
  | nil => intro s h; exact h
  | cons i rest ih =>
    intro s h
    unfold run
    simp only [List.foldl_cons]
    exact ih _ (inv_step good s i h)

/-- What holds whatever the commit primitive is: only verified content is ever committed. -/
structure Safe (s : St) : Prop where
  verified : ∀ i, (s.ps i).pc = 2 → (s.ps i).good = true
  okGood : ∀ i, (s.ps i).res = some .ok → (s.ps i).good = true
  storedBy : s.stored = true → ∃ i, (s.ps i).res = some .ok
  resDone : ∀ i, (s.ps i).res ≠ none → (s.ps i).pc = 3

theorem safe_init (good : Nat → Bool) : Safe (init good) := by
  constructor <;> simp [init]

theorem safe_step (cm : Commit) (s : St) (i : Nat) (h : Safe s) : Safe (step cm s i) := by
  obtain ⟨h1, h2, h3, h4⟩ := h
  unfold step
  simp only
  split
  · split
    · constructor <;> simp only [fupd] <;> grind
    · constructor <;> simp only [fupd] <;> grind
  · split
    · constructor <;> simp only [fupd] <;> grind
    · constructor <;> simp only [fupd] <;> grind
  · cases cm
    · simp only
      split
      · constructor <;> simp only [fupd] <;> grind
      · constructor <;> simp only [fupd] <;> grind
    · constructor <;> simp only [fupd] <;> grind
  · exact ⟨h1, h2, h3, h4⟩

theorem safe_run (cm : Commit) (sched : List Nat) : ∀ s, Safe s → Safe (run cm s sched) := by
  induction sched with
  | nil => intro s h; exact h
  | cons i rest ih =>
    intro s h
    unfold run
    simp only [List.foldl_cons]
    exact ih _ (safe_step cm s i h)

/-- `stored` never goes back. -/
theorem stored_mono (cm : Commit) (s : St) (i : Nat) (h : s.stored = true) : (step cm s i).stored = true := by
  unfold step
  simp only
  split
  · split <;> exact h
  · split <;> exact h
  · cases cm <;> simp only [h, if_true]
  · exact h

/-- A pusher that is not at its end moves when it is scheduled: the program counter grows. -/
theorem step_progress (cm : Commit) (s : St) (i : Nat) (h : (s.ps i).pc < 3) :
    ((step cm s i).ps i).pc > (s.ps i).pc := by
  unfold step
  simp only
  split
  · rename_i h0; split <;> simp [h0]
  · rename_i h1; split <;> simp [h1]
  · rename_i h2; cases cm
    · simp only; split <;> simp [h2]
    · simp [h2]
  · rename_i n0 n1 n2
    have : (s.ps i).pc = 0 ∨ (s.ps i).pc = 1 ∨ (s.ps i).pc = 2 := by omega
    rcases this with e | e | e
    · exact absurd e n0
    · exact absurd e n1
    · exact absurd e n2

end Oras.PushRace
