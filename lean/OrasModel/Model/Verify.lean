/-
  Model of the verifying read path (C05):
    content/reader.go   VerifyReader.Read / Verify, NewVerifyReader, ReadAll, ensureEOF
    internal/ioutil     CopyBuffer
    io.LimitedReader, io.TeeReader, io.ReadFull, io.CopyBuffer (standard library, as used)
    internal/cas/memory.go  Memory.Push;  content/limitedstorage.go  LimitedStorage.Push
    content/oci/storage.go  Storage.Push/ingest (visible-state part);  content/file saveFile

  A reader is a finite script of what successive `Read` calls return.  The consumer's
  buffer is assumed at least as large as every scripted chunk (buffers are 32 KiB–1 MiB,
  scripted chunks a few bytes), so the only truncation of a `Read` is the one
  `io.LimitedReader` imposes (`p = p[0:N]`).
-/
import OrasModel.Model.Basic
namespace Oras

abbrev Bytes := List Nat

/-- One `Read` call's outcome. -/
inductive RdEv where
  | data (bs : Bytes)       -- n = |bs| (possibly 0), err = nil
  | dataEof (bs : Bytes)    -- n = |bs|, err = io.EOF (then EOF forever)
  | dataErr (bs : Bytes)    -- n = |bs|, err = some other error (then that error forever)
  | dataErrOnce (bs : Bytes) -- n = |bs|, err = some other error, reported once: the script goes on
  | eof                     -- 0, io.EOF
  | fail                    -- 0, error
  deriving Repr, DecidableEq

abbrev Reader := List RdEv

inductive VErr where
  | invalidSize | invalidDigest | unexpectedEOF | readerErr | trailingData | mismatchedDigest
  | alreadyExists | sizeLimit | notFound
  deriving Repr, DecidableEq

/-- A descriptor as the verifier sees it.  `dig = none` models a digest string that fails
    `Digest.Validate()` (malformed or unsupported algorithm). -/
structure VDesc (Dig : Type) where
  dig : Option Dig
  size : Int

/-- What a reader delivers before its first EOF/error, and whether it ended in a clean EOF. -/
def delivered : Reader → Bytes × Bool
  | [] => ([], true)
  | .data bs :: rest => (bs ++ (delivered rest).1, (delivered rest).2)
  | .dataEof bs :: _ => (bs, true)
  | .dataErr bs :: _ => (bs, false)
  | .dataErrOnce bs :: _ => (bs, false)
  | .eof :: _ => ([], true)
  | .fail :: _ => ([], false)

/-- `ensureEOF` (`reader.go:141-148`): `io.ReadFull` of one byte must return `io.EOF`. -/
def atEOF : Reader → Bool
  | [] => true
  | .data [] :: rest => atEOF rest
  | .data (_ :: _) :: _ => false
  | .dataEof [] :: _ => true
  | .dataEof (_ :: _) :: _ => false
  | .dataErr _ :: _ => false
  | .dataErrOnce _ :: _ => false
  | .eof :: _ => true
  | .fail :: _ => false

/-- The read loop through `VerifyReader` over `LimitedReader{TeeReader(src, verifier), N}`
    until `N` reaches 0: used both by `io.ReadFull(vr, buf)` with `|buf| = N` and by
    `io.CopyBuffer(dst, vr, buf)`.  `acc` is what has been delivered (and hashed) so far.
    Success returns the delivered bytes and the rest of the source. -/
def pull : Reader → Nat → Bytes → Except VErr (Bytes × Reader)
  | r, 0, acc => .ok (acc, r)
  | [], _ + 1, _ => .error .unexpectedEOF
  | .data bs :: rest, n + 1, acc =>
      if bs.length ≤ n + 1 then pull rest (n + 1 - bs.length) (acc ++ bs)
      else .ok (acc ++ bs.take (n + 1), .data (bs.drop (n + 1)) :: rest)
  | .dataEof bs :: _, n + 1, acc =>
      if bs.length < n + 1 then .error .unexpectedEOF
      else if bs.length = n + 1 then .ok (acc ++ bs, [])
      else .ok (acc ++ bs.take (n + 1), [.dataEof (bs.drop (n + 1))])
  | .dataErr bs :: _, n + 1, acc =>
      if bs.length ≤ n + 1 then .error .readerErr
      else .ok (acc ++ bs.take (n + 1), [.dataErr (bs.drop (n + 1))])
  | .dataErrOnce bs :: rest, n + 1, acc =>
      -- with `|bs| = n + 1` `io.ReadFull` drops the error; `VerifyReader.Read` has recorded it
      -- and `Verify` returns it
      if bs.length ≤ n + 1 then .error .readerErr
      else .ok (acc ++ bs.take (n + 1), .dataErrOnce (bs.drop (n + 1)) :: rest)
  | .eof :: _, _ + 1, _ => .error .unexpectedEOF
  | .fail :: _, _ + 1, _ => .error .readerErr

/-- `VerifyReader.Verify` once the limit is exhausted: no trailing data, digest matches. -/
def verifyTail {Dig : Type} [DecidableEq Dig] (H : Bytes → Dig) (dig : Dig)
    (p : Bytes × Reader) : Except VErr Bytes :=
  if !atEOF p.2 then .error .trailingData
  else if H p.1 ≠ dig then .error .mismatchedDigest
  else .ok p.1

/-- `content.ReadAll` (`reader.go:118-137`). -/
def readAll {Dig : Type} [DecidableEq Dig] (H : Bytes → Dig) (d : VDesc Dig) (r : Reader) :
    Except VErr Bytes :=
  if d.size < 0 then .error .invalidSize
  else match d.dig with
    | none => .error .invalidDigest
    | some dg => (pull r d.size.toNat []).bind (verifyTail H dg)

/-- `ioutil.CopyBuffer` (`io.go:36-44`): the bytes written to `dst` on success.
    `NewVerifyReader` rejects a negative size up front (before the repair of finding F7 it
    did not, and `LimitedReader` reported EOF at once, accepting empty content). -/
def copyBuffer {Dig : Type} [DecidableEq Dig] (H : Bytes → Dig) (d : VDesc Dig) (r : Reader) :
    Except VErr Bytes :=
  if d.size < 0 then .error .invalidSize
  else match d.dig with
  | none => .error .invalidDigest
  | some dg => (pull r d.size.toNat []).bind (verifyTail H dg)

/-! ### Stores (visible state only) -/

/-- A content map keyed by `κ` (the full descriptor key for `cas.Memory`, the digest for
    the OCI layout and the file store). -/
abbrev CMap (κ : Type) := List (κ × Bytes)

def CMap.get {κ : Type} [DecidableEq κ] (m : CMap κ) (k : κ) : Option Bytes :=
  (m.find? (fun p => p.1 = k)).map (·.2)

/-- `cas.Memory.Push` (`memory.go:55-72`). -/
def memPush {Dig κ : Type} [DecidableEq Dig] [DecidableEq κ] (H : Bytes → Dig)
    (m : CMap κ) (k : κ) (d : VDesc Dig) (r : Reader) : CMap κ × Except VErr Unit :=
  match m.get k with
  | some _ => (m, .error .alreadyExists)
  | none =>
    match readAll H d r with
    | .ok b => ((k, b) :: m, .ok ())
    | .error e => (m, .error e)

/-- `LimitedStorage.Push` over `memPush`: size check, then the reader is wrapped in
    `io.LimitReader(content, size)` — modelled by `limitReader`. -/
def limitReader : Reader → Nat → Reader
  | _, 0 => []
  | [], _ + 1 => []
  | .data bs :: rest, n + 1 =>
      if bs.length ≤ n + 1 then .data bs :: limitReader rest (n + 1 - bs.length)
      else [.data (bs.take (n + 1))]
  | .dataEof bs :: _, n + 1 => if bs.length ≤ n + 1 then [.dataEof bs] else [.data (bs.take (n + 1))]
  | .dataErr bs :: _, n + 1 => if bs.length ≤ n + 1 then [.dataErr bs] else [.data (bs.take (n + 1))]
  | .dataErrOnce bs :: rest, n + 1 =>
      if bs.length ≤ n + 1 then .dataErrOnce bs :: limitReader rest (n + 1 - bs.length)
      else [.data (bs.take (n + 1))]
  | .eof :: _, _ + 1 => [.eof]
  | .fail :: _, _ + 1 => [.fail]

def limitedPush {Dig κ : Type} [DecidableEq Dig] [DecidableEq κ] (H : Bytes → Dig) (limit : Int)
    (m : CMap κ) (k : κ) (d : VDesc Dig) (r : Reader) : CMap κ × Except VErr Unit :=
  if d.size > limit then (m, .error .sizeLimit)
  else memPush H m k d (limitReader r d.size.toNat)

/-- `oci.Storage.Push` (`storage.go:70-108`), visible part: `blobs/<alg>/<hex>` gains a
    file only by `rename` of an ingest file that `CopyBuffer` accepted. -/
def ociPush {Dig : Type} [DecidableEq Dig] (H : Bytes → Dig)
    (m : CMap Dig) (d : VDesc Dig) (r : Reader) : CMap Dig × Except VErr Unit :=
  match d.dig with
  | none => (m, .error .invalidDigest)
  | some dg =>
    match m.get dg with
    | some _ => (m, .error .alreadyExists)
    | none =>
      match copyBuffer H d r with
      | .ok b => ((dg, b) :: m, .ok ())
      | .error e => (m, .error e)

end Oras
