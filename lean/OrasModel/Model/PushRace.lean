/-
  C05 / C06 under concurrency: any number of `Push`es of one descriptor running at once
  against one store, as a transition system over their atomic steps
  (`internal/cas/memory.go`: `Load`, `ReadAll` (verifies), `LoadOrStore`;
  `content/oci/storage.go`: `os.Stat`, `ingest` (verifies), `os.Rename`).

  A pusher is at program counter 0 (before the existence check), 1 (checked: absent),
  2 (content read and verified), 3 (returned).  `good` says whether the content it was given
  matches the descriptor.  The store is reduced to the one key: `stored`, and whose content
  it holds.
-/
import OrasModel.Model.Basic
namespace Oras.PushRace

/-- How the verified content is committed: `LoadOrStore` (an atomic test-and-set), or
    `rename(2)` (replaces whatever is there). -/
inductive Commit where | testAndSet | blind
  deriving DecidableEq, Repr

inductive Res where | ok | exists_ | verifyErr
  deriving DecidableEq, Repr

structure Pusher where
  pc : Nat := 0
  good : Bool
  res : Option Res := none
  deriving DecidableEq, Repr

structure St where
  stored : Bool := false
  ps : Nat → Pusher

/-- One atomic step of pusher `i` (a finished pusher does nothing). -/
def step (cm : Commit) (s : St) (i : Nat) : St :=
  let p := s.ps i
  match p.pc with
  | 0 => if s.stored then { s with ps := fupd s.ps i { p with pc := 3, res := some .exists_ } }
         else { s with ps := fupd s.ps i { p with pc := 1 } }
  | 1 => if p.good then { s with ps := fupd s.ps i { p with pc := 2 } }
         else { s with ps := fupd s.ps i { p with pc := 3, res := some .verifyErr } }
  | 2 => match cm with
         | .testAndSet =>
           if s.stored then { s with ps := fupd s.ps i { p with pc := 3, res := some .exists_ } }
           else { stored := true, ps := fupd s.ps i { p with pc := 3, res := some .ok } }
         | .blind => { stored := true, ps := fupd s.ps i { p with pc := 3, res := some .ok } }
  | _ => s

/-- A schedule names the pusher that moves next. -/
def run (cm : Commit) (s : St) (sched : List Nat) : St := sched.foldl (step cm) s

/-- All pushers at their start; `good i` is whether pusher `i` was handed matching content. -/
def init (good : Nat → Bool) : St := { stored := false, ps := fun i => { good := good i } }

/-- How many of the first `n` pushers were accepted. -/
def accepted (s : St) (n : Nat) : Nat := ((List.range n).filter (fun i => (s.ps i).res = some .ok)).length

end Oras.PushRace
