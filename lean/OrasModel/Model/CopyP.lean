/-
  `copyGraph` with its concurrency limiter (`copy.go` `copyGraph`, `internal/syncutil`
  `Go` / `LimitedRegion`): the per-node life of `Model/Copy.lean` extended with the permits
  of the semaphore.  A task holds a permit from the moment it is spawned (`region.Start()`
  in `syncutil.Go`) through the destination's existence check and `FindSuccessors`; a
  non-leaf gives it back (`region.End()`) before dispatching its successors and waiting for
  them, and takes one again (`region.Start()`) before it copies itself; it is released when
  the task returns.  A leaf keeps its permit from spawn to return.

  The destination's answer to `Exists` is not modelled here (either answer may come): this
  model is about progress, `Model/Copy.lean` about what ends up in the destination.
-/
import OrasModel.Model.Copy
namespace Oras

structure PSt where
  st : Node → NSt
  avail : Nat                 -- permits left in the semaphore

def PSt.init (limit : Nat) : PSt := ⟨fun _ => .idle, limit⟩

/-- states in which the task holds a permit -/
def NSt.holds : NSt → Bool
  | .claimed | .copying => true
  | _ => false

inductive PLabel where
  | claim (n : Node) | existsT (n : Node) | existsF (n : Node) | ready (n : Node)
  | push (n : Node) | fail (n : Node)
  deriving DecidableEq, Repr

def PLabel.node : PLabel → Node
  | .claim n | .existsT n | .existsF n | .ready n | .push n | .fail n => n

def PLabel.isFail : PLabel → Bool
  | .fail _ => true
  | _ => false

def pstep? (c : CopyCfg) (s : PSt) : PLabel → Option PSt
  | .claim n =>
      -- spawned by `syncutil.Go`: `region.Start()` acquires, then `TryCommit` claims the node
      if s.st n = .idle ∧ 0 < s.avail then some ⟨fupd s.st n .claimed, s.avail - 1⟩ else none
  | .existsT n =>
      if s.st n = .claimed then some ⟨fupd s.st n .done, s.avail + 1⟩ else none
  | .existsF n =>
      if s.st n = .claimed then
        (if c.kids n = [] then some ⟨fupd s.st n .copying, s.avail⟩          -- a leaf keeps its permit
         else some ⟨fupd s.st n .waiting, s.avail + 1⟩)                       -- `region.End()`
      else none
  | .ready n =>
      -- all successors done, `region.Start()` acquires again
      if s.st n = .waiting ∧ (c.kids n).all (fun k => decide (s.st k = .done)) = true ∧ 0 < s.avail
      then some ⟨fupd s.st n .copying, s.avail - 1⟩ else none
  | .push n =>
      if s.st n = .copying then some ⟨fupd s.st n .done, s.avail + 1⟩ else none
  | .fail n =>
      if s.st n = .claimed ∨ s.st n = .copying then some ⟨fupd s.st n .failed, s.avail + 1⟩
      else if s.st n = .waiting then some ⟨fupd s.st n .failed, s.avail⟩
      else none

def prun? (c : CopyCfg) : PSt → List PLabel → Option PSt
  | s, [] => some s
  | s, l :: ls => match pstep? c s l with
    | some s' => prun? c s' ls
    | none => none

/-- how far a node has come (for the termination measure) -/
def NSt.progress : NSt → Nat
  | .idle => 0 | .claimed => 1 | .waiting => 2 | .copying => 3 | .done => 4 | .failed => 4

def measure (s : PSt) (univ : List Node) : Nat := (univ.map fun n => (s.st n).progress).sum

def holders (s : PSt) (univ : List Node) : Nat := (univ.map fun n => if (s.st n).holds then 1 else 0).sum

end Oras
