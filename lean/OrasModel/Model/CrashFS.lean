/-
  Crash model of the OCI layout directory (C10).  The directory is abstracted to what a
  later `oci.New` can see: which blob files exist under `blobs/` (only `rename` of a
  verified ingest file creates one, C05), the content of `index.json` (`none` = truncated
  or partially written) and of the temporary index file.  Each store operation is compiled
  to its list of mutating system calls; a crash leaves the state after some prefix.
-/
import OrasModel.Model.Copy
namespace Oras

/-- An index.json document: entries with an optional reference name. -/
abbrev Idx := List (Option Nat × Node)

inductive Sys where
  | createTemp | writeTemp | chmodTemp            -- ingest file: invisible to readers
  | renameBlob (n : Node)                          -- ingest → blobs/<alg>/<hex>
  | removeBlob (n : Node)
  | truncIndex | writeIndex (idx : Idx)            -- os.WriteFile(index.json) in place
  | truncIndexTmp | writeIndexTmp (idx : Idx)      -- os.WriteFile(index.json.tmp)
  | renameIndex                                    -- index.json.tmp → index.json
  deriving Repr, DecidableEq

structure Layout where
  blobs : List Node
  index : Option Idx
  indexTmp : Option Idx

def Sys.apply (L : Layout) : Sys → Layout
  | .createTemp | .writeTemp | .chmodTemp => L
  | .renameBlob n => { L with blobs := n :: L.blobs }
  | .removeBlob n => { L with blobs := L.blobs.filter (· ≠ n) }
  | .truncIndex => { L with index := none }
  | .writeIndex idx => { L with index := some idx }
  | .truncIndexTmp => { L with indexTmp := none }
  | .writeIndexTmp idx => { L with indexTmp := some idx }
  | .renameIndex => { L with index := L.indexTmp, indexTmp := none }

def runSys (L : Layout) (s : List Sys) : Layout := s.foldl Sys.apply L

/-- The directory can be opened and every index entry has its blob. -/
def Layout.Valid (L : Layout) : Prop := ∃ idx, L.index = some idx ∧ ∀ e ∈ idx, e.2 ∈ L.blobs

/-- What the ordering of calls in the source guarantees, checked along a script. -/
def Safe : Layout → List Sys → Prop
  | _, [] => True
  | L, s :: rest =>
    (match s with
      | .createTemp | .writeTemp | .chmodTemp | .renameBlob _ | .truncIndexTmp => True
      | .truncIndex | .writeIndex _ => False
      | .writeIndexTmp idx => ∀ e ∈ idx, e.2 ∈ L.blobs
      | .renameIndex => ∃ idx, L.indexTmp = some idx ∧ ∀ e ∈ idx, e.2 ∈ L.blobs
      | .removeBlob n =>
          (∀ idx, L.index = some idx → ∀ e ∈ idx, e.2 ≠ n) ∧
          (∀ idx, L.indexTmp = some idx → ∀ e ∈ idx, e.2 ≠ n)) ∧
    Safe (s.apply L) rest

/-! ### Compilation of the store operations -/

/-- `writeIndexFile`: in place (`atomic = false`, the code before the repair of F4) or via
    temporary file and rename. -/
def compileSave (atomic : Bool) (idx : Idx) : List Sys :=
  if atomic then [.truncIndexTmp, .writeIndexTmp idx, .renameIndex] else [.truncIndex, .writeIndex idx]

/-- `Storage.Push`: ingest, verify, chmod, rename. -/
def compilePushBlob (n : Node) : List Sys := [.createTemp, .writeTemp, .chmodTemp, .renameBlob n]

/-- `Store.Push` of a manifest with auto-save: the blob, then the index. -/
def compilePushManifest (atomic : Bool) (n : Node) (idx' : Idx) : List Sys :=
  compilePushBlob n ++ compileSave atomic idx'

/-- `Store.delete`: untag + save the index (if anything was untagged), then remove the blob. -/
def compileDeleteOne (atomic : Bool) (idx' : Option Idx) (n : Node) : List Sys :=
  (match idx' with | some i => compileSave atomic i | none => []) ++ [.removeBlob n]

/-- `Store.GC`: save the pruned index, then remove every unreachable blob. -/
def compileGC (atomic : Bool) (idx' : Idx) (garbage : List Node) : List Sys :=
  compileSave atomic idx' ++ garbage.map .removeBlob

end Oras
